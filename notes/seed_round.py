"""Prepare one round of seeded-change production: a detached scratch worktree /tmp/mut/Cxx of /repo HEAD per property, with
_out/PROPERTY.txt (the property, nothing of /verif) and _out/TASK.md (notes/TASK.tmpl with the letters of this round, the list of
the changes already produced for the property, and the list of ideas that are used up).
usage: seed_round.py K L     then one sub-agent per property:  "Read /tmp/mut/Cxx/_out/TASK.md and carry out exactly what it says."
afterwards: notes/vet_mutants.py, then  git -C /repo worktree remove --force /tmp/mut/Cxx ; git -C /repo worktree prune"""
import glob, json, os, re, subprocess, sys

USED_UP = ("swapping exists/lexists/isfile; memoising or caching anything; str.replace / splitext / strip / rstrip / normpath / realpath "
           "applied to a path or a parsed value; a second unquote or a missing quote; truncated reads; another date parser or splitlines; "
           "de-duplicating arguments or entries; copy functions of shutil.move; `try/finally` around the move; `not x` instead of `x is None`; "
           "takeover of empty .trashinfo files; expanduser / glob expansion / Unicode normalisation of arguments or paths; "
           "psutil.disk_partitions arguments and file-system types; skipping names made of dots; hand-written recursive deletes or copy+delete "
           "moves; printable()/escaping of what is printed; computing the volume of a trash directory differently; "
           "`return` instead of `continue` in a loop over entries; re-ordering or sorting the arguments; special handling of shutil.Error; "
           "tuple sort keys; narrowing or widening an `except` clause (ParseError/ValueError/Exception/errno filters); os.system / subprocess "
           "instead of a library call; removing empty trash directories; EPIPE / broken stdout handling; raising ValueError instead of OSError; "
           "any() vs len() on the failed paths; `errors=` of unquote; str.format / % on a message that contains a path; special-casing an "
           "empty Path=; probe files or hard links created and removed again; parking the replaced destination somewhere; remembering what "
           "was restored earlier in the same run; deleting the .trashinfo before the payload; private-but-not-sticky .Trash accepted")
WHERE = ("Places that have hardly been touched so far: how parsed options are handed on between the layers (trashcli/put/main.py, context.py, "
         "trashcli/empty/main.py, empty_cmd.py, trashcli/restore/restore_cmd.py, handler.py), logging / verbosity / what is reported and with "
         "which exit code (reporter.py, my_logger.py, describer.py), the environment (XDG_DATA_HOME, HOME, TRASH_VOLUMES, TRASH_DATE, "
         "TRASH_ENABLE_HOME_FALLBACK: trashcli/lib/environ.py, trash_dirs.py, empty/clock.py), uid handling (lib/user_info.py, my_getuid), "
         "the gate and the security check order in trashcli/put/janitor.py and janitor_tools/*, permissions of created directories "
         "(dir_maker.py), parsing of the user's reply in trash-restore (range.py, sequences.py, parse_indexes), index arithmetic, "
         "trashcli/restore/info_dir_searcher.py, info_files.py, the interplay of two options (e.g. --trash-dir with DAYS, -v with --dry-run, "
         "--sort with --overwrite), the order of two steps anywhere; also: trash-list's --size / --files / --all-users / --trash-dirs options "
         "(trashcli/list/*.py), trash-empty's --all-users and the user listing (empty/*.py, lib/user_info.py), TRASH_VOLUMES parsing "
         "(colon-separated, empty items, trailing slashes), volume_of / parent_realpath for paths through `..`, the suffix generator "
         "(put/suffix.py) and the 100th same-named entry, trash-rm's argument validation and its exit status, the prompts' wording and where "
         "they are written, what happens on KeyboardInterrupt / EOF at a prompt. At least one of the two must be a change of 1-3 lines.")


def main(a, b):
    tmpl = open('/verif/notes/TASK.tmpl').read().replace('mutA', 'mut' + a).replace('mutB', 'mut' + b)
    os.makedirs('/tmp/mut', exist_ok=True)
    for l in open('/verif/properties.jsonl'):
        p = json.loads(l)
        i = p['id']
        done = []
        for d in sorted(glob.glob('/verif/seeded/%s-?' % i)):
            m = json.load(open(d + '/meta.json'))
            first = ''
            for line in (m.get('needs_to_manifest') or '').split('\n'):
                line = re.sub(r'^(?:#+|\(?C\d\d\)?|mut[A-Z]\b|[\s/:–—-])+', '', line.strip())
                if line:
                    first = line
                    break
            files = sorted(set(re.findall(r'^\+\+\+ b/(\S+)', open(d + '/patch.diff', errors='replace').read(), re.M)))
            done.append('  - %s  [%s]' % (first[:150], ', '.join(files)))
        both = 'mut%s and mut%s should break the property in genuinely different ways (different code sites / different triggering conditions).' % (a, b)
        assert both in tmpl
        t = tmpl.replace(both, both + ' %d changes have already been produced for this property in earlier rounds; do NOT repeat any of them or a '
                         'close variant (same line, same idea):\n' % len(done) + '\n'.join(done) +
                         '\nThese ideas are used up across all properties and must not be used either: ' + USED_UP + '. Find something new. ' + WHERE)
        t = t.replace('Leave the worktree clean at the end', 'Never use `git stash` (the stash is shared between worktrees); use '
                      '`git checkout -- trashcli` to reset. Leave the worktree clean at the end')
        d = '/tmp/mut/%s' % i
        subprocess.run('git -C /repo worktree add -q --detach %s HEAD' % d, shell=True, check=True)
        os.makedirs(d + '/_out', exist_ok=True)
        an = p['anchors']
        txt = ('PROPERTY %s: %s\n\nSTATEMENT\n%s\n\nQUANTIFIED OVER\n%s\n\nWHY TESTS CANNOT SETTLE IT\n%s\n\nANCHORS\nfiles: %s\nstate: %s\n'
               'mechanism: %s\nobserve at: %s\n' % (i, p['title'], p['statement'], p['quantifier']['text'], p['why_tests_cant'],
                                                   ', '.join(an['files']), json.dumps(an.get('state'), indent=1),
                                                   json.dumps(an.get('mechanism'), indent=1), json.dumps(an.get('observe_at'))))
        open(d + '/_out/PROPERTY.txt', 'w').write(txt)
        open(d + '/_out/TASK.md', 'w').write(t.replace('@ID@', i))


if __name__ == '__main__':
    main(sys.argv[1], sys.argv[2])
