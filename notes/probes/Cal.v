From Coq Require Import ZArith Lia Bool List ZifyBool.
Import ListNotations.
Open Scope Z_scope.
Arguments Z.add : simpl never. Arguments Z.mul : simpl never. Arguments Z.sub : simpl never. Arguments Z.div : simpl never. Arguments Z.modulo : simpl never.
Ltac Zify.zify_post_hook ::= Z.div_mod_to_equations.
Definition is_leap (y:Z) : bool := (y mod 4 =? 0) && (negb (y mod 100 =? 0) || (y mod 400 =? 0)).
Definition days_before_year (y:Z) : Z := let y1 := y - 1 in y1*365 + y1/4 - y1/100 + y1/400.
Definition dim (y m:Z) : Z :=
  if m =? 2 then (if is_leap y then 29 else 28)
  else if (m =? 4) || (m =? 6) || (m =? 9) || (m =? 11) then 30 else 31.
Definition dbm (y m:Z) : Z :=
  (if m =? 1 then 0 else if m =? 2 then 31 else if m =? 3 then 59 else if m =? 4 then 90 else if m =? 5 then 120
   else if m =? 6 then 151 else if m =? 7 then 181 else if m =? 8 then 212 else if m =? 9 then 243
   else if m =? 10 then 273 else if m =? 11 then 304 else 334)
  + (if (2 <? m) && is_leap y then 1 else 0).
Definition ordinal (y m d:Z) : Z := days_before_year y + dbm y m + d.
Definition valid (y m d:Z) : Prop := 1 <= y <= 9999 /\ 1 <= m <= 12 /\ 1 <= d <= dim y m.
Definition days_in_year (y:Z) := if is_leap y then 366 else 365.
Lemma div_succ_case a k : 0 < k -> 0 <= a -> ((a+1) mod k = 0 /\ (a+1)/k = a/k + 1) \/ ((a+1) mod k <> 0 /\ (a+1)/k = a/k).
Proof. intros. destruct (Z.eq_dec ((a+1) mod k) 0); [left|right]; split; auto; nia. Qed.
Lemma dby_succ y : 1 <= y -> days_before_year (y+1) = days_before_year y + days_in_year y.
Proof. intros. unfold days_before_year, days_in_year, is_leap.
  replace (y + 1 - 1) with (y-1+1) by lia.
  destruct (div_succ_case (y-1) 4) as [[A1 A2]|[A1 A2]]; try lia;
  destruct (div_succ_case (y-1) 100) as [[B1 B2]|[B1 B2]]; try lia;
  destruct (div_succ_case (y-1) 400) as [[C1 C2]|[C1 C2]]; try lia;
  rewrite A2, B2, C2; replace (y-1+1) with y in * by lia;
  destruct (y mod 4 =? 0) eqn:E4; destruct (y mod 100 =? 0) eqn:E100; destruct (y mod 400 =? 0) eqn:E400; simpl; try lia.
Qed.
Lemma dby_mono y y' : 1 <= y -> y < y' -> days_before_year y + 365 <= days_before_year y'.
Proof. intros H1 H2. assert (exists n, 0 <= n /\ y' = y + 1 + n) as (n & Hn & ->) by (exists (y' - y - 1); lia).
  clear H2. pattern n. apply natlike_ind; [| |exact Hn].
  - rewrite Z.add_0_r. rewrite dby_succ by lia. unfold days_in_year. destruct (is_leap y); lia.
  - intros x Hx IH. replace (y + 1 + Z.succ x) with ((y + 1 + x) + 1) by lia.
    rewrite dby_succ by lia. unfold days_in_year. destruct (is_leap _); lia.
Qed.
Lemma doy_bound y m d : valid y m d -> 1 <= dbm y m + d <= days_in_year y.
Proof. unfold valid, dbm, dim, days_in_year. destruct (is_leap y); intros (Hy & Hm & Hd);
  assert (m=1\/m=2\/m=3\/m=4\/m=5\/m=6\/m=7\/m=8\/m=9\/m=10\/m=11\/m=12) as Hc by lia;
  repeat (destruct Hc as [->|Hc]; [simpl in *; lia|]); subst; simpl in *; lia.
Qed.
Lemma ordinal_mono_year y m d y' m' d' : valid y m d -> valid y' m' d' -> y < y' -> ordinal y m d < ordinal y' m' d'.
Proof. intros V V' L. unfold ordinal.
  pose proof (doy_bound _ _ _ V). pose proof (doy_bound _ _ _ V').
  assert (days_before_year (y+1) <= days_before_year y') .
  { destruct (Z.eq_dec (y+1) y') as [->|]; [lia|]. pose proof (dby_mono (y+1) y'). unfold valid in V. lia. }
  rewrite dby_succ in H1 by (unfold valid in V; lia). lia.
Qed.
Print Assumptions ordinal_mono_year.
