From Coq Require Import List NArith ZArith Bool Lia.
Import ListNotations.
Definition str := list N.
Inductive errno := ENOENT | EEXIST | EACCES | EXDEV | EOTHER.
Inductive exn := OSError (e:errno) | ValueError | UnicodeEncodeError.
Definition is_OSError (e:exn) := match e with OSError _ => true | _ => false end.
Inductive op := Exists (p:str) | OpenExcl (p:str) | WriteFd (b:str) | CloseFd | Move (s d:str) | Remove (p:str) | RandInt.
Inductive res := RUnit | RBool (b:bool) | RInt (z:Z) | RErr (e:exn).
Inductive prog (A:Type) : Type := Ret (a:A) | Throw (e:exn) | Do (o:op) (k: res -> prog A).
Arguments Ret {A}. Arguments Throw {A}. Arguments Do {A}.
Fixpoint bind {A B} (m: prog A) (f: A -> prog B) : prog B :=
  match m with Ret a => f a | Throw e => Throw e | Do o k => Do o (fun r => bind (k r) f) end.
Fixpoint catch {A} (m: prog A) (h: exn -> option (prog A)) : prog A :=
  match m with
  | Ret a => Ret a
  | Throw e => match h e with Some p => p | None => Throw e end
  | Do o k => Do o (fun r => catch (k r) h)
  end.
Notation "x <- m ;; f" := (bind m (fun x => f)) (at level 61, m at next level, right associativity).
Definition call (o:op) : prog res := Do o (fun r => match r with RErr e => Throw e | _ => Ret r end).
Definition call_bool (o:op) : prog bool := r <- call o ;; match r with RBool b => Ret b | _ => Throw ValueError end.
Definition call_unit (o:op) : prog unit := r <- call o ;; Ret tt.

Inductive outcome (A:Type) := Done (a:A) | Uncaught (e:exn) | Stuck.
Arguments Done {A}. Arguments Uncaught {A}. Arguments Stuck {A}.
Definition trace := list (op * res).
Fixpoint run_oracle {A} (m: prog A) (ans: list res) : trace * outcome A :=
  match m with
  | Ret a => ([], Done a)
  | Throw e => ([], Uncaught e)
  | Do o k => match ans with
              | [] => ([], Stuck)
              | r :: ans' => let '(t, out) := run_oracle (k r) ans' in ((o,r)::t, out)
              end
  end.
Definition valid_res (o:op) (r:res) : bool :=
  match r with RErr (OSError _) => true | RErr _ => false | _ =>
  match o, r with
  | Exists _, RBool _ => true
  | (OpenExcl _ | WriteFd _ | CloseFd | Move _ _ | Remove _), RUnit => true
  | RandInt, RInt _ => true
  | _, _ => false end end.
(* all_runs: predicate over all answer choices *)
Fixpoint all_runs {A} (P: trace -> outcome A -> Prop) (m: prog A) : Prop :=
  match m with
  | Ret a => P [] (Done a)
  | Throw e => P [] (Uncaught e)
  | Do o k => forall r, valid_res o r = true -> all_runs (fun t out => P ((o,r)::t) out) (k r)
  end.
Lemma all_runs_mono {A} (p: prog A) : forall (Q Q': trace -> outcome A -> Prop),
  (forall t o, Q t o -> Q' t o) -> all_runs Q p -> all_runs Q' p.
Proof.
  induction p as [a|e|o k IH]; cbn; intros Q Q' HQ H; auto.
  intros r Hr. eapply IH; [|apply H; exact Hr]. cbn. intros; apply HQ; assumption.
Qed.
Lemma all_runs_bind {A B} (m: prog A) (f: A -> prog B) : forall (P: trace -> outcome B -> Prop),
  all_runs (fun t out => match out with
                         | Done a => all_runs (fun t' out' => P (t ++ t') out') (f a)
                         | Uncaught e => P t (Uncaught e)
                         | Stuck => True end) m ->
  all_runs P (bind m f).
Proof.
  induction m as [a|e|o k IH]; intros P H; cbn in *.
  - eapply all_runs_mono; [|exact H]. cbn. auto.
  - exact H.
  - intros r Hr. apply IH. eapply all_runs_mono; [|apply H; exact Hr]. cbn.
    intros t out. destruct out; auto.
Qed.

(* mini try_trash: move; on OSError remove info and fail *)
Definition try_trash (src info payload: str) : prog bool :=
  catch (_ <- call_unit (Move src payload) ;; Ret true)
        (fun e => if is_OSError e then Some (_ <- call_unit (Remove info) ;; Ret false) else None).
Definition atomic_write (p c: str) : prog unit :=
  _ <- call_unit (OpenExcl p) ;; _ <- call_unit (WriteFd c) ;; call_unit CloseFd.
Definition put1 (src info payload c: str) : prog bool :=
  _ <- atomic_write info c ;; try_trash src info payload.

(* monitor: Move only after successful WriteFd *)
Fixpoint written (t: trace) : bool :=
  match t with [] => false | (WriteFd _, RUnit) :: _ => true | _ :: t' => written t' end.
Fixpoint ok_order (seen: bool) (t: trace) : bool :=
  match t with
  | [] => true
  | (Move _ _, _) :: t' => seen && ok_order seen t'
  | (WriteFd _, RUnit) :: t' => ok_order true t'
  | _ :: t' => ok_order seen t'
  end.
Ltac sx := repeat (simpl; match goal with
  | |- forall r : res, valid_res _ r = true -> _ => let r := fresh "r" in let H := fresh "H" in intros r H; destruct r; simpl in H; try discriminate H; clear H
  | e : exn |- _ => destruct e; try discriminate
  | |- _ => reflexivity
  end).
Theorem put1_order : forall src info payload c, all_runs (fun t _ => ok_order false t = true) (put1 src info payload c).
Proof.
  intros. unfold put1, atomic_write, try_trash, call_unit, call. sx.
Qed.
Print Assumptions put1_order.
Require Extraction. Require Import ExtrOcamlBasic.
Extraction "prog.ml" put1 run_oracle.
