From Coq Require Import List NArith Bool Lia.
Import ListNotations.
Definition name := list N.
Definition path := list name.
Fixpoint name_eqb (a b: name) : bool := match a, b with [], [] => true | x::a', y::b' => N.eqb x y && name_eqb a' b' | _, _ => false end.
Lemma name_eqb_eq a b : name_eqb a b = true <-> a = b.
Proof. revert b; induction a as [|x a IH]; destruct b as [|y b]; simpl; split; try congruence; auto.
  - rewrite andb_true_iff, N.eqb_eq, IH. intros [-> ->]; auto.
  - intros H; inversion H; subst. rewrite andb_true_iff, N.eqb_eq, IH; auto. Qed.
(* strip_prefix pre p = Some q  iff  p = pre ++ q *)
Fixpoint strip (pre p: path) : option path :=
  match pre, p with
  | [], _ => Some p
  | a::pre', b::p' => if name_eqb a b then strip pre' p' else None
  | _ :: _, [] => None
  end.
Lemma strip_app pre q : strip pre (pre ++ q) = Some q.
Proof. induction pre; simpl; auto. destruct (name_eqb a a) eqn:E; auto. assert (name_eqb a a = true) by (apply name_eqb_eq; auto). congruence. Qed.
Lemma strip_some pre p q : strip pre p = Some q -> p = pre ++ q.
Proof. revert p; induction pre as [|a pre IH]; simpl; intros p H. congruence.
  destruct p as [|b p]; try discriminate. destruct (name_eqb a b) eqn:E; try discriminate.
  apply name_eqb_eq in E; subst. f_equal; auto. Qed.
Inductive node := File (d: list N) (mode: N) | Dir (mode: N) | Link (t: list N).
Record tree := { look : path -> option node; dom : list path }.
Definition tree_ok (t: tree) := forall p, look t p <> None <-> In p (dom t).
Definition rename (t: tree) (src dst: path) : tree :=
  {| look := fun p => match strip dst p with
                      | Some q => look t (src ++ q)
                      | None => match strip src p with Some _ => None | None => look t p end
                      end;
     dom := flat_map (fun p => match strip dst p with Some _ => [] | None =>
                                 match strip src p with Some q => [dst ++ q] | None => [p] end end) (dom t) |}.
Lemma rename_dst t src dst q : look (rename t src dst) (dst ++ q) = look t (src ++ q).
Proof. simpl. rewrite strip_app. reflexivity. Qed.
Lemma rename_src t src dst q : strip dst (src ++ q) = None -> look (rename t src dst) (src ++ q) = None.
Proof. simpl. intros ->. rewrite strip_app. reflexivity. Qed.
Lemma rename_other t src dst p : strip dst p = None -> strip src p = None -> look (rename t src dst) p = look t p.
Proof. simpl. intros -> ->. reflexivity. Qed.
Lemma rename_ok t src dst : tree_ok t -> strip src dst = None -> strip dst src = None ->
  (forall q, look t (dst ++ q) = None) -> tree_ok (rename t src dst).
Proof.
  intros OK Hsd Hds Hfree p. simpl. rewrite in_flat_map. split.
  - destruct (strip dst p) as [q|] eqn:E.
    + intros H. apply strip_some in E; subst p. exists (src ++ q). split. apply OK; auto.
      destruct (strip dst (src ++ q)) eqn:E2.
      * exfalso. apply strip_some in E2. specialize (Hfree p). rewrite <- E2 in Hfree. congruence.
      * rewrite strip_app. simpl; auto.
    + destruct (strip src p) eqn:E2. congruence. intros H. exists p. split. apply OK; auto. rewrite E, E2. simpl; auto.
  - intros (x & Hx & Hin). destruct (strip dst x) eqn:E1. destruct Hin.
    destruct (strip src x) as [q|] eqn:E2.
    + destruct Hin as [<-|[]]. rewrite strip_app. apply strip_some in E2; subst x. apply OK; auto.
    + destruct Hin as [<-|[]]. rewrite E1, E2. apply OK; auto.
Qed.
Print Assumptions rename_ok.
