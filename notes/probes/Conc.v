From Coq Require Import List Arith Bool Lia.
From Hammer Require Import Tactics.
Import ListNotations.
(* names and pids are nat; cand p i = the name process p tries at index i (base ++ suffix(i), arbitrary) *)
Section Conc.
Variable cand : nat -> nat -> nat.
Variable vis_old : nat -> bool.        (* is the pre-existing payload under name n seen by os.path.exists? *)
Variable vis_new : nat -> bool.        (* is process p's own payload visible once moved (false for a dangling link) *)
Inductive payload := Old (x:nat) | New (p:nat).
Inductive pst := Probe (i:nat) | Create (i:nat) | MoveP (i:nat) | Unres (i:nat) | DoneOk (i:nat) | DoneFail.
Record sh := { infos : nat -> option (option nat)   (* None absent; Some None pre-existing; Some (Some p) created by p *)
             ; files : nat -> option payload
             ; procs : nat -> pst }.
Definition upd {A} (f: nat -> A) (k:nat) (v:A) : nat -> A := fun x => if Nat.eqb x k then v else f x.
Definition visible (s:sh) (n:nat) : bool :=
  match files s n with None => false | Some (Old _) => vis_old n | Some (New p) => vis_new p end.
(* ev: environment choice for this step: true = the operation fails for its own reasons *)
Definition step (s:sh) (p:nat) (fail:bool) : sh :=
  match procs s p with
  | Probe i => let n := cand p i in
               {| infos := infos s; files := files s;
                  procs := upd (procs s) p (if visible s n then Probe (S i) else Create i) |}
  | Create i => let n := cand p i in
               match infos s n with
               | Some _ => {| infos := infos s; files := files s; procs := upd (procs s) p (Probe (S i)) |}   (* EEXIST *)
               | None => if fail then {| infos := infos s; files := files s; procs := upd (procs s) p (Probe (S i)) |}
                         else {| infos := upd (infos s) n (Some (Some p)); files := files s; procs := upd (procs s) p (MoveP i) |}
               end
  | MoveP i => let n := cand p i in
               if fail then {| infos := infos s; files := files s; procs := upd (procs s) p (Unres i) |}
               else {| infos := infos s; files := upd (files s) n (Some (New p)); procs := upd (procs s) p (DoneOk i) |}
  | Unres i => let n := cand p i in
               {| infos := upd (infos s) n None; files := files s; procs := upd (procs s) p DoneFail |}
  | DoneOk _ | DoneFail => s
  end.
Fixpoint run (s:sh) (sched: list (nat*bool)) : sh :=
  match sched with [] => s | (p,f)::r => run (step s p f) r end.

Definition holds (st:pst) : option nat := match st with MoveP i | Unres i | DoneOk i => Some i | _ => None end.
Record Inv (s0 s: sh) : Prop := {
  I_own  : forall p i, holds (procs s p) = Some i -> infos s (cand p i) = Some (Some p);
  I_info : forall n p, infos s n = Some (Some p) -> exists i, holds (procs s p) = Some i /\ cand p i = n;
  I_new  : forall n p, files s n = Some (New p) -> exists i, procs s p = DoneOk i /\ cand p i = n;
  I_done : forall p i, procs s p = DoneOk i -> files s (cand p i) = Some (New p);
  I_oldi : forall n, infos s0 n <> None -> infos s n = infos s0 n;
  I_oldf : forall n x, files s0 n = Some (Old x) -> (infos s0 n <> None \/ vis_old n = true) -> files s n = Some (Old x);
  I_mv   : forall p i, procs s p = MoveP i -> infos s0 (cand p i) = None /\
                       (files s (cand p i) = None \/ exists x, files s (cand p i) = Some (Old x) /\ files s0 (cand p i) = Some (Old x) /\ vis_old (cand p i) = false);
  I_cr   : forall p i, procs s p = Create i -> (files s (cand p i) = None \/ (exists x, files s (cand p i) = Some (Old x) /\ files s0 (cand p i) = Some (Old x) /\ vis_old (cand p i) = false) \/ exists q, files s (cand p i) = Some (New q));
  I_f0   : forall n x, files s n = Some (Old x) -> files s0 n = Some (Old x)
}.
End Conc.

Section Proofs.
Variable cand : nat -> nat -> nat.
Variable vis_old vis_new : nat -> bool.
Notation step := (step cand vis_old vis_new).
Notation Inv := (Inv cand vis_old).
Notation visible := (visible vis_old vis_new).

Lemma upd_same {A} (f:nat->A) k v : upd f k v k = v.
Proof. unfold upd. now rewrite Nat.eqb_refl. Qed.
Lemma upd_other {A} (f:nat->A) k v x : x <> k -> upd f k v x = f x.
Proof. unfold upd. intros. destruct (Nat.eqb_spec x k); congruence. Qed.

Definition init_ok (s0: sh) : Prop :=
  (forall p, procs s0 p = Probe 0) /\ (forall n p, files s0 n <> Some (New p)) /\ (forall n p, infos s0 n <> Some (Some p)).

Lemma inv_init s0 : init_ok s0 -> Inv s0 s0.
Proof.
  intros (Hp & Hf & Hi). constructor; intros; try (rewrite Hp in *; simpl in *; congruence); auto.
  - exfalso; eapply Hi; eauto.
  - exfalso; eapply Hf; eauto.
Qed.

Ltac upds := repeat match goal with
  | H : context [upd _ ?k _ ?x] |- _ => unfold upd in H; destruct (Nat.eqb_spec x k); subst
  | |- context [upd _ ?k _ ?x] => unfold upd; destruct (Nat.eqb_spec x k); subst
  end.

Ltac go := constructor; simpl; intros; try (timeout 15 (unfold upd, Conc.visible in *; sauto)).
Ltac ex_info Hinfo Hnew :=
  match goal with
  | H : infos _ ?n = Some (Some ?q) |- exists _, holds (upd _ ?p _ ?q) = Some _ /\ _ =>
      let j := fresh "j" in let Hj := fresh "Hj" in let Hc := fresh "Hc" in
      destruct (Hinfo _ _ H) as (j & Hj & Hc); unfold upd; destruct (Nat.eqb_spec q p); subst; [|exists j; auto]
  | H : files _ ?n = Some (New ?q) |- exists _, upd _ ?p _ ?q = DoneOk _ /\ _ =>
      let j := fresh "j" in let Hj := fresh "Hj" in let Hc := fresh "Hc" in
      destruct (Hnew _ _ H) as (j & Hj & Hc); unfold upd; destruct (Nat.eqb_spec q p); subst; [|exists j; auto]
  end.
Lemma inv_step s0 s p f : init_ok s0 -> Inv s0 s -> Inv s0 (step s p f).
Proof.
  intros (_ & _ & Hi0) [Hown Hinfo Hnew Hdone Holdi Holdf Hmv Hcr Hf0].
  unfold Conc.step. destruct (procs s p) eqn:Ep.
  - (* Probe *) destruct (visible s (cand p i)) eqn:Ev; go.
  - (* Create *) destruct (infos s (cand p i)) eqn:Ei; [go|destruct f; go].
    + ex_info Hinfo Hnew. rewrite Ep in Hj; simpl in Hj; discriminate.
    + ex_info Hinfo Hnew. congruence.
    + unfold upd in H. destruct (Nat.eqb_spec n (cand p i)); subst.
      * inversion H; subst. exists i. unfold upd. rewrite Nat.eqb_refl. auto.
      * ex_info Hinfo Hnew. rewrite Ep in Hj; simpl in Hj; discriminate.
    + unfold upd in H. destruct (Nat.eqb_spec p0 p); subst; [|apply Hmv; auto].
      inversion H; subst. split.
      * destruct (infos s0 (cand p i0)) eqn:E0; auto. rewrite Holdi in Ei by congruence. congruence.
      * destruct (Hcr _ _ Ep) as [Hn|[Hx|(q & Hq)]]; auto.
        destruct (Hnew _ _ Hq) as (j & Hj & Hc). assert (infos s (cand q j) = Some (Some q)) by (apply Hown; rewrite Hj; auto). congruence.
  - (* MoveP *) destruct f; go.
    unfold upd in H. destruct (Nat.eqb_spec p0 p); subst; [discriminate|].
    destruct (Hmv _ _ H) as [Hm1 Hm2]. split; auto.
    unfold upd. destruct (Nat.eqb_spec (cand p0 i0) (cand p i)) as [Heq|]; auto.
    exfalso. assert (infos s (cand p0 i0) = Some (Some p0)) by (apply Hown; rewrite H; auto).
    assert (infos s (cand p i) = Some (Some p)) by (apply Hown; rewrite Ep; auto). congruence.
  - (* Unres *) go.
    + unfold upd in H. destruct (Nat.eqb_spec p0 p); subst; [simpl in H; discriminate|].
      unfold upd. destruct (Nat.eqb_spec (cand p0 i0) (cand p i)) as [Heq|]; auto.
      exfalso. assert (infos s (cand p0 i0) = Some (Some p0)) by (apply Hown; auto).
      assert (infos s (cand p i) = Some (Some p)) by (apply Hown; rewrite Ep; auto). congruence.
    + unfold upd in H. destruct (Nat.eqb_spec n (cand p i)); subst; [discriminate|].
      destruct (Hinfo _ _ H) as (j & Hj & Hc). unfold upd. destruct (Nat.eqb_spec p0 p); subst; [|exists j; auto].
      exfalso. rewrite Ep in Hj; simpl in Hj. inversion Hj; subst. congruence.
    + unfold upd. destruct (Nat.eqb_spec n (cand p i)); subst; auto.
      exfalso. assert (infos s (cand p i) = Some (Some p)) by (apply Hown; rewrite Ep; auto).
      rewrite Holdi in H0 by auto. eapply Hi0; eauto.
  - constructor; auto.
  - constructor; auto.
Qed.

Notation run := (run cand vis_old vis_new).
Theorem inv_run s0 sched : init_ok s0 -> Inv s0 (run s0 sched).
Proof.
  intros H0. assert (G: forall s, Inv s0 s -> Inv s0 (run s sched)).
  { induction sched as [|[p f] r IH]; simpl; intros s Hs; auto. apply IH. apply inv_step; auto. }
  apply G. apply inv_init; auto.
Qed.

(* The property, for every schedule of any number of processes *)
Theorem concurrent_puts_never_overwrite s0 sched : init_ok s0 ->
  let s := run s0 sched in
     (forall n x, files s0 n = Some (Old x) -> (infos s0 n <> None \/ vis_old n = true) -> files s n = Some (Old x))
  /\ (forall n, infos s0 n <> None -> infos s n = infos s0 n)
  /\ (forall p q i j, p <> q -> procs s p = DoneOk i -> procs s q = DoneOk j -> cand p i <> cand q j)
  /\ (forall p i, procs s p = DoneOk i -> files s (cand p i) = Some (New p) /\ infos s (cand p i) = Some (Some p)).
Proof.
  intros H0 s. destruct (inv_run s0 sched H0) as [Hown Hinfo Hnew Hdone Holdi Holdf Hmv Hcr Hf0]. fold s in Hown, Hinfo, Hnew, Hdone, Holdi, Holdf.
  repeat split; auto.
  - intros p q i j Hpq Hp Hq Heq. assert (A: infos s (cand p i) = Some (Some p)) by (apply Hown; rewrite Hp; auto).
    assert (B: infos s (cand q j) = Some (Some q)) by (apply Hown; rewrite Hq; auto). congruence.
  - apply Hown. rewrite H; auto.
Qed.
End Proofs.
Print Assumptions concurrent_puts_never_overwrite.
