#!/bin/sh
# usage: try_mutant2.sh PATCH Cxx [Cyy ...]  - run the quick checks against a scratch worktree of /repo carrying the change
# (VERIF_REPO), without touching /repo's working tree: safe while other checks are running
patch=$1; shift
wt=/tmp/tm_wt_$$
git -C /repo worktree add -q --detach $wt HEAD || exit 2
git -C $wt apply "$patch" || { echo "patch does not apply"; git -C /repo worktree remove --force $wt; exit 2; }
for p in "$@"; do
  (cd /verif && PYTHONHASHSEED=0 PYTHONDONTWRITEBYTECODE=1 LC_ALL=C.UTF-8 TZ=UTC PYTHONPATH=$wt VERIF_REPO=$wt /venv/bin/python harness/check.py $p --tier quick 2>&1 | grep -v "^KNOWN" | tail -4)
done
git -C /repo worktree remove --force $wt
