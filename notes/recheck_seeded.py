"""Re-run the property's quick check against every confirmed seeded change in /verif/seeded/<id>/patch.diff
(a scratch worktree of /repo with the patch as VERIF_REPO; harness/check.py) and refresh meta.json / SUMMARY.json with what the check reports now."""
import glob, json, os, re, subprocess, sys


def sh(cmd):
    return subprocess.run(cmd, shell=True, stdout=subprocess.PIPE, stderr=subprocess.STDOUT, text=True)


def main(only):
    summ = {r['id']: r for r in json.load(open('/verif/seeded/SUMMARY.json'))}
    for d in sorted(glob.glob('/verif/seeded/C??-?')):
        sid = os.path.basename(d)
        if only and sid not in only and sid[:3] not in only:
            continue
        pid = sid[:3]
        wt = '/tmp/recheck_wt'
        sh('git -C /repo worktree remove --force %s' % wt)
        sh('git -C /repo worktree add -q --detach %s HEAD' % wt)
        ap = sh('git -C %s apply %s/patch.diff' % (wt, d))
        if ap.returncode != 0:
            print(sid, 'PATCH DOES NOT APPLY', ap.stdout[-200:])
            sh('git -C /repo worktree remove --force %s' % wt)
            continue
        env = 'PYTHONHASHSEED=0 PYTHONDONTWRITEBYTECODE=1 LC_ALL=C.UTF-8 TZ=UTC PYTHONPATH=%s VERIF_REPO=%s' % (wt, wt)
        ck = sh('cd /verif && %s /venv/bin/python harness/check.py %s --tier quick' % (env, pid))
        sh('git -C /repo worktree remove --force %s' % wt)
        lines = [l for l in ck.stdout.split('\n') if l.startswith('VIOLATION')]
        res = {'caught': ck.returncode == 1 and bool(lines),
               'with_failing_input': any('no-failing-input-found' not in l for l in lines),
               'violation_lines': lines[:3], 'summary': [l for l in ck.stdout.split('\n') if ' quick: ' in l][-1:]}
        m = re.search(r'(\d+) disagreements, (\d+) oracle failures', ck.stdout)
        if m:
            res['tie_disagreements'], res['oracle_failures'] = int(m.group(1)), int(m.group(2))
        meta = json.load(open(d + '/meta.json'))
        meta['check_result'] = res
        json.dump(meta, open(d + '/meta.json', 'w'), indent=1)
        r = summ.setdefault(sid, {'id': sid, 'property': pid})
        r.update({'caught': res['caught'], 'caught_with_failing_input': res['with_failing_input'], 'check_violation_lines': res['violation_lines'],
                  'check_summary': res['summary'], 'tie_disagreements': res.get('tie_disagreements'), 'oracle_failures': res.get('oracle_failures')})
        print(sid, 'caught' if res['caught'] else 'MISSED', 'with input' if res['with_failing_input'] else '', res['summary'])
        sys.stdout.flush()
    json.dump(sorted(summ.values(), key=lambda r: r['id']), open('/verif/seeded/SUMMARY.json', 'w'), indent=1)


if __name__ == '__main__':
    main(set(sys.argv[1:]))
