"""Re-run the property's quick check against every confirmed seeded change in /verif/seeded/<id>/patch.diff
(a scratch worktree of /repo with the patch as VERIF_REPO; harness/check.py) and refresh meta.json / SUMMARY.json with what the check reports now."""
import glob, json, os, re, subprocess, sys


def sh(cmd):
    return subprocess.run(cmd, shell=True, stdout=subprocess.PIPE, stderr=subprocess.STDOUT, text=True)


def main(only):
    summ = {r['id']: r for r in json.load(open('/verif/seeded/SUMMARY.json'))}
    for d in sorted(glob.glob('/verif/seeded/C??-?')):
        sid = os.path.basename(d)
        if only and sid not in only and sid[:3] not in only:
            continue
        pid = sid[:3]
        wt = '/tmp/recheck_wt_%d' % os.getpid()
        sh('git -C /repo worktree remove --force %s' % wt)
        sh('git -C /repo worktree add -q --detach %s HEAD' % wt)
        ap = sh('git -C %s apply %s/patch.diff' % (wt, d))
        if ap.returncode != 0:
            print(sid, 'PATCH DOES NOT APPLY', ap.stdout[-200:])
            sh('git -C /repo worktree remove --force %s' % wt)
            continue
        env = 'PYTHONHASHSEED=0 PYTHONDONTWRITEBYTECODE=1 LC_ALL=C.UTF-8 TZ=UTC PYTHONPATH=%s VERIF_REPO=%s' % (wt, wt)
        ck = sh('cd /verif && %s /venv/bin/python harness/check.py %s --tier quick' % (env, pid))
        lines = [l for l in ck.stdout.split('\n') if l.startswith('VIOLATION')]
        # the first failing input must reproduce on the tree that carries the change, and must NOT on the unchanged tree
        rep = [l.split('replay=')[1].split()[0] for l in lines if 'no-failing-input-found' not in l][:1]
        rp = {}
        if rep:
            a = sh('cd /verif && %s /venv/bin/python harness/check.py %s --replay %s' % (env, pid, rep[0]))
            b = sh('cd /verif && PYTHONHASHSEED=0 PYTHONDONTWRITEBYTECODE=1 LC_ALL=C.UTF-8 TZ=UTC PYTHONPATH=/repo /venv/bin/python harness/check.py %s --replay %s' % (pid, rep[0]))
            rp = {'replay': rep[0], 'reproduces_with_change': 'property fails on this input' in a.stdout, 'silent_on_unchanged_tree': 'no failure reproduced' in b.stdout}
        sh('git -C /repo worktree remove --force %s' % wt)
        res = {'caught': ck.returncode == 1 and bool(lines),
               'with_failing_input': any('no-failing-input-found' not in l for l in lines),
               'violation_lines': lines[:3], 'summary': [l for l in ck.stdout.split('\n') if ' quick: ' in l][-1:]}
        m = re.search(r'(\d+) disagreements, (\d+) oracle failures', ck.stdout)
        if m:
            res['tie_disagreements'], res['oracle_failures'] = int(m.group(1)), int(m.group(2))
        res.update(rp)
        meta = json.load(open(d + '/meta.json'))
        meta['check_result'] = res
        json.dump(meta, open(d + '/meta.json', 'w'), indent=1)
        r = summ.setdefault(sid, {'id': sid, 'property': pid})
        r.update({'caught': res['caught'], 'caught_with_failing_input': res['with_failing_input'], 'check_violation_lines': res['violation_lines'],
                  'check_summary': res['summary'], 'tie_disagreements': res.get('tie_disagreements'), 'oracle_failures': res.get('oracle_failures')})
        print(sid, 'caught' if res['caught'] else 'MISSED', 'with input' if res['with_failing_input'] else '', 'replay:%s/%s' % (rp.get('reproduces_with_change'), rp.get('silent_on_unchanged_tree')) if rp else '', res['summary'])
        sys.stdout.flush()
    json.dump(sorted(summ.values(), key=lambda r: r['id']), open('/verif/seeded/SUMMARY.json', 'w'), indent=1)


if __name__ == '__main__':
    main(set(sys.argv[1:]))
