"""Reproductions (on the real commands, in the chroot sandbox) of the defects listed in DESIGN section 9."""
import sys, json
sys.path.insert(0, '/verif/harness')
import sandbox
NOW = [2024, 1, 2, 3, 4, 5, 0]
ENV = {'HOME': '/home/u', 'TRASH_VOLUMES': '/:/vol1'}
TI = lambda p, d='2024-01-01T00:00:00': '[Trash Info]\nPath=%s\nDeletionDate=%s\n' % (p, d)
HT = '/home/u/.local/share/Trash'

def show(title, scn, paths=()):
    r = sandbox.execute(scn)
    print('=====', title)
    for st, o in zip(scn['steps'], r['steps']):
        print(' $', st['cmd'], st.get('argv'), '-> exit', o['exit'], 'exc', o.get('exc'), 'timeout', o.get('timeout'), 'looping', o.get('looping'))
        if o['stdout'].strip(): print('   out:', o['stdout'].strip().replace('\n', ' | ')[:300])
        if o['stderr'].strip(): print('   err:', o['stderr'].strip().replace('\n', ' | ')[:400])
    last = r['steps'][-1]['after']
    for p in sorted(last):
        if any(p.startswith(x) for x in paths):
            v = last[p]
            print('   ', p, v[0], oct(v[1]), v[2] if not isinstance(v[2], bytes) else v[2][:60])
    return r

base = [['d', '/home/u', 0o755], ['d', '/vol1', 0o755]]
def trash(entries, td=HT):
    t = []
    for n, p, d in entries:
        t.append(['f', td + '/info/' + n + '.trashinfo', TI(p, d) if d else '[Trash Info]\nPath=%s\n' % p])
        t.append(['f', td + '/files/' + n, 'payload ' + n])
    return t

which = sys.argv[1:] 
def want(k): return not which or k in which

if want('1'):
    show('1 restore --sort none', {'tree': base + trash([('a', '/home/u/a', '2024-01-01T00:00:00')]), 'mounts': ['/vol1'], 'cwd': '/home/u', 'env': ENV,
        'steps': [{'cmd': 'restore', 'argv': ['--sort', 'none'], 'stdin': '0\n'}]}, ['/home/u/a'])
if want('2'):
    show('2 dangling symlink at destination', {'tree': base + trash([('a', '/home/u/a', '2024-01-01T00:00:00')]) + [['l', '/home/u/a', '/nowhere']],
        'mounts': ['/vol1'], 'cwd': '/home/u', 'env': ENV, 'steps': [{'cmd': 'restore', 'argv': [], 'stdin': '0\n'}]}, ['/home/u/a', HT])
if want('3'):
    show('3a overwrite dir payload over file', {'tree': base + [['f', HT + '/info/a.trashinfo', TI('/home/u/a')], ['d', HT + '/files/a', 0o755], ['f', HT + '/files/a/x', 'x'], ['f', '/home/u/a', 'old']],
        'mounts': ['/vol1'], 'cwd': '/home/u', 'env': ENV, 'steps': [{'cmd': 'restore', 'argv': ['--overwrite'], 'stdin': '0\n'}]}, ['/home/u/a', HT])
    show('3b overwrite over symlink to dir', {'tree': base + trash([('a', '/home/u/a', '2024-01-01T00:00:00')]) + [['d', '/home/u/real', 0o755], ['l', '/home/u/a', '/home/u/real']],
        'mounts': ['/vol1'], 'cwd': '/home/u', 'env': ENV, 'steps': [{'cmd': 'restore', 'argv': ['--overwrite'], 'stdin': '0\n'}]}, ['/home/u/a', '/home/u/real', HT])
if want('4'):
    show('4 XDG_DATA_HOME empty', {'tree': base + [['f', '/home/u/f', 'x']], 'mounts': ['/vol1'], 'cwd': '/home/u', 'env': dict(ENV, XDG_DATA_HOME=''),
        'steps': [{'cmd': 'put', 'argv': ['f'], 'now': NOW}]}, ['/Trash', '/home/u', '/.Trash'])
if want('5'):
    show('5 restore from insecure .Trash/0', {'tree': base + [['d', '/vol1/.Trash', 0o755]] + trash([('a', 'a', '2024-01-01T00:00:00')], '/vol1/.Trash/0'),
        'mounts': ['/vol1'], 'cwd': '/vol1', 'env': ENV, 'steps': [{'cmd': 'list', 'argv': []}, {'cmd': 'restore', 'argv': [], 'stdin': '0\n'}]}, ['/vol1'])
if want('6'):
    show('6 invalid utf-8 name', {'tree': base + [['f', '/home/u/bad\udcff', 'x'], ['f', '/home/u/good', 'y']], 'mounts': ['/vol1'], 'cwd': '/home/u', 'env': ENV,
        'steps': [{'cmd': 'put', 'argv': ['bad\udcff', 'good'], 'now': NOW}]}, ['/home/u'])
if want('7'):
    show('7 persistent EACCES on info create', {'tree': base + [['f', '/home/u/f', 'x']], 'mounts': ['/vol1'], 'cwd': '/home/u', 'env': ENV,
        'steps': [{'cmd': 'put', 'argv': ['f'], 'now': NOW, 'plan': {'faults': {'open': {'errno': 13}}}}]}, ['/home/u'])
if want('8'):
    show('8 undated entry + date sort', {'tree': base + trash([('a', '/home/u/a', '2024-01-01T00:00:00'), ('b', '/home/u/b', None)]), 'mounts': ['/vol1'], 'cwd': '/home/u', 'env': ENV,
        'steps': [{'cmd': 'restore', 'argv': [], 'stdin': '\n'}]}, [])
if want('9'):
    t = base + trash([('a', '/home/u/a', '2001-01-01T00:00:00')]) + [['f', HT + '/info/bad.trashinfo', b'[Trash Info]\nPath=/x\xff\nDeletionDate=2001-01-01T00:00:00\n']]
    show('9 non-utf8 info', {'tree': t, 'mounts': ['/vol1'], 'cwd': '/home/u', 'env': ENV,
        'steps': [{'cmd': 'list', 'argv': [], 'listdir': 'reverse'}, {'cmd': 'rm', 'argv': ['zzz'], 'listdir': 'reverse'}, {'cmd': 'empty', 'argv': ['1'], 'listdir': 'reverse', 'env': {'TRASH_DATE': '2024-01-01T00:00:00'}}]}, [HT])
    t2 = base + trash([('a', '/home/u/a', '2001-01-01T00:00:00')]) + [['d', HT + '/info/dir.trashinfo', 0o755]]
    show('9b directory-typed info', {'tree': t2, 'mounts': ['/vol1'], 'cwd': '/home/u', 'env': ENV,
        'steps': [{'cmd': 'list', 'argv': [], 'listdir': 'reverse'}, {'cmd': 'rm', 'argv': ['zzz'], 'listdir': 'reverse'}, {'cmd': 'empty', 'argv': ['1'], 'listdir': 'reverse', 'env': {'TRASH_DATE': '2024-01-01T00:00:00'}}, {'cmd': 'restore', 'argv': ['/'], 'stdin': '\n'}]}, [HT])
if want('10'):
    t = base + trash([('keep', '/home/u/keep', '2023-12-31T00:00:00')]) + [['f', HT + '/info/.trashinfo', TI('/home/u/x', '2001-01-01T00:00:00')]]
    show('10 info named .trashinfo', {'tree': t, 'mounts': ['/vol1'], 'cwd': '/home/u', 'env': ENV,
        'steps': [{'cmd': 'empty', 'argv': ['5'], 'env': {'TRASH_DATE': '2024-01-01T00:00:00'}}]}, [HT])
if want('11'):
    t = base + [['d', '/vol1/home/u', 0o755]] + trash([('a', 'some/rel', '2024-01-01T00:00:00')], '/vol1/home/u/.local/share/Trash')
    show('11 home trash on own volume, relative Path', {'tree': t, 'mounts': ['/vol1'], 'cwd': '/', 'env': {'HOME': '/vol1/home/u', 'TRASH_VOLUMES': '/:/vol1'},
        'steps': [{'cmd': 'list', 'argv': []}, {'cmd': 'restore', 'argv': ['/'], 'stdin': '\n'}]}, [])
if want('12'):
    show('12a trash-put ./', {'tree': base + [['d', '/home/u/d', 0o755], ['f', '/home/u/d/inner', 'x']], 'mounts': ['/vol1'], 'cwd': '/home/u/d', 'env': ENV,
        'steps': [{'cmd': 'put', 'argv': ['./'], 'now': NOW}]}, ['/home/u'])
    show('12b trash-put mount point', {'tree': base + [['f', '/vol1/inner', 'x']], 'mounts': ['/vol1'], 'cwd': '/', 'env': ENV,
        'steps': [{'cmd': 'put', 'argv': ['/vol1'], 'now': NOW}]}, ['/vol1', '/.Trash', '/home'])
if want('13'):
    show('13 link/../x', {'tree': base + [['d', '/other/dir', 0o755], ['f', '/other/x', 'other'], ['f', '/home/u/x', 'mine'], ['l', '/home/u/link', '/other/dir']], 'mounts': ['/vol1'], 'cwd': '/home/u', 'env': ENV,
        'steps': [{'cmd': 'put', 'argv': ['link/../x'], 'now': NOW}]}, ['/home/u', '/other'])
if want('14'):
    show('14 top dir /', {'tree': [['d', '/vol1/home/u', 0o755], ['f', '/data/f', 'x']], 'mounts': ['/vol1'], 'cwd': '/', 'env': {'HOME': '/vol1/home/u', 'TRASH_VOLUMES': '/:/vol1'},
        'steps': [{'cmd': 'put', 'argv': ['/data/f'], 'now': NOW}]}, ['/.Trash', '/data'])
if want('15'):
    show('15 write of the info fails (ENOSPC)', {'tree': base + [['f', '/home/u/f', 'x']], 'mounts': ['/vol1'], 'cwd': '/home/u', 'env': ENV,
        'steps': [{'cmd': 'put', 'argv': ['f'], 'now': NOW, 'plan': {'faults': {'write': {'errno': 28}}}}]}, ['/home/u'])
if want('10b'):
    t = base + trash([('keep', '/home/u/keep', '2023-12-31T00:00:00')]) + [['f', HT + '/info/.trashinfo', TI('/home/u/x', '2001-01-01T00:00:00')]]
    show('10b info named .trashinfo: restore / rm / list', {'tree': t, 'mounts': ['/vol1'], 'cwd': '/home/u', 'env': ENV,
        'steps': [{'cmd': 'list', 'argv': []}, {'cmd': 'restore', 'argv': ['/home/u/x'], 'stdin': '0\n'}, {'cmd': 'rm', 'argv': ['x']}]}, [HT, '/home/u/x'])
