"""Vet the seeded changes delivered by the sub-agents in /tmp/mut/Cxx/_out and keep the confirmed ones in /verif/seeded/<id>/.
For each change: scratch worktree of /repo HEAD, apply, run the repository's test suite (must stay 450 passed / 5 failed / 2 errors),
run the demonstration with the change (must exit 1) and without (must exit 0), then run the property's quick check against it
(git -C /repo apply; ./check; git -C /repo checkout -- .) and record which part of the check caught it."""
import glob, json, os, re, shutil, subprocess, sys
OUT = '/verif/seeded'
PY = '/venv/bin/python'


def sh(cmd, **kw):
    return subprocess.run(cmd, shell=True, stdout=subprocess.PIPE, stderr=subprocess.STDOUT, text=True, **kw)


def suite(tree):
    r = sh('cd %s && %s -m pytest -q -p no:cacheprovider --timeout=900 2>&1 | tail -1' % (tree, PY))
    return r.stdout.strip()


def main(only=None):
    props = {json.loads(l)['id']: json.loads(l) for l in open('/verif/properties.jsonl')}
    summary = []
    for d in sorted(glob.glob('/tmp/mut/C??/_out')):
        pid = d.split('/')[3]
        if only and pid not in only:
            continue
        for diff in sorted(glob.glob(d + '/mut?.diff')):
            tag = os.path.basename(diff)[:-5]
            sid = '%s-%s' % (pid, tag[-1])
            demo = d + '/%s_demo.py' % tag
            note = d + '/%s.md' % tag
            wt = '/tmp/vet_wt_%d' % os.getpid()
            sh('git -C /repo worktree remove --force %s' % wt)
            shutil.rmtree(wt, ignore_errors=True)
            r = sh('git -C /repo worktree add -q --detach %s HEAD' % wt)
            ap = sh('git -C %s apply %s' % (wt, diff))
            rec = {'id': sid, 'property': pid, 'applies_to_head': ap.returncode == 0}
            if ap.returncode != 0:
                rec['apply_error'] = ap.stdout[-300:]
                summary.append(rec)
                sh('git -C /repo worktree remove --force %s' % wt)
                print(sid, 'PATCH DOES NOT APPLY')
                continue
            rec['tests_with_change'] = suite(wt)
            dm = sh('cd /tmp && PYTHONPATH=%s timeout 300 %s %s' % (wt, PY, demo))
            rec['demo_with_change_exit'] = dm.returncode
            rec['demo_with_change_tail'] = dm.stdout[-400:]
            dc = sh('cd /tmp && PYTHONPATH=/repo timeout 300 %s %s' % (PY, demo))
            rec['demo_without_change_exit'] = dc.returncode
            ok = ('450 passed' in rec['tests_with_change'] and '5 failed' in rec['tests_with_change'] and rec['demo_with_change_exit'] == 1
                  and rec['demo_without_change_exit'] == 0)
            rec['confirmed'] = ok
            # our check, against the scratch worktree that carries the change (VERIF_REPO): /repo itself stays untouched, so this can
            # run while other checks are reading /repo
            env = 'PYTHONHASHSEED=0 PYTHONDONTWRITEBYTECODE=1 LC_ALL=C.UTF-8 TZ=UTC PYTHONPATH=%s VERIF_REPO=%s' % (wt, wt)
            ck = sh('cd /verif && %s /venv/bin/python harness/check.py %s --tier quick' % (env, pid))
            sh('git -C /repo worktree remove --force %s' % wt)
            shutil.rmtree(wt, ignore_errors=True)
            lines = [l for l in ck.stdout.split('\n') if l.startswith('VIOLATION')]
            rec['check_exit'] = ck.returncode
            rec['check_violation_lines'] = lines[:3]
            rec['check_summary'] = [l for l in ck.stdout.split('\n') if ' quick: ' in l][-1:] 
            rec['caught'] = ck.returncode == 1 and bool(lines)
            rec['caught_with_failing_input'] = any('no-failing-input-found' not in l for l in lines)
            m = re.search(r'(\d+) disagreements, (\d+) oracle failures', ck.stdout)
            if m:
                rec['tie_disagreements'], rec['oracle_failures'] = int(m.group(1)), int(m.group(2))
            summary.append(rec)
            print(sid, 'confirmed' if ok else 'NOT CONFIRMED', '| caught' if rec['caught'] else '| MISSED',
                  'with input' if rec['caught_with_failing_input'] else '', rec['tests_with_change'][:40], rec['demo_with_change_exit'], rec['demo_without_change_exit'])
            if ok:
                dst = os.path.join(OUT, sid)
                os.makedirs(dst, exist_ok=True)
                shutil.copy(diff, dst + '/patch.diff')
                shutil.copy(demo, dst + '/demo.py')
                needs = open(note).read() if os.path.exists(note) else ''
                meta = {'id': sid, 'property': pid, 'breaks': props[pid]['title'],
                        'needs_to_manifest': needs[:1500],
                        'what_was_run': ['scratch worktree of /repo HEAD + git apply patch.diff',
                                         'repository test suite with the change: ' + rec['tests_with_change'],
                                         'PYTHONPATH=<tree with change> /venv/bin/python demo.py -> exit %d' % rec['demo_with_change_exit'],
                                         'PYTHONPATH=/repo /venv/bin/python demo.py -> exit %d' % rec['demo_without_change_exit'],
                                         'scratch worktree with the change as VERIF_REPO; harness/check.py %s --tier quick' % pid],
                        'check_result': {'caught': rec['caught'], 'with_failing_input': rec['caught_with_failing_input'],
                                         'violation_lines': rec['check_violation_lines'], 'summary': rec['check_summary'],
                                         'tie_disagreements': rec.get('tie_disagreements'), 'oracle_failures': rec.get('oracle_failures')},
                        'origin': 'independent sub-agent given only the property text and a scratch worktree'}
                json.dump(meta, open(dst + '/meta.json', 'w'), indent=1)
    old = []
    if os.path.exists('/verif/seeded/SUMMARY.json'):
        old = json.load(open('/verif/seeded/SUMMARY.json'))
    ids = {r['id'] for r in summary}
    merged = sorted([r for r in old if r['id'] not in ids] + summary, key=lambda r: r['id'])
    json.dump(merged, open('/verif/seeded/SUMMARY.json', 'w'), indent=1)


if __name__ == '__main__':
    main(set(sys.argv[1:]) or None)
