"""scratch: trace-level agreement of the five command models on generated scenarios"""
import sys, random, json
sys.path.insert(0, '/verif/harness')
import sandbox, scen, tracelevel
from common import Run
run = Run('T', 'quick', int(sys.argv[1]) if len(sys.argv) > 1 else 0)
rng = run.rng
N = int(sys.argv[2]) if len(sys.argv) > 2 else 200
scns = []
for i in range(N):
    lay = scen.Layout(rng)
    nodes, ents, mal = scen.populate(rng, lay)
    steps = [scen.read_cmd(rng, lay, ents) for _ in range(rng.randint(1, 3))]
    scns.append(lay.scenario(steps, cwd=rng.choice([lay.home, '/', lay.home]), extra=nodes))
res = sandbox.execute_many(scns)
items = []
for s, r in zip(scns, res):
    if r.get('harness_error'):
        print('HARNESS', r['harness_error'][-500:]); continue
    for st, o in zip(s['steps'], r['steps']):
        items.append((s, st, o))
bad = tracelevel.check_runs(run, 'trace', items)
print(run.sections)
seen = set()
for f in run.failures:
    k = f['case']['problem'][:60]
    if k in seen: continue
    seen.add(k)
    print('----', f['what']); print(f['case']['problem'][:1500]); print(f['case']['step']); print('stderr:', f['case']['stderr'][-300:])
