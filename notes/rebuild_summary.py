"""Rebuild seeded/SUMMARY.json from the seeded/<id>/meta.json files (parallel recheck workers race on SUMMARY.json)."""
import glob, json, os
old = {r['id']: r for r in json.load(open('/verif/seeded/SUMMARY.json'))}
out = []
for d in sorted(glob.glob('/verif/seeded/C??-?')):
    sid = os.path.basename(d)
    m = json.load(open(d + '/meta.json'))
    r = dict(old.get(sid, {'id': sid, 'property': sid[:3]}))
    c = m.get('check_result') or {}
    r.update({'caught': c.get('caught'), 'caught_with_failing_input': c.get('with_failing_input'), 'check_violation_lines': c.get('violation_lines'),
              'check_summary': c.get('summary'), 'tie_disagreements': c.get('tie_disagreements'), 'oracle_failures': c.get('oracle_failures'),
              'replay': c.get('replay'), 'replay_reproduces_with_change': c.get('reproduces_with_change'),
              'replay_silent_on_unchanged_tree': c.get('silent_on_unchanged_tree')})
    out.append(r)
json.dump(out, open('/verif/seeded/SUMMARY.json', 'w'), indent=1)
n = len(out)
print(n, 'changes;', sum(1 for r in out if r['caught']), 'caught;', sum(1 for r in out if r['caught_with_failing_input']), 'with failing input;',
      sum(1 for r in out if r.get('replay_reproduces_with_change') and r.get('replay_silent_on_unchanged_tree')), 'with a replay that reproduces on the changed tree and is silent on the unchanged one')
