#!/bin/sh
# usage: try_mutant.sh PATCH Cxx [Cyy ...]   - apply a seeded change to /repo, run the quick checks, undo it
patch=$1; shift
cd /repo || exit 2
git diff --quiet || { echo "/repo not clean"; exit 2; }
git apply "$patch" || { echo "patch does not apply"; exit 2; }
for p in "$@"; do
  (cd /verif && ./check $p --tier quick 2>&1 | tail -4)
done
git -C /repo checkout -- .
git -C /repo status --short | head -3
