"""Regenerate the table of seeded changes in DESIGN.md (section 12.8) from seeded/<id>/{meta.json,patch.diff}."""
import glob, json, os, re

HEAD = '| id | change | file(s) | caught by | failing input |\n|---|---|---|---|---|\n'


def title(meta):
    for line in (meta.get('needs_to_manifest') or '').split('\n'):
        line = line.strip()
        if not line:
            continue
        line = re.sub(r'^#+\s*', '', line)
        line = re.sub(r'^(?:\(?C\d\d\)?|mut[A-Z]\b|[\s/:–—-])+', '', line)
        line = re.sub(r'^Change:\s*', '', line)
        if line:
            return line.replace('|', '/')[:150]
    return (meta.get('breaks') or '')[:150]


def files(d):
    out = []
    for l in open(d + '/patch.diff', errors='replace'):
        m = re.match(r'\+\+\+ b/(\S+)', l)
        if m:
            out.append(m.group(1).replace('trashcli/', '', 1))
    return ', '.join(sorted(set(out)))


def rows():
    for d in sorted(glob.glob('/verif/seeded/C??-?')):
        meta = json.load(open(d + '/meta.json'))
        r = meta.get('check_result') or {}
        t, o = r.get('tie_disagreements') or 0, r.get('oracle_failures') or 0
        by = ' / '.join(x for x in ('T %d' % t if t else '', 'O %d' % o if o else '') if x) or ('theorem / tie' if r.get('caught') else 'MISSED')
        yield '| %s | %s | `%s` | %s | %s |\n' % (os.path.basename(d), title(meta), files(d), by,
                                                   'yes' if r.get('with_failing_input') else ('tie only' if r.get('caught') else 'no'))


def main():
    text = open('/verif/DESIGN.md').read()
    i = text.index(HEAD)
    j = text.index('\n\n', i + len(HEAD))
    text = text[:i] + HEAD + ''.join(rows()).rstrip('\n') + text[j:]
    open('/verif/DESIGN.md', 'w').write(text)


if __name__ == '__main__':
    main()
