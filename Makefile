# /verif top-level: build the Coq development (proofs + extraction) and the model driver.
.PHONY: setup coq driver clean
JOBS ?= 12
setup: coq driver
coq:
	cd coq && coq_makefile -f _CoqProject -o Makefile.coq >/dev/null && timeout 3000 $(MAKE) -f Makefile.coq -j$(JOBS)
driver: coq
	cd driver && ocamlfind ocamlopt -O2 -w -a model.mli model.ml main.ml -o modelrun
clean:
	cd coq && [ -f Makefile.coq ] && $(MAKE) -f Makefile.coq clean || true
	rm -f driver/model.ml driver/model.mli driver/*.cm* driver/*.o driver/modelrun
