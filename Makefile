# /verif top-level: build the Coq development (proofs + extraction) and the model driver.
.PHONY: setup coq clean
JOBS ?= 12
setup: driver/modelrun
coq:
	cd coq && coq_makefile -f _CoqProject -o Makefile.coq >/dev/null && timeout 3000 $(MAKE) -f Makefile.coq -j$(JOBS)
driver/model.ml: coq
driver/modelrun: coq driver/main.ml driver/model.ml
	@if [ ! -x driver/modelrun ] || [ driver/model.ml -nt driver/modelrun ] || [ driver/main.ml -nt driver/modelrun ]; then \
	  cd driver && ocamlfind ocamlopt -O2 -w -a model.mli model.ml main.ml -o modelrun; fi
clean:
	cd coq && [ -f Makefile.coq ] && $(MAKE) -f Makefile.coq clean || true
	rm -f driver/model.ml driver/model.mli driver/*.cm* driver/*.o driver/modelrun
