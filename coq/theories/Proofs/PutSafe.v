(* trash-put: the parts of the command that only probe, create directories, read the clock and log at
   DEBUG level - verified once for every program logic that accepts those operations. *)
From TV Require Import Prelude.Str Prelude.PosixPath Prelude.Utf8 Codec.Quote Codec.DateFmt Codec.TrashInfo
  Logic.OrigLoc Logic.Reply Prog.Prog Cmd.Put Cmd.Scan Proofs.ProgProofs Proofs.PLogic Proofs.ScanProofs Proofs.TrashInfoProofs Proofs.PathProofs Proofs.PurgeProofs.
Open Scope N_scope.

(* what the written info file must be: text from which the shared reader gets a Path back *)
Definition parseable (b : bytes) : bool :=
  match read_text b with Some txt => match parse_path txt with Some _ => true | None => false end | None => false end.

Definition is_cannot_trash (t : str) : bool := starts_with t ($"cannot trash ").
Definition put_plain (o : op) : bool :=
  match o with
  | OpenExcl _ | WriteFd _ | CloseFd | Remove _ | Rmtree _ | Move _ _ | Input _ | Makedirs _ _ => false
  | Log INFO _ _ => false
  | Log WARNING _ t => negb (is_cannot_trash t)
  | _ => true
  end.

(* the base name of an info file trash-put creates: slash-free and ending in ".trashinfo" *)
Lemma dec_of_Z_noslash z : mem c_slash (dec_of_Z z) = false.
Proof. destruct z; simpl; [reflexivity|apply dec_of_N_noslash|apply dec_of_N_noslash]. Qed.
Lemma ctb_noslash base suffix ntl : mem c_slash base = false -> mem c_slash suffix = false ->
  mem c_slash (create_trashinfo_basename base suffix ntl) = false.
Proof.
  intros Hb Hs. unfold create_trashinfo_basename. rewrite !mem_app. rewrite Hs. simpl.
  destruct ntl; [|rewrite Hb; reflexivity].
  destruct (Nat.leb _ _); rewrite firstn_mem by exact Hb; reflexivity.
Qed.
Lemma ctb_ends base suffix ntl : ends_with (create_trashinfo_basename base suffix ntl) s_trashinfo = true.
Proof.
  unfold create_trashinfo_basename. rewrite app_assoc. apply ends_with_app. reflexivity.
Qed.
Definition wf_data (d : trashinfo_data) : Prop :=
  parseable (td_content d) = true /\ mem c_slash (td_basename d) = false /\ exists D, td_info_dir d = join2 D s_info.
Lemma info_path_of_data d suffix ntl : wf_data d -> mem c_slash suffix = false ->
  is_info_path (join2 (td_info_dir d) (create_trashinfo_basename (td_basename d) suffix ntl)) = true.
Proof.
  intros [_ [Hb [D HD]]] Hs. rewrite HD. apply is_info_path_join; [apply ctb_noslash; assumption|apply ctb_ends].
Qed.

Section PutSafe.
Variable L : plogic.
Hypothesis Hplain : forall o, put_plain o = true -> OKop L o.
Hypothesis Hmk : forall p, OKop L (Makedirs p 448).   (* every directory trash-put creates is created 0700 *)
Notation TT := (T L).
Ltac aret := first [apply T_ret; exact I | apply T_throw].
Ltac plain := apply Hplain; reflexivity.
Lemma Hscan_put o : scan_op o = true -> OKop L o.
Proof. intros H. apply Hplain. destruct o; try discriminate; reflexivity. Qed.

Lemma safe_describe p : TT (describe p) (fun _ => True).
Proof.
  unfold describe. eapply T_bind; [apply T_call_bool; plain|]. intros l _. destruct l; [aret|].
  eapply T_bind; [apply T_call_bool; plain|]. intros d _. destruct d; [aret|].
  eapply T_bind; [apply T_call_bool; plain|]. intros f _. destruct f.
  - eapply T_bind; [apply T_call_z; plain|]. intros; aret.
  - eapply T_bind; [apply T_call_bool; plain|]. intros; aret.
Qed.

Lemma safe_volume_of_parent p : TT (volume_of_parent p) (fun _ => True).
Proof. unfold volume_of_parent. eapply T_bind; [apply T_call_str; plain|]. intros pr _. apply (safe_volume_of L Hscan_put). Qed.

Lemma safe_home_trash_dir ps : TT (home_trash_dir ps) (fun _ => True).
Proof.
  induction ps as [|p ps IH]; simpl; [aret|].
  eapply T_bind; [apply (safe_volume_of L Hscan_put)|]. intros v _. eapply T_bind; [apply IH|]. intros; aret.
Qed.

Lemma safe_possible_trash_directories_for volume o : TT (possible_trash_directories_for volume o) (fun _ => True).
Proof.
  unfold possible_trash_directories_for. destruct (po_trash_dir o) as [[|c x]|].
  2:{ eapply T_bind; [apply (safe_volume_of L Hscan_put)|]. intros; aret. }
  all: (eapply T_bind; [apply safe_home_trash_dir|]; intros homes _; destruct (po_home_fallback o); [|aret];
        eapply T_bind; [apply safe_home_trash_dir|]; intros; aret).
Qed.

Lemma safe_check_secure c : TT (check_trash_dir_is_secure c) (fun _ => True).
Proof.
  unfold check_trash_dir_is_secure. destruct (c_check c); [aret|].
  eapply T_bind; [apply T_call_bool; plain|]. intros e _. destruct e; simpl; [|aret].
  eapply T_bind; [apply T_call_bool; plain|]. intros d _. destruct d; simpl; [|aret].
  eapply T_bind; [apply T_call_bool; plain|]. intros l _. destruct l; simpl; [aret|].
  eapply T_bind; [apply T_call_stat; plain|]. intros st _. destruct (has_sticky (fst st)); aret.
Qed.

Lemma safe_gate volume c env : TT (file_could_be_trashed_in volume c env) (fun _ => True).
Proof.
  unfold file_could_be_trashed_in. destruct (c_gate c); [aret|].
  eapply T_bind; [apply T_call_str; plain|]. intros rp _.
  eapply T_bind; [apply (safe_volume_of L Hscan_put)|]. intros; aret.
Qed.

Lemma safe_mkdir_p p : TT (mkdir_p p 448) (fun _ => True).
Proof.
  unfold mkdir_p. apply T_catch; [apply T_call_unit; apply Hmk|].
  intros e q He. destruct (is_OSError e); inversion He.
  eapply T_bind; [apply T_call_bool; plain|]. intros d _. destruct d; aret.
Qed.

Lemma safe_make_candidate_dirs c : TT (make_candidate_dirs c) (fun _ => True).
Proof.
  unfold make_candidate_dirs. apply T_catch.
  - apply T_seq; [apply safe_mkdir_p|]. apply T_seq; [apply safe_mkdir_p|]. apply T_seq; [apply safe_mkdir_p|aret].
  - intros e q He. destruct (is_OSError e); inversion He. aret.
Qed.

Lemma safe_make_trashinfo_data path c :
  TT (make_trashinfo_data path c)
     (fun r => match r with inl d => wf_data d /\ td_info_dir d = cand_info_dir c | inr _ => True end).
Proof.
  unfold make_trashinfo_data. apply T_catch.
  - eapply T_bind; [apply T_call_str; plain|]. intros pr _.
    eapply T_bind; [apply T_call_date; plain|]. intros now _.
    destruct (format_trashinfo _ now) as [content|] eqn:Ef; [|aret].
    apply T_ret. split; [|reflexivity]. split; [|split; [apply basename_noslash|exists (c_path c); reflexivity]]. simpl. unfold parseable.
    destruct (parse_path_format_lemma _ _ _ Ef) as [txt [Hr Hp]]. rewrite Hr, Hp. reflexivity.
  - intros e q He. destruct (is_OSError e || is_UnicodeError e); inversion He. apply T_ret. exact I.
Qed.

Lemma safe_suffix_for_index i : TT (suffix_for_index i) (fun sfx => mem c_slash sfx = false).
Proof.
  unfold suffix_for_index. destruct i; [apply T_ret; reflexivity|]. destruct (Nat.ltb (S i) 100); [apply T_ret; apply dec_of_N_noslash|].
  eapply T_bind; [apply T_call_z; plain|]. intros z _. apply T_ret. apply dec_of_Z_noslash.
Qed.

Lemma safe_log_failures path fs : TT (log_failures path fs) (fun _ => True).
Proof.
  induction fs as [|[c r] fs IH]; simpl; [aret|]. destruct (reason_text r path c) as [t ex].
  apply T_seq; [|apply IH]. unfold log. apply T_call_unit. apply Hplain. reflexivity.
Qed.
End PutSafe.
