(* Generic lemmas about the file-system model (World/World.v): path algebra of strip/under, probes change
   nothing, what each mutator can touch, soundness of the executable fragment, and a program logic
   (awp) whose state is the world - so that statements about the tree of files can be proved for every
   run of a program, every world and every fault pattern. *)
From TV Require Import Prelude.Str Prelude.PosixPath Prog.Prog World.World Proofs.ProgProofs Proofs.PLogic Proofs.OrigLocProofs.
From Coq Require Import Lia.
Open Scope N_scope.
Local Arguments N.eqb : simpl never.

(* ---------------------------------------------------------------- strings *)
Lemma str_eqb_sym a : forall b, str_eqb a b = str_eqb b a.
Proof. induction a as [|x a IH]; destruct b as [|y b]; simpl; auto. rewrite N.eqb_sym. rewrite IH. reflexivity. Qed.
Lemma str_eqb_false a b : str_eqb a b = false -> a <> b.
Proof. intros H E. subst b. rewrite str_eqb_refl in H. discriminate. Qed.
Lemma str_eqb_neq a b : a <> b -> str_eqb a b = false.
Proof. intros H. destruct (str_eqb a b) eqn:E; [|reflexivity]. apply str_eqb_true in E. contradiction. Qed.

(* ---------------------------------------------------------------- strip / under *)
Lemma strip_app d : forall q rest, strip d q = Some rest -> q = d ++ rest.
Proof.
  induction d as [|a d IH]; intros q rest H.
  - destruct q as [|c q]; simpl in H; [inversion H; reflexivity|]. destruct (N.eqb c c_slash); inversion H. reflexivity.
  - destruct q as [|b q]; simpl in H; [discriminate|]. destruct (N.eqb_spec a b); [|discriminate]. subst b.
    simpl. f_equal. apply IH. exact H.
Qed.
Lemma strip_refl d : strip d d = Some [].
Proof. induction d as [|a d IH]; simpl; [reflexivity|]. rewrite N.eqb_refl. exact IH. Qed.
Lemma under_refl d : under d d = true.
Proof. unfold under. rewrite strip_refl. reflexivity. Qed.
Lemma strip_rest_shape d : forall q rest, strip d q = Some rest -> rest = [] \/ exists r, rest = c_slash :: r.
Proof.
  induction d as [|a d IH]; intros q rest H.
  - destruct q as [|c q]; simpl in H; [inversion H; auto|]. destruct (N.eqb_spec c c_slash); inversion H. subst. right. eauto.
  - destruct q as [|b q]; simpl in H; [discriminate|]. destruct (N.eqb a b); [|discriminate]. eapply IH. exact H.
Qed.
Lemma strip_intro d rest : (rest = [] \/ exists r, rest = c_slash :: r) -> strip d (d ++ rest) = Some rest.
Proof.
  intros Hr. induction d as [|a d IH]; simpl.
  - destruct Hr as [Hr|[r Hr]]; subst rest; [reflexivity|]. rewrite N.eqb_refl. reflexivity.
  - rewrite N.eqb_refl. exact IH.
Qed.
Lemma under_length d q : under d q = true -> (length d <= length q)%nat.
Proof.
  unfold under. destruct (strip d q) as [rest|] eqn:E; [|discriminate]. intros _.
  apply strip_app in E. subst q. rewrite app_length. lia.
Qed.
Lemma below_length d q : below d q = true -> (length d < length q)%nat.
Proof.
  unfold below. intros H. apply andb_true_iff in H. destruct H as [Hu Hn]. unfold under in Hu.
  destruct (strip d q) as [rest|] eqn:E; [|discriminate]. apply strip_app in E. subst q.
  destruct rest as [|c rest]; [rewrite app_nil_r in Hn; rewrite str_eqb_refl in Hn; discriminate|].
  rewrite app_length. simpl. lia.
Qed.
Lemma under_antisym a b : under a b = true -> under b a = true -> a = b.
Proof.
  intros H1 H2. pose proof (under_length _ _ H1). pose proof (under_length _ _ H2).
  unfold under in H1. destruct (strip a b) as [rest|] eqn:E; [|discriminate]. apply strip_app in E. subst b.
  rewrite app_length in *. destruct rest; [rewrite app_nil_r; reflexivity|simpl in *; lia].
Qed.
Lemma under_trans a b c : under a b = true -> under b c = true -> under a c = true.
Proof.
  unfold under. destruct (strip a b) as [r1|] eqn:E1; [|discriminate]. destruct (strip b c) as [r2|] eqn:E2; [|discriminate].
  intros _ _. pose proof (strip_rest_shape _ _ _ E1) as S1. pose proof (strip_rest_shape _ _ _ E2) as S2.
  apply strip_app in E1. apply strip_app in E2. subst b c. rewrite <- app_assoc. rewrite strip_intro; [reflexivity|].
  destruct S1 as [S1|[r S1]]; subst r1; simpl; [exact S2|right; eauto].
Qed.
Lemma below_under a q : below a q = true -> under a q = true.
Proof. unfold below. intros H. apply andb_true_iff in H. tauto. Qed.
Lemma below_ne a q : below a q = true -> q <> a.
Proof. unfold below. intros H. apply andb_true_iff in H. destruct H as [_ H]. apply negb_true_iff in H. apply str_eqb_false. exact H. Qed.

Lemma app_prefix {A} (a : list A) : forall b r1 r2, a ++ r1 = b ++ r2 -> (length a <= length b)%nat -> exists m, b = a ++ m /\ r1 = m ++ r2.
Proof.
  induction a as [|x a IH]; intros b r1 r2 H Hl; simpl in *; [exists b; auto|].
  destruct b as [|y b]; [simpl in Hl; lia|]. simpl in H. inversion H; subst. simpl in Hl.
  destruct (IH b r1 r2 H2 ltac:(lia)) as [m [Hm Hr]]. exists m. subst. auto.
Qed.
Lemma under_prefix a m r1 r2 : (r1 = [] \/ exists r, r1 = c_slash :: r) -> r1 = m ++ r2 -> under a (a ++ m) = true.
Proof.
  intros S1 Hr. unfold under. rewrite strip_intro; [reflexivity|].
  destruct m as [|c m]; [auto|]. destruct S1 as [S1|[x S1]]; [subst r1; discriminate|].
  simpl in Hr. rewrite S1 in Hr. inversion Hr. right; eauto.
Qed.
(* two paths with a common descendant are comparable *)
Lemma under_both a b q : under a q = true -> under b q = true -> under a b = true \/ under b a = true.
Proof.
  unfold under at 1 2. destruct (strip a q) as [r1|] eqn:E1; [|discriminate]. destruct (strip b q) as [r2|] eqn:E2; [|discriminate].
  intros _ _. pose proof (strip_rest_shape _ _ _ E1) as S1. pose proof (strip_rest_shape _ _ _ E2) as S2.
  apply strip_app in E1. apply strip_app in E2. subst q.
  destruct (Nat.le_gt_cases (length a) (length b)) as [Hl|Hl].
  - destruct (app_prefix a b r1 r2 E2 Hl) as [m [Hm Hr]]. subst b. left. apply (under_prefix a m r1 r2 S1 Hr).
  - symmetry in E2. destruct (app_prefix b a r2 r1 E2 ltac:(lia)) as [m [Hm Hr]]. subst a. right. apply (under_prefix b m r2 r1 S2 Hr).
Qed.

(* ---------------------------------------------------------------- single steps *)
Lemma upd_same w p n : upd w p n p = n.
Proof. unfold upd. rewrite str_eqb_refl. reflexivity. Qed.
Lemma upd_other w p n q : q <> p -> upd w p n q = w q.
Proof. intros H. unfold upd. rewrite (str_eqb_neq _ _ H). reflexivity. Qed.

Lemma same_refl s : same s s.
Proof. split; auto. Qed.
Lemma same_trans a b c : same a b -> same b c -> same a c.
Proof. intros [H1 H2] [H3 H4]. split; [congruence|]. intros q. rewrite H4. apply H2. Qed.

(* operations that are not mutators leave the world as it is *)
Lemma effect_probe s o r s' : is_mutator o = false -> effect s o r s' -> same s s'.
Proof.
  intros Hm He. destruct o; try discriminate Hm; simpl in He; try exact He; destruct r; try exact He; tauto.
Qed.

(* the paths an operation can touch *)
Definition touches (s : wstate) (o : op) (q : str) : Prop :=
  match o with
  | OpenExcl p | Remove p => q = p
  | WriteFd _ => wfd s = Some q
  | Rmtree p => under p q = true
  | Move src dst => under src q = true \/ under dst q = true
  | Makedirs p _ => under q p = true
  | _ => False
  end.
Lemma effect_frame s o r s' q : effect s o r s' -> ~ touches s o q -> wfs s' q = wfs s q.
Proof.
  intros He Hq. destruct o; simpl in He, Hq.
  all: try solve [destruct r; try solve [destruct He as [_ He]; exact (He _)]; destruct He as [[_ He] _]; apply He].
  all: try solve [destruct He as [_ He]; apply He].
  - (* Makedirs *) destruct He as [_ [He _]]. destruct (He q) as [H|[_ [_ H]]]; [exact H|contradiction].
  - (* OpenExcl *) destruct r; try solve [destruct He as [_ He]; exact (He _)]. destruct He as [_ [_ He]]. rewrite He. apply upd_other. exact Hq.
  - (* WriteFd *) destruct r; try solve [destruct He as [_ He]; exact (He _)].
    + destruct He as [p [c [Hfd [_ [_ He]]]]]. rewrite He. apply upd_other. intros E. subst q. contradiction.
    + destruct He as [p [c [b' [Hfd [_ [_ He]]]]]]. rewrite He. apply upd_other. intros E. subst q. contradiction.
  - (* Move *) destruct r; try solve [destruct He as [_ He]; exact (He _)]. destruct He as [_ [_ [_ [_ [He _]]]]]. apply He.
    + destruct (under src q); [exfalso; auto|reflexivity].
    + destruct (under dst q); [exfalso; auto|reflexivity].
  - (* Remove *) destruct r; try solve [destruct He as [_ He]; exact (He _)]. destruct He as [_ [_ He]]. rewrite He. apply upd_other. exact Hq.
  - (* Rmtree *) destruct r; try solve [destruct He as [_ He]; exact (He _)].
    + destruct He as [_ He]. rewrite He. unfold rm_tree. destruct (under p q); [exfalso; auto|reflexivity].
    + destruct He as [_ He]. destruct (He q) as [H|[H _]]; [exact H|contradiction].
Qed.

(* ---------------------------------------------------------------- runs *)
Lemma wrun_app s t1 : forall t2 s', wrun s (t1 ++ t2) s' -> exists s1, wrun s t1 s1 /\ wrun s1 t2 s'.
Proof.
  revert s. induction t1 as [|[o r] t1 IH]; intros s t2 s' H; simpl in H.
  - exists s. split; [constructor|exact H].
  - inversion H; subst. destruct (IH _ _ _ H6) as [s2 [Ha Hb]]. exists s2. split; [econstructor; eauto|exact Hb].
Qed.
Lemma wrun_wf s t s' : wrun s t s' -> wf (wfs s) -> wf (wfs s').
Proof. induction 1 as [|s o r s1 t s' [_ Hw] _ IH]; auto. Qed.

(* a run without mutators changes nothing *)
Lemma wrun_probes s t s' : Forall (fun p => is_mutator (fst p) = false) t -> wrun s t s' -> same s s'.
Proof.
  intros Hf Hr. induction Hr as [|s o r s1 t s' [He _] _ IH]; [apply same_refl|].
  inversion Hf; subst. eapply same_trans; [eapply effect_probe; eauto|apply IH; assumption].
Qed.

(* what a run whose only mutators are removals can change: only paths at or below a removed target *)
Lemma wrun_removals s t s' q :
  Forall (fun p => match fst p with
                   | Remove d | Rmtree d => under d q = false
                   | o => is_mutator o = false
                   end) t ->
  wrun s t s' -> wfs s' q = wfs s q.
Proof.
  intros Hf Hr. induction Hr as [|s o r s1 t s' [He _] _ IH]; [reflexivity|].
  inversion Hf as [|x l Ho Hl]; subst. rewrite (IH Hl). simpl in Ho.
  destruct o; try (match type of He with effect ?a ?b ?c ?d => destruct (effect_probe a b c d eq_refl He) as [_ H] end; apply H); try discriminate Ho.
  - eapply effect_frame; [exact He|]. simpl. intros E. rewrite E in Ho. rewrite under_refl in Ho. discriminate.
  - eapply effect_frame; [exact He|]. simpl. rewrite Ho. discriminate.
Qed.

(* removals never create anything *)
Lemma wrun_removals_absent s t s' q :
  Forall (fun p => match fst p with Remove _ | Rmtree _ => True | o => is_mutator o = false end) t ->
  wrun s t s' -> wfs s q = None -> wfs s' q = None.
Proof.
  intros Hf Hr. induction Hr as [|s o r s1 t s' [He _] _ IH]; [auto|].
  inversion Hf as [|x l Ho Hl]; subst. intros Hq. apply (IH Hl). simpl in Ho.
  destruct o; try (match type of He with effect ?a ?b ?c ?d => destruct (effect_probe a b c d eq_refl He) as [_ H] end; rewrite H; exact Hq); try discriminate Ho.
  - simpl in He. destruct r; try (destruct He as [_ He]; rewrite He; exact Hq).
    destruct He as [_ [_ He]]. rewrite He. unfold upd. destruct (str_eqb q p); [reflexivity|exact Hq].
  - simpl in He. destruct r; try (destruct He as [_ He]; rewrite He; exact Hq).
    + destruct He as [_ He]. rewrite He. unfold rm_tree. destruct (under p q); [reflexivity|exact Hq].
    + destruct He as [_ He]. destruct (He q) as [H|[_ H]]; [rewrite H; exact Hq|exact H].
Qed.

(* ---------------------------------------------------------------- the executable fragment is sound *)
Lemma add_dirs_spec l : forall w q, add_dirs w l q = w q \/ (w q = None /\ add_dirs w l q = Some NDir /\ In q l).
Proof.
  induction l as [|a l IH]; intros w q; simpl; [auto|].
  destruct (w a) eqn:Ea.
  - destruct (IH w q) as [H|[H1 [H2 H3]]]; [auto|right; auto].
  - destruct (IH (upd w a (Some NDir)) q) as [H|[H1 [H2 H3]]].
    + rewrite H. unfold upd. destruct (str_eqb q a) eqn:E; [|auto]. apply str_eqb_true in E. subst q. right. auto.
    + unfold upd in H1. destruct (str_eqb q a) eqn:E; [discriminate|]. right. auto.
Qed.
Lemma add_dirs_keeps l : forall w q, w q <> None -> add_dirs w l q = w q.
Proof. intros w q H. destruct (add_dirs_spec l w q) as [E|[E _]]; [exact E|contradiction]. Qed.
Lemma add_dirs_in l : forall w q, In q l -> add_dirs w l q <> None.
Proof.
  induction l as [|a l IH]; intros w q Hin; [contradiction|]. simpl. destruct Hin as [E|Hin]; [subst a|apply IH; exact Hin].
  destruct (w q) eqn:Eq.
  - rewrite add_dirs_keeps; rewrite Eq; discriminate.
  - rewrite add_dirs_keeps; rewrite upd_same; discriminate.
Qed.
Lemma ancestors_aux_under rest : forall pre a, In a (ancestors_aux pre rest) -> under a (pre ++ rest) = true.
Proof.
  induction rest as [|c rest IH]; intros pre a Hin; simpl in Hin; [contradiction|].
  apply in_app_or in Hin. destruct Hin as [Hin|Hin].
  - destruct (N.eqb_spec c c_slash); [|contradiction]. subst c. destruct pre as [|x pre]; [contradiction|].
    destruct Hin as [E|[]]. subst a. unfold under. rewrite strip_intro; [reflexivity|right; eauto].
  - specialize (IH (pre ++ [c]) a Hin). rewrite <- app_assoc in IH. exact IH.
Qed.
Lemma ancestors_or_self_under p a : In a (ancestors_or_self p) -> under a p = true.
Proof.
  unfold ancestors_or_self. intros H. apply in_app_or in H. destruct H as [H|[H|[]]].
  - apply (ancestors_aux_under p [] a H).
  - subst a. apply under_refl.
Qed.

Definition probe_ok (s : wstate) (o : op) (r : res) : Prop :=
  match r with RBool b => match wprobe s o with Some b' => b = b' | None => True end | _ => True end.

Lemma wapply_effect s o r s' : wf (wfs s) -> wapply s o r = Some s' -> probe_ok s o r -> effect s o r s'.
Proof.
  intros Hwf H Hp. destruct o; simpl in H |- *.
  all: try solve [destruct r; inversion H; subst; apply same_refl].
  - (* Lexists *) destruct r; inversion H; subst; try apply same_refl. split; [apply same_refl|exact Hp].
  - (* Exists *) destruct r; inversion H; subst; try apply same_refl. split; [apply same_refl|].
    unfold probe_ok, wprobe in Hp. destruct (wfs s' p) as [[c| |]|]; subst; split; intros; try discriminate; auto.
  - (* Isdir *) destruct r; inversion H; subst; try apply same_refl. split; [apply same_refl|].
    unfold probe_ok, wprobe in Hp. destruct (wfs s' p) as [[c| |]|]; subst; split; intros; try discriminate; auto.
  - (* Makedirs *)
    assert (Hfail : r <> RUnit -> match wfs s p with Some _ => Some s | None => None end = Some s' ->
              wfd s' = wfd s /\ (forall q, wfs s' q = wfs s q \/ wfs s q = None /\ wfs s' q = Some NDir /\ under q p = true) /\ (r = RUnit -> wfs s' p = Some NDir)).
    { intros Hr Hs. destruct (wfs s p); inversion Hs; subst. split; [reflexivity|]. split; [auto|]. intros E. contradiction. }
    destruct r; try (apply Hfail; [discriminate|exact H]).
    destruct (add_dirs (wfs s) (ancestors_or_self p) p) as [[c| |]|] eqn:Ep; try discriminate H. inversion H; subst. simpl.
    split; [reflexivity|]. split; [|intros _; exact Ep]. intros q.
    destruct (add_dirs_spec (ancestors_or_self p) (wfs s) q) as [E|[E1 [E2 E3]]]; [left; exact E|right].
    repeat split; auto. apply ancestors_or_self_under. exact E3.
  - (* OpenExcl *) destruct r; inversion H; subst; try apply same_refl.
    destruct (wfs s p) eqn:Ep; [discriminate|]. inversion H; subst. simpl. auto.
  - (* WriteFd *) destruct r; try discriminate H.
    destruct (wfd s) as [p|] eqn:Efd; [|discriminate]. destruct (wfs s p) as [[c| |]|] eqn:Ep; try discriminate.
    inversion H; subst. exists p, c. simpl. auto.
  - (* CloseFd *) inversion H; subst. simpl. auto.
  - (* Move *) destruct r; inversion H; subst; try apply same_refl.
    destruct (wfs s src) eqn:Es; [|discriminate]. destruct (wfs s dst) eqn:Ed; [discriminate|].
    destruct (under src dst) eqn:Eu; [discriminate|]. destruct (under dst src) eqn:Eu'; [discriminate|].
    destruct (str_eqb dst []) eqn:Ee; [discriminate|]. inversion H; subst. simpl.
    assert (Hno : forall q, under dst q = true -> under src q = false).
    { intros q Hq. destruct (under src q) eqn:E; [|reflexivity]. destruct (under_both _ _ _ E Hq); congruence. }
    split; [congruence|]. split; [reflexivity|]. split; [reflexivity|]. split; [|split; [|split]].
    + intros q Hq. unfold mv_tree. destruct (strip dst q) eqn:E; [|rewrite Hq; reflexivity].
      rewrite Hno in Hq; [discriminate|unfold under; rewrite E; reflexivity].
    + intros q Hs Hd. unfold mv_tree. unfold under in Hd. destruct (strip dst q); [discriminate|]. rewrite Hs. reflexivity.
    + intros q Hs Hne Hex. unfold mv_tree. destruct (strip dst q) eqn:E; [|rewrite Hs; reflexivity].
      (* q is strictly below dst and exists: then dst would be a directory (wf), but it does not exist *)
      exfalso. assert (Hb : below dst q = true).
      { unfold below, under. rewrite E. simpl. apply negb_true_iff. apply str_eqb_neq. exact Hne. }
      assert (Hd : dst <> []) by (apply str_eqb_false; exact Ee).
      rewrite (Hwf q dst Hex Hb Hd) in Ed. discriminate.
    + reflexivity.
  - (* Remove *) destruct r; inversion H; subst; try apply same_refl.
    destruct (wfs s p) as [[c| |]|] eqn:Ep; try discriminate; inversion H; subst; simpl.
    + split; [exists (NFile c); split; [reflexivity|discriminate]|auto].
    + split; [exists NLink; split; [reflexivity|discriminate]|auto].
  - (* Rmtree *)
    assert (Hfail : match wfs s p with Some NDir => None | _ => Some s end = Some s' -> s' = s).
    { intros Hs. destruct (wfs s p) as [[c| |]|]; inversion Hs; reflexivity. }
    destruct r; try (rewrite (Hfail H); apply same_refl).
    + inversion H; subst. simpl. auto.
    + rewrite (Hfail H). split; [reflexivity|]. intros q. left. reflexivity.
Qed.

(* ---------------------------------------------------------------- a program logic over the world *)
(* awp A m Q E s: in every execution of m from world s that is consistent with the file-system model,
   the assertion A holds whenever an operation is issued, and m ends in a world satisfying Q (normal
   return) or E (exception).  Answers the model contradicts are not executions. *)
Section AWP.
Variable A : wstate -> op -> Prop.

Fixpoint awp {X} (m : prog X) (Q : wstate -> X -> Prop) (E : wstate -> exn -> Prop) (s : wstate) : Prop :=
  match m with
  | Ret a => Q s a
  | Throw e => E s e
  | Do o k => A s o /\ forall r, valid_res o r = true -> forall s', wstep s o r s' -> awp (k r) Q E s'
  end.

Lemma awp_ret {X} (a : X) (Q : wstate -> X -> Prop) (E : wstate -> exn -> Prop) s : Q s a -> awp (Ret a) Q E s.
Proof. intros H. exact H. Qed.
Lemma awp_throw {X} e (Q : wstate -> X -> Prop) (E : wstate -> exn -> Prop) s : E s e -> awp (Throw e) Q E s.
Proof. intros H. exact H. Qed.
Lemma awp_mono {X} (m : prog X) : forall (Q Q' : wstate -> X -> Prop) (E E' : wstate -> exn -> Prop) s,
  (forall s a, Q s a -> Q' s a) -> (forall s e, E s e -> E' s e) -> awp m Q E s -> awp m Q' E' s.
Proof.
  induction m as [a|e|o k IH]; cbn [awp]; intros Q Q' E E' s HQ HE H; auto.
  destruct H as [Ha Hk]. split; [exact Ha|]. intros r Hv s' Hs. eapply IH; eauto.
Qed.
Lemma awp_bind {X Y} (m : prog X) (f : X -> prog Y) : forall Q E s,
  awp m (fun s' a => awp (f a) Q E s') E s -> awp (bind m f) Q E s.
Proof.
  induction m as [a|e|o k IH]; intros Q E s; [rewrite bind_Ret|rewrite bind_Throw|rewrite bind_Do]; cbn [awp]; auto.
  intros [Ha Hk]. split; [exact Ha|]. intros r Hv s' Hs. apply IH. apply Hk; assumption.
Qed.
Lemma awp_catch {X} (m : prog X) (h : exn -> option (prog X)) : forall Q E s,
  awp m Q (fun s' e => match h e with Some p => awp p Q E s' | None => E s' e end) s -> awp (catch m h) Q E s.
Proof.
  induction m as [a|e|o k IH]; intros Q E s; [rewrite catch_Ret|rewrite catch_Throw|rewrite catch_Do]; cbn [awp]; auto.
  - intros H. destruct (h e); exact H.
  - intros [Ha Hk]. split; [exact Ha|]. intros r Hv s' Hs. apply IH. apply Hk; assumption.
Qed.
Lemma awp_call o (Q : wstate -> res -> Prop) (E : wstate -> exn -> Prop) s :
  A s o -> (forall r s', valid_res o r = true -> wstep s o r s' -> match r with RErr e => E s' e | _ => Q s' r end) ->
  awp (call o) Q E s.
Proof.
  intros Ha H. unfold call. cbn [awp]. split; [exact Ha|]. intros r Hv s' Hs. specialize (H r s' Hv Hs). destruct r; exact H.
Qed.
Lemma awp_call_bool o (Q : wstate -> bool -> Prop) (E : wstate -> exn -> Prop) s :
  bool_op o = true -> A s o -> (forall b s', wstep s o (RBool b) s' -> Q s' b) -> awp (call_bool o) Q E s.
Proof.
  intros Hb Ha H. unfold call_bool. apply awp_bind. apply awp_call; [exact Ha|]. intros r s' Hv Hs.
  destruct (valid_bool o r Hb Hv) as [b Hr]. subst r. cbn [awp]. apply H. exact Hs.
Qed.
Lemma awp_call_unit o (Q : wstate -> unit -> Prop) (E : wstate -> exn -> Prop) s :
  unit_op o = true -> A s o -> (forall s', wstep s o RUnit s' -> Q s' tt) ->
  (forall e s', is_OSError e = true -> wstep s o (RErr e) s' -> E s' e) -> awp (call_unit o) Q E s.
Proof.
  intros Hu Ha HQ HE. unfold call_unit. apply awp_bind. apply awp_call; [exact Ha|]. intros r s' Hv Hs.
  destruct (valid_unit o r Hu Hv) as [Hr|[e [Hr He]]]; subst r; [cbn [awp]; apply HQ; exact Hs|apply HE; assumption].
Qed.

Lemma all_runs_forall {X I} (R : I -> Prop) (m : prog X) : forall (P : I -> trace -> outcome X -> Prop),
  (forall i, R i -> all_runs (P i) m) -> all_runs (fun t out => forall i, R i -> P i t out) m.
Proof.
  induction m as [a|e|o k IH]; cbn [all_runs]; intros P H; [auto|auto|].
  intros r Hv. apply (IH r (fun i t out => P i ((o, r) :: t) out)). intros i Hi. apply (H i Hi r Hv).
Qed.

Definition post {X} (Q : wstate -> X -> Prop) (E : wstate -> exn -> Prop) (s : wstate) (out : outcome X) : Prop :=
  match out with Done a => Q s a | Uncaught e => E s e | Stuck => True end.

Lemma awp_sound {X} (m : prog X) : forall Q E s, awp m Q E s ->
  all_runs (fun t out => wok A s t /\ forall s', wrun s t s' -> post Q E s' out) m.
Proof.
  induction m as [a|e|o k IH]; cbn [awp all_runs]; intros Q E s H.
  - split; [exact I|]. intros s' Hr. inversion Hr; subst. exact H.
  - split; [exact I|]. intros s' Hr. inversion Hr; subst. exact H.
  - destruct H as [Ha Hk]. intros r Hv.
    assert (G : all_runs (fun t out => forall s1, wstep s o r s1 -> wok A s1 t /\ forall s', wrun s1 t s' -> post Q E s' out) (k r)).
    { apply (all_runs_forall (fun s1 => wstep s o r s1) (k r) (fun s1 t out => wok A s1 t /\ forall s', wrun s1 t s' -> post Q E s' out)).
      intros s1 Hs. apply IH. apply Hk; assumption. }
    revert G. apply all_runs_mono. intros t out G. split.
    + cbn [wok]. split; [exact Ha|]. intros s1 Hs. apply (G s1 Hs).
    + intros s' Hr. inversion Hr; subst. apply (G s1 H4). assumption.
Qed.
End AWP.
Global Arguments awp : simpl never.

(* the world logic as an instance of the generic interface: "from every world" *)
Definition world_logic (A : wstate -> op -> Prop) : plogic.
Proof.
  refine {| T := fun X m Q => forall s, awp A m (fun _ a => Q a) (fun _ _ => True) s; OKop := fun o => forall s, A s o |}.
  - intros X a Q H s. exact H.
  - intros X e Q s. exact I.
  - intros X m Q Q' HQ H s. eapply awp_mono; [intros s' a Ha; apply HQ; exact Ha|intros s' e He; exact He|apply H].
  - intros X Y m f Q' Q Hm Hf s. apply awp_bind. eapply awp_mono; [intros s' a Ha; apply Hf; exact Ha|intros s' e He; exact He|apply Hm].
  - intros X m h Q Hm Hh s. apply awp_catch. eapply awp_mono; [intros s' a Ha; exact Ha| |apply Hm].
    intros s' e _. destruct (h e) eqn:He; [apply (Hh e p He)|exact I].
  - intros o Ho s. apply awp_call; [apply Ho|]. intros r s' Hv _. destruct r; auto.
Defined.

(* ---------------------------------------------------------------- there and back *)
(* moving a tree to a free place and back again is the identity on the whole world *)
Lemma strip_under_app d rest : (rest = [] \/ exists r, rest = c_slash :: r) -> under d (d ++ rest) = true.
Proof. intros H. unfold under. rewrite strip_intro; [reflexivity|exact H]. Qed.

Lemma mv_tree_back w src dst :
  (forall q, under dst q = true -> w q = None) ->
  forall q, mv_tree (mv_tree w src dst) dst src q = w q.
Proof.
  intros Hfree q. unfold mv_tree at 1.
  destruct (strip src q) as [rest|] eqn:Es.
  - (* q is in the source tree: it comes back from dst ++ rest *)
    pose proof (strip_rest_shape _ _ _ Es) as Sh. apply strip_app in Es. subst q.
    unfold mv_tree. rewrite (strip_intro dst rest Sh). reflexivity.
  - destruct (under dst q) eqn:Ed.
    + (* q is in the destination tree: empty before, empty after *) symmetry. apply Hfree. exact Ed.
    + unfold mv_tree. unfold under in Ed. destruct (strip dst q) eqn:E2; [discriminate|].
      unfold under. rewrite Es. reflexivity.
Qed.
