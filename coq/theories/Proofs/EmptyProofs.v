(* trash-empty: no purge without consent (C14), against every answer the environment can give. *)
From TV Require Import Prelude.Str Prelude.PosixPath Codec.DateFmt Codec.TrashInfo Logic.Calendar Logic.Reply
  Prog.Prog Cmd.Put Cmd.Scan Cmd.Empty Proofs.ProgProofs Proofs.ScanProofs.

(* ---- the read-only part of trash-empty issues no mutator and asks nothing ---- *)
Definition quiet (o : op) (_ : res) : bool := negb (is_mutator o) && match o with Input _ | IsAtty => false | _ => true end.
Definition nomut (o : op) (_ : res) : bool := negb (is_mutator o).

Lemma quiet_scan o r : scan_op o = true -> quiet o r = true.
Proof. destruct o; try discriminate; reflexivity. Qed.
Lemma nomut_scan o r : scan_op o = true -> nomut o r = true.
Proof. destruct o; try discriminate; reflexivity. Qed.

Section ReadOnly.
Variable ok : op -> res -> bool.
Hypothesis Hscan : forall o r, scan_op o = true -> ok o r = true.
Hypothesis Hread : forall p r, ok (ReadText p) r = true.
Hypothesis Hnow : forall r, ok Now r = true.
Hypothesis Hlog : forall l e t r, ok (Log l e t) r = true.
Hypothesis Hout : forall e t r, ok (Out e t) r = true.

Lemma safe_entries_if_dir_exists p : safe ok (entries_if_dir_exists p) (fun l => forallb valid_name l = true).
Proof.
  unfold entries_if_dir_exists. eapply safe_bind; [apply safe_call_bool; intros; apply Hscan; reflexivity|].
  intros e _. destruct e; [apply safe_listdir; intros; apply Hscan; reflexivity|apply safe_ret; reflexivity].
Qed.

Lemma safe_list_trashinfo td : safe ok (list_trashinfo td)
  (fun l => forall p, In p l -> exists x, valid_name x = true /\ is_trashinfo_name x = true /\ p = join2 (join2 td s_info) x).
Proof.
  unfold list_trashinfo. eapply safe_bind; [apply safe_entries_if_dir_exists|].
  intros es Hes. apply safe_ret. intros p Hp. apply in_map_iff in Hp. destruct Hp as [x [Hx Hin]].
  apply filter_In in Hin. destruct Hin as [Hin Hti]. exists x. split; [|split; auto].
  rewrite forallb_forall in Hes. apply Hes. exact Hin.
Qed.

Lemma safe_get_now_value env : safe ok (get_now_value env) (fun _ => True).
Proof.
  unfold get_now_value. destruct (env_get env s_TRASH_DATE) as [v|]; [|apply safe_call_date; intros; apply Hnow].
  destruct (strptime_body v); [exact I|].
  apply safe_seq; [apply safe_call_unit; intros; apply Hlog|apply safe_call_date; intros; apply Hnow].
Qed.

Lemma safe_ok_to_delete o p : safe ok (ok_to_delete o p) (fun _ => True).
Proof.
  unfold ok_to_delete. destruct (eo_days o) as [days|]; [|exact I].
  eapply safe_bind with (Q' := fun _ => True).
  - apply safe_catch.
    + eapply safe_bind; [apply safe_call_str; intros; apply Hread|]. intros; exact I.
    + intros e p0 He. destruct (is_OSError e); [inversion He; exact I|]. destruct e; inversion He; exact I.
  - intros r _. destruct r as [contents|]; [|exact I].
    eapply safe_bind; [apply safe_get_now_value|]. intros now _.
    destruct (parse_deletion_date contents); [|exact I]. destruct (older_than days now d); exact I.
Qed.
End ReadOnly.

(* ---- --dry-run ---- *)
Lemma dispose_dry o p : eo_dry_run o = true -> safe nomut (dispose o p) (fun _ => True).
Proof. intros H. unfold dispose. rewrite H. apply safe_call_unit. reflexivity. Qed.

Lemma empty_trash_dir_dry o td : eo_dry_run o = true -> safe nomut (empty_trash_dir o td) (fun _ => True).
Proof.
  intros H. unfold empty_trash_dir.
  eapply safe_bind; [apply safe_list_trashinfo; auto using nomut_scan|]. intros infos _.
  apply safe_seq.
  - apply safe_for_each. intros p _. unfold empty_one_info.
    eapply safe_bind; [apply safe_ok_to_delete; auto using nomut_scan|]. intros b _. destruct b; [|exact I].
    apply safe_seq; apply dispose_dry; exact H.
  - eapply safe_bind; [apply safe_entries_if_dir_exists; auto using nomut_scan|]. intros es _.
    apply safe_for_each. intros x _. unfold empty_orphan.
    eapply safe_bind; [apply safe_call_bool; reflexivity|]. intros b _. destruct b; [exact I|apply dispose_dry; exact H].
Qed.

Lemma empty_handle_dry o u ev : eo_dry_run o = true -> safe nomut (empty_handle o u ev) (fun _ => True).
Proof. intros H. destruct ev; simpl; try exact I. apply empty_trash_dir_dry; exact H. Qed.

Theorem dry_run_no_mutation_lemma o : eo_dry_run o = true ->
  all_runs (fun t _ => Forall (fun p => is_mutator (fst p) = false) t) (empty_main o).
Proof.
  intros H. eapply all_runs_mono; [|apply (safe_sound nomut (empty_main o) (fun _ => True))].
  - intros t out [Ht _]. unfold trace_ok in Ht. eapply Forall_impl; [|exact Ht].
    intros [op r]. unfold nomut. simpl. destruct (is_mutator op); [discriminate|reflexivity].
  - unfold empty_main.
    eapply safe_bind; [apply safe_call_bool; reflexivity|]. intros tty _.
    apply safe_seq; [|exact I].
    destruct (match eo_interactive o with Some b => b | None => tty end).
    + eapply safe_bind.
      * apply (safe_select_trash_dirs nomut nomut_scan (fun acc ev => Ret (acc ++ [ev])) (fun _ => True)); auto;
        try (intros s ev _; exact I).
      * intros evs _. eapply safe_bind; [apply safe_call_str; reflexivity|]. intros reply _.
        destruct (parse_reply reply); [|exact I]. apply safe_for_each. intros ev _. apply empty_handle_dry; exact H.
    + apply (safe_select_trash_dirs nomut nomut_scan (empty_handle o) (fun _ => True)); auto;
      try (intros s ev _; apply empty_handle_dry; exact H).
Qed.

(* ---- consent: the monitor of "no mutation before/without a yes" ---- *)
Inductive consent := Unknown | Granted | Denied.
Definition consent_step (inter : option bool) (s : consent) (o : op) (r : res) : option consent :=
  match s with
  | Granted => Some Granted
  | Denied => if is_mutator o then None else Some Denied
  | Unknown =>
    if is_mutator o then None else
    match o, r with
    | IsAtty, RBool b => Some (match inter with Some true => Unknown | Some false => Granted | None => if b then Unknown else Granted end)
    | Input _, RStr reply => Some (if parse_reply reply then Granted else Denied)
    | Input _, _ => Some Denied
    | _, _ => Some Unknown
    end
  end.

Theorem consent_lemma o :
  all_runs (fun t _ => accepts (consent_step (eo_interactive o)) Unknown t <> None) (empty_main o).
Proof.
  eapply all_runs_mono; [|apply (wp_sound (consent_step (eo_interactive o)) (empty_main o) (fun _ _ => True) (fun _ _ => True) Unknown)].
  - intros t out [s' [Ha _]]. rewrite Ha. discriminate.
  - unfold empty_main. apply wp_bind. apply wp_call_bool.
    intros r Hv. destruct (valid_bool IsAtty r eq_refl Hv) as [[b Hr]|[n Hr]]; subst r.
    2:{ exists Unknown. split; [reflexivity|exact I]. }
    eexists. split; [reflexivity|]. apply wp_bind.
    eapply wp_mono with (Q := fun _ _ => True) (E := fun _ _ => True); [intros; exact I|auto|].
    assert (Hask : wp (consent_step (eo_interactive o))
      (evs <- select_trash_dirs (fun acc ev => Ret (acc ++ [ev])) (eo_trash_dirs o) (eo_environ o) (eo_uid o) [] ;;
       reply <- call_str (Input (prepare_output_message evs)) ;;
       if parse_reply reply then for_each evs (empty_handle o tt) else Ret tt) (fun _ _ => True) (fun _ _ => True) Unknown).
    { apply wp_bind.
      eapply wp_mono; [| |apply (safe_to_wp (consent_step (eo_interactive o)) quiet _ (fun _ => True) Unknown)].
      - intros s evs [Hs _]. subst s. apply wp_bind. apply wp_call_str.
        intros r Hv'. destruct r as [| |reply| | | | |e]; try discriminate.
        + eexists. split; [reflexivity|]. destruct (parse_reply reply); [apply wp_absorbing; reflexivity|exact I].
        + exists Denied. split; [destruct e; try discriminate; reflexivity|exact I].
      - auto.
      - intros op r Hq. unfold quiet in Hq. apply andb_true_iff in Hq. destruct Hq as [Hm Hin].
        unfold consent_step. destruct (is_mutator op); [discriminate|]. destruct op; try discriminate; try reflexivity.
      - apply (safe_select_trash_dirs quiet quiet_scan (fun acc ev => Ret (acc ++ [ev])) (fun _ => True)); auto;
        try (intros s ev _; exact I). }
    destruct (eo_interactive o) as [[|]|] eqn:Hi; [exact Hask|apply wp_absorbing; reflexivity|].
    destruct b; [exact Hask|apply wp_absorbing; reflexivity].
Qed.
