(* trash-empty: no purge without consent (C14), against every answer the environment can give. *)
From TV Require Import Prelude.Str Prelude.PosixPath Codec.DateFmt Codec.TrashInfo Logic.Calendar Logic.Reply
  Prog.Prog Cmd.Put Cmd.Scan Cmd.Empty Proofs.ProgProofs Proofs.PLogic Proofs.ScanProofs.

(* ---- --dry-run: no operation of any run is a mutator ---- *)
Definition nomut (o : op) : Prop := is_mutator o = false.
Definition NL := ops_logic nomut.
Lemma nomut_scan o : scan_op o = true -> OKop NL o.
Proof. destruct o; try discriminate; reflexivity. Qed.

Ltac aret := first [apply (T_ret NL); exact I | apply (T_throw NL)].

Lemma dispose_dry o p : eo_dry_run o = true -> T NL (dispose o p) (fun _ => True).
Proof. intros H. unfold dispose. rewrite H. apply (T_call_unit NL). reflexivity. Qed.

Lemma empty_trash_dir_dry o td : eo_dry_run o = true -> T NL (empty_trash_dir o td) (fun _ => True).
Proof.
  intros H. unfold empty_trash_dir.
  eapply (T_bind NL); [apply (safe_list_trashinfo NL nomut_scan)|]. intros infos _.
  apply (T_seq NL).
  - apply (T_for_each NL). intros p _. unfold empty_one_info.
    eapply (T_bind NL); [apply (safe_ok_to_delete NL); intros; reflexivity|]. intros b _. destruct b; [|aret].
    apply (T_seq NL); apply dispose_dry; exact H.
  - eapply (T_bind NL); [apply (safe_entries_if_dir_exists NL nomut_scan)|]. intros es _.
    apply (T_for_each NL). intros x _. unfold empty_orphan.
    eapply (T_bind NL); [apply (T_call_bool NL); reflexivity|]. intros b _. destruct b; [aret|apply dispose_dry; exact H].
Qed.

Lemma empty_handle_dry o u ev : eo_dry_run o = true -> T NL (empty_handle o u ev) (fun _ => True).
Proof. intros H. destruct ev; simpl; try aret. apply empty_trash_dir_dry; exact H. Qed.

Theorem dry_run_no_mutation_lemma o : eo_dry_run o = true ->
  all_runs (fun t _ => Forall (fun p => is_mutator (fst p) = false) t) (empty_main o).
Proof.
  intros H. eapply all_runs_mono; [|apply (ops_sat_sound nomut (empty_main o) (fun _ => True))].
  - intros t out [Ht _]. exact Ht.
  - change (T NL (empty_main o) (fun _ => True)). unfold empty_main.
    eapply (T_bind NL); [apply (T_call_bool NL); reflexivity|]. intros tty _.
    apply (T_seq NL); [|aret].
    destruct (match eo_interactive o with Some b => b | None => tty end).
    + eapply (T_bind NL).
      * apply (safe_select_trash_dirs NL nomut_scan (fun acc ev => Ret (acc ++ [ev])) (fun _ => True) (fun _ => True)); try apply select_events_true; auto;
        try (intros s ev _ _; aret).
      * intros evs _. eapply (T_bind NL); [apply (T_call_str NL); reflexivity|]. intros reply _.
        destruct (parse_reply reply); [|aret]. apply (T_for_each NL). intros ev _. apply empty_handle_dry; exact H.
    + apply (safe_select_trash_dirs NL nomut_scan (empty_handle o) (fun _ => True) (fun _ => True)); try apply select_events_true; auto;
      try (intros s ev _ _; apply empty_handle_dry; exact H).
Qed.

(* ---- consent: the monitor of "no mutation before/without a yes" ---- *)
Inductive consent := Unknown | Granted | Denied.
Definition consent_step (inter : option bool) (s : consent) (o : op) (r : res) : option consent :=
  match s with
  | Granted => Some Granted
  | Denied => if is_mutator o then None else Some Denied
  | Unknown =>
    if is_mutator o then None else
    match o, r with
    | IsAtty, RBool b => Some (match inter with Some true => Unknown | Some false => Granted | None => if b then Unknown else Granted end)
    | Input _, RStr reply => Some (if parse_reply reply then Granted else Denied)
    | Input _, _ => Some Denied
    | _, _ => Some Unknown
    end
  end.

(* the scan before the question neither mutates, nor asks, nor looks at the terminal *)
Definition quiet (o : op) (_ : res) : bool := negb (is_mutator o) && match o with Input _ | IsAtty => false | _ => true end.
Definition QL := asafe_logic (sstep quiet).
Lemma quiet_scan o : scan_op o = true -> OKop QL o.
Proof. intros H. apply accepted_sstep. intros r _. destruct o; try discriminate; reflexivity. Qed.

Theorem consent_lemma o :
  all_runs (fun t _ => accepts (consent_step (eo_interactive o)) Unknown t <> None) (empty_main o).
Proof.
  eapply all_runs_mono; [|apply (wp_sound (consent_step (eo_interactive o)) (empty_main o) (fun _ _ => True) (fun _ _ => True) Unknown)].
  - intros t out [s' [Ha _]]. rewrite Ha. discriminate.
  - unfold empty_main. apply wp_bind. apply wp_call_bool.
    intros r Hv. destruct (valid_bool IsAtty r eq_refl Hv) as [b Hr]; subst r.
    eexists. split; [reflexivity|]. apply wp_bind.
    eapply wp_mono with (Q := fun _ _ => True) (E := fun _ _ => True); [intros; exact I|auto|].
    assert (Hask : wp (consent_step (eo_interactive o))
      (evs <- select_trash_dirs (fun acc ev => Ret (acc ++ [ev])) (eo_all_users o) (eo_trash_dirs o) (eo_environ o) (eo_uid o) [] ;;
       reply <- call_str (Input (prepare_output_message evs)) ;;
       if parse_reply reply then for_each evs (empty_handle o tt) else Ret tt) (fun _ _ => True) (fun _ _ => True) Unknown).
    { apply wp_bind.
      eapply wp_mono; [| |apply (safe_to_wp (consent_step (eo_interactive o)) quiet _ (fun _ => True) Unknown)].
      - intros s evs [Hs _]. subst s. apply wp_bind. apply wp_call_str.
        intros r Hv'. destruct r as [| |reply| | | | |e]; try discriminate.
        + eexists. split; [reflexivity|]. destruct (parse_reply reply); [apply wp_absorbing; reflexivity|exact I].
        + exists Denied. split; [destruct e; try discriminate; reflexivity|exact I].
      - auto.
      - intros op r Hq. unfold quiet in Hq. apply andb_true_iff in Hq. destruct Hq as [Hm Hin].
        unfold consent_step. destruct (is_mutator op); [discriminate|]. destruct op; try discriminate; try reflexivity.
      - apply safe_of_asafe.
        apply (safe_select_trash_dirs QL quiet_scan (fun acc ev => Ret (acc ++ [ev])) (fun _ => True) (fun _ => True)); try apply select_events_true; auto;
        try (intros s ev _ _; apply (T_ret QL); exact I). }
    destruct (eo_interactive o) as [[|]|] eqn:Hi; [exact Hask|apply wp_absorbing; reflexivity|].
    destruct b; [exact Hask|apply wp_absorbing; reflexivity].
Qed.
