(* C09 - which trash directories the scanner hands to its consumer, as a function of what the file system says.
   The oracle-universal theorems let every answer vary from one operation to the next; here the opposite end is fixed: a file
   system that does not change while it is looked at (every operation has ONE answer, `statics`).  Under it a program is a
   function (`srun`), and the discovery code of trash-list / trash-empty / trash-rm is shown to be EXACTLY

       the consumer applied, in order, to the events of  user_events / all_users_events

   - a declarative list: for each user the home trash, then for every volume  $topdir/.Trash/$uid  when it exists and
   $topdir/.Trash is a sticky directory that is not a link (reported as skipped otherwise),  $topdir/.Trash-$uid  when it is a
   directory - for EVERY consumer (`sfold`), so no usable directory is left out, none is visited twice, and nothing else is
   visited.  `run_of_static` ties `srun` to the runs the other theorems speak about: a run all of whose answers are the static
   ones ends as `srun` says. *)
From TV Require Import Prelude.Str Prelude.PosixPath Prog.Prog Cmd.Put Cmd.Scan Cmd.ListCmd Proofs.ProgProofs Proofs.Independence.
Open Scope N_scope.

Definition statics := op -> res.

Fixpoint srun {A} (fs : statics) (m : prog A) : outcome A :=
  match m with
  | Ret a => Done a
  | Throw e => Uncaught e
  | Do o k => srun fs (k (fs o))
  end.

Definition then_run {A B} (x : outcome A) (f : A -> outcome B) : outcome B :=
  match x with Done a => f a | Uncaught e => Uncaught e | Stuck => Stuck end.

Lemma srun_bind {A B} fs (m : prog A) (f : A -> prog B) : srun fs (bind m f) = then_run (srun fs m) (fun a => srun fs (f a)).
Proof. induction m as [a|e|o k IH]; cbn [bind srun then_run]; auto; apply IH. Qed.

Lemma srun_call fs o : srun fs (call o) = match fs o with RErr e => Uncaught e | r => Done r end.
Proof. unfold call. cbn [srun]. destruct (fs o); reflexivity. Qed.

(* the tie to runs: a run whose every answer is the static one ends as srun says *)
Lemma run_of_static_lemma {A} fs (m : prog A) t out :
  run_of m t out -> Forall (fun p => snd p = fs (fst p)) t -> out = srun fs m.
Proof.
  induction 1 as [a|e|o k r t out Hv Hr IH]; intros Hf; cbn [srun]; auto.
  inversion Hf as [|p l Hp Hl]; subst. simpl in Hp. subst r. apply IH. exact Hl.
Qed.

(* ---- what the file system says ---- *)
Definition fs_true (fs : statics) (o : op) : bool := match fs o with RBool true => true | _ => false end.
Definition fs_sticky (fs : statics) (p : str) : bool := match fs (Stat p) with RStat m _ => has_sticky m | _ => false end.
Definition fs_mounts (fs : statics) : list str := match fs ListMounts with RList l => l | _ => [] end.

(* a file system that answers in the type of the question: the predicates answer yes or no, a directory can be stat'ed,
   the mount table can be read *)
Record sane (fs : statics) : Prop := {
  sane_bool : forall o, bool_op o = true -> exists b, fs o = RBool b;
  sane_stat : forall p, fs_true fs (Isdir p) = true -> exists m s, fs (Stat p) = RStat m s;
  sane_mounts : exists l, fs ListMounts = RList l }.

(* ---- the declarative list ---- *)
Definition top_events_of (fs : statics) (uid : N) (v : str) : list scan_event :=
  let top := join3 v ($".Trash") (dec_of_N uid) in
  let parent := dirname top in
  if fs_true fs (Exists top) then
    if fs_true fs (Isdir parent) && fs_sticky fs parent then
      if fs_true fs (Islink parent) then [SkippedSymlink top] else [Found top v]
    else [SkippedNotSticky top]
  else [].
Definition alt_events_of (fs : statics) (uid : N) (v : str) : list scan_event :=
  let alt := join2 v ($".Trash-" ++ dec_of_N uid) in
  if fs_true fs (Isdir alt) then [Found alt v] else [].
Definition volume_events (fs : statics) (uid : N) (v : str) : list scan_event := top_events_of fs uid v ++ alt_events_of fs uid v.
(* the volumes: TRASH_VOLUMES when set, else the mount points that are directories *)
Definition volumes_of (fs : statics) (env : environ) : list str :=
  match env_volumes env with
  | Some vols => vols
  | None => filter (fun m => fs_true fs (Isdir m)) (fs_mounts fs)
  end.
Definition user_events (fs : statics) (env : environ) (homes : list str) (uid : N) : list scan_event :=
  map (fun p => Found p [c_slash]) homes ++ flat_map (volume_events fs uid) (volumes_of fs env).
Definition all_users_events (fs : statics) (env : environ) (pw : list (str * N)) : list scan_event :=
  flat_map (fun u => user_events fs env [home_trash_dir_path_from_home (fst u)] (snd u)) pw.

(* the consumer applied to a list of events, one after the other *)
Fixpoint sfold {S} (fs : statics) (h : S -> scan_event -> prog S) (evs : list scan_event) (s : S) : outcome S :=
  match evs with
  | [] => Done s
  | ev :: r => then_run (srun fs (h s ev)) (sfold fs h r)
  end.
Lemma sfold_app {S} fs (h : S -> scan_event -> prog S) a : forall b s,
  sfold fs h (a ++ b) s = then_run (sfold fs h a s) (sfold fs h b).
Proof.
  induction a as [|ev a IH]; intros b s; cbn [app sfold then_run]; [reflexivity|].
  destruct (srun fs (h s ev)) as [s'| |]; cbn [then_run]; auto.
Qed.

Section Static.
Variable fs : statics.
Hypothesis Hsane : sane fs.
Context {S : Type}.
Variable h : S -> scan_event -> prog S.

Lemma srun_call_bool o : bool_op o = true -> srun fs (call_bool o) = Done (fs_true fs o).
Proof.
  intros Hb. destruct (sane_bool fs Hsane o Hb) as [b Hfs]. unfold call_bool, fs_true. rewrite srun_bind, srun_call, Hfs.
  destruct b; reflexivity.
Qed.

Lemma srun_is_sticky_dir p : srun fs (is_sticky_dir p) = Done (fs_true fs (Isdir p) && fs_sticky fs p).
Proof.
  unfold is_sticky_dir. rewrite srun_bind, srun_call_bool by reflexivity. cbn [then_run].
  destruct (fs_true fs (Isdir p)) eqn:Hd; cbn [andb srun]; [|reflexivity].
  destruct (sane_stat fs Hsane p Hd) as [m [sz Hst]]. unfold call_stat, fs_sticky. rewrite srun_bind, srun_bind, srun_call, Hst.
  reflexivity.
Qed.

Definition rule_of (top : str) : top_rule :=
  if fs_true fs (Exists top) then
    if fs_true fs (Isdir (dirname top)) && fs_sticky fs (dirname top) then
      if fs_true fs (Islink (dirname top)) then TopSymlink else TopValid
    else TopNotSticky
  else TopNotExist.
Lemma srun_valid_to_be_read top : srun fs (valid_to_be_read top) = Done (rule_of top).
Proof.
  unfold valid_to_be_read, rule_of. rewrite srun_bind, srun_call_bool by reflexivity. cbn [then_run].
  destruct (fs_true fs (Exists top)); cbn [negb srun]; [|reflexivity].
  rewrite srun_bind, srun_is_sticky_dir. cbn [then_run].
  destruct (fs_true fs (Isdir (dirname top)) && fs_sticky fs (dirname top)); cbn [negb srun]; [|reflexivity].
  rewrite srun_bind, srun_call_bool by reflexivity. cbn [then_run].
  destruct (fs_true fs (Islink (dirname top))); reflexivity.
Qed.

Lemma then_run_done {A} (x : outcome A) : then_run x (fun a => Done a) = x.
Proof. destruct x; reflexivity. Qed.

Lemma srun_scan_volume uid s v : srun fs (scan_volume h uid s v) = sfold fs h (volume_events fs uid v) s.
Proof.
  unfold scan_volume, volume_events. rewrite sfold_app. rewrite srun_bind, srun_valid_to_be_read. cbn [then_run].
  rewrite srun_bind. unfold top_events_of, alt_events_of, rule_of.
  set (top := join3 v ($".Trash") (dec_of_N uid)). set (alt := join2 v ($".Trash-" ++ dec_of_N uid)).
  assert (Halt : forall s1, srun fs (d <- call_bool (Isdir alt) ;; (if d then h s1 (Found alt v) else Ret s1))
                            = sfold fs h (if fs_true fs (Isdir alt) then [Found alt v] else []) s1).
  { intros s1. rewrite srun_bind, srun_call_bool by reflexivity. cbn [then_run].
    destruct (fs_true fs (Isdir alt)); cbn [sfold srun]; [rewrite then_run_done|]; reflexivity. }
  destruct (fs_true fs (Exists top)); [|cbn [srun sfold then_run]; apply Halt].
  destruct (fs_true fs (Isdir (dirname top)) && fs_sticky fs (dirname top)).
  - destruct (fs_true fs (Islink (dirname top))); cbn [sfold]; rewrite then_run_done;
      destruct (srun fs (h s _)) as [s1| |]; cbn [then_run]; auto.
  - cbn [sfold]. rewrite then_run_done. destruct (srun fs (h s _)) as [s1| |]; cbn [then_run]; auto.
Qed.

Lemma srun_fold_volumes uid : forall vols s,
  srun fs (fold_prog vols (scan_volume h uid) s) = sfold fs h (flat_map (volume_events fs uid) vols) s.
Proof.
  induction vols as [|v vols IH]; intros s; cbn [fold_prog flat_map]; [reflexivity|].
  rewrite srun_bind, srun_scan_volume, sfold_app.
  destruct (sfold fs h (volume_events fs uid v) s) as [s1| |]; cbn [then_run]; auto.
Qed.

Lemma srun_each_mount_point uid : forall l s,
  srun fs (each_mount_point l (scan_volume h uid) s)
  = sfold fs h (flat_map (volume_events fs uid) (filter (fun m => fs_true fs (Isdir m)) l)) s.
Proof.
  induction l as [|m l IH]; intros s; cbn [each_mount_point filter flat_map]; [reflexivity|].
  rewrite srun_bind, srun_call_bool by reflexivity. cbn [then_run]. rewrite srun_bind.
  destruct (fs_true fs (Isdir m)); cbn [flat_map].
  - rewrite srun_scan_volume, sfold_app. destruct (sfold fs h (volume_events fs uid m) s) as [s1| |]; cbn [then_run]; auto.
  - cbn [srun then_run]. apply IH.
Qed.

Lemma srun_for_each_volume env uid s :
  srun fs (for_each_volume env (scan_volume h uid) s) = sfold fs h (flat_map (volume_events fs uid) (volumes_of fs env)) s.
Proof.
  unfold for_each_volume, volumes_of. destruct (env_volumes env) as [vols|]; [apply srun_fold_volumes|].
  destruct (sane_mounts fs Hsane) as [l Hl].
  assert (Hcall : srun fs (call_list ListMounts) = Done l).
  { unfold call_list. rewrite srun_bind, srun_call, Hl. reflexivity. }
  rewrite srun_bind, Hcall. cbn [then_run]. rewrite srun_bind, Hcall. cbn [then_run].
  unfold fs_mounts. rewrite Hl. apply srun_each_mount_point.
Qed.

Lemma srun_fold_homes : forall homes s,
  srun fs (fold_prog homes (fun s p => h s (Found p [c_slash])) s) = sfold fs h (map (fun p => Found p [c_slash]) homes) s.
Proof.
  induction homes as [|p homes IH]; intros s; cbn [fold_prog map sfold]; [reflexivity|].
  rewrite srun_bind. destruct (srun fs (h s (Found p [c_slash]))) as [s1| |]; cbn [then_run]; auto.
Qed.

Theorem static_scan_trash_dirs env uid s :
  srun fs (scan_trash_dirs h env uid s) = sfold fs h (user_events fs env (home_trash_dir_path_from_env env) uid) s.
Proof.
  unfold scan_trash_dirs, user_events. rewrite srun_bind, srun_fold_homes, sfold_app.
  destruct (sfold fs h (map (fun p => Found p [c_slash]) (home_trash_dir_path_from_env env)) s) as [s1| |]; cbn [then_run]; auto.
  apply srun_for_each_volume.
Qed.

Theorem static_scan_all_users env : forall pw s,
  srun fs (scan_all_users h pw env s) = sfold fs h (all_users_events fs env pw) s.
Proof.
  unfold scan_all_users, all_users_events. induction pw as [|u pw IH]; intros s; cbn [fold_prog flat_map]; [reflexivity|].
  rewrite srun_bind, sfold_app. unfold user_events at 1. cbn [map app sfold].
  rewrite srun_bind. destruct (srun fs (h s (Found (home_trash_dir_path_from_home (fst u)) [c_slash]))) as [s1| |]; cbn [then_run]; auto.
  rewrite srun_for_each_volume.
  destruct (sfold fs h (flat_map (volume_events fs (snd u)) (volumes_of fs env)) s1) as [s2| |]; cbn [then_run]; auto.
Qed.
End Static.

(* the consumer of interactive trash-empty, list(trash_dirs): what it collects IS the list *)
Lemma sfold_collect fs : forall evs acc, sfold fs (fun acc ev => Ret (acc ++ [ev])) evs acc = Done (acc ++ evs).
Proof.
  induction evs as [|ev evs IH]; intros acc; cbn [sfold srun then_run]; [rewrite app_nil_r; reflexivity|].
  rewrite IH, <- app_assoc. reflexivity.
Qed.

(* ---- the selector and the commands ---- *)
Definition selected_events (fs : statics) (all_users : option (list (str * N))) (env : environ) (uid : N) : list scan_event :=
  match all_users with
  | Some pw => all_users_events fs env pw
  | None => user_events fs env (home_trash_dir_path_from_env env) uid
  end.

Theorem static_select_lemma fs {S} (h : S -> scan_event -> prog S) all_users env uid s : sane fs ->
  srun fs (select_trash_dirs h all_users [] env uid s) = sfold fs h (selected_events fs all_users env uid) s.
Proof.
  intros Hs. unfold select_trash_dirs, selected_events. destruct all_users as [pw|].
  - apply static_scan_all_users. exact Hs.
  - rewrite srun_bind. cbn [fold_prog]. rewrite static_scan_trash_dirs by exact Hs.
    destruct (sfold fs h _ s); reflexivity.
Qed.

(* trash-list, no --trash-dir: under a file system that holds still its run is its per-directory handler applied to exactly
   these events, in this order; in terms of runs: any run whose answers are the static ones ends like that *)
Theorem static_list_lemma fs o : sane fs -> lo_trash_dirs o = [] ->
  all_runs (fun t out => Forall (fun p => snd p = fs (fst p)) t ->
              out = then_run (sfold fs (Cmd.ListCmd.list_handle o) (selected_events fs (Cmd.ListCmd.lo_all_users o)
                                  (Cmd.ListCmd.lo_environ o) (Cmd.ListCmd.lo_uid o)) tt) (fun _ => Done 0))
           (Cmd.ListCmd.list_main o).
Proof.
  intros Hs Hd. apply all_runs_iff. intros t out Hr Hf. rewrite (run_of_static_lemma fs _ t out Hr Hf).
  unfold Cmd.ListCmd.list_main. rewrite Hd. rewrite srun_bind, static_select_lemma by exact Hs. reflexivity.
Qed.

(* interactive trash-empty collects the directories first: the list it asks about IS the list of usable directories *)
Theorem static_collect_lemma fs all_users env uid : sane fs ->
  srun fs (select_trash_dirs (fun acc ev => Ret (acc ++ [ev])) all_users [] env uid [])
  = Done (selected_events fs all_users env uid).
Proof. intros Hs. rewrite static_select_lemma by exact Hs. apply sfold_collect. Qed.
