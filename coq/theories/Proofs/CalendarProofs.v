(* The order Python puts on datetime objects (lexicographic on the fields) is the order of instants,
   and older_than is "strictly earlier than now minus DAYS days". *)
From TV Require Import Prelude.Str Codec.DateFmt Logic.Calendar.
From Coq Require Import Lia ZifyBool ZifyN.
Open Scope Z_scope.
Arguments Z.add : simpl never. Arguments Z.mul : simpl never. Arguments Z.sub : simpl never.
Arguments Z.div : simpl never. Arguments Z.modulo : simpl never.
Ltac Zify.zify_post_hook ::= Z.div_mod_to_equations.

Definition days_in_year (y : Z) := if zleap y then 366 else 365.

Lemma div_succ_case a k : 0 < k -> 0 <= a ->
  ((a + 1) mod k = 0 /\ (a + 1) / k = a / k + 1) \/ ((a + 1) mod k <> 0 /\ (a + 1) / k = a / k).
Proof. intros. destruct (Z.eq_dec ((a + 1) mod k) 0); [left|right]; split; auto; nia. Qed.

Lemma dby_succ y : 1 <= y -> days_before_year (y + 1) = days_before_year y + days_in_year y.
Proof.
  intros. unfold days_before_year, days_in_year, zleap.
  replace (y + 1 - 1) with (y - 1 + 1) by lia.
  destruct (div_succ_case (y - 1) 4) as [[A1 A2]|[A1 A2]]; try lia;
  destruct (div_succ_case (y - 1) 100) as [[B1 B2]|[B1 B2]]; try lia;
  destruct (div_succ_case (y - 1) 400) as [[C1 C2]|[C1 C2]]; try lia;
  rewrite A2, B2, C2; replace (y - 1 + 1) with y in * by lia;
  destruct (y mod 4 =? 0) eqn:E4; destruct (y mod 100 =? 0) eqn:E100; destruct (y mod 400 =? 0) eqn:E400;
  simpl; try lia.
Qed.

Lemma dby_mono y y' : 1 <= y -> y < y' -> days_before_year y + days_in_year y <= days_before_year y'.
Proof.
  intros H1 H2. assert (exists n, 0 <= n /\ y' = y + 1 + n) as (n & Hn & ->) by (exists (y' - y - 1); lia).
  clear H2. pattern n. apply natlike_ind; [| |exact Hn].
  - rewrite Z.add_0_r. rewrite dby_succ by lia. lia.
  - intros x Hx IH. replace (y + 1 + Z.succ x) with ((y + 1 + x) + 1) by lia.
    rewrite dby_succ by lia. unfold days_in_year at 2. destruct (zleap _); lia.
Qed.

Definition zvalid (y m d : Z) : Prop := 1 <= y /\ 1 <= m <= 12 /\ 1 <= d <= zdim y m.

Lemma doy_bound y m d : zvalid y m d -> 1 <= days_before_month y m + d <= days_in_year y.
Proof.
  unfold zvalid, days_before_month, zdim, days_in_year. destruct (zleap y); intros (Hy & Hm & Hd);
  assert (m = 1 \/ m = 2 \/ m = 3 \/ m = 4 \/ m = 5 \/ m = 6 \/ m = 7 \/ m = 8 \/ m = 9 \/ m = 10 \/ m = 11 \/ m = 12) as Hc by lia;
  repeat (destruct Hc as [->|Hc]; [simpl in *; lia|]); subst; simpl in *; lia.
Qed.

Ltac cases12 m :=
  let Hc := fresh "Hc" in
  assert (m = 1 \/ m = 2 \/ m = 3 \/ m = 4 \/ m = 5 \/ m = 6 \/ m = 7 \/ m = 8 \/ m = 9 \/ m = 10 \/ m = 11 \/ m = 12) as Hc by lia;
  repeat (destruct Hc as [->|Hc]); [..|subst m].

Lemma dbm_mono y m d m' d' : zvalid y m d -> zvalid y m' d' -> m < m' ->
  days_before_month y m + d < days_before_month y m' + d'.
Proof.
  unfold zvalid, days_before_month, zdim. destruct (zleap y); intros (Hy & Hm & Hd) (_ & Hm' & Hd') L;
  cases12 m; cases12 m'; simpl in *; lia.
Qed.

(* ordinal is strictly monotone for the lexicographic order on valid (y, m, d) *)
Lemma ordinal_lex y m d y' m' d' : zvalid y m d -> zvalid y' m' d' ->
  (ordinal y m d < ordinal y' m' d' <-> (y < y' \/ (y = y' /\ (m < m' \/ (m = m' /\ d < d'))))).
Proof.
  intros V V'. unfold ordinal.
  pose proof (doy_bound _ _ _ V) as B. pose proof (doy_bound _ _ _ V') as B'.
  destruct (Z.lt_trichotomy y y') as [L|[E|L]].
  - pose proof (dby_mono y y' ltac:(unfold zvalid in V; lia) L). lia.
  - subst y'. destruct (Z.lt_trichotomy m m') as [Lm|[Em|Lm]].
    + pose proof (dbm_mono _ _ _ _ _ V V' Lm). lia.
    + subst m'. lia.
    + pose proof (dbm_mono _ _ _ _ _ V' V Lm). lia.
  - pose proof (dby_mono y' y ltac:(unfold zvalid in V'; lia) L). lia.
Qed.

Lemma dt_valid_zvalid t : dt_valid t = true ->
  zvalid (Z.of_N (dyear t)) (Z.of_N (dmonth t)) (Z.of_N (dday t))
  /\ 0 <= Z.of_N (dhour t) <= 23 /\ 0 <= Z.of_N (dminute t) <= 59 /\ 0 <= Z.of_N (dsecond t) <= 59
  /\ 0 <= Z.of_N (dmicro t) <= 999999.
Proof.
  unfold dt_valid. intros H. repeat (apply andb_true_iff in H; destruct H as [H ?]).
  assert (Z.of_N (days_in_month (dyear t) (dmonth t)) = zdim (Z.of_N (dyear t)) (Z.of_N (dmonth t))) as Hd.
  { unfold days_in_month, zdim, is_leap, zleap.
    replace ((dyear t mod 4 =? 0)%N) with (Z.of_N (dyear t) mod 4 =? 0) by lia.
    replace ((dyear t mod 100 =? 0)%N) with (Z.of_N (dyear t) mod 100 =? 0) by lia.
    replace ((dyear t mod 400 =? 0)%N) with (Z.of_N (dyear t) mod 400 =? 0) by lia.
    replace ((dmonth t =? 2)%N) with (Z.of_N (dmonth t) =? 2) by lia.
    replace ((dmonth t =? 4)%N || (dmonth t =? 6)%N || (dmonth t =? 9)%N || (dmonth t =? 11)%N)
      with ((Z.of_N (dmonth t) =? 4) || (Z.of_N (dmonth t) =? 6) || (Z.of_N (dmonth t) =? 9) || (Z.of_N (dmonth t) =? 11)) by lia.
    destruct (Z.of_N (dmonth t) =? 2); [destruct (_ && _); reflexivity|]. destruct (_ || _); reflexivity. }
  unfold zvalid. rewrite <- Hd. lia.
Qed.

Theorem dt_lt_iff_lemma a b : dt_valid a = true -> dt_valid b = true -> (dt_lt a b = true <-> micros a < micros b).
Proof.
  intros Va Vb. apply dt_valid_zvalid in Va. apply dt_valid_zvalid in Vb.
  destruct Va as (Va & Ha1 & Ha2 & Ha3 & Ha4). destruct Vb as (Vb & Hb1 & Hb2 & Hb3 & Hb4).
  pose proof (ordinal_lex _ _ _ _ _ _ Va Vb) as O1. pose proof (ordinal_lex _ _ _ _ _ _ Vb Va) as O2.
  unfold dt_lt, dt_fields, lex_lt, micros, us_per_day.
  set (oa := ordinal _ _ _) in *. set (ob := ordinal (Z.of_N (dyear b)) _ _) in *.
  destruct (Z.lt_trichotomy oa ob) as [L|[E|L]].
  - assert (Z.of_N (dyear a) < Z.of_N (dyear b) \/ Z.of_N (dyear a) = Z.of_N (dyear b) /\
            (Z.of_N (dmonth a) < Z.of_N (dmonth b) \/ Z.of_N (dmonth a) = Z.of_N (dmonth b) /\ Z.of_N (dday a) < Z.of_N (dday b)))
      as Hx by (apply O1; exact L).
    split; [intros _; lia|intros _]. lia.
  - assert (~ (Z.of_N (dyear a) < Z.of_N (dyear b) \/ Z.of_N (dyear a) = Z.of_N (dyear b) /\
            (Z.of_N (dmonth a) < Z.of_N (dmonth b) \/ Z.of_N (dmonth a) = Z.of_N (dmonth b) /\ Z.of_N (dday a) < Z.of_N (dday b))))
      as Hx by (rewrite <- O1; lia).
    assert (~ (Z.of_N (dyear b) < Z.of_N (dyear a) \/ Z.of_N (dyear b) = Z.of_N (dyear a) /\
            (Z.of_N (dmonth b) < Z.of_N (dmonth a) \/ Z.of_N (dmonth b) = Z.of_N (dmonth a) /\ Z.of_N (dday b) < Z.of_N (dday a))))
      as Hy by (rewrite <- O2; lia).
    rewrite E. split; intros H; lia.
  - assert (Z.of_N (dyear b) < Z.of_N (dyear a) \/ Z.of_N (dyear b) = Z.of_N (dyear a) /\
            (Z.of_N (dmonth b) < Z.of_N (dmonth a) \/ Z.of_N (dmonth b) = Z.of_N (dmonth a) /\ Z.of_N (dday b) < Z.of_N (dday a)))
      as Hx by (apply O2; exact L).
    split; [intros H; lia|intros H; lia].
Qed.

(* older_than, when it does not overflow, is exactly "strictly earlier than now - DAYS days" *)
Theorem older_than_spec_lemma days now del r :
  older_than days now del = Some r -> (r = true <-> micros del < micros now - days * 86400000000).
Proof.
  unfold older_than, us_per_day. destruct ((days <? -999999999) || (999999999 <? days)); [discriminate|].
  destruct ((micros now - days * 86400000000 <? min_micros) || (max_micros <? micros now - days * 86400000000)); [discriminate|].
  intros [= <-]. lia.
Qed.

(* for the DAYS a user can give (0 <= DAYS <= 999999999) and a limit inside year 1..9999 it is defined *)
Theorem older_than_defined_lemma days now del :
  0 <= days <= 999999999 -> min_micros <= micros now - days * us_per_day <= max_micros ->
  exists r, older_than days now del = Some r.
Proof.
  intros H1 H2. unfold older_than.
  replace ((days <? -999999999) || (999999999 <? days)) with false by lia.
  replace ((micros now - days * us_per_day <? min_micros) || (max_micros <? micros now - days * us_per_day)) with false by lia.
  eauto.
Qed.
