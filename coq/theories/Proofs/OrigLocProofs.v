From TV Require Import Prelude.Str Prelude.PosixPath Logic.OrigLoc.
From Coq Require Import Lia.
Open Scope N_scope.

Lemma str_eqb_refl a : str_eqb a a = true.
Proof. induction a as [|x a IH]; [reflexivity|]. cbn [str_eqb]. now rewrite N.eqb_refl, IH. Qed.

Lemma str_eqb_true a : forall b, str_eqb a b = true -> a = b.
Proof.
  induction a as [|x a IH]; destruct b as [|y b]; cbn [str_eqb]; intros H; try discriminate; [reflexivity|].
  apply andb_true_iff in H. destruct H as [H1 H2]. apply N.eqb_eq in H1. subst. f_equal. now apply IH.
Qed.

Lemma starts_with_prefix p : forall s, starts_with s p = true -> exists r, s = p ++ r.
Proof.
  induction p as [|c p IH]; intros s H; [exists s; reflexivity|].
  destruct s as [|d s]; cbn [starts_with] in H; [discriminate|].
  apply andb_true_iff in H. destruct H as [H1 H2]. apply N.eqb_eq in H1. subst.
  destruct (IH _ H2) as [r ->]. exists r. reflexivity.
Qed.

Lemma skipn_app_len {A} (p r : list A) : skipn (length p) (p ++ r) = r.
Proof. induction p; [reflexivity|assumption]. Qed.

Lemma skipn_all_plus {A} (p : list A) k : skipn (length p + k) p = [].
Proof. induction p; cbn; [now destruct k|assumption]. Qed.

Lemma ends_with_app_slash a : ends_with (a ++ [c_slash]) [c_slash] = true.
Proof. unfold ends_with. rewrite rev_app_distr. reflexivity. Qed.

Lemma join2_rel a b : a <> [] -> starts_with b [c_slash] = false ->
  join2 a b = if ends_with a [c_slash] then a ++ b else a ++ c_slash :: b.
Proof. intros Ha Hb. unfold join2. rewrite Hb. destruct a; [congruence|reflexivity]. Qed.

Lemma ends_with_app_nonempty a r : r <> [] -> ends_with (a ++ r) [c_slash] = ends_with r [c_slash].
Proof.
  intros Hr. unfold ends_with. rewrite rev_app_distr.
  destruct (rev r) as [|x l] eqn:E.
  - exfalso. apply Hr. rewrite <- (rev_involutive r), E. reflexivity.
  - reflexivity.
Qed.

Lemma starts_with_app_nonempty a r : a <> [] -> starts_with (a ++ r) [c_slash] = starts_with a [c_slash].
Proof. intros Ha. destruct a; [congruence|reflexivity]. Qed.

Lemma starts_with_self_app p r : starts_with (p ++ r) p = true.
Proof. induction p as [|c p IH]; [reflexivity|]. cbn [app starts_with]. now rewrite N.eqb_refl. Qed.

Lemma rstrip_no_trailing top : ends_with top [c_slash] = false -> rstrip_c c_slash top = top.
Proof.
  unfold ends_with, rstrip_c. intros H. destruct (rev top) as [|x l] eqn:E.
  - cbn. rewrite <- (rev_involutive top), E. reflexivity.
  - cbn [rev app starts_with] in H. rewrite andb_true_r in H. cbn [lstrip_c]. rewrite H.
    rewrite <- E. apply rev_involutive.
Qed.

(* the prefix the code strips: top.rstrip('/') + '/' *)
Definition top_prefix (top : str) : str := rstrip_c c_slash top ++ [c_slash].

(* a top directory is "/" or a path without trailing slash *)
Definition top_ok (top : str) : Prop := top = [c_slash] \/ (ends_with top [c_slash] = false /\ top <> []).

Lemma top_prefix_cases top : top_ok top -> (top = [c_slash] /\ top_prefix top = [c_slash])
                                          \/ (ends_with top [c_slash] = false /\ top <> [] /\ top_prefix top = top ++ [c_slash]).
Proof.
  intros [->|[H1 H2]]; [left; split; reflexivity|right]. unfold top_prefix. now rewrite rstrip_no_trailing.
Qed.

(* Shape of the relative Path for a top-directory trash can.
   Hypotheses describe os.path.realpath output: the parent is the top directory itself or lies below it
   (parent = top_prefix top ++ rest with rest a non-empty relative path). *)
Theorem orig_loc_relative_lemma path top rest base :
  basename (normpath path) = base ->
  starts_with base [c_slash] = false ->
  top_ok top ->
  (orig_loc_result path top top RelativePaths = base
   /\ join2 top (orig_loc_result path top top RelativePaths) = join2 top base)
  /\
  (rest <> [] -> starts_with rest [c_slash] = false ->
   orig_loc_result path (top_prefix top ++ rest) top RelativePaths = join2 rest base
   /\ isabs (join2 rest base) = false
   /\ join2 top (join2 rest base) = join2 (top_prefix top ++ rest) base).
Proof.
  intros Hb Hbs Hok. split.
  - unfold orig_loc_result, calc_parent_path. rewrite Hb, str_eqb_refl. cbn [orb].
    assert (skipn (length (rstrip_c c_slash top ++ [c_slash])) top = []) as ->.
    { destruct (top_prefix_cases top Hok) as [[-> _]|[H1 [_ _]]]; [reflexivity|].
      rewrite rstrip_no_trailing by assumption. rewrite app_length. apply skipn_all_plus. }
    assert (join2 [] base = base) as -> by (unfold join2; now rewrite Hbs). split; reflexivity.
  - intros Hr Hrs. unfold orig_loc_result, calc_parent_path. rewrite Hb.
    fold (top_prefix top). rewrite starts_with_self_app, orb_true_r, skipn_app_len.
    split; [reflexivity|].
    rewrite (join2_rel rest base) by assumption.
    assert (Hrb : forall t, starts_with (rest ++ t) [c_slash] = false)
      by (intros t; rewrite starts_with_app_nonempty; assumption).
    split.
    + unfold isabs. destruct (ends_with rest [c_slash]); apply Hrb.
    + destruct (top_prefix_cases top Hok) as [[-> Hp]|[Ht [Htn Hp]]]; rewrite Hp.
      * assert (Hne : [c_slash] ++ rest <> []) by discriminate.
        rewrite (join2_rel ([c_slash] ++ rest) base) by assumption.
        rewrite ends_with_app_nonempty by assumption.
        destruct (ends_with rest [c_slash]);
          (rewrite join2_rel by (first [discriminate | apply Hrb]); cbn; now rewrite <- ?app_assoc).
      * assert (Hne : (top ++ [c_slash]) ++ rest <> []) by (destruct top; [congruence|discriminate]).
        rewrite (join2_rel ((top ++ [c_slash]) ++ rest) base) by assumption.
        rewrite ends_with_app_nonempty by assumption.
        destruct (ends_with rest [c_slash]);
          (rewrite join2_rel by (first [assumption | apply Hrb]); rewrite Ht; now rewrite <- !app_assoc).
Qed.

Theorem orig_loc_absolute_lemma path parent top :
  orig_loc_result path parent top AbsolutePaths = join2 parent (basename (normpath path)).
Proof. reflexivity. Qed.
