(* os.path.normpath never leaves a trailing slash (except for the roots "/" and "//"): so the path
   trash-put hands to the move names the directory entry itself, never "entry/" (which the kernel
   would resolve through a symlink). *)
From TV Require Import Prelude.Str Prelude.PosixPath Proofs.PathProofs.
From Coq Require Import Lia.
Open Scope N_scope.
Local Arguments N.eqb : simpl never.

Definition comp_ok (c : str) : Prop := c <> [] /\ mem c_slash c = false.

Lemma split_on_noslash sep s : Forall (fun c => mem sep c = false) (split_on sep s).
Proof.
  induction s as [|c s IH]; simpl; [repeat constructor|].
  destruct (N.eqb_spec c sep) as [E|E].
  - constructor; [reflexivity|exact IH].
  - destruct (split_on sep s) as [|p ps]; [repeat constructor; simpl; destruct (N.eqb_spec sep c); [congruence|reflexivity]|].
    inversion IH; subst. constructor; [|assumption]. simpl. destruct (N.eqb_spec sep c); [congruence|assumption].
Qed.

Lemma norm_comps_ok abs : forall comps stack,
  Forall (fun c => mem c_slash c = false) comps -> Forall comp_ok stack -> Forall comp_ok (norm_comps abs comps stack).
Proof.
  induction comps as [|c cs IH]; intros stack Hc Hs; simpl.
  - apply Forall_rev. exact Hs.
  - inversion Hc; subst. destruct c as [|x c']; [apply IH; assumption|].
    destruct (is_dot (x :: c')); [apply IH; assumption|].
    assert (Hok : comp_ok (x :: c')) by (split; [discriminate|assumption]).
    destruct (negb (is_dotdot (x :: c'))); [apply IH; [assumption|constructor; assumption]|].
    destruct stack as [|top rest].
    + destruct abs; apply IH; try assumption. constructor; assumption.
    + inversion Hs; subst. destruct (is_dotdot top); apply IH; try assumption. constructor; assumption.
Qed.

Lemma join_with_last l : l <> [] -> Forall comp_ok l -> clean (join_with [c_slash] l).
Proof.
  induction l as [|x l IH]; [congruence|]. intros _ H. inversion H as [|? ? [Hne Hns] Hl]; subst.
  destruct l as [|y l'].
  - simpl. destruct (rev x) as [|c r] eqn:Hr.
    + exfalso. apply Hne. rewrite <- (rev_involutive x). rewrite Hr. reflexivity.
    + assert (Hx : x = rev r ++ [c]) by (rewrite <- (rev_involutive x); rewrite Hr; reflexivity).
      rewrite Hx. apply clean_app_last. intros Hc. subst c. rewrite Hx in Hns. rewrite mem_app in Hns. simpl in Hns.
      try rewrite N.eqb_refl in Hns. rewrite ?orb_true_r in Hns. discriminate.
  - change (join_with [c_slash] (x :: y :: l')) with (x ++ [c_slash] ++ join_with [c_slash] (y :: l')).
    assert (Hc : clean (join_with [c_slash] (y :: l'))) by (apply IH; [discriminate|assumption]).
    destruct (clean_last _ Hc) as [q [c [Hq Hcne]]]. rewrite Hq. rewrite !app_assoc. apply clean_app_last. exact Hcne.
Qed.

Theorem normpath_no_trailing_slash p :
  normpath p = [c_slash] \/ normpath p = [c_slash; c_slash] \/ ends_with (normpath p) [c_slash] = false.
Proof.
  unfold normpath. destruct p as [|c0 p0]; [right; right; reflexivity|].
  set (p := c0 :: p0). set (abs := starts_with p [c_slash]).
  set (two := starts_with p [c_slash; c_slash] && negb (starts_with p [c_slash; c_slash; c_slash])).
  assert (Hcomps : Forall comp_ok (norm_comps abs (split_on c_slash p) [])) by (apply norm_comps_ok; [apply split_on_noslash|constructor]).
  destruct (norm_comps abs (split_on c_slash p) []) as [|x l] eqn:E.
  - simpl. destruct abs; [destruct two; auto|right; right; reflexivity].
  - assert (Hc : clean (join_with [c_slash] (x :: l))) by (apply join_with_last; [discriminate|exact Hcomps]).
    right. right. destruct (clean_last _ Hc) as [q [c [Hq Hcne]]].
    set (pre := if abs then if two then [c_slash; c_slash] else [c_slash] else []).
    assert (Hres : pre ++ join_with [c_slash] (x :: l) = (pre ++ q) ++ [c]) by (rewrite Hq; apply app_assoc).
    fold pre. rewrite Hres. destruct ((pre ++ q) ++ [c]) eqn:E2; [destruct (pre ++ q); discriminate|].
    rewrite <- E2. apply (proj2 (clean_app_last (pre ++ q) c Hcne)).
Qed.
