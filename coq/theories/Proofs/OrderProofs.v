(* C15: the order in which restore, empty and rm touch an entry - the .trashinfo is removed only after
   its payload has been dealt with (moved out, removed, or found absent) - against every answer. *)
From TV Require Import Prelude.Str Prelude.PosixPath Codec.DateFmt Codec.TrashInfo Logic.Calendar Logic.Reply Logic.Glob
  Prog.Prog Cmd.Put Cmd.Scan Cmd.Empty Cmd.Rm Proofs.ProgProofs Proofs.PLogic Proofs.ScanProofs Proofs.PathProofs
  Proofs.OrigLocProofs.
Open Scope N_scope.

Inductive status := Absent | Pending | Gone | Failed.
Definition ost := list (str * status).
Fixpoint lookup (s : ost) (q : str) : option status :=
  match s with [] => None | (k, v) :: s' => if str_eqb q k then Some v else lookup s' q end.
(* strict: a payload whose removal FAILED does not count as dealt with (trash-rm, trash-restore);
   trash-empty goes on to the info file after a failed removal (only an OSError from the file system,
   never a kill, can make it fail) *)
Definition payload_done (strict : bool) (s : ost) (P : str) : bool :=
  match lookup s P with Some Absent | Some Gone => true | Some Failed => negb strict | _ => false end.
Definition removal_result (r : res) : status := match r with RUnit => Gone | _ => Failed end.
Definition order_step (strict : bool) (s : ost) (o : op) (r : res) : option ost :=
  match o with
  | Lexists q => Some (match r with RBool false => (q, Absent) :: s | RBool true => (q, Pending) :: s | _ => s end)
  | Move src _ => Some ((src, removal_result r) :: s)
  | Remove q | Rmtree q =>
      if is_info_path q && negb (payload_done strict s (path_of_backup_copy q)) then None
      else Some ((q, removal_result r) :: s)
  | _ => Some s
  end.

Lemma done_cons_other strict k v s P : str_eqb P k = false -> payload_done strict ((k, v) :: s) P = payload_done strict s P.
Proof. intros H. unfold payload_done. simpl. rewrite H. reflexivity. Qed.
Lemma done_cons_same strict v s P : payload_done strict ((P, v) :: s) P =
  match v with Absent | Gone => true | Failed => negb strict | Pending => false end.
Proof. unfold payload_done. simpl. rewrite str_eqb_refl. destruct v; reflexivity. Qed.
Lemma info_ne_payload p : is_info_path p = true -> str_eqb (path_of_backup_copy p) p = false.
Proof.
  intros H. destruct (str_eqb (path_of_backup_copy p) p) eqn:E; [|reflexivity].
  apply str_eqb_true in E. rewrite <- E in H. rewrite pobc_not_info in H. discriminate.
Qed.

Definition ready strict (s : ost) (p : str) : Prop := is_info_path p = true -> payload_done strict s (path_of_backup_copy p) = true.
Lemma ready_cons strict s p v : ready strict s p -> ready strict ((p, v) :: s) p.
Proof. intros H Hi. rewrite done_cons_other; [apply H; exact Hi|apply info_ne_payload; exact Hi]. Qed.
Lemma ready_payload strict s p : ready strict s (path_of_backup_copy p).
Proof. intros Hi. rewrite pobc_not_info in Hi. discriminate. Qed.
Lemma step_remove strict s p r : ready strict s p -> order_step strict s (Remove p) r = Some ((p, removal_result r) :: s).
Proof. intros H. unfold order_step. destruct (is_info_path p) eqn:Hi; [rewrite (H Hi)|]; reflexivity. Qed.
Lemma step_rmtree strict s p r : ready strict s p -> order_step strict s (Rmtree p) r = Some ((p, removal_result r) :: s).
Proof. intros H. unfold order_step. destruct (is_info_path p) eqn:Hi; [rewrite (H Hi)|]; reflexivity. Qed.

Section Order.
Variable strict : bool.
Notation step := (order_step strict).
Definition OL := asafe_logic step.
Lemma order_accepts o : (match o with Remove _ | Rmtree _ => False | _ => True end) -> OKop OL o.
Proof. intros H s r _. destruct o; try contradiction; simpl; eauto. Qed.
Lemma order_scan o : scan_op o = true -> OKop OL o.
Proof. intros H. apply order_accepts. destruct o; try discriminate; exact I. Qed.

(* remove_file2 p from a state where p may be removed; Q describes the state afterwards on success *)
Lemma wp_remove_file2 p s (Q : ost -> unit -> Prop) (E : ost -> exn -> Prop) :
  ready strict s p ->
  (forall s', lookup s' p = Some Gone -> (forall q, str_eqb q p = false -> lookup s' q = lookup s q) -> Q s' tt) ->
  (forall s' e, lookup s' p = Some Failed -> (forall q, str_eqb q p = false -> lookup s' q = lookup s q) -> E s' e) ->
  wp step (remove_file2 p) Q E s.
Proof.
  intros Hr HQ HE. unfold remove_file2. apply wp_catch. apply wp_call_unit. intros r Hv.
  exists ((p, removal_result r) :: s). split; [apply step_remove; exact Hr|].
  destruct (valid_unit (Remove p) r eq_refl Hv) as [Hu|[e [He Hos]]]; subst r.
  - apply HQ; simpl; [rewrite str_eqb_refl; reflexivity|]. intros q Hq. rewrite Hq. reflexivity.
  - rewrite Hos. apply wp_call_unit. intros r' Hv'.
    exists ((p, removal_result r') :: (p, Failed) :: s). split; [apply step_rmtree; apply ready_cons; exact Hr|].
    destruct (valid_unit (Rmtree p) r' eq_refl Hv') as [Hu|[e' [He' Hos']]]; subst r'.
    + apply HQ; simpl; [rewrite str_eqb_refl; reflexivity|]. intros q Hq. rewrite Hq. reflexivity.
    + apply HE; simpl; [rewrite str_eqb_refl; reflexivity|]. intros q Hq. rewrite Hq. reflexivity.
Qed.

Definition dealt (s : ost) (q : str) : Prop :=
  match lookup s q with Some Absent | Some Gone | Some Failed => True | _ => False end.
Definition gone (s : ost) (q : str) : Prop :=
  match lookup s q with Some Absent | Some Gone => True | _ => False end.
Lemma gone_done s q : gone s q -> payload_done strict s q = true.
Proof. unfold gone, payload_done. destruct (lookup s q) as [[]|]; try contradiction; reflexivity. Qed.

(* remove_file_if_exists q: afterwards q is gone (normal return) or its removal failed (exception) *)
Lemma wp_remove_file_if_exists q s (Q : ost -> unit -> Prop) (E : ost -> exn -> Prop) :
  ready strict s q ->
  (forall s', gone s' q -> (forall k, str_eqb k q = false -> lookup s' k = lookup s k) -> Q s' tt) ->
  (forall s' e, lookup s' q = Some Failed -> (forall k, str_eqb k q = false -> lookup s' k = lookup s k) -> E s' e) ->
  wp step (remove_file_if_exists q) Q E s.
Proof.
  intros Hr HQ HE. unfold remove_file_if_exists. apply wp_bind. apply wp_call_bool. intros r Hv.
  destruct (valid_bool (Lexists q) r eq_refl Hv) as [b Hb]; subst r. eexists. split; [reflexivity|].
  destruct b.
  - apply wp_remove_file2.
    + intros Hi. rewrite done_cons_other; [apply Hr; exact Hi|apply info_ne_payload; exact Hi].
    + intros s' Hg Hk. apply HQ; [unfold gone; rewrite Hg; exact I|]. intros k Hkq. rewrite (Hk k Hkq). simpl. rewrite Hkq. reflexivity.
    + intros s' e Hf Hk. apply HE; [exact Hf|]. intros k Hkq. rewrite (Hk k Hkq). simpl. rewrite Hkq. reflexivity.
  - apply HQ; [unfold gone; simpl; rewrite str_eqb_refl; exact I|]. intros k Hkq. simpl. rewrite Hkq. reflexivity.
Qed.
End Order.

(* ---------------------------------------------------------------- trash-rm (strict) *)
Lemma rm_delete_ordered p : asafe (order_step true) (delete_trash_info_and_backup_copy p) (fun _ => True).
Proof.
  intros s. unfold delete_trash_info_and_backup_copy. apply wp_bind.
  apply wp_remove_file_if_exists; [apply ready_payload| |intros; exact I].
  intros s' Hg _. apply wp_remove_file2; [|intros; exact I|intros; exact I].
  intros _. apply gone_done. exact Hg.
Qed.

Ltac oret L := first [apply (T_ret L); exact I | apply (T_throw L)].
Ltac oacc := apply order_accepts; exact I.

Theorem rm_ordered_lemma o : all_runs (fun t _ => accepts (order_step true) [] t <> None) (rm_main o).
Proof.
  eapply all_runs_mono; [|apply (asafe_sound (order_step true) (rm_main o) (fun _ => True) [])].
  - intros t out [H _]. exact H.
  - pose (L := OL true). change (T L (rm_main o) (fun _ => True)). unfold rm_main.
    destruct (ro_args o) as [|pattern rest]; [apply (T_seq L); [apply (T_call_unit L); oacc|oret L]|].
    apply (T_seq L); [|oret L].
    apply (safe_scan_trash_dirs L (order_scan true) (rm_handle pattern) (fun _ => True) (fun _ => True)); try apply select_events_true; auto.
    intros s ev _ _. destruct ev; simpl; try oret L.
    eapply (T_bind L); [apply (safe_list_trashinfo L (order_scan true))|]. intros infos _.
    apply (T_for_each L). intros p _. unfold rm_one_info.
    eapply (T_bind L) with (Q' := fun _ => True).
    + apply (T_catch L).
      * eapply (T_bind L); [apply (T_call_str L); oacc|]. intros; oret L.
      * intros e q He. destruct (is_OSError e); [inversion He; oret L|]. destruct e; inversion He; oret L.
    + intros r _. destruct r as [rel|]; [|apply (T_call_unit L); oacc].
      destruct (rm_matches pattern (join2 volume rel)) as [[|]|]; [|oret L|oret L].
      apply rm_delete_ordered.
Qed.

(* ---------------------------------------------------------------- trash-empty (lenient about failed removals) *)
Lemma dispose_ordered o q s (Q : ost -> unit -> Prop) :
  ready false s q ->
  (forall s', (eo_dry_run o = false -> dealt s' q) -> (forall k, str_eqb k q = false -> lookup s' k = lookup s k) -> Q s' tt) ->
  wp (order_step false) (dispose o q) Q (fun _ _ => True) s.
Proof.
  intros Hr HQ. unfold dispose. destruct (eo_dry_run o) eqn:Hd.
  - apply wp_call_unit. intros r Hv. exists s. split; [reflexivity|]. destruct r; try exact I; apply HQ; auto; discriminate.
  - apply wp_bind.
    assert (Hout : wp (order_step false) (if 0 <? eo_verbose o then out ($"removing " ++ q ++ [c_nl]) else Ret tt)
                      (fun s' _ => s' = s) (fun _ _ => True) s).
    { destruct (0 <? eo_verbose o); [|reflexivity]. apply wp_call_unit. intros r Hv. exists s. split; [reflexivity|].
      destruct r; try exact I; reflexivity. }
    eapply wp_mono; [| |exact Hout]; [|auto]. intros s0 u Hs0. cbv beta in Hs0. rewrite Hs0. clear s0 Hs0 u.
    apply wp_catch. apply wp_remove_file_if_exists; [exact Hr| |].
    + intros s' Hg Hk. apply HQ; [|exact Hk]. intros _. unfold dealt. unfold gone in Hg.
      destruct (lookup s' q) as [[]|]; try contradiction; exact I.
    + intros s' e Hf Hk. destruct (is_OSError e); [|exact I].
      apply wp_call_unit. intros r Hv. exists s'. split; [reflexivity|].
      destruct r; try exact I; (apply HQ; [|exact Hk]; intros _; unfold dealt; rewrite Hf; exact I).
Qed.

Lemma empty_one_info_ordered o p : asafe (order_step false) (empty_one_info o p) (fun _ => True).
Proof.
  pose (L := OL false). unfold empty_one_info.
  eapply (T_bind L); [apply (safe_ok_to_delete L); intros; oacc|]. intros b _. destruct b; [|oret L].
  intros s. apply wp_bind. apply dispose_ordered; [apply ready_payload|].
  intros s' Hd Hk. destruct (eo_dry_run o) eqn:Hdry.
  - unfold dispose. rewrite Hdry. apply wp_call_unit. intros r Hv. exists s'. split; [reflexivity|]. destruct r; exact I.
  - specialize (Hd eq_refl). apply dispose_ordered; [|intros; exact I].
    intros Hi. unfold dealt in Hd. unfold payload_done.
    destruct (lookup s' (path_of_backup_copy p)) as [[]|]; try contradiction; reflexivity.
Qed.

Theorem empty_ordered_lemma o : all_runs (fun t _ => accepts (order_step false) [] t <> None) (empty_main o).
Proof.
  eapply all_runs_mono; [|apply (asafe_sound (order_step false) (empty_main o) (fun _ => True) [])].
  - intros t out [H _]. exact H.
  - pose (L := OL false). change (T L (empty_main o) (fun _ => True)).
    assert (Hdir : forall td, T L (empty_trash_dir o td) (fun _ => True)).
    { intros td. unfold empty_trash_dir.
      eapply (T_bind L); [apply (safe_list_trashinfo L (order_scan false))|]. intros infos _.
      apply (T_seq L); [apply (T_for_each L); intros p _; apply empty_one_info_ordered|].
      eapply (T_bind L); [apply (safe_entries_if_dir_exists L (order_scan false))|]. intros es Hes.
      apply (T_for_each L). intros x Hx. unfold empty_orphan.
      eapply (T_bind L); [apply (T_call_bool L); oacc|]. intros b _. destruct b; [oret L|].
      intros s. apply dispose_ordered; [|intros; exact I]. intros Hi. rewrite payload_not_info in Hi; [discriminate|].
      rewrite forallb_forall in Hes. apply valid_name_noslash. apply Hes. exact Hx. }
    assert (Hh : forall u ev, T L (empty_handle o u ev) (fun _ => True)).
    { intros u ev. destruct ev; simpl; try oret L. apply Hdir. }
    unfold empty_main.
    eapply (T_bind L); [apply (T_call_bool L); oacc|]. intros tty _.
    apply (T_seq L); [|oret L].
    destruct (match eo_interactive o with Some b => b | None => tty end).
    + eapply (T_bind L).
      * apply (safe_select_trash_dirs L (order_scan false) (fun acc ev => Ret (acc ++ [ev])) (fun _ => True) (fun _ => True)); try apply select_events_true; auto;
        try (intros s ev _ _; oret L).
      * intros evs _. eapply (T_bind L); [apply (T_call_str L); oacc|]. intros reply _.
        destruct (parse_reply reply); [|oret L]. apply (T_for_each L). intros ev _. apply Hh.
    + apply (safe_select_trash_dirs L (order_scan false) (empty_handle o) (fun _ => True) (fun _ => True)); try apply select_events_true; auto;
      try (intros s ev _ _; apply Hh).
Qed.
