(* Non-vacuity of the world-level theorems: a concrete tree-shaped file system and a concrete run of trash-put's operations
   that is consistent with it (World.wrun, "trees stay trees" included), so that the premises  wf (wfs s)  and  wrun s t s'
   of the theorems in Props are met by a state with a real trash directory and a real move in it.
   Finite worlds are association lists (first match wins, None = deleted); being a tree is decided by computation (wf_list)
   and lifted to World.wf through the completeness of the ancestor enumeration. *)
From TV Require Import Prelude.Str Prelude.PosixPath Prog.Prog World.World Proofs.ProgProofs Proofs.OrigLocProofs Proofs.WorldProofs.
From Coq Require Import Lia.
Open Scope N_scope.
Local Arguments N.eqb : simpl never.

Definition fworld := list (str * option node).
Fixpoint wof (l : fworld) (q : str) : option node :=
  match l with [] => None | (k, v) :: l' => if str_eqb q k then v else wof l' q end.

Lemma wof_key l q n : wof l q = Some n -> In q (map fst l).
Proof.
  induction l as [|[k v] l IH]; simpl; [discriminate|]. destruct (str_eqb q k) eqn:E; [|auto].
  intros _. left. symmetry. apply str_eqb_true. exact E.
Qed.

(* every non-empty proper ancestor of q is enumerated *)
Lemma ancestors_complete a r : forall pre, pre ++ a <> [] -> In (pre ++ a) (ancestors_aux pre (a ++ c_slash :: r)).
Proof.
  induction a as [|x a IH]; intros pre Hne.
  - cbn [app ancestors_aux]. rewrite N.eqb_refl. rewrite app_nil_r in *. destruct pre; [contradiction|]. apply in_or_app. left. left. reflexivity.
  - cbn [app ancestors_aux]. apply in_or_app. right. specialize (IH (pre ++ [x])). rewrite <- app_assoc in IH. simpl in IH. apply IH.
    destruct pre; discriminate.
Qed.
Lemma below_in_ancestors a q : below a q = true -> a <> [] -> In a (ancestors_aux [] q).
Proof.
  intros Hb Hne. pose proof (below_ne _ _ Hb) as Hq. apply below_under in Hb. unfold under in Hb.
  destruct (strip a q) as [rest|] eqn:E; [|discriminate]. pose proof (strip_rest_shape _ _ _ E) as Sh. apply strip_app in E. subst q.
  destruct Sh as [Sh|[r Sh]]; subst rest; [rewrite app_nil_r in Hq; contradiction|].
  apply (ancestors_complete a r []). exact Hne.
Qed.

Definition is_dir_in (l : fworld) (a : str) : bool := match wof l a with Some NDir => true | _ => false end.
Definition wf_list (l : fworld) : bool :=
  forallb (fun k => match wof l k with None => true | Some _ => forallb (is_dir_in l) (ancestors_aux [] k) end) (map fst l).
Lemma wf_of_list l : wf_list l = true -> wf (wof l).
Proof.
  intros H q a Hq Hb Hne. destruct (wof l q) as [n|] eqn:E; [|contradiction].
  unfold wf_list in H. rewrite forallb_forall in H. specialize (H q (wof_key l q n E)). rewrite E in H.
  rewrite forallb_forall in H. specialize (H a (below_in_ancestors a q Hb Hne)). unfold is_dir_in in H.
  destruct (wof l a) as [[c| |]|]; try discriminate. reflexivity.
Qed.
Lemma wf_ext w w' : (forall q, w q = w' q) -> wf w' -> wf w.
Proof. intros He Hw q a Hq Hb Hne. rewrite He in *. apply (Hw q a); assumption. Qed.

(* the deterministic fragment gives steps of the relation, as soon as the result is a tree *)
Lemma wapply_wstep s o r s' : wf (wfs s) -> wapply s o r = Some s' -> probe_ok s o r -> wf (wfs s') -> wstep s o r s'.
Proof. intros Hw Ha Hp Hw'. split; [apply wapply_effect; assumption|intros _; exact Hw']. Qed.

Lemma under_cases p q : under p q = true -> q = p \/ below p q = true.
Proof.
  intros H. unfold below. rewrite H. destruct (str_eqb q p) eqn:E; [left; apply str_eqb_true; exact E|right; reflexivity].
Qed.
(* moving a single leaf: the result, as a list *)
Definition no_key_below (l : fworld) (d : str) : bool :=
  forallb (fun k => match wof l k with None => true | Some _ => negb (below d k) end) (map fst l).
Lemma no_key_below_spec l d q : no_key_below l d = true -> below d q = true -> wof l q = None.
Proof.
  intros H Hb. destruct (wof l q) as [n|] eqn:E; [|reflexivity]. unfold no_key_below in H. rewrite forallb_forall in H.
  specialize (H q (wof_key l q n E)). rewrite E in H. rewrite Hb in H. discriminate.
Qed.
Lemma mv_leaf_list l src dst :
  no_key_below l src = true -> no_key_below l dst = true -> under dst src = false -> under src dst = false ->
  forall q, mv_tree (wof l) src dst q = wof ((dst, wof l src) :: (src, None) :: l) q.
Proof.
  intros Hs Hd Hds Hsd q. unfold mv_tree. simpl.
  destruct (strip dst q) as [rest|] eqn:E.
  - pose proof (strip_rest_shape _ _ _ E) as Sh. pose proof E as E'. apply strip_app in E'. subst q.
    destruct Sh as [Sh|[r Sh]]; subst rest.
    + rewrite !app_nil_r. rewrite str_eqb_refl. reflexivity.
    + assert (Hb : below dst (dst ++ c_slash :: r) = true).
      { unfold below, under. rewrite E. simpl. apply negb_true_iff. apply str_eqb_neq. intros Eq.
        apply (f_equal (@length N)) in Eq. rewrite app_length in Eq. simpl in Eq. lia. }
      assert (Hb2 : below src (src ++ c_slash :: r) = true).
      { unfold below. rewrite strip_under_app by (right; eauto). simpl. apply negb_true_iff. apply str_eqb_neq. intros Eq.
        apply (f_equal (@length N)) in Eq. rewrite app_length in Eq. simpl in Eq. lia. }
      rewrite (no_key_below_spec l src _ Hs Hb2).
      rewrite (str_eqb_neq _ _ (below_ne _ _ Hb)).
      destruct (str_eqb (dst ++ c_slash :: r) src) eqn:Es.
      * reflexivity.
      * symmetry. apply (no_key_below_spec l dst _ Hd Hb).
  - assert (Hnd : str_eqb q dst = false).
    { apply str_eqb_neq. intros Eq. subst q. rewrite strip_refl in E. discriminate. }
    rewrite Hnd. destruct (under src q) eqn:Eu.
    + destruct (under_cases _ _ Eu) as [Eq|Hb].
      * subst q. rewrite str_eqb_refl. reflexivity.
      * rewrite (str_eqb_neq _ _ (below_ne _ _ Hb)). symmetry. apply (no_key_below_spec l src _ Hs Hb).
    + destruct (str_eqb q src) eqn:Es; [|reflexivity]. apply str_eqb_true in Es. subst q. rewrite under_refl in Eu. discriminate.
Qed.

(* ---------------------------------------------------------------- the example *)
Definition e_home := Eval compute in $"/home".
Definition e_u := Eval compute in $"/home/u".
Definition e_src := Eval compute in $"/home/u/a".
Definition e_t := Eval compute in $"/t".
Definition e_info_dir := Eval compute in $"/t/info".
Definition e_files_dir := Eval compute in $"/t/files".
Definition e_info := Eval compute in $"/t/info/a.trashinfo".
Definition e_dst := Eval compute in $"/t/files/a".
Definition e_content := Eval compute in $"[Trash Info]" ++ [10] ++ $"Path=/home/u/a" ++ [10] ++ $"DeletionDate=2024-01-01T00:00:00" ++ [10].

Definition l0 : fworld :=
  [(e_src, Some (NFile [104; 105])); (e_u, Some NDir); (e_home, Some NDir); (e_files_dir, Some NDir); (e_info_dir, Some NDir); (e_t, Some NDir)].
Definition l1 : fworld := (e_info, Some (NFile [])) :: l0.
Definition l2 : fworld := (e_info, Some (NFile e_content)) :: l1.
Definition l3 : fworld := (e_dst, Some (NFile [104; 105])) :: (e_src, None) :: l2.

Definition e_trace : trace :=
  [(Exists e_dst, RBool false); (OpenExcl e_info, RUnit); (WriteFd e_content, RUnit); (CloseFd, RUnit); (Move e_src e_dst, RUnit)].

Example a_tree : wf (wof l0).
Proof. apply wf_of_list. vm_compute. reflexivity. Qed.

Example a_consistent_put :
  exists s', wrun (mkw (wof l0) None) e_trace s' /\ (forall q, wfs s' q = wof l3 q) /\ wf (wfs s').
Proof.
  pose (s0 := mkw (wof l0) None).
  pose (s1 := mkw (upd (wof l0) e_info (Some (NFile []))) (Some e_info)).
  pose (s2 := mkw (upd (wfs s1) e_info (Some (NFile ([] ++ e_content)))) (Some e_info)).
  pose (s3 := mkw (wfs s2) None).
  pose (s4 := mkw (mv_tree (wfs s3) e_src e_dst) None).
  assert (E1 : forall q, wfs s1 q = wof l1 q) by (intros q; unfold s1, upd, l1; cbn [wfs wof]; reflexivity).
  assert (E2 : forall q, wfs s2 q = wof l2 q) by (intros q; unfold s2, s1, upd, l2, l1; cbn [wfs wof app]; destruct (str_eqb q e_info); reflexivity).
  assert (E4 : forall q, wfs s4 q = wof l3 q).
  { intros q. unfold s4, s3. simpl wfs. unfold mv_tree. rewrite <- (mv_leaf_list l2 e_src e_dst); try (vm_compute; reflexivity). }
  assert (W0 : wf (wfs s0)) by exact a_tree.
  assert (W1 : wf (wfs s1)) by (eapply wf_ext; [exact E1|apply wf_of_list; vm_compute; reflexivity]).
  assert (W2 : wf (wfs s2)) by (eapply wf_ext; [exact E2|apply wf_of_list; vm_compute; reflexivity]).
  assert (W4 : wf (wfs s4)) by (eapply wf_ext; [exact E4|apply wf_of_list; vm_compute; reflexivity]).
  exists s4. split; [|split; [exact E4|exact W4]].
  eapply wrun_cons with (s1 := s0); [apply wapply_wstep; [exact W0|reflexivity|vm_compute; reflexivity|exact W0]|].
  eapply wrun_cons with (s1 := s1); [apply wapply_wstep; [exact W0|reflexivity|exact I|exact W1]|].
  eapply wrun_cons with (s1 := s2); [apply wapply_wstep; [exact W1|reflexivity|exact I|exact W2]|].
  eapply wrun_cons with (s1 := s3); [apply wapply_wstep; [exact W2|reflexivity|exact I|exact W2]|].
  eapply wrun_cons with (s1 := s4); [apply wapply_wstep; [exact W2|vm_compute; reflexivity|exact I|exact W4]|].
  constructor.
Qed.
