(* C15 on the world, trash-empty: whenever trash-empty removes an info file, its payload does not exist at that moment -
   or the file system has refused to remove it (an OSError answered to remove and rmtree, reported as "cannot remove"): the
   one case in which trash-empty goes on to the info file, and one that a kill cannot produce.  Lifted from the lenient
   ordering monitor (OrderProofs.order_step false) as WorldPurge does for trash-rm with the strict one. *)
From TV Require Import Prelude.Str Prelude.PosixPath Logic.Reply Prog.Prog World.World Cmd.Put Cmd.Scan Cmd.Empty Cmd.Rm
  Proofs.ProgProofs Proofs.OrigLocProofs Proofs.PathProofs Proofs.WorldProofs Proofs.EmptyProofs Proofs.PurgeProofs Proofs.OrderProofs
  Proofs.WorldPurge.
Open Scope N_scope.

Definition refused (m : ost) (P : str) : Prop := lookup m P = Some Failed.
Definition info_after_payload (m : ost) (s : wstate) (o : op) : Prop :=
  match o with
  | Remove p | Rmtree p => is_info_path p = true -> wfs s (path_of_backup_copy p) = None \/ refused m (path_of_backup_copy p)
  | _ => True
  end.
(* the assertion at every operation, with the history of the run (the monitor state) at hand *)
Fixpoint wokm (m : ost) (s : wstate) (t : trace) : Prop :=
  match t with
  | [] => True
  | (o, r) :: t' => info_after_payload m s o /\
      forall s', wstep s o r s' -> match order_step false m o r with Some m1 => wokm m1 s' t' | None => True end
  end.

Lemma lenient_done m P : payload_done false m P = true -> payload_done true m P = true \/ refused m P.
Proof. unfold payload_done, refused. destruct (lookup m P) as [[| | |]|]; simpl; auto; discriminate. Qed.

Lemma order_world_lenient env uid users : forall t m s,
  Forall (fun p => purge_ok env uid users (fst p)) t -> accepts (order_step false) m t <> None -> coupled m s ->
  wokm m s t.
Proof.
  induction t as [|[o r] t IH]; intros m s Hf Ha Hc; simpl; [exact I|].
  inversion Hf as [|x l Ho Hl]; subst. simpl in Ho, Ha.
  destruct (order_step false m o r) as [m1|] eqn:Es; [|contradiction].
  split.
  - (* the assertion *)
    destruct o; simpl; auto; intros Hi; simpl in Es; rewrite Hi in Es; simpl in Es;
      (destruct (payload_done false m (path_of_backup_copy p)) eqn:Ed; [|discriminate Es]);
      (destruct (lenient_done _ _ Ed) as [H|H]; [left; apply Hc; exact H|right; exact H]).
  - (* the coupling is kept *)
    intros s1 [He _]. apply (IH m1 s1 Hl Ha). intros P HP.
    destruct o; simpl in Ho; try contradiction;
      try (simpl in Es; inversion Es; subst m1;
           match type of He with effect ?a ?b ?c ?d => destruct (effect_probe a b c d eq_refl He) as [_ Hsame] end;
           rewrite Hsame; apply Hc; exact HP).
    + (* Lexists *) simpl in Es. simpl in He. destruct r; inversion Es; subst m1;
        try (destruct He as [_ Hsame]; rewrite Hsame; apply Hc; exact HP).
      destruct He as [[_ Hsame] Hb]. rewrite Hsame. destruct b; rewrite done_cons in HP; destruct (str_eqb P p) eqn:E.
      * discriminate.
      * apply Hc; exact HP.
      * apply str_eqb_true in E. subst P. destruct (wfs s p); [discriminate|reflexivity].
      * apply Hc; exact HP.
    + (* Remove *) simpl in Es. destruct (is_info_path p && negb (payload_done false m (path_of_backup_copy p))); [discriminate|].
      inversion Es; subst m1. rewrite done_cons in HP. simpl in He. destruct (str_eqb P p) eqn:E.
      * apply str_eqb_true in E. subst P. destruct r; simpl in HP; try discriminate.
        destruct He as [_ [_ He]]. rewrite He. apply upd_same.
      * assert (Hs : wfs s P = None) by (apply Hc; exact HP).
        destruct r; try (destruct He as [_ He]; rewrite He; exact Hs).
        destruct He as [_ [_ He]]. rewrite He. unfold upd. rewrite E. exact Hs.
    + (* Rmtree *) simpl in Es. destruct (is_info_path p && negb (payload_done false m (path_of_backup_copy p))); [discriminate|].
      inversion Es; subst m1. rewrite done_cons in HP. simpl in He. destruct (str_eqb P p) eqn:E.
      * apply str_eqb_true in E. subst P. destruct r; simpl in HP; try discriminate.
        destruct He as [_ He]. rewrite He. unfold rm_tree. rewrite under_refl. reflexivity.
      * assert (Hs : wfs s P = None) by (apply Hc; exact HP).
        destruct r; try (destruct He as [_ He]; rewrite He; exact Hs).
        -- destruct He as [_ He]. rewrite He. unfold rm_tree. destruct (under p P); [reflexivity|exact Hs].
        -- destruct He as [_ He]. destruct (He P) as [H|[_ H]]; [rewrite H; exact Hs|exact H].
Qed.

Theorem empty_payload_gone_lemma o : Forall clean (eo_trash_dirs o) ->
  all_runs (fun t _ => forall s, wokm [] s t) (empty_main o).
Proof.
  intros Hc. generalize (all_runs_and _ _ _ (empty_targets_inside_lemma o Hc) (empty_ordered_lemma o)). apply all_runs_mono.
  intros t out [Hf Ha] s. eapply order_world_lenient; eauto. intros P HP. discriminate HP.
Qed.
