(* A Hoare logic for `prog` against trace monitors.
   A monitor is a partial transition function on (op, answer); `accepts` runs it over a trace.
   `wp m Q E s`: from monitor state s, whatever well-typed answers the environment gives, the monitor
   accepts every operation m issues, and m ends in a state satisfying Q (normal return) or E (exception).
   `wp_sound` turns that into the all_runs statement the property theorems are written in. *)
From TV Require Import Prelude.Str Prog.Prog.
From Coq Require Import Lia.

Section Monitor.
Context {M : Type}.
Variable step : M -> op -> res -> option M.

Fixpoint accepts (s : M) (t : trace) : option M :=
  match t with
  | [] => Some s
  | (o, r) :: t' => match step s o r with Some s' => accepts s' t' | None => None end
  end.

Fixpoint wp {A} (m : prog A) (Q : M -> A -> Prop) (E : M -> exn -> Prop) (s : M) : Prop :=
  match m with
  | Ret a => Q s a
  | Throw e => E s e
  | Do o k => forall r, valid_res o r = true -> exists s', step s o r = Some s' /\ wp (k r) Q E s'
  end.

Lemma wp_mono {A} (m : prog A) : forall (Q Q' : M -> A -> Prop) (E E' : M -> exn -> Prop) s,
  (forall s a, Q s a -> Q' s a) -> (forall s e, E s e -> E' s e) -> wp m Q E s -> wp m Q' E' s.
Proof.
  induction m as [a|e|o k IH]; simpl; intros Q Q' E E' s HQ HE H; auto.
  intros r Hv. destruct (H r Hv) as [s' [Hs Hw]]. exists s'. split; [exact Hs|]. eapply IH; eauto.
Qed.

Lemma wp_bind {A B} (m : prog A) (f : A -> prog B) : forall Q E s,
  wp m (fun s' a => wp (f a) Q E s') E s -> wp (bind m f) Q E s.
Proof.
  induction m as [a|e|o k IH]; simpl; intros Q E s H; auto.
  intros r Hv. destruct (H r Hv) as [s' [Hs Hw]]. exists s'. split; [exact Hs|]. apply IH. exact Hw.
Qed.

Lemma wp_catch {A} (m : prog A) (h : exn -> option (prog A)) : forall Q E s,
  wp m Q (fun s' e => match h e with Some p => wp p Q E s' | None => E s' e end) s -> wp (catch m h) Q E s.
Proof.
  induction m as [a|e|o k IH]; simpl; intros Q E s H; auto.
  - destruct (h e); exact H.
  - intros r Hv. destruct (H r Hv) as [s' [Hs Hw]]. exists s'. split; [exact Hs|]. apply IH. exact Hw.
Qed.

(* the conclusion about traces *)
Lemma wp_sound {A} (m : prog A) : forall Q E s, wp m Q E s ->
  all_runs (fun t out => exists s', accepts s t = Some s' /\
                         match out with Done a => Q s' a | Uncaught e => E s' e | Stuck => False end) m.
Proof.
  induction m as [a|e|o k IH]; simpl; intros Q E s H.
  - exists s. auto.
  - exists s. auto.
  - intros r Hv. destruct (H r Hv) as [s' [Hs Hw]].
    assert (HH := IH r Q E s' Hw).
    clear -HH Hs. revert HH. generalize (k r). intros p.
    assert (G : forall (P P' : trace -> outcome A -> Prop), (forall t out, P t out -> P' t out) -> all_runs P p -> all_runs P' p).
    { clear. induction p as [a|e|o k IH]; simpl; intros P P' HP H; auto.
      intros r Hv. eapply IH; [|exact (H r Hv)]. intros t out. apply HP. }
    apply G. intros t out [s'' [Ha Ho]]. exists s''. simpl. rewrite Hs. auto.
Qed.

(* one operation *)
Lemma wp_call (o : op) (Q : M -> res -> Prop) E s :
  (forall r, valid_res o r = true -> exists s', step s o r = Some s' /\
        match r with RErr e => E s' e | _ => Q s' r end) ->
  wp (call o) Q E s.
Proof.
  intros H. unfold call. simpl. intros r Hv. destruct (H r Hv) as [s' [Hs Hr]]. exists s'. split; [exact Hs|].
  destruct r; simpl; exact Hr.
Qed.

Lemma wp_ret {A} (a : A) (Q : M -> A -> Prop) E s : Q s a -> wp (Ret a) Q E s.
Proof. auto. Qed.
Lemma wp_throw {A} e (Q : M -> A -> Prop) (E : M -> exn -> Prop) s : E s e -> wp (Throw e) Q E s.
Proof. auto. Qed.

Lemma wp_call_bool (o : op) (Q : M -> bool -> Prop) E s :
  (forall r, valid_res o r = true -> exists s', step s o r = Some s' /\
        match r with RBool b => Q s' b | RErr e => E s' e | _ => E s' TypeErrorE end) ->
  wp (call_bool o) Q E s.
Proof.
  intros H. unfold call_bool. apply wp_bind. apply wp_call. intros r Hv. destruct (H r Hv) as [s' [Hs Hr]].
  exists s'. split; [exact Hs|]. destruct r; simpl; auto.
Qed.
Lemma wp_call_str (o : op) (Q : M -> str -> Prop) E s :
  (forall r, valid_res o r = true -> exists s', step s o r = Some s' /\
        match r with RStr b => Q s' b | RErr e => E s' e | _ => E s' TypeErrorE end) ->
  wp (call_str o) Q E s.
Proof.
  intros H. unfold call_str. apply wp_bind. apply wp_call. intros r Hv. destruct (H r Hv) as [s' [Hs Hr]].
  exists s'. split; [exact Hs|]. destruct r; simpl; auto.
Qed.
Lemma wp_call_unit (o : op) (Q : M -> unit -> Prop) E s :
  (forall r, valid_res o r = true -> exists s', step s o r = Some s' /\
        match r with RErr e => E s' e | _ => Q s' tt end) ->
  wp (call_unit o) Q E s.
Proof.
  intros H. unfold call_unit. apply wp_bind. apply wp_call. intros r Hv. destruct (H r Hv) as [s' [Hs Hr]].
  exists s'. split; [exact Hs|]. destruct r; simpl; auto.
Qed.

(* loops with an invariant on the monitor state *)
Lemma wp_for_each {A} (l : list A) (body : A -> prog unit) (I : M -> Prop) E :
  (forall x s, In x l -> I s -> wp (body x) (fun s' _ => I s') E s) ->
  forall s, I s -> wp (for_each l body) (fun s' _ => I s') E s.
Proof.
  induction l as [|x l IH]; simpl; intros Hb s Hs; auto.
  apply wp_bind. eapply wp_mono; [| |apply Hb; auto].
  - simpl. intros s' _ Hs'. apply IH; auto.
  - auto.
Qed.
End Monitor.

Lemma all_runs_mono {A} (m : prog A) : forall (P P' : trace -> outcome A -> Prop),
  (forall t out, P t out -> P' t out) -> all_runs P m -> all_runs P' m.
Proof.
  induction m as [a|e|o k IH]; simpl; intros P P' HP H; auto.
  intros r Hv. eapply IH; [|exact (H r Hv)]. intros t out. apply HP.
Qed.

(* typing of answers: what a well-typed answer to each kind of operation looks like *)
Definition bool_op (o : op) : bool :=
  match o with Lexists _ | Exists _ | Isdir _ | Isfile _ | Islink _ | Ismount _ | Access _ | IsAtty => true | _ => false end.
Definition unit_op (o : op) : bool :=
  match o with Makedirs _ _ | OpenExcl _ | WriteFd _ | CloseFd | Move _ _ | Remove _ | Rmtree _ => true | _ => false end.
Definition str_op (o : op) : bool :=
  match o with Realpath _ | Abspath _ | ReadText _ | Input _ => true | _ => false end.

Lemma valid_bool o r : bool_op o = true -> valid_res o r = true -> exists b, r = RBool b.
Proof. destruct o; try discriminate; intros _; destruct r as [| | | | | | |[]]; simpl; try discriminate; eauto. Qed.
Lemma valid_unit o r : unit_op o = true -> valid_res o r = true ->
  r = RUnit \/ (exists e, r = RErr e /\ is_OSError e = true).
Proof. destruct o; try discriminate; intros _; destruct r as [| | | | | | |[]]; simpl; try discriminate; eauto. Qed.
Lemma valid_silent o r : is_silent o = true -> valid_res o r = true -> r = RUnit.
Proof. destruct o; try discriminate; intros _; destruct r; simpl; try discriminate; auto. Qed.

(* ---------------------------------------------------------------------------------------------
   Stateless monitors: a predicate on (operation, answer) that every step of every run must satisfy.
   `safe ok m Q`: all operations of all runs of m are ok, and a normal return value satisfies Q. *)
Definition sstep (ok : op -> res -> bool) : unit -> op -> res -> option unit :=
  fun _ o r => if ok o r then Some tt else None.
Definition safe (ok : op -> res -> bool) {A} (m : prog A) (Q : A -> Prop) : Prop :=
  wp (sstep ok) m (fun _ a => Q a) (fun _ _ => True) tt.
Definition trace_ok (ok : op -> res -> bool) (t : trace) : Prop := Forall (fun p => ok (fst p) (snd p) = true) t.

Lemma accepts_sstep ok t : forall s, accepts (sstep ok) tt t = Some s -> trace_ok ok t.
Proof.
  induction t as [|[o r] t IH]; simpl; intros s H; [constructor|].
  unfold sstep in H at 1. destruct (ok o r) eqn:Hok; [|discriminate].
  constructor; [exact Hok|]. eapply IH. exact H.
Qed.

Lemma safe_sound ok {A} (m : prog A) Q : safe ok m Q ->
  all_runs (fun t out => trace_ok ok t /\ match out with Done a => Q a | _ => True end) m.
Proof.
  intros H. eapply all_runs_mono; [|apply (wp_sound _ _ _ _ _ H)].
  intros t out [s' [Ha Ho]]. split; [eapply accepts_sstep; eauto|]. destruct out; auto.
Qed.

Section Safe.
Variable ok : op -> res -> bool.

Lemma safe_ret {A} (a : A) (Q : A -> Prop) : Q a -> safe ok (Ret a) Q.
Proof. intros; exact H. Qed.
Lemma safe_throw {A} e (Q : A -> Prop) : safe ok (Throw e) Q.
Proof. exact I. Qed.
Lemma safe_mono {A} (m : prog A) (Q Q' : A -> Prop) : (forall a, Q a -> Q' a) -> safe ok m Q -> safe ok m Q'.
Proof. intros HQ. unfold safe. apply wp_mono; auto. Qed.
Lemma safe_bind {A B} (m : prog A) (f : A -> prog B) (Q' : A -> Prop) (Q : B -> Prop) :
  safe ok m Q' -> (forall a, Q' a -> safe ok (f a) Q) -> safe ok (bind m f) Q.
Proof.
  intros Hm Hf. unfold safe. apply wp_bind. eapply wp_mono; [| |exact Hm]; simpl; auto.
  intros [] a Ha. apply Hf. exact Ha.
Qed.
Lemma safe_seq {A B} (m : prog A) (k : prog B) (Q : B -> Prop) :
  safe ok m (fun _ => True) -> safe ok k Q -> safe ok (bind m (fun _ => k)) Q.
Proof. intros. eapply safe_bind; eauto. Qed.
Lemma safe_catch {A} (m : prog A) (h : exn -> option (prog A)) (Q : A -> Prop) :
  safe ok m Q -> (forall e p, h e = Some p -> safe ok p Q) -> safe ok (catch m h) Q.
Proof.
  intros Hm Hh. unfold safe. apply wp_catch. eapply wp_mono; [| |exact Hm]; simpl; auto.
  intros [] e _. destruct (h e) eqn:He; [|exact I]. apply (Hh e p He).
Qed.
Lemma safe_call (o : op) (Q : res -> Prop) :
  (forall r, valid_res o r = true -> ok o r = true /\ match r with RErr _ => True | _ => Q r end) ->
  safe ok (call o) Q.
Proof.
  intros H. apply wp_call. intros r Hv. destruct (H r Hv) as [Hok Hr]. exists tt. unfold sstep. rewrite Hok.
  split; [reflexivity|]. destruct r; auto.
Qed.
Lemma safe_call_any (o : op) : (forall r, valid_res o r = true -> ok o r = true) -> safe ok (call o) (fun _ => True).
Proof. intros H. apply safe_call. intros r Hv. split; [auto|destruct r; auto]. Qed.

Ltac call_any H := eapply safe_bind; [apply (safe_call_any _ H)|]; intros [] _; try apply safe_throw; apply safe_ret; exact I.

Lemma safe_call_bool o : (forall r, valid_res o r = true -> ok o r = true) -> safe ok (call_bool o) (fun _ => True).
Proof. intros H. unfold call_bool. call_any H. Qed.
Lemma safe_call_unit o : (forall r, valid_res o r = true -> ok o r = true) -> safe ok (call_unit o) (fun _ => True).
Proof. intros H. unfold call_unit. eapply safe_bind; [apply (safe_call_any _ H)|]. intros; exact I. Qed.
Lemma safe_call_str o : (forall r, valid_res o r = true -> ok o r = true) -> safe ok (call_str o) (fun _ => True).
Proof. intros H. unfold call_str. call_any H. Qed.
Lemma safe_call_list o : (forall r, valid_res o r = true -> ok o r = true) -> safe ok (call_list o) (fun _ => True).
Proof. intros H. unfold call_list. call_any H. Qed.
Lemma safe_call_stat o : (forall r, valid_res o r = true -> ok o r = true) -> safe ok (call_stat o) (fun _ => True).
Proof. intros H. unfold call_stat. call_any H. Qed.
Lemma safe_call_z o : (forall r, valid_res o r = true -> ok o r = true) -> safe ok (call_z o) (fun _ => True).
Proof. intros H. unfold call_z. call_any H. Qed.
Lemma safe_call_date o : (forall r, valid_res o r = true -> ok o r = true) -> safe ok (call_date o) (fun _ => True).
Proof. intros H. unfold call_date. call_any H. Qed.
(* a directory listing returns valid names *)
Lemma safe_listdir p : (forall r, valid_res (Listdir p) r = true -> ok (Listdir p) r = true) ->
  safe ok (call_list (Listdir p)) (fun l => forallb valid_name l = true).
Proof.
  intros H. unfold call_list. eapply safe_bind.
  - apply (safe_call (Listdir p) (fun r => valid_res (Listdir p) r = true)).
    intros r Hv. split; [auto|destruct r; auto].
  - intros r Hv. destruct r; try apply safe_throw. apply safe_ret. exact Hv.
Qed.

Lemma safe_for_each {A} (l : list A) (body : A -> prog unit) :
  (forall x, In x l -> safe ok (body x) (fun _ => True)) -> safe ok (for_each l body) (fun _ => True).
Proof.
  induction l as [|x l IH]; simpl; intros Hb; [exact I|].
  apply safe_seq; [apply Hb; auto|apply IH; auto].
Qed.
End Safe.

(* ---------------------------------------------------------------------------------------------
   Any-state safety for a stateful monitor: from EVERY monitor state, all operations of all runs of m
   are accepted, and a normal return value satisfies Q.  (For a stateless monitor this is `safe`.) *)
Definition asafe {M} (step : M -> op -> res -> option M) {A} (m : prog A) (Q : A -> Prop) : Prop :=
  forall s, wp step m (fun _ a => Q a) (fun _ _ => True) s.

Section ASafe.
Context {M : Type}.
Variable step : M -> op -> res -> option M.

Lemma asafe_ret {A} (a : A) (Q : A -> Prop) : Q a -> asafe step (Ret a) Q.
Proof. intros H s; exact H. Qed.
Lemma asafe_throw {A} e (Q : A -> Prop) : asafe step (Throw e) Q.
Proof. intros s; exact I. Qed.
Lemma asafe_mono {A} (m : prog A) (Q Q' : A -> Prop) : (forall a, Q a -> Q' a) -> asafe step m Q -> asafe step m Q'.
Proof. intros HQ H s. eapply wp_mono; [| |apply H]; simpl; auto. Qed.
Lemma asafe_bind {A B} (m : prog A) (f : A -> prog B) (Q' : A -> Prop) (Q : B -> Prop) :
  asafe step m Q' -> (forall a, Q' a -> asafe step (f a) Q) -> asafe step (bind m f) Q.
Proof.
  intros Hm Hf s. apply wp_bind. eapply wp_mono; [| |apply Hm]; simpl; auto.
  intros s' a Ha. apply Hf. exact Ha.
Qed.
Lemma asafe_seq {A B} (m : prog A) (k : prog B) (Q : B -> Prop) :
  asafe step m (fun _ => True) -> asafe step k Q -> asafe step (bind m (fun _ => k)) Q.
Proof. intros. eapply asafe_bind; eauto. Qed.
Lemma asafe_catch {A} (m : prog A) (h : exn -> option (prog A)) (Q : A -> Prop) :
  asafe step m Q -> (forall e p, h e = Some p -> asafe step p Q) -> asafe step (catch m h) Q.
Proof.
  intros Hm Hh s. apply wp_catch. eapply wp_mono; [| |apply Hm]; simpl; auto.
  intros s' e _. destruct (h e) eqn:He; [|exact I]. apply (Hh e p He).
Qed.
Definition accepted (o : op) : Prop := forall s r, valid_res o r = true -> exists s', step s o r = Some s'.
Lemma asafe_call (o : op) (Q : res -> Prop) :
  accepted o -> (forall r, valid_res o r = true -> match r with RErr _ => True | _ => Q r end) ->
  asafe step (call o) Q.
Proof.
  intros Ha H s. apply wp_call. intros r Hv. destruct (Ha s r Hv) as [s' Hs]. exists s'.
  split; [exact Hs|]. specialize (H r Hv). destruct r; auto.
Qed.
Lemma asafe_call_any (o : op) : accepted o -> asafe step (call o) (fun _ => True).
Proof. intros H. apply asafe_call; [exact H|]. intros r _. destruct r; auto. Qed.

Ltac acall_any H := eapply asafe_bind; [apply (asafe_call_any _ H)|]; intros [] _; try apply asafe_throw; apply asafe_ret; exact I.

Lemma asafe_call_bool o : accepted o -> asafe step (call_bool o) (fun _ => True).
Proof. intros H. unfold call_bool. acall_any H. Qed.
Lemma asafe_call_unit o : accepted o -> asafe step (call_unit o) (fun _ => True).
Proof. intros H. unfold call_unit. eapply asafe_bind; [apply (asafe_call_any _ H)|]. intros; apply asafe_ret; exact I. Qed.
Lemma asafe_call_str o : accepted o -> asafe step (call_str o) (fun _ => True).
Proof. intros H. unfold call_str. acall_any H. Qed.
Lemma asafe_call_list o : accepted o -> asafe step (call_list o) (fun _ => True).
Proof. intros H. unfold call_list. acall_any H. Qed.
Lemma asafe_call_stat o : accepted o -> asafe step (call_stat o) (fun _ => True).
Proof. intros H. unfold call_stat. acall_any H. Qed.
Lemma asafe_call_z o : accepted o -> asafe step (call_z o) (fun _ => True).
Proof. intros H. unfold call_z. acall_any H. Qed.
Lemma asafe_call_date o : accepted o -> asafe step (call_date o) (fun _ => True).
Proof. intros H. unfold call_date. acall_any H. Qed.
Lemma asafe_listdir p : accepted (Listdir p) ->
  asafe step (call_list (Listdir p)) (fun l => forallb valid_name l = true).
Proof.
  intros H. unfold call_list. eapply asafe_bind.
  - apply (asafe_call (Listdir p) (fun r => valid_res (Listdir p) r = true) H).
    intros r Hv. destruct r; auto.
  - intros r Hv. destruct r; try apply asafe_throw. apply asafe_ret. exact Hv.
Qed.
Lemma asafe_for_each {A} (l : list A) (body : A -> prog unit) :
  (forall x, In x l -> asafe step (body x) (fun _ => True)) -> asafe step (for_each l body) (fun _ => True).
Proof.
  induction l as [|x l IH]; simpl; intros Hb; [apply asafe_ret; exact I|].
  apply asafe_seq; [apply Hb; auto|apply IH; auto].
Qed.
Lemma asafe_sound {A} (m : prog A) Q s : asafe step m Q ->
  all_runs (fun t out => accepts step s t <> None /\ match out with Done a => Q a | _ => True end) m.
Proof.
  intros H. eapply all_runs_mono; [|apply (wp_sound step m _ _ s (H s))].
  intros t out [s' [Ha Ho]]. split; [rewrite Ha; discriminate|]. destruct out; auto.
Qed.
End ASafe.

Lemma asafe_of_safe ok {A} (m : prog A) Q : safe ok m Q -> asafe (sstep ok) m Q.
Proof. intros H []. exact H. Qed.
Lemma safe_of_asafe ok {A} (m : prog A) Q : asafe (sstep ok) m Q -> safe ok m Q.
Proof. intros H. exact (H tt). Qed.
Lemma accepted_sstep ok o : (forall r, valid_res o r = true -> ok o r = true) -> accepted (sstep ok) o.
Proof. intros H s r Hv. exists tt. unfold sstep. rewrite (H r Hv). reflexivity. Qed.

(* bridges between the two layers *)
Section Bridge.
Context {M : Type}.
Variable step : M -> op -> res -> option M.

(* a monitor state that accepts everything and never changes: any program is fine from there *)
Lemma wp_absorbing {A} (m : prog A) s : (forall o r, step s o r = Some s) ->
  wp step m (fun _ _ => True) (fun _ _ => True) s.
Proof.
  intros Habs. induction m as [a|e|o k IH]; simpl; auto.
  intros r _. exists s. split; [apply Habs|apply IH].
Qed.

(* operations the monitor is transparent on leave its state alone *)
Lemma safe_to_wp (ok : op -> res -> bool) {A} (m : prog A) (Q : A -> Prop) s :
  (forall o r, ok o r = true -> step s o r = Some s) ->
  safe ok m Q -> wp step m (fun s' a => s' = s /\ Q a) (fun s' _ => s' = s) s.
Proof.
  intros Ht. unfold safe. induction m as [a|e|o k IH]; simpl; auto.
  intros H r Hv. destruct (H r Hv) as [[] [Hs Hw]]. unfold sstep in Hs.
  destruct (ok o r) eqn:Hok; [|discriminate]. exists s. split; [apply Ht; exact Hok|]. apply IH. exact Hw.
Qed.
End Bridge.

Global Arguments safe : simpl never.
Global Arguments asafe : simpl never.
Global Arguments wp : simpl never.
Global Arguments bind : simpl never.
Global Arguments catch : simpl never.
Global Arguments call : simpl never.
Global Arguments call_bool : simpl never.
Global Arguments call_unit : simpl never.
Global Arguments call_str : simpl never.
Global Arguments call_list : simpl never.
Global Arguments call_stat : simpl never.
Global Arguments call_z : simpl never.
Global Arguments call_date : simpl never.
Global Arguments out : simpl never.
Global Arguments err : simpl never.
Global Arguments log : simpl never.
