(* C19: "as if the malformed entries were absent".  The three purging/printing readers handle the info files of a trash directory
   one after the other ([for_each infos body]).  A run of the loop is the concatenation of runs of the body (for_each_runs); dropping
   from the directory ANY set of entries whose runs show nothing of the observed kind (standard output for trash-list, mutations for
   trash-rm and trash-empty DAYS) leaves a genuine run of the loop over the remaining entries - same answers, same observations
   (for_each_as_if_absent).  Entries that cannot be read or carry no Path (no valid date, for trash-empty DAYS) are of that sort. *)
From Coq Require Import List NArith Bool.
From TV Require Import Prelude.Str Prelude.PosixPath Codec.TrashInfo Codec.DateFmt Logic.Glob Prog.Prog Cmd.Put Cmd.Scan Cmd.Empty Cmd.Rm Cmd.ListCmd
  Proofs.Independence.
Import ListNotations.
Open Scope N_scope.

Fixpoint keep {X} (mask : list bool) (l : list X) : list X :=
  match mask, l with
  | b :: m, x :: l' => if b then x :: keep m l' else keep m l'
  | _, _ => []
  end.

Lemma for_each_runs {A} (body : A -> prog unit) : forall l t,
  run_of (for_each l body) t (Done tt) <->
  exists ts, t = concat ts /\ Forall2 (fun x ti => run_of (body x) ti (Done tt)) l ts.
Proof.
  induction l as [|x l IH]; intros t; cbn [for_each].
  - split.
    + intros H. inversion H; subst. exists []. split; [reflexivity|constructor].
    + intros [ts [Et F]]. inversion F; subst. constructor.
  - rewrite run_of_bind. split.
    + intros [[t1 [a [t2 [H1 [H2 Et]]]]]|[e [_ Eo]]]; [|discriminate].
      apply IH in H2. destruct H2 as [ts [Et2 F]]. destruct a. exists (t1 :: ts). split; [subst; reflexivity|].
      constructor; assumption.
    + intros [ts [Et F]]. inversion F as [|x0 t1 l0 ts0 H1 F']; subst. left. exists t1, tt, (concat ts0).
      split; [exact H1|]. split; [apply IH; exists ts0; auto|reflexivity].
Qed.

Lemma keep_Forall2 {X Y} (R : X -> Y -> Prop) : forall mask l ts, Forall2 R l ts -> Forall2 R (keep mask l) (keep mask ts).
Proof.
  induction mask as [|b m IH]; intros l ts F; [constructor|].
  destruct F as [|x y l ts Rxy F]; [constructor|]. cbn [keep]. destruct b; [constructor; auto|auto].
Qed.

Lemma keep_filter (f : op * res -> bool) : forall mask ts,
  Forall2 (fun b ti => b = false -> filter f ti = []) mask ts ->
  filter f (concat (keep mask ts)) = filter f (concat ts).
Proof.
  intros mask ts F. induction F as [|b ti mask ts Hb F IH]; [reflexivity|].
  cbn [keep concat]. destruct b.
  - cbn [concat]. rewrite !filter_app, IH. reflexivity.
  - rewrite filter_app, (Hb eq_refl), IH. reflexivity.
Qed.

Theorem for_each_as_if_absent_lemma {A} (body : A -> prog unit) (f : op * res -> bool) : forall l t,
  run_of (for_each l body) t (Done tt) ->
  exists ts, t = concat ts /\ Forall2 (fun x ti => run_of (body x) ti (Done tt)) l ts /\
    forall mask, Forall2 (fun b ti => b = false -> filter f ti = []) mask ts ->
      run_of (for_each (keep mask l) body) (concat (keep mask ts)) (Done tt) /\
      filter f (concat (keep mask ts)) = filter f t.
Proof.
  intros l t H. apply for_each_runs in H. destruct H as [ts [Et F]]. exists ts. split; [exact Et|]. split; [exact F|].
  intros mask M. split.
  - apply for_each_runs. exists (keep mask ts). split; [reflexivity|]. apply keep_Forall2. exact F.
  - subst t. apply keep_filter. exact M.
Qed.

(* ---- what is observed ---- *)
Definition stdout_ev (x : op * res) : bool := match fst x with Out false _ => true | _ => false end.
Definition mut_ev (x : op * res) : bool := is_mutator (fst x).

(* the run of one entry begins with the read of its info file: the entry cannot be read, or what was read carries no Path *)
Definition pathless (t : trace) : Prop :=
  match t with
  | (ReadText _, RStr c) :: _ => parse_path c = None
  | _ => True
  end.
(* ... or no valid DeletionDate *)
Definition undated (t : trace) : Prop :=
  match t with
  | (ReadText _, RStr c) :: _ => parse_deletion_date c = None
  | _ => True
  end.

Ltac inv_run :=
  repeat match goal with
  | H : run_of (Ret _) _ _ |- _ => inversion H; subst; clear H
  | H : run_of (Throw _) _ _ |- _ => inversion H; subst; clear H
  end.

(* reading one info file the way the three readers do: one operation, and the three things that can come of it *)
Lemma run_read_text p {B} (ok : str -> B) (bad_os bad_utf8 : B) t a :
  run_of (catch (c <- call_str (ReadText p) ;; Ret (ok c))
                (fun e => if is_OSError e then Some (Ret bad_os)
                          else match e with UnicodeDecodeError => Some (Ret bad_utf8) | _ => None end)) t (Done a) ->
  exists r, t = [(ReadText p, r)] /\
    match r with RStr c => a = ok c | RErr _ => a = bad_os \/ a = bad_utf8 | _ => False end.
Proof.
  unfold call_str, call. cbn [bind catch]. intros H.
  inversion H as [| |o0 k0 r t0 out0 Hv Hk]; subst. exists r.
  destruct r as [| |c| | | | |e]; cbn [bind catch is_OSError] in Hk; inv_run; try (split; reflexivity).
  destruct e; cbn [is_OSError] in Hk; inv_run; split; auto.
Qed.

Lemma run_call_unit o t : run_of (call_unit o) t (Done tt) -> exists r, t = [(o, r)].
Proof.
  unfold call_unit, call. cbn [bind]. intros H. inversion H as [| |o0 k0 r t0 out0 Hv Hk]; subst. exists r.
  destruct r; cbn [bind] in Hk; inv_run; reflexivity.
Qed.

(* ---- trash-list: an entry that cannot be read or has no Path prints nothing on standard output ---- *)
Lemma list_pathless_silent o volume p t :
  run_of (print_trashinfo o volume p) t (Done tt) -> pathless t -> filter stdout_ev t = [].
Proof.
  unfold print_trashinfo. intros H S. apply run_of_bind in H.
  destruct H as [[t1 [a [t2 [H1 [H2 Et]]]]]|[e [_ Eo]]]; [|discriminate].
  apply run_read_text in H1. destruct H1 as [r [Et1 Ha]]. subst t1 t. cbn [app pathless] in S.
  assert (Hq : exists r', t2 = [(Log WARNING (match a with inl _ => true | inr _ => false end)
                                  (match a with inl _ => $"Parse Error: " ++ p ++ $": Unable to parse Path." | inr true => [] | inr false => p ++ $": " end), r')]).
  { destruct r as [| |c| | | | |e]; try contradiction.
    - subst a. rewrite S in H2. unfold printerr in H2. apply run_call_unit in H2. exact H2.
    - destruct Ha; subst a; unfold printerr in H2; apply run_call_unit in H2; exact H2. }
  destruct Hq as [r' Et2]. subst t2. reflexivity.
Qed.

(* ---- trash-rm: such an entry causes no mutation ---- *)
Lemma rm_pathless_silent pattern volume p t :
  run_of (rm_one_info pattern volume p) t (Done tt) -> pathless t -> filter mut_ev t = [].
Proof.
  unfold rm_one_info. intros H S. apply run_of_bind in H.
  destruct H as [[t1 [a [t2 [H1 [H2 Et]]]]]|[e [_ Eo]]]; [|discriminate].
  apply run_read_text in H1. destruct H1 as [r [Et1 Ha]]. subst t1 t. cbn [app pathless] in S.
  assert (Ea : a = None).
  { destruct r as [| |c| | | | |e]; try contradiction; [subst a; exact S|destruct Ha; assumption]. }
  subst a. apply run_call_unit in H2. destruct H2 as [r' Et2]. subst t2. reflexivity.
Qed.

(* ---- trash-empty DAYS: an entry that cannot be read or has no valid date causes no mutation ---- *)
Lemma run_call_date_ops o t out : run_of (call_date o) t out -> exists r, t = [(o, r)].
Proof.
  unfold call_date, call. cbn [bind]. intros H. inversion H as [| |o0 k0 r t0 out0 Hv Hk]; subst. exists r.
  destruct r; cbn [bind] in Hk; inv_run; reflexivity.
Qed.

Lemma get_now_value_no_mutation env t a : run_of (get_now_value env) t (Done a) -> filter mut_ev t = [].
Proof.
  unfold get_now_value. destruct (env_get env s_TRASH_DATE) as [v|].
  - destruct (strptime_body v) as [d|].
    + intros H. inv_run. reflexivity.
    + intros H. apply run_of_bind in H. destruct H as [[t1 [u [t2 [H1 [H2 Et]]]]]|[e [_ Eo]]]; [|discriminate].
      destruct u. apply run_call_unit in H1. destruct H1 as [r1 E1]. apply run_call_date_ops in H2. destruct H2 as [r2 E2].
      subst. reflexivity.
  - intros H. apply run_call_date_ops in H. destruct H as [r E]. subst. reflexivity.
Qed.

Lemma empty_undated_silent o dd p t : eo_days o = Some dd ->
  run_of (empty_one_info o p) t (Done tt) -> undated t -> filter mut_ev t = [].
Proof.
  unfold empty_one_info, ok_to_delete. intros Hd H S. rewrite Hd in H. apply run_of_bind in H.
  destruct H as [[t1 [ok [t2 [H1 [H2 Et]]]]]|[e [_ Eo]]]; [|discriminate].
  apply run_of_bind in H1. destruct H1 as [[t11 [a [t12 [H11 [H12 Et1]]]]]|[e [_ Eo]]]; [|discriminate].
  apply run_read_text in H11. destruct H11 as [r [Et11 Ha]]. subst t11 t1 t. cbn [app undated] in S.
  destruct r as [| |c| | | | |e]; try contradiction.
  - subst a. rewrite S in H12. apply run_of_bind in H12.
    destruct H12 as [[t3 [now [t4 [H3 [H4 Et3]]]]]|[e [_ Eo]]]; [|discriminate].
    inv_run. apply get_now_value_no_mutation in H3. cbn [app filter mut_ev fst is_mutator].
    rewrite !app_nil_r. exact H3.
  - assert (Ea : a = None) by (destruct Ha; assumption). subst a. inv_run. reflexivity.
Qed.

(* ---- the three instances ---- *)

Lemma Forall2_run_silent {X} (R : X -> trace -> Prop) (P : trace -> Prop) (f : op * res -> bool)
  (Hs : forall x ti, R x ti -> P ti -> filter f ti = []) :
  forall l ts, Forall2 R l ts -> forall mask, Forall2 (fun b ti => b = false -> P ti) mask ts ->
               Forall2 (fun b ti => b = false -> filter f ti = []) mask ts.
Proof.
  intros l ts F. induction F as [|x ti l ts Rx F IH]; intros mask M; inversion M; subst; constructor; eauto.
Qed.

Lemma list_as_if_malformed_absent_lemma o volume infos t : lo_size o = false ->
  run_of (for_each infos (print_trashinfo o volume)) t (Done tt) ->
  exists ts, t = concat ts /\ Forall2 (fun p ti => run_of (print_trashinfo o volume p) ti (Done tt)) infos ts /\
    forall mask, Forall2 (fun b ti => b = false -> pathless ti) mask ts ->
      run_of (for_each (keep mask infos) (print_trashinfo o volume)) (concat (keep mask ts)) (Done tt) /\
      filter stdout_ev (concat (keep mask ts)) = filter stdout_ev t.
Proof.
  intros _ H. destruct (for_each_as_if_absent_lemma _ stdout_ev _ _ H) as [ts [Et [F K]]].
  exists ts. split; [exact Et|]. split; [exact F|]. intros mask M. apply K.
  exact (Forall2_run_silent _ pathless stdout_ev (fun p ti Hr Hp => list_pathless_silent o volume p ti Hr Hp) _ _ F _ M).
Qed.

Lemma rm_as_if_malformed_absent_lemma pattern volume infos t :
  run_of (for_each infos (rm_one_info pattern volume)) t (Done tt) ->
  exists ts, t = concat ts /\ Forall2 (fun p ti => run_of (rm_one_info pattern volume p) ti (Done tt)) infos ts /\
    forall mask, Forall2 (fun b ti => b = false -> pathless ti) mask ts ->
      run_of (for_each (keep mask infos) (rm_one_info pattern volume)) (concat (keep mask ts)) (Done tt) /\
      filter mut_ev (concat (keep mask ts)) = filter mut_ev t.
Proof.
  intros H. destruct (for_each_as_if_absent_lemma _ mut_ev _ _ H) as [ts [Et [F K]]].
  exists ts. split; [exact Et|]. split; [exact F|]. intros mask M. apply K.
  exact (Forall2_run_silent _ pathless mut_ev (fun p ti Hr Hp => rm_pathless_silent pattern volume p ti Hr Hp) _ _ F _ M).
Qed.

Lemma empty_days_as_if_undated_absent_lemma o dd infos t : eo_days o = Some dd ->
  run_of (for_each infos (empty_one_info o)) t (Done tt) ->
  exists ts, t = concat ts /\ Forall2 (fun p ti => run_of (empty_one_info o p) ti (Done tt)) infos ts /\
    forall mask, Forall2 (fun b ti => b = false -> undated ti) mask ts ->
      run_of (for_each (keep mask infos) (empty_one_info o)) (concat (keep mask ts)) (Done tt) /\
      filter mut_ev (concat (keep mask ts)) = filter mut_ev t.
Proof.
  intros Hd H. destruct (for_each_as_if_absent_lemma _ mut_ev _ _ H) as [ts [Et [F K]]].
  exists ts. split; [exact Et|]. split; [exact F|]. intros mask M. apply K.
  exact (Forall2_run_silent _ undated mut_ev (fun p ti Hr Hp => empty_undated_silent o dd p ti Hd Hr Hp) _ _ F _ M).
Qed.

(* ---- trash-restore: the entries found in one trash directory (a fold that appends) ---- *)
From TV Require Import Cmd.Restore Logic.Scope.

Lemma fold_runs {A B S} (g : A -> prog B) (h : S -> B -> S) : forall l s t s',
  run_of (fold_prog l (fun s x => b <- g x ;; Ret (h s b)) s) t (Done s') <->
  exists tbs, t = concat (map fst tbs) /\ Forall2 (fun x (tb : trace * B) => run_of (g x) (fst tb) (Done (snd tb))) l tbs /\
              s' = fold_left h (map snd tbs) s.
Proof.
  induction l as [|x l IH]; intros s t s'; cbn [fold_prog].
  - split.
    + intros H. inversion H; subst. exists []. split; [reflexivity|]. split; [constructor|reflexivity].
    + intros [tbs [Et [F Es]]]. inversion F; subst. constructor.
  - rewrite run_of_bind. split.
    + intros [[t1 [s1 [t2 [H1 [H2 Et]]]]]|[e [_ Eo]]]; [|discriminate].
      apply run_of_bind in H1. destruct H1 as [[t11 [b [t12 [H11 [H12 Et1]]]]]|[e [_ Eo]]]; [|discriminate].
      inversion H12; subst. apply IH in H2. destruct H2 as [tbs [Et2 [F Es]]].
      exists ((t11, b) :: tbs). split; [cbn [map concat fst]; rewrite app_nil_r; subst; reflexivity|].
      split; [constructor; [exact H11|exact F]|exact Es].
    + intros [tbs [Et [F Es]]]. inversion F as [|x0 tb l0 tbs0 H1 F']; subst. left.
      exists (fst tb), (h s (snd tb)), (concat (map fst tbs0)). split.
      * apply run_of_bind. left. exists (fst tb), (snd tb), []. split; [exact H1|]. split; [constructor|rewrite app_nil_r; reflexivity].
      * split; [apply IH; exists tbs0; auto|reflexivity].
Qed.

Lemma keep_fold {B S} (h : S -> B -> S) (neutral : B -> Prop) (Hn : forall s b, neutral b -> h s b = s) :
  forall (mask : list bool) (tbs : list (trace * B)) s,
    Forall2 (fun b tb => b = false -> neutral (snd tb)) mask tbs ->
    fold_left h (map snd (keep mask tbs)) s = fold_left h (map snd tbs) s.
Proof.
  intros mask tbs s F. revert s. induction F as [|b tb mask tbs Hb F IH]; intros s; [reflexivity|].
  cbn [keep]. destruct b; cbn [map fold_left]; [apply IH|]. rewrite (Hn s _ (Hb eq_refl)). apply IH.
Qed.

Theorem fold_as_if_absent_lemma {A B S} (g : A -> prog B) (h : S -> B -> S) (neutral : B -> Prop)
  (Hn : forall s b, neutral b -> h s b = s) : forall l s t s',
  run_of (fold_prog l (fun s x => b <- g x ;; Ret (h s b)) s) t (Done s') ->
  exists tbs, t = concat (map fst tbs) /\ Forall2 (fun x (tb : trace * B) => run_of (g x) (fst tb) (Done (snd tb))) l tbs /\
    forall mask, Forall2 (fun b tb => b = false -> neutral (snd tb)) mask tbs ->
      run_of (fold_prog (keep mask l) (fun s x => b <- g x ;; Ret (h s b)) s) (concat (map fst (keep mask tbs))) (Done s').
Proof.
  intros l s t s' H. apply fold_runs in H. destruct H as [tbs [Et [F Es]]]. exists tbs. split; [exact Et|]. split; [exact F|].
  intros mask M. apply fold_runs. exists (keep mask tbs). split; [reflexivity|]. split; [apply keep_Forall2; exact F|].
  rewrite Es. symmetry. exact (keep_fold h neutral Hn mask tbs s M).
Qed.

(* the piece of the run that handles one info file: it is no .trashinfo file, it cannot be read, or no location can be made of it *)
Definition unlocated (volume : str) (t : trace) : Prop :=
  match t with
  | (ReadText _, RStr c) :: _ => parse_original_location c volume = None
  | _ => True
  end.

Lemma restore_unlocated_none volume is_ti p t r :
  run_of (read_trashed_file volume is_ti p) t (Done r) -> unlocated volume t -> r = None.
Proof.
  unfold read_trashed_file, warn. destruct is_ti; cbn [negb].
  2:{ intros H _. apply run_of_bind in H. destruct H as [[t1 [u [t2 [H1 [H2 Et]]]]]|[e [_ Eo]]]; [|discriminate]. inv_run. reflexivity. }
  intros H S. apply run_of_bind in H. destruct H as [[t1 [a [t2 [H1 [H2 Et]]]]]|[e [_ Eo]]]; [|discriminate].
  apply run_read_text in H1. destruct H1 as [r0 [Et1 Ha]]. subst t1 t. cbn [app unlocated] in S.
  destruct r0 as [| |c| | | | |e]; try contradiction.
  - subst a. rewrite S in H2. apply run_of_bind in H2. destruct H2 as [[t3 [u [t4 [H3 [H4 Et3]]]]]|[e [_ Eo]]]; [|discriminate].
    inv_run. reflexivity.
  - destruct Ha; subst a; apply run_of_bind in H2; destruct H2 as [[t3 [u [t4 [H3 [H4 Et3]]]]]|[e' [_ Eo]]]; try discriminate;
      inv_run; reflexivity.
Qed.

Definition restore_step (scope volume : str) (acc : list trashed_file) (it : bool * str) : prog (list trashed_file) :=
  t <- read_trashed_file volume (fst it) (snd it) ;;
  Ret (match t with
       | Some tf => if matches_path (tf_location tf) scope then acc ++ [tf] else acc
       | None => acc
       end).

Lemma restore_found_as_if_malformed_absent_lemma scope volume infos acc t found :
  run_of (fold_prog infos (restore_step scope volume) acc) t (Done found) ->
  exists tbs, t = concat (map fst tbs) /\
    Forall2 (fun it (tb : trace * option trashed_file) => run_of (read_trashed_file volume (fst it) (snd it)) (fst tb) (Done (snd tb))) infos tbs /\
    forall mask, Forall2 (fun b (tb : trace * option trashed_file) => b = false -> unlocated volume (fst tb)) mask tbs ->
      run_of (fold_prog (keep mask infos) (restore_step scope volume) acc) (concat (map fst (keep mask tbs))) (Done found).
Proof.
  intros H.
  pose (h := fun (acc : list trashed_file) (t : option trashed_file) =>
               match t with Some tf => if matches_path (tf_location tf) scope then acc ++ [tf] else acc | None => acc end).
  change (restore_step scope volume) with (fun s x => b <- read_trashed_file volume (fst x) (snd x) ;; Ret (h s b)) in *.
  assert (Hn : forall (s : list trashed_file) (b : option trashed_file), b = None -> h s b = s) by (intros s b E; rewrite E; reflexivity).
  destruct (fold_as_if_absent_lemma (fun it => read_trashed_file volume (fst it) (snd it)) h (fun b => b = None)
              Hn _ _ _ _ H) as [tbs [Et [F K]]].
  exists tbs. split; [exact Et|]. split; [exact F|]. intros mask M. apply K.
  clear - F M. revert mask M. induction F as [|it tb l tbs Hr F IH]; intros mask M; inversion M; subst; constructor.
  - intros Eb. eapply restore_unlocated_none; [exact Hr|auto].
  - apply IH. assumption.
Qed.

(* ---- trash-list, the other half: an entry that can be read and has a Path prints exactly ONE record - date, blank, location (and the
   payload path under --files) - in every run, whatever else the environment answers ---- *)
Definition list_record (o : list_opts) (volume p c rel : str) : str :=
  let attr := maybe_parse_deletion_date c in
  let loc := join2 volume rel in
  (if lo_files o then attr ++ [c_space] ++ loc ++ $" -> " ++ path_of_backup_copy p else attr ++ [c_space] ++ loc) ++ [c_nl].

Lemma list_entry_one_record_lemma o volume p t c rel t' : lo_size o = false ->
  run_of (print_trashinfo o volume p) t (Done tt) -> t = (ReadText p, RStr c) :: t' -> parse_path c = Some rel ->
  map fst (filter stdout_ev t) = [Out false (list_record o volume p c rel)].
Proof.
  unfold print_trashinfo. intros Hs H Et Hp. apply run_of_bind in H.
  destruct H as [[t1 [a [t2 [H1 [H2 Et12]]]]]|[e [_ Eo]]]; [|discriminate].
  apply run_read_text in H1. destruct H1 as [r [Et1 Ha]]. subst t1. rewrite Et12 in Et. cbn [app] in Et. inversion Et; subst r t'. subst a.
  rewrite Hp, Hs in H2. change (bind (Ret (maybe_parse_deletion_date c)) ?f) with (f (maybe_parse_deletion_date c)) in H2.
  unfold list_record. destruct (lo_files o); unfold println, Prog.out in H2; apply run_call_unit in H2; destruct H2 as [r' E2]; subst; reflexivity.
Qed.
