(* C01 on the world: trash-put destroys nothing.
   The put-discipline monitor (PutProofs.put_step: trash-put creates only info files, writes only the file it has just
   created, removes only the info file it has reserved and not yet given a payload) and the fact that every move goes
   onto a free path (WorldPut2) are coupled with the file-system model:
   whatever existed before the run and is not at or below an entry that this run moved into the trash holds, after the
   run - and in every intermediate state - exactly what it held before: same kind, same content.
   The one exception is the stated one of C04: a symbolic link that is itself the destination of a move (the dangling
   orphan payload os.path.exists cannot see). *)
From TV Require Import Prelude.Str Prelude.PosixPath Prog.Prog World.World Cmd.Put Cmd.Scan
  Proofs.ProgProofs Proofs.OrigLocProofs Proofs.PathProofs Proofs.WorldProofs Proofs.WorldPurge Proofs.PutSafe Proofs.PutProofs
  Proofs.WorldPut Proofs.WorldPut2.
Open Scope N_scope.

Section Kept.
Variable s0 : wstate.                       (* the file system when the command starts *)
Variable mv : str -> str -> Prop.           (* the moves of the whole run that returned normally *)
Hypothesis Hwf0 : wf (wfs s0).

(* q is protected: it existed, no move of the run takes it away, and it is not a symbolic link a move goes onto *)
Definition kept (q : str) : Prop :=
  wfs s0 q <> None /\ forall src dst, mv src dst -> under src q = false /\ (q = dst -> wfs s0 q <> Some NLink).

(* what is at or below something unprotected is unprotected *)
Lemma kept_up p q : p <> [] -> under p q = true -> kept q -> kept p.
Proof.
  intros Hne Hu [Hex Hmv]. destruct (under_cases _ _ Hu) as [E|Hb]; [subst q; split; assumption|].
  assert (Hd : wfs s0 p = Some NDir) by (apply (Hwf0 q p Hex Hb Hne)).
  split; [rewrite Hd; discriminate|]. intros src dst Hm. destruct (Hmv src dst Hm) as [Hs _]. split.
  - destruct (under src p) eqn:E; [|reflexivity]. rewrite (under_trans _ _ _ E Hu) in Hs. discriminate.
  - intros _. rewrite Hd. discriminate.
Qed.

Record J (m : pst) (s : wstate) : Prop := mkJ {
  j_kept : forall q, kept q -> wfs s q = wfs s0 q;
  j_fd : forall p, wfd s = Some p -> ~ kept p;
  j_res : forall p ph, p_res m = Some (p, ph) -> is_info_path p = true /\ ~ kept p;
  j_closed : forall p, p_res m = Some (p, Closed) -> wfd s = None }.

(* the reservation of the monitor is inherited, dropped, or the file just created *)
Lemma put_step_res m o r m1 rp rph :
  put_step m o r = Some m1 -> p_res m1 = Some (rp, rph) ->
  (exists ph', p_res m = Some (rp, ph')) \/ (o = OpenExcl rp /\ r = RUnit /\ is_info_path rp = true).
Proof.
  intros Hst Hr. destruct o; cbn [put_step] in Hst.
  all: try solve [inversion Hst; subst m1; left; eauto].
  - (* Lexists *) inversion Hst; subst m1; clear Hst. destruct r as [|b| | | | | |]; try solve [left; eauto].
    destruct b; [left; eauto|]. destruct (p_res m) as [[p0 ph0]|] eqn:E; [|rewrite E in Hr; discriminate].
    destruct (str_eqb p p0); [discriminate Hr|]. left. rewrite E in Hr. inversion Hr; subst. eauto.
  - (* OpenExcl *) destruct (is_info_path p) eqn:Hi; [|discriminate]. inversion Hst; subst m1; clear Hst.
    destruct r; try solve [left; eauto]. simpl in Hr. inversion Hr; subst. right. auto.
  - (* WriteFd *) destruct (p_res m) as [[p0 [| | |]]|] eqn:E; try discriminate. destruct (parseable b); [|discriminate].
    inversion Hst; subst m1; clear Hst. simpl in Hr. inversion Hr; subst. left. eauto.
  - (* CloseFd *) inversion Hst; subst m1; clear Hst. destruct r; try solve [left; eauto].
    destruct (p_res m) as [[p0 [| | |]]|] eqn:E; simpl in Hr; rewrite ?E in Hr; inversion Hr; subst; left; eauto.
  - (* Move *) destruct (p_res m) as [[p0 [| | |]]|] eqn:E; try discriminate. destruct (str_eqb dst (path_of_backup_copy p0)); [|discriminate].
    inversion Hst; subst m1; clear Hst. destruct r; try solve [rewrite E in Hr; left; eauto]. discriminate Hr.
  - (* Remove *) destruct (p_res m) as [[p0 ph0]|] eqn:E; [|discriminate]. destruct (str_eqb p p0); [|discriminate].
    inversion Hst; subst m1; clear Hst. destruct r; try discriminate Hr; simpl in Hr; inversion Hr; subst; left; eauto.
  - (* Rmtree *) destruct (p_res m) as [[p0 ph0]|] eqn:E; [|discriminate]. destruct (str_eqb p p0); [|discriminate].
    inversion Hst; subst m1; clear Hst. destruct r; try discriminate Hr; simpl in Hr; inversion Hr; subst; left; eauto.
  - (* Log *) destruct lv.
    + destruct (is_cannot_trash text).
      * match type of Hst with (if ?c then _ else _) = _ => destruct c end; [|discriminate]. inversion Hst; subst m1. discriminate Hr.
      * inversion Hst; subst m1. left; eauto.
    + destruct (p_moved m); [|discriminate]. inversion Hst; subst m1. discriminate Hr.
    + inversion Hst; subst m1. left; eauto.
Qed.

(* a reservation is Closed because the descriptor was just closed, or it was Closed before and nothing was created since *)
Lemma put_step_closed m o r m1 rp :
  put_step m o r = Some m1 -> p_res m1 = Some (rp, Closed) ->
  (o = CloseFd /\ r = RUnit) \/ (p_res m = Some (rp, Closed) /\ forall x, o = OpenExcl x -> r <> RUnit).
Proof.
  intros Hst Hr. destruct o; cbn [put_step] in Hst.
  all: try solve [inversion Hst; subst m1; right; split; [exact Hr|intros; discriminate]].
  - (* Lexists *) inversion Hst; subst m1; clear Hst. right. split; [|intros; discriminate].
    destruct r as [|b| | | | | |]; try exact Hr. destruct b; [exact Hr|].
    destruct (p_res m) as [[p0 ph0]|] eqn:E; [|rewrite E in Hr; discriminate].
    destruct (str_eqb p p0); [discriminate Hr|]. rewrite E in Hr. exact Hr.
  - (* OpenExcl *) destruct (is_info_path p); [|discriminate]. inversion Hst; subst m1; clear Hst.
    destruct r; try solve [right; split; [exact Hr|intros; discriminate]]. discriminate Hr.
  - (* WriteFd *) destruct (p_res m) as [[p0 [| | |]]|] eqn:E; try discriminate. destruct (parseable b); [|discriminate].
    inversion Hst; subst m1; clear Hst. destruct r; discriminate Hr.
  - (* CloseFd *) inversion Hst; subst m1; clear Hst. destruct r; try solve [right; split; [exact Hr|intros; discriminate]]. left. auto.
  - (* Move *) destruct (p_res m) as [[p0 [| | |]]|] eqn:E; try discriminate. destruct (str_eqb dst (path_of_backup_copy p0)); [|discriminate].
    inversion Hst; subst m1; clear Hst. destruct r; try solve [rewrite E in Hr; right; split; [exact Hr|intros; discriminate]]. discriminate Hr.
  - (* Remove *) destruct (p_res m) as [[p0 ph0]|] eqn:E; [|discriminate]. destruct (str_eqb p p0); [|discriminate].
    inversion Hst; subst m1; clear Hst. destruct r; discriminate Hr.
  - (* Rmtree *) destruct (p_res m) as [[p0 ph0]|] eqn:E; [|discriminate]. destruct (str_eqb p p0); [|discriminate].
    inversion Hst; subst m1; clear Hst. destruct r; discriminate Hr.
  - (* Log *) destruct lv.
    + destruct (is_cannot_trash text).
      * match type of Hst with (if ?c then _ else _) = _ => destruct c end; [|discriminate]. inversion Hst; subst m1. discriminate Hr.
      * inversion Hst; subst m1. right; split; [exact Hr|intros; discriminate].
    + destruct (p_moved m); [|discriminate]. inversion Hst; subst m1. discriminate Hr.
    + inversion Hst; subst m1. right; split; [exact Hr|intros; discriminate].
Qed.

(* Remove / Rmtree are accepted on the reservation only *)
Lemma put_step_removal m o r m1 p : put_step m o r = Some m1 -> (o = Remove p \/ o = Rmtree p) -> exists ph, p_res m = Some (p, ph).
Proof.
  intros Hst [E|E]; subst o; cbn [put_step] in Hst; destruct (p_res m) as [[p0 ph0]|]; try discriminate;
    destruct (str_eqb p p0) eqn:Ep; try discriminate; apply str_eqb_true in Ep; subst p0; eauto.
Qed.

Lemma J_step m s o r m1 s1 :
  put_step m o r = Some m1 -> J m s -> effect s o r s1 -> free_dst s o ->
  (forall src dst, o = Move src dst -> r = RUnit -> mv src dst) -> J m1 s1.
Proof.
  intros Hst [Hk Hfd Hres Hcl] He Hfree Hmv.
  (* the descriptor: inherited, or the file just created *)
  assert (Hfd1 : forall p, wfd s1 = Some p -> wfd s = Some p \/ (o = OpenExcl p /\ r = RUnit /\ wfs s p = None)).
  { intros p Hp. destruct (is_mutator o) eqn:Em; [|left; rewrite <- (proj1 (effect_probe s o r s1 Em He)); exact Hp].
    destruct o; try discriminate Em; simpl in He.
    - (* Makedirs *) destruct He as [E _]. rewrite E in Hp. auto.
    - (* OpenExcl *) destruct r; try solve [destruct He as [E _]; rewrite E in Hp; auto].
      destruct He as [Hn [E _]]. rewrite E in Hp. inversion Hp; subst. right. auto.
    - (* WriteFd *) destruct r; try solve [destruct He as [E _]; rewrite E in Hp; auto].
      + destruct He as [p' [c [_ [_ [E _]]]]]. rewrite E in Hp. auto.
      + destruct He as [p' [c [b' [_ [_ [E _]]]]]]. rewrite E in Hp. auto.
    - (* CloseFd *) destruct He as [E _]. rewrite E in Hp. discriminate.
    - (* Move *) destruct r; try solve [destruct He as [E _]; rewrite E in Hp; auto]. destruct He as [_ [_ [E _]]]. rewrite E in Hp. auto.
    - (* Remove *) destruct r; try solve [destruct He as [E _]; rewrite E in Hp; auto]. destruct He as [_ [E _]]. rewrite E in Hp. auto.
    - (* Rmtree *) destruct r; try solve [destruct He as [E _]; rewrite E in Hp; auto]. }
  assert (Hnew : forall p, wfs s p = None -> ~ kept p).
  { intros p Hn Hp. apply (proj1 Hp). rewrite <- (Hk p Hp). exact Hn. }
  constructor.
  - (* protected paths keep what they hold *)
    intros q Hq. rewrite <- (Hk q Hq).
    assert (Hex : wfs s q <> None) by (rewrite (Hk q Hq); exact (proj1 Hq)).
    destruct (is_mutator o) eqn:Em; [|apply (proj2 (effect_probe s o r s1 Em He))].
    destruct o; try discriminate Em.
    + (* Makedirs *) simpl in He. destruct He as [_ [H _]]. destruct (H q) as [E|[E _]]; [exact E|contradiction].
    + (* OpenExcl *) destruct r; try solve [simpl in He; apply (proj2 He)].
      apply (effect_frame s _ _ s1 q He). simpl. intros E. subst q. simpl in He. destruct He as [Hn _]. contradiction.
    + (* WriteFd *) apply (effect_frame s _ r s1 q He). simpl. intros E. apply (Hfd q E). exact Hq.
    + (* CloseFd *) apply (effect_frame s _ r s1 q He). simpl. auto.
    + (* Move *) destruct r; try solve [simpl in He; apply (proj2 He)].
      destruct (proj2 Hq src dst (Hmv src dst eq_refl eq_refl)) as [Hs Hd].
      simpl in He. destruct He as [_ [_ [_ [_ [_ [Hrest _]]]]]]. apply Hrest; [exact Hs| |exact Hex].
      intros E. simpl in Hfree. rewrite (Hk q Hq) in Hex. specialize (Hd E). rewrite <- E, (Hk q Hq) in Hfree. destruct Hfree; contradiction.
    + (* Remove *) apply (effect_frame s _ r s1 q He). simpl. intros E. subst q.
      destruct (put_step_removal m _ r m1 p Hst (or_introl eq_refl)) as [ph Hp]. apply (proj2 (Hres p ph Hp)). exact Hq.
    + (* Rmtree *) apply (effect_frame s _ r s1 q He). simpl. intros Hu.
      destruct (put_step_removal m _ r m1 p Hst (or_intror eq_refl)) as [ph Hp]. destruct (Hres p ph Hp) as [Hi Hnk].
      apply Hnk. apply (kept_up p q (info_nonempty p Hi) Hu Hq).
  - intros p Hp. destruct (Hfd1 p Hp) as [H|[_ [_ H]]]; [apply Hfd; exact H|apply Hnew; exact H].
  - intros p ph Hp. destruct (put_step_res m o r m1 p ph Hst Hp) as [[ph' H]|[Eo [Er Hi]]]; [apply (Hres p ph' H)|].
    split; [exact Hi|]. subst o r. simpl in He. destruct He as [Hn _]. apply Hnew. exact Hn.
  - intros p Hp. destruct (put_step_closed m o r m1 p Hst Hp) as [[Eo Er]|[Hp0 Hno]].
    + subst o r. simpl in He. exact (proj1 He).
    + destruct (wfd s1) as [x|] eqn:Ex; [|reflexivity]. destruct (Hfd1 x eq_refl) as [H|[Eo [Er _]]].
      * rewrite (Hcl p Hp0) in H. discriminate.
      * exfalso. apply (Hno x Eo Er).
Qed.
End Kept.

Lemma J_run s0 mv : wf (wfs s0) -> forall t m s m',
  accepts put_step m t = Some m' -> J s0 mv m s -> wok free_dst s t ->
  (forall src dst, In (Move src dst, RUnit) t -> mv src dst) ->
  forall s', wrun s t s' -> J s0 mv m' s'.
Proof.
  intros Hwf0. induction t as [|[o r] t IH]; intros m s m' Ha HJ Hok Hmv s' Hr.
  - simpl in Ha. inversion Ha; subst. inversion Hr; subst. exact HJ.
  - simpl in Ha. destruct (put_step m o r) as [m1|] eqn:Hst; [|discriminate].
    inversion Hr as [|s0' o0 r0 s1 t0 s2 Hs1 Hr1]; subst.
    cbn [wok] in Hok. destruct Hok as [Hfree Hnext].
    apply (IH m1 s1 m' Ha); [ |apply Hnext; exact Hs1|intros; apply Hmv; right; assumption|exact Hr1].
    apply (J_step s0 mv Hwf0 m s o r m1 s1 Hst HJ (proj1 Hs1) Hfree). intros src dst Eo Er. subst. apply Hmv. left. reflexivity.
Qed.

Lemma wok_prefix A t1 : forall s t2, wok A s (t1 ++ t2) -> wok A s t1.
Proof.
  induction t1 as [|[o r] t1 IH]; intros s t2 H; [exact I|]. cbn [app wok] in *. destruct H as [Ha Hn].
  split; [exact Ha|]. intros s' Hs. apply (IH s' t2). apply Hn. exact Hs.
Qed.

(* C01 on the world.  For every run of trash-put - every answer of the environment, every fault - and every tree-shaped
   file system the run is consistent with: at every prefix of the run (every crash point, at library-call granularity, the
   end of the run included) every path that existed when the command started and is neither at or below an entry the run
   moves into the trash, nor a symbolic link a move goes onto, holds exactly what it held: trash-put destroys nothing. *)
Theorem put_destroys_nothing_lemma o :
  all_runs (fun t _ => forall s, wf (wfs s) -> wfd s = None ->
     forall t1 t2 s1, t = t1 ++ t2 -> wrun s t1 s1 ->
     forall q, wfs s q <> None ->
       (forall src dst, In (Move src dst, RUnit) t -> under src q = false /\ (q = dst -> wfs s q <> Some NLink)) ->
       wfs s1 q = wfs s q) (put_main o).
Proof.
  generalize (all_runs_and _ _ _ (put_discipline_lemma o) (put_never_clobbers_lemma o)). apply all_runs_mono.
  intros t out [[m' [Ha _]] Hok] s Hwf Hfd t1 t2 s1 Et Hr q Hex Hmv. subst t.
  destruct (accepts_app put_step t1 t2 put_init m' Ha) as [m1 [Ha1 _]].
  assert (HJ0 : J s (fun src dst => In (Move src dst, RUnit) (t1 ++ t2)) put_init s).
  { constructor; [reflexivity|intros p Hp; rewrite Hfd in Hp; discriminate|intros p ph Hp; discriminate|intros; exact Hfd]. }
  pose proof (J_run s _ Hwf t1 put_init s m1 Ha1 HJ0 (wok_prefix _ t1 s t2 (Hok s))
                (fun src dst H => in_or_app _ _ _ (or_introl H)) s1 Hr) as HJ.
  apply (j_kept _ _ _ _ HJ). split; assumption.
Qed.

Lemma wok_run A t1 : forall s t2 s1, wok A s (t1 ++ t2) -> wrun s t1 s1 -> wok A s1 t2.
Proof.
  induction t1 as [|[o r] t1 IH]; intros s t2 s1 H Hr.
  - inversion Hr; subst. exact H.
  - inversion Hr as [|s0' o0 r0 s' t0 s2 Hs Hr1]; subst. cbn [app wok] in H. destruct H as [_ Hn].
    apply (IH s' t2 s1); [apply Hn; exact Hs|exact Hr1].
Qed.

Lemma move_accepted m src dst r m1 : put_step m (Move src dst) r = Some m1 ->
  (exists p, p_res m = Some (p, Closed)) /\ (r = RUnit -> p_res m1 = None).
Proof.
  cbn [put_step]. destruct (p_res m) as [[p [| | |]]|] eqn:E; try discriminate.
  destruct (str_eqb dst (path_of_backup_copy p)); [|discriminate]. intros H. inversion H; subst m1. split; [eauto|].
  intros Er. subst r. reflexivity.
Qed.

(* C01 on the world, the other half: what trash-put has moved into the trash arrives whole and stays.
   At the moment a move returns, the tree that was at the source is at the destination, node by node (when the destination
   was absent - by put_never_clobbers it is, but for the dangling link); and from then on, at every later prefix of the run,
   everything that exists - the payload just trashed and its .trashinfo included - keeps what it holds, unless a LATER move of
   the same run takes it away (trash-put a/b a) or goes onto it as a symbolic link. *)
Theorem put_keeps_what_it_trashed_lemma o :
  all_runs (fun t _ => forall s, wf (wfs s) -> wfd s = None ->
     forall t1 src dst t2 t3 s1 s2 s3, t = t1 ++ (Move src dst, RUnit) :: t2 ++ t3 ->
       wrun s t1 s1 -> wstep s1 (Move src dst) RUnit s2 -> wrun s2 t2 s3 ->
       (wfs s1 dst = None -> forall rest, rest = [] \/ (exists r, rest = c_slash :: r) -> wfs s2 (dst ++ rest) = wfs s1 (src ++ rest)) /\
       forall q, wfs s2 q <> None ->
         (forall src' dst', In (Move src' dst', RUnit) t2 -> under src' q = false /\ (q = dst' -> wfs s2 q <> Some NLink)) ->
         wfs s3 q = wfs s2 q) (put_main o).
Proof.
  generalize (all_runs_and _ _ _ (put_discipline_lemma o) (put_never_clobbers_lemma o)). apply all_runs_mono.
  intros t out [[m' [Ha _]] Hok] s Hwf Hfd t1 src dst t2 t3 s1 s2 s3 Et Hr1 Hmove Hr2. subst t. split.
  - intros Hn rest Hrest. destruct Hmove as [He _]. simpl in He. destruct He as [_ [_ [_ [_ [_ [_ Hmv]]]]]].
    rewrite (Hmv Hn). unfold mv_tree. rewrite (strip_intro dst rest Hrest). reflexivity.
  - intros q Hex Hq.
    destruct (accepts_app put_step t1 _ put_init m' Ha) as [m1 [Ha1 Ha2]].
    cbn [accepts] in Ha2. destruct (put_step m1 (Move src dst) RUnit) as [m2|] eqn:Hst; [|discriminate].
    destruct (accepts_app put_step t2 t3 m2 m' Ha2) as [m3 [Ha3 _]].
    destruct (move_accepted _ _ _ _ _ Hst) as [[p Hp] Hnone]. specialize (Hnone eq_refl).
    assert (HJ0 : J s (fun a b => In (Move a b, RUnit) (t1 ++ (Move src dst, RUnit) :: t2 ++ t3)) put_init s).
    { constructor; [reflexivity|intros x Hx; rewrite Hfd in Hx; discriminate|intros x ph Hx; discriminate|intros; exact Hfd]. }
    pose proof (J_run s _ Hwf t1 put_init s m1 Ha1 HJ0 (wok_prefix _ t1 s _ (Hok s))
                  (fun a b H => in_or_app _ _ _ (or_introl H)) s1 Hr1) as HJ1.
    assert (Hfd2 : wfd s2 = None).
    { destruct Hmove as [He _]. simpl in He. destruct He as [_ [_ [E _]]]. rewrite E. apply (j_closed _ _ _ _ HJ1 p Hp). }
    assert (Hwf2 : wf (wfs s2)) by (apply (proj2 Hmove); apply (wrun_wf _ _ _ Hr1 Hwf)).
    assert (Hok2 : wok free_dst s2 (t2 ++ t3)).
    { pose proof (wok_run _ t1 s _ s1 (Hok s) Hr1) as H. cbn [wok] in H. apply (proj2 H). exact Hmove. }
    assert (HJ2 : J s2 (fun a b => In (Move a b, RUnit) t2) m2 s2).
    { constructor; [reflexivity|intros x Hx; rewrite Hfd2 in Hx; discriminate|intros x ph Hx; rewrite Hnone in Hx; discriminate|intros; exact Hfd2]. }
    pose proof (J_run s2 _ Hwf2 t2 m2 s2 m3 Ha3 HJ2 (wok_prefix _ t2 s2 t3 Hok2) (fun a b H => H) s3 Hr2) as HJ3.
    apply (j_kept _ _ _ _ HJ3). split; assumption.
Qed.
