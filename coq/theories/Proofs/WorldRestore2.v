(* C06 / C02 on the world: trash-restore destroys nothing.
   Whatever exists before the run and is neither at or below a payload the run moves out of the trash, nor the destination of a
   move, nor at or below a path the run removes (the info files of the restored entries), holds afterwards - and at every
   prefix of the run - exactly what it held.  This holds with and without --overwrite: shutil.move onto something that exists
   replaces a non-directory (the destination itself, excluded here) or moves INTO a directory (a new path below it); what the
   destination is when it existed is the subject of C06's own theorems and known findings.
   The proof is a frame argument over the trace: trash-restore issues no operation that writes into an existing file
   (no OpenExcl / WriteFd / CloseFd), creates directories only where nothing was, and each Move / Remove / Rmtree changes
   nothing outside its source tree, its destination and its target. *)
From TV Require Import Prelude.Str Prelude.PosixPath Prog.Prog World.World Cmd.Put Cmd.Scan Cmd.Restore
  Proofs.ProgProofs Proofs.PLogic Proofs.OrigLocProofs Proofs.PathProofs Proofs.WorldProofs Proofs.WorldPurge Proofs.RestoreProofs.
Open Scope N_scope.

Definition no_writes (o : op) : Prop := match o with OpenExcl _ | WriteFd _ | CloseFd => False | _ => True end.

(* q is out of the way of an operation *)
Definition clear_of (q : str) (o : op) : Prop :=
  match o with
  | Move src dst => under src q = false /\ q <> dst
  | Remove p | Rmtree p => under p q = false
  | _ => True
  end.

Lemma step_keeps s o r s1 q : no_writes o -> clear_of q o -> wfs s q <> None -> effect s o r s1 -> wfs s1 q = wfs s q.
Proof.
  intros Hn Hc Hex He.
  destruct (is_mutator o) eqn:Em; [|apply (proj2 (effect_probe s o r s1 Em He))].
  destruct o; try discriminate Em; simpl in Hn, Hc; try contradiction.
  - (* Makedirs *) simpl in He. destruct He as [_ [H _]]. destruct (H q) as [E|[E _]]; [exact E|contradiction].
  - (* Move *) destruct Hc as [Hs Hd]. destruct r; try solve [simpl in He; apply (proj2 He)].
    simpl in He. destruct He as [_ [_ [_ [_ [_ [Hrest _]]]]]]. apply Hrest; assumption.
  - (* Remove *) apply (effect_frame s _ r s1 q He). simpl. intros E. subst q. rewrite under_refl in Hc. discriminate.
  - (* Rmtree *) apply (effect_frame s _ r s1 q He). simpl. intros Hu. rewrite Hu in Hc. discriminate.
Qed.

Lemma trace_frame t : forall s s' q,
  Forall (fun p => no_writes (fst p)) t -> Forall (fun p => clear_of q (fst p)) t ->
  wfs s q <> None -> wrun s t s' -> wfs s' q = wfs s q.
Proof.
  induction t as [|[o r] t IH]; intros s s' q Hn Hc Hex Hr; inversion Hr as [|s0 o0 r0 s1 t0 s2 Hs1 Hr1]; subst; [reflexivity|].
  inversion Hn as [|x l Hn1 Hn2]; subst. inversion Hc as [|y l' Hc1 Hc2]; subst. simpl in Hn1, Hc1.
  pose proof (step_keeps s o r s1 q Hn1 Hc1 Hex (proj1 Hs1)) as E1.
  rewrite <- E1. apply (IH s1 s' q Hn2 Hc2); [rewrite E1; exact Hex|exact Hr1].
Qed.

(* trash-restore writes into no file *)
Definition NWL := ops_logic no_writes.
Lemma NW_plain o : restore_plain_op o = true -> OKop NWL o.
Proof. destruct o; simpl; intros H; try discriminate H; exact I. Qed.
Lemma NW_one t ow : T NWL (restore_trashed_file t ow) (fun _ => True).
Proof.
  unfold restore_trashed_file. apply (T_catch NWL).
  - eapply (T_bind NWL) with (Q' := fun _ => True).
    + destruct ow; [apply (T_ret NWL); exact I|apply (T_call_bool NWL); exact I].
    + intros refuse _. destruct refuse; [apply (T_ret NWL); exact I|].
      apply (T_seq NWL).
      { unfold mkdirs. eapply (T_bind NWL); [apply (T_call_bool NWL); exact I|]. intros d _. destruct d; [apply (T_ret NWL); exact I|apply (T_call_unit NWL); exact I]. }
      apply (T_seq NWL); [apply (T_call_unit NWL); exact I|].
      apply (T_seq NWL); [|apply (T_ret NWL); exact I].
      unfold remove_file. eapply (T_bind NWL); [apply (T_call_bool NWL); exact I|]. intros e _. destruct e; [|apply (T_ret NWL); exact I].
      apply (T_catch NWL); [apply (T_call_unit NWL); exact I|]. intros e p He. inversion He. apply (T_call_unit NWL). exact I.
  - intros e p He. destruct (is_OSError e); inversion He. apply (T_ret NWL). exact I.
Qed.

Theorem restore_writes_nothing_lemma o : all_runs (fun t _ => Forall (fun p => no_writes (fst p)) t) (restore_main o).
Proof.
  eapply all_runs_mono; [|apply (ops_sat_sound no_writes (restore_main o) (fun _ => True))].
  - intros t out [H _]. exact H.
  - change (T NWL (restore_main o) (fun _ => True)). apply (restore_main_T NWL NW_plain). intros t _. apply NW_one.
Qed.

Theorem restore_destroys_nothing_lemma o :
  all_runs (fun t _ => forall s t1 t2 s1, t = t1 ++ t2 -> wrun s t1 s1 ->
     forall q, wfs s q <> None -> Forall (fun p => clear_of q (fst p)) t -> wfs s1 q = wfs s q) (restore_main o).
Proof.
  generalize (restore_writes_nothing_lemma o). apply all_runs_mono.
  intros t out Hn s t1 t2 s1 Et Hr q Hex Hc. subst t. apply Forall_app in Hn. apply Forall_app in Hc.
  apply (trace_frame t1 s s1 q (proj1 Hn) (proj1 Hc) Hex Hr).
Qed.
