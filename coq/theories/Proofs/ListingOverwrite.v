(* C13: --overwrite is not read before the selection.  trash-restore's run factors into [offered o] - the scan, the scope filter, the
   sort: a program in which the flag does not occur - followed by [after_listing b files], in which the listing and its numbering are a
   function of the offered entries alone and the flag reaches [restore_selected] only. *)
From Coq Require Import List NArith ZArith.
From TV Require Import Prelude.Str Prelude.PosixPath Prelude.SortStable Codec.DateFmt Codec.TrashInfo
  Logic.Calendar Logic.Indexes Logic.Scope Prog.Prog Cmd.Put Cmd.Scan Cmd.ListCmd Cmd.Restore Proofs.Independence.
Import ListNotations.
Open Scope N_scope.

Definition with_overwrite (o : restore_opts) (b : bool) : restore_opts :=
  {| ro_path := ro_path o; ro_sort := ro_sort o; ro_trash_dir := ro_trash_dir o; ro_overwrite := b;
     rs_environ := rs_environ o; rs_uid := rs_uid o |}.

(* what is offered, in the order in which it is numbered *)
Definition offered (o : restore_opts) : prog (list trashed_file) :=
  curdir <- call_str (Realpath [c_dot]) ;;
  found <- all_files_trashed_from_path o (restore_scope curdir (ro_path o)) ;;
  Ret (sort_files (ro_sort o) found).

(* everything from the listing on *)
Definition after_listing (overwrite : bool) (files : list trashed_file) : prog N :=
  match files with
  | [] => cwd <- call_str (Realpath [c_dot]) ;;
          println ($"No files trashed from current dir ('" ++ cwd ++ $"')") ;;; Ret 0
  | _ =>
    print_listing 0 files ;;;
    r <- catch (reply <- call_str (Input ($"What file to restore [0.." ++ dec_of_N (N.of_nat (length files - 1)) ++ $"]: ")) ;;
                Ret (Some reply))
               (fun e => match e with EOFError | KeyboardInterrupt => Some (Ret None) | _ => None end) ;;
    match r with
    | None => die true []
    | Some [] => println ($"No files were restored") ;;; Ret 0
    | Some reply =>
      match parse_indexes reply (Z.of_nat (length files)) with
      | UncaughtValueError => Throw ValueErrorE
      | InvalidEntry => die false ($"Invalid entry: ")
      | Selected idxs =>
        let chosen := flat_map (fun i => match nth_error files (Z.to_nat i) with Some t => [t] | None => [] end) idxs in
        res <- restore_selected chosen overwrite ;;
        match res with
        | inl _ => Ret 0
        | inr (exact, msg) => die exact msg
        end
      end
    end
  end.

Lemma run_of_assoc {A B C} (m : prog A) (f : A -> prog B) (g : B -> prog C) : forall t out,
  run_of (bind (bind m f) g) t out <-> run_of (bind m (fun a => bind (f a) g)) t out.
Proof.
  induction m as [a|e|o k IH]; intros t out; cbn [bind].
  - reflexivity.
  - reflexivity.
  - split; intros H; inversion H as [| |o0 k0 r t0 out0 Hv Hk]; subst; constructor; try assumption; apply IH; assumption.
Qed.

Lemma run_of_bind_ext {A B} (m : prog A) (f g : A -> prog B) :
  (forall a t out, run_of (f a) t out <-> run_of (g a) t out) ->
  forall t out, run_of (bind m f) t out <-> run_of (bind m g) t out.
Proof.
  intros E t out. rewrite !run_of_bind. split; intros [[t1 [a [t2 [H1 [H2 Et]]]]]|H]; auto;
    left; exists t1, a, t2; (split; [exact H1|]); (split; [apply E; exact H2|exact Et]).
Qed.

Lemma offered_ignores_overwrite o b : offered (with_overwrite o b) = offered o.
Proof. reflexivity. Qed.

Lemma restore_main_factors o : forall t out,
  run_of (restore_main o) t out <-> run_of (bind (offered o) (after_listing (ro_overwrite o))) t out.
Proof.
  intros t out. unfold offered. rewrite run_of_assoc.
  change (restore_main o) with
    (bind (call_str (Realpath [c_dot])) (fun curdir =>
       bind (all_files_trashed_from_path o (restore_scope curdir (ro_path o))) (fun found =>
         after_listing (ro_overwrite o) (sort_files (ro_sort o) found)))).
  apply run_of_bind_ext. intros curdir t' out'. rewrite run_of_assoc.
  apply run_of_bind_ext. intros found t'' out''. cbn [bind]. reflexivity.
Qed.

Lemma listing_does_not_depend_on_overwrite_lemma o b : forall t out,
  run_of (restore_main (with_overwrite o b)) t out <-> run_of (bind (offered o) (after_listing b)) t out.
Proof.
  intros t out. rewrite restore_main_factors. rewrite offered_ignores_overwrite. reflexivity.
Qed.
