(* C10, the other direction: trash-empty purges EVERY entry it must.
   DecisionProofs shows that only approved paths are removed; here, for one trash directory and a run that is not a dry
   run and ends normally: every info file the listing of info/ returned is dealt with, in order - without DAYS it is
   approved as it stands; with DAYS it is read, and approved exactly when its first DeletionDate is strictly older than
   now - DAYS (an unreadable or undated one is skipped) - and for every approved one, before the next is looked at, the
   payload path answered "absent" to lexists, or was removed (remove, or rmtree after a refused remove) with success, or
   "cannot remove <payload>" was reported; and then the same for the info file.  (Payloads lacking a .trashinfo: their
   purge is issued by Empty.empty_orphan, by definition, for every entry of files/ whose info file does not exist.) *)
From TV Require Import Prelude.Str Prelude.PosixPath Codec.DateFmt Codec.TrashInfo Logic.Calendar Logic.Reply
  Prog.Prog Cmd.Put Cmd.Scan Cmd.Empty Proofs.ProgProofs Proofs.PLogic Proofs.ScanProofs Proofs.OrigLocProofs Proofs.DecisionProofs.
Open Scope N_scope.

Inductive ephase := ENext | EHold (p c : str) | EPay (p : str) | EInfo (p : str).
Inductive est := EStart | ESt (queue : list str) (ph : ephase) | EBad.

Definition discharges (q : str) (o : op) (r : res) : bool :=
  match o, r with
  | Lexists q', RBool false => str_eqb q' q
  | (Remove q' | Rmtree q'), RUnit => str_eqb q' q
  | Log WARNING _ t, _ => str_eqb t ($"trash-empty: cannot remove " ++ q)
  | _, _ => false
  end.

Section Live.
Variable days : option Z.
Variable envnow : option datetime.
Variable info_dir : str.

Definition ready (l : list str) : est :=
  match days, l with None, p :: l' => ESt l' (EPay p) | _, _ => ESt l ENext end.
Definition decide (dd : Z) (now : datetime) (c p : str) (l : list str) : est :=
  if is_old dd now c then ESt l (EPay p) else ready l.

Definition elive_step (s : est) (o : op) (r : res) : option est :=
  Some (match s with
        | EBad => EBad
        | EStart =>
            match o, r with
            | Listdir d, RList es => if str_eqb d info_dir then ready (map (join2 info_dir) (filter is_trashinfo_name es)) else s
            | Exists d, RBool false => if str_eqb d info_dir then ESt [] ENext else s
            | _, _ => s
            end
        | ESt l ENext =>
            match o with
            | ReadText q =>
                match days, l with
                | Some dd, p :: l' =>
                    if str_eqb q p then
                      match r with
                      | RStr c => match envnow with Some now => decide dd now c p l' | None => ESt l' (EHold p c) end
                      | _ => ready l'
                      end
                    else EBad
                | _, _ => EBad
                end
            | _ => s
            end
        | ESt l (EHold p c) =>
            match o, r, days with
            | Now, RDate now, Some dd => decide dd now c p l
            | ReadText _, _, _ => EBad
            | _, _, _ => s
            end
        | ESt l (EPay p) =>
            match o with ReadText _ => EBad | _ => if discharges (path_of_backup_copy p) o r then ESt l (EInfo p) else s end
        | ESt l (EInfo p) =>
            match o with ReadText _ => EBad | _ => if discharges p o r then ready l else s end
        end).
End Live.

(* a program that issues only operations under which a state stays put, stays put *)
Lemma wp_stay {M} (step : M -> op -> res -> option M) (s0 : M) (P : op -> Prop) :
  (forall o r, P o -> step s0 o r = Some s0) ->
  forall A (m : prog A) (Q : A -> Prop), ops_sat P m Q ->
    wp step m (fun s' a => s' = s0 /\ Q a) (fun s' _ => s' = s0) s0.
Proof.
  intros Hst A m Q. induction m as [a|e|o k IH]; intros H.
  - split; [reflexivity|exact H].
  - reflexivity.
  - assert (H' : P o /\ (forall r, valid_res o r = true -> ops_sat P (k r) Q)) by exact H.
    destruct H' as [Ho Hk].
    change (forall r, valid_res o r = true -> exists s', step s0 o r = Some s' /\ wp step (k r) (fun s' a => s' = s0 /\ Q a) (fun s' _ => s' = s0) s').
    intros r Hv. exists s0. split; [apply Hst; exact Ho|]. apply IH. apply Hk. exact Hv.
Qed.

Section Proofs.
Variable o : empty_opts.
Hypothesis Hnodry : eo_dry_run o = false.
Variable path : str.
Notation envnow := (env_now (eo_environ o)).
Notation info_dir := (join2 path s_info).
Notation stepd d := (elive_step d envnow info_dir).

Ltac vb Hv := match type of Hv with valid_res ?o ?r = true =>
  let b := fresh "b" in let Hb := fresh "Hb" in destruct (valid_bool o r eq_refl Hv) as [b Hb]; subst r end.
Ltac vu Hv := match type of Hv with valid_res ?o ?r = true =>
  let e := fresh "e" in let He := fresh "He" in let Hos := fresh "Hos" in
  destruct (valid_unit o r eq_refl Hv) as [He|[e [He Hos]]]; subst r end.

Section WithDays.
Variable days : option Z.
Notation step := (stepd days).
Notation W m Q s := (wp step m Q (fun _ _ => True) s).

(* emptier.py, one path: when this returns normally the path was absent, removed, or reported *)
Lemma W_dispose q s s' :
  (forall op r, (match op with ReadText _ => False | _ => True end) -> step s op r = Some (if discharges q op r then s' else s)) ->
  W (dispose o q) (fun x _ => x = s') s.
Proof.
  intros Hs. unfold dispose. rewrite Hnodry. apply wp_bind.
  assert (Hrest : W (catch (remove_file_if_exists q)
                      (fun e => if is_OSError e then Some (call_unit (Log WARNING true ($"trash-empty: cannot remove " ++ q))) else None))
                    (fun x _ => x = s') s).
  { apply wp_catch. unfold remove_file_if_exists. apply wp_bind. apply wp_call_bool. intros r Hv. vb Hv.
    eexists. split; [apply Hs; exact I|]. destruct b; simpl.
    2:{ rewrite str_eqb_refl. apply wp_ret. reflexivity. }
    assert (Hwarn : forall e, match (if is_OSError e then Some (call_unit (Log WARNING true ($"trash-empty: cannot remove " ++ q))) else None) with
                              | Some p => W p (fun x _ => x = s') s | None => True end).
    { intros e. destruct (is_OSError e); [|exact I]. apply wp_call_unit. intros r0 Hv0. eexists. split; [apply Hs; exact I|].
      simpl. rewrite str_eqb_refl. destruct r0; try exact I; reflexivity. }
    unfold remove_file2. apply wp_catch. apply wp_call_unit. intros r1 Hv1. eexists. split; [apply Hs; exact I|].
    vu Hv1; simpl; [rewrite str_eqb_refl; reflexivity|]. rewrite Hos.
    apply wp_call_unit. intros r Hv'. eexists. split; [apply Hs; exact I|].
    vu Hv'; simpl; [rewrite str_eqb_refl; reflexivity|]. apply (Hwarn e0). }
  destruct (0 <? eo_verbose o); [|apply wp_ret; exact Hrest].
  unfold out. apply wp_call_unit. intros r Hv. eexists. split; [apply Hs; exact I|]. simpl. destruct r; try exact I; exact Hrest.
Qed.

Lemma W_dispose_both p l :
  W (dispose o (path_of_backup_copy p) ;;; dispose o p) (fun x _ => x = ready days l) (ESt l (EPay p)).
Proof.
  apply wp_bind. eapply wp_mono; [| |apply (W_dispose (path_of_backup_copy p) (ESt l (EPay p)) (ESt l (EInfo p)))]; [|auto|].
  - intros x u0 E. cbv beta in E. subst x. apply (W_dispose p (ESt l (EInfo p)) (ready days l)).
    intros op r Hop. destruct op; try contradiction; reflexivity.
  - intros op r Hop. destruct op; try contradiction; reflexivity.
Qed.
End WithDays.

Lemma get_now_env now : envnow = Some now -> get_now_value (eo_environ o) = Ret now.
Proof.
  unfold env_now, get_now_value. destruct (env_get (eo_environ o) s_TRASH_DATE) as [v|]; [|discriminate].
  destruct (strptime_body v); [|discriminate]. intros H. inversion H. reflexivity.
Qed.

(* after the decision: the state says Pay exactly when the entry is old *)
Lemma W_after_decision en dd now c x l :
  wp (elive_step (Some dd) en info_dir)
     (match parse_deletion_date c with
      | None => Ret false
      | Some d => match older_than dd now d with Some b => Ret b | None => Throw OverflowErrorE end
      end) (fun s' ok => s' = if ok then ESt l (EPay x) else ready (Some dd) l) (fun _ _ => True) (decide (Some dd) dd now c x l).
Proof.
  unfold decide, is_old. destruct (parse_deletion_date c) as [d|]; [|apply wp_ret; reflexivity].
  destruct (older_than dd now d) as [[|]|]; [apply wp_ret; reflexivity|apply wp_ret; reflexivity|apply wp_throw; exact I].
Qed.

Lemma W_ok_some dd x l : eo_days o = Some dd ->
  wp (stepd (Some dd)) (ok_to_delete o x) (fun s' ok => s' = if ok then ESt l (EPay x) else ready (Some dd) l) (fun _ _ => True)
     (ESt (x :: l) ENext).
Proof.
  intros Hd. unfold ok_to_delete. rewrite Hd.
  apply wp_bind. apply wp_catch. apply wp_bind. apply wp_call_str. intros r Hv.
  destruct r as [| |c| | | | |e]; try discriminate Hv.
  - (* read *) eexists. split; [unfold elive_step; rewrite str_eqb_refl; reflexivity|]. apply wp_ret. cbv beta.
    destruct envnow as [now|] eqn:En.
    + rewrite (get_now_env now En). rewrite bind_Ret. apply W_after_decision.
    + apply wp_bind. unfold get_now_value.
      assert (Hnow : wp (elive_step (Some dd) None info_dir) (call_date Now)
                (fun s' now => wp (elive_step (Some dd) None info_dir) (match parse_deletion_date c with
                         | None => Ret false
                         | Some d => match older_than dd now d with Some b => Ret b | None => Throw OverflowErrorE end
                         end) (fun s' ok => s' = if ok then ESt l (EPay x) else ready (Some dd) l) (fun _ _ => True) s')
                (fun _ _ => True) (ESt l (EHold x c))).
      { unfold call_date. apply wp_bind. apply wp_call. intros r Hv'. destruct r as [| | | | | |now|e]; try discriminate Hv'.
        eexists. split; [reflexivity|]. apply wp_ret. apply W_after_decision. }
      destruct (env_get (eo_environ o) s_TRASH_DATE) as [v|] eqn:Eg; [|exact Hnow].
      destruct (strptime_body v) eqn:Es.
      * exfalso. unfold env_now in En. rewrite Eg, Es in En. discriminate En.
      * apply wp_bind. apply wp_call_unit. intros r Hv'. eexists. split; [reflexivity|]. destruct r; try exact I; exact Hnow.
  - (* the read raised *) eexists. split; [unfold elive_step; rewrite str_eqb_refl; reflexivity|].
    destruct e; simpl in Hv; try discriminate Hv; simpl; try exact I; apply wp_ret; apply wp_ret; reflexivity.
Qed.

Lemma W_empty_one_info days x l : eo_days o = days ->
  wp (stepd days) (empty_one_info o x) (fun s' _ => s' = ready days l) (fun _ _ => True) (ready days (x :: l)).
Proof.
  intros Hd. unfold empty_one_info. apply wp_bind. destruct days as [dd|].
  - eapply wp_mono; [| |apply (W_ok_some dd x l Hd)]; [|auto].
    intros s' ok E. cbv beta in E. subst s'. destruct ok; [apply W_dispose_both|apply wp_ret; reflexivity].
  - unfold ok_to_delete. rewrite Hd. apply wp_ret. apply W_dispose_both.
Qed.

(* what follows the info files - the payloads lacking a .trashinfo - reads no info file *)
Definition no_read (op : op) : Prop := match op with ReadText _ => False | _ => True end.
Definition NR := ops_logic no_read.
Lemma NR_scan op : scan_op op = true -> OKop NR op.
Proof. destruct op; try discriminate; intros _; exact I. Qed.
Lemma NR_dispose q : T NR (dispose o q) (fun _ => True).
Proof.
  unfold dispose. rewrite Hnodry. eapply (T_bind NR) with (Q' := fun _ => True).
  - destruct (0 <? eo_verbose o); [apply (T_call_unit NR); exact I|apply (T_ret NR); exact I].
  - intros _ _. apply (T_catch NR).
    + unfold remove_file_if_exists. eapply (T_bind NR); [apply (T_call_bool NR); exact I|]. intros b _.
      destruct b; [|apply (T_ret NR); exact I]. unfold remove_file2. apply (T_catch NR); [apply (T_call_unit NR); exact I|].
      intros e p He. destruct (is_OSError e); inversion He. apply (T_call_unit NR). exact I.
    + intros e p He. destruct (is_OSError e); inversion He. apply (T_call_unit NR). exact I.
Qed.
Lemma NR_orphans :
  T NR (entries <- entries_if_dir_exists (join2 path s_files) ;;
        for_each entries (empty_orphan o (join2 path s_info) (join2 path s_files))) (fun _ => True).
Proof.
  eapply (T_bind NR); [apply (safe_entries_if_dir_exists NR NR_scan)|]. intros entries _.
  apply (T_for_each NR). intros x _. unfold empty_orphan.
  eapply (T_bind NR); [apply (T_call_bool NR); exact I|]. intros b _. destruct b; [apply (T_ret NR); exact I|apply NR_dispose].
Qed.

Lemma ready_nil days : ready days [] = ESt [] ENext.
Proof. destruct days; reflexivity. Qed.

Lemma W_empty_trash_dir days : eo_days o = days ->
  wp (stepd days) (empty_trash_dir o path) (fun s' _ => s' = ESt [] ENext) (fun _ _ => True) EStart.
Proof.
  intros Hd. unfold empty_trash_dir.
  assert (Hloop : forall l, wp (stepd days) (for_each l (empty_one_info o)) (fun s' _ => s' = ESt [] ENext) (fun _ _ => True) (ready days l)).
  { induction l as [|x l IH]; cbn [for_each]; [apply wp_ret; apply ready_nil|].
    apply wp_bind. eapply wp_mono; [| |apply (W_empty_one_info days x l Hd)]; [|auto].
    intros s' u0 E. cbv beta in E. subst s'. apply IH. }
  assert (Hrest : wp (stepd days) (entries <- entries_if_dir_exists (join2 path s_files) ;;
                       for_each entries (empty_orphan o (join2 path s_info) (join2 path s_files)))
                     (fun s' _ => s' = ESt [] ENext) (fun _ _ => True) (ESt [] ENext)).
  { eapply wp_mono; [| |apply (wp_stay (stepd days) (ESt [] ENext) no_read)]; [intros s' a [E _]; exact E|auto| |exact NR_orphans].
    intros op r Hop. destruct op; try contradiction; reflexivity. }
  apply wp_bind. unfold list_trashinfo. apply wp_bind. unfold entries_if_dir_exists. apply wp_bind.
  apply wp_call_bool. intros r Hv. vb Hv. destruct b.
  - exists EStart. split; [reflexivity|].
    unfold call_list. apply wp_bind. apply wp_call. intros r Hv'. destruct r as [| | |es| | | |e]; try discriminate Hv'.
    + eexists. split; [unfold elive_step; rewrite str_eqb_refl; reflexivity|]. apply wp_ret. apply wp_ret.
      apply wp_bind. eapply wp_mono; [| |apply Hloop]; [|auto]. intros s' u0 E. cbv beta in E. subst s'. exact Hrest.
    + eexists. split; [reflexivity|]. exact I.
  - exists (ESt [] ENext). split; [unfold elive_step; rewrite str_eqb_refl; reflexivity|]. apply wp_ret. apply wp_ret.
    pose proof (Hloop []) as H0. rewrite ready_nil in H0.
    apply wp_bind. cbn [map filter]. eapply wp_mono; [| |exact H0]; [|auto].
    intros s' u0 E. cbv beta in E. subst s'. exact Hrest.
Qed.
End Proofs.

(* C10, liveness: in every run of the per-directory purge that is not a dry run and ends normally, every entry that must go has
   gone (or its removal was refused and reported) - the monitor ends with an empty queue and nothing pending *)
Theorem empty_purges_every_old_entry_lemma o path : eo_dry_run o = false ->
  all_runs (fun t out => forall a, out = Done a ->
              accepts (elive_step (eo_days o) (env_now (eo_environ o)) (join2 path s_info)) EStart t = Some (ESt [] ENext))
           (empty_trash_dir o path).
Proof.
  intros Hnd.
  generalize (wp_sound _ _ _ _ _ (W_empty_trash_dir o Hnd path (eo_days o) eq_refl)).
  apply all_runs_mono. intros t out [s' [Ha Ho]] a Eo. subst out. rewrite Ha, Ho. reflexivity.
Qed.
