(* C08: $topdir/.Trash/$uid is used only after the probes of $topdir/.Trash answered: it is a directory,
   not a symbolic link, and sticky.  History monitor: the state is the trace so far. *)
From TV Require Import Prelude.Str Prelude.PosixPath Prog.Prog Cmd.Put Cmd.Scan Cmd.Restore Cmd.ListCmd
  Proofs.ProgProofs Proofs.PathProofs Proofs.PurgeProofs Proofs.OrigLocProofs.
From Coq Require Import Lia.
Open Scope N_scope.

Definition hist := list (op * res).
Definition op_res_eqb_bool (o : op) (r : res) (o' : op) (b : bool) : bool :=
  match r with
  | RBool b' => Bool.eqb b b' &&
      match o, o' with
      | Isdir p, Isdir q | Islink p, Islink q | Exists p, Exists q | Lexists p, Lexists q => str_eqb p q
      | _, _ => false
      end
  | _ => false
  end.
Definition has_answer (h : hist) (o' : op) (b : bool) : bool := existsb (fun x => op_res_eqb_bool (fst x) (snd x) o' b) h.
Definition has_sticky_stat (h : hist) (p : str) : bool :=
  existsb (fun x => match x with (Stat q, RStat m _) => str_eqb q p && has_sticky m | _ => false end) h.
(* the parent of the shared trash directory has been shown to be a real, sticky directory *)
Definition secure_parent (h : hist) (parent : str) : bool :=
  has_answer h (Isdir parent) true && has_answer h (Islink parent) false && has_sticky_stat h parent.

Definition hist_step (trigger : op -> bool) (parent : str) (h : hist) (o : op) (r : res) : option hist :=
  if trigger o && negb (secure_parent h parent) then None else Some (h ++ [(o, r)]).

Lemma existsb_app_l {A} (f : A -> bool) l l' : existsb f l = true -> existsb f (l ++ l') = true.
Proof. intros H. rewrite existsb_app. rewrite H. reflexivity. Qed.
Lemma secure_mono h x parent : secure_parent h parent = true -> secure_parent (h ++ [x]) parent = true.
Proof.
  unfold secure_parent, has_answer, has_sticky_stat. intros H. apply andb_true_iff in H. destruct H as [H H3].
  apply andb_true_iff in H. destruct H as [H1 H2]. rewrite !existsb_app_l; auto.
Qed.

Lemma wp_Do_h trigger parent {A} o (k : res -> prog A) Q E s :
  wp (hist_step trigger parent) (Do o k) Q E s =
  (forall r, valid_res o r = true -> exists s', hist_step trigger parent s o r = Some s' /\ wp (hist_step trigger parent) (k r) Q E s').
Proof. reflexivity. Qed.

(* once the evidence is in the history, everything is accepted *)
Lemma wp_secured trigger parent {A} (m : prog A) : forall h, secure_parent h parent = true ->
  wp (hist_step trigger parent) m (fun _ _ => True) (fun _ _ => True) h.
Proof.
  induction m as [a|e|o k IH]; intros h Hs; [exact I|exact I|]. rewrite wp_Do_h. intros r _.
  exists (h ++ [(o, r)]). split; [unfold hist_step; rewrite Hs; rewrite andb_false_r; reflexivity|]. apply IH. apply secure_mono. exact Hs.
Qed.

(* a program that never triggers is accepted from any history, and we learn nothing *)
Fixpoint never_triggers (trigger : op -> bool) {A} (m : prog A) : Prop :=
  match m with Do o k => trigger o = false /\ forall r, never_triggers trigger (k r) | _ => True end.
Lemma wp_untriggered trigger parent {A} (m : prog A) : never_triggers trigger m -> forall h,
  wp (hist_step trigger parent) m (fun _ _ => True) (fun _ _ => True) h.
Proof.
  induction m as [a|e|o k IH]; intros Hn h; [exact I|exact I|]. rewrite wp_Do_h. destruct Hn as [Ht Hk]. intros r _.
  exists (h ++ [(o, r)]). split; [unfold hist_step; rewrite Ht; reflexivity|]. apply IH. apply Hk.
Qed.

Ltac vb Hv := match type of Hv with valid_res ?o ?r = true =>
  let b := fresh "b" in let Hb := fresh "Hb" in destruct (valid_bool o r eq_refl Hv) as [b Hb]; subst r end.

Lemma has_answer_mono h x o b : has_answer h o b = true -> has_answer (h ++ [x]) o b = true.
Proof. apply existsb_app_l. Qed.
Lemma has_sticky_mono h x p : has_sticky_stat h p = true -> has_sticky_stat (h ++ [x]) p = true.
Proof. apply existsb_app_l. Qed.
Lemma has_isdir_here h p : has_answer (h ++ [(Isdir p, RBool true)]) (Isdir p) true = true.
Proof. unfold has_answer. rewrite existsb_app. simpl. rewrite str_eqb_refl. simpl. apply orb_true_r. Qed.
Lemma has_islink_here h p : has_answer (h ++ [(Islink p, RBool false)]) (Islink p) false = true.
Proof. unfold has_answer. rewrite existsb_app. simpl. rewrite str_eqb_refl. simpl. apply orb_true_r. Qed.
Lemma has_sticky_here h p m sz : has_sticky m = true -> has_sticky_stat (h ++ [(Stat p, RStat m sz)]) p = true.
Proof. intros H. unfold has_sticky_stat. rewrite existsb_app. simpl. rewrite str_eqb_refl, H. simpl. apply orb_true_r. Qed.

Ltac sec_solve Hst :=
  unfold secure_parent; apply andb_true_iff; split; [apply andb_true_iff; split|];
  [ repeat (first [apply has_isdir_here | apply has_answer_mono])
  | repeat (first [apply has_islink_here | apply has_answer_mono])
  | repeat (first [apply has_sticky_here; exact Hst | apply has_sticky_mono]) ].

Section Sec.
Variable trigger : op -> bool.
Hypothesis probes_free : forall p, trigger (Exists p) = false /\ trigger (Lexists p) = false /\ trigger (Isdir p) = false
                                /\ trigger (Islink p) = false /\ trigger (Stat p) = false.
Variable parent : str.
Notation step := (hist_step trigger parent).

Lemma step_free o h r : trigger o = false -> step h o r = Some (h ++ [(o, r)]).
Proof. intros H. unfold hist_step. rewrite H. reflexivity. Qed.

(* the READ rule (trash-list, -empty, -rm, -restore): TopValid only with the evidence in the history *)
Lemma wp_valid_to_be_read path h : dirname path = parent ->
  wp step (valid_to_be_read path) (fun h' r => r = TopValid -> secure_parent h' parent = true) (fun _ _ => True) h.
Proof.
  intros Hp. unfold valid_to_be_read. rewrite Hp. destruct (probes_free path) as [F1 _]. destruct (probes_free parent) as [_ [_ [F3 [F4 F5]]]].
  apply wp_bind. apply wp_call_bool. intros r Hv. vb Hv. eexists. split; [apply step_free; exact F1|]. destruct b; cbn [negb]; [|apply wp_ret; discriminate].
  apply wp_bind. unfold is_sticky_dir. apply wp_bind. apply wp_call_bool. intros r Hv1. vb Hv1. eexists. split; [apply step_free; exact F3|].
  destruct b; [|apply wp_ret; cbv beta iota; apply wp_ret; discriminate].
  apply wp_bind. unfold call_stat. apply wp_bind. apply wp_call. intros r Hv2. eexists. split; [apply step_free; exact F5|].
  destruct r as [| | | |m sz| | |e]; try discriminate; [|exact I].
  apply wp_ret. cbv beta iota. apply wp_ret. cbv beta iota. cbn [fst]. destruct (has_sticky m) eqn:Hst; cbn [negb]; [|apply wp_ret; discriminate].
  apply wp_bind. apply wp_call_bool. intros r Hv3. vb Hv3. eexists. split; [apply step_free; exact F4|].
  destruct b; apply wp_ret; [discriminate|]. intros _. sec_solve Hst.
Qed.

(* the WRITE rule (trash-put) *)
Lemma wp_check_secure c h : c_check c = TopTrashDirCheck -> cand_parent_dir c = parent ->
  wp step (check_trash_dir_is_secure c) (fun h' r => r = None -> secure_parent h' parent = true) (fun _ _ => True) h.
Proof.
  intros Hc Hp. unfold check_trash_dir_is_secure. rewrite Hc, Hp. destruct (probes_free parent) as [_ [F2 [F3 [F4 F5]]]].
  apply wp_bind. apply wp_call_bool. intros r Hv. vb Hv. eexists. split; [apply step_free; exact F2|]. destruct b; cbn [negb]; [|apply wp_ret; discriminate].
  apply wp_bind. apply wp_call_bool. intros r Hv1. vb Hv1. eexists. split; [apply step_free; exact F3|]. destruct b; cbn [negb]; [|apply wp_ret; discriminate].
  apply wp_bind. apply wp_call_bool. intros r Hv2. vb Hv2. eexists. split; [apply step_free; exact F4|]. destruct b; [apply wp_ret; discriminate|].
  apply wp_bind. unfold call_stat. apply wp_bind. apply wp_call. intros r Hv3. eexists. split; [apply step_free; exact F5|].
  destruct r as [| | | |m sz| | |e]; try discriminate; [|exact I].
  apply wp_ret. cbv beta iota. cbn [fst]. destruct (has_sticky m) eqn:Hst; cbn [negb]; apply wp_ret; [|discriminate].
  intros _. sec_solve Hst.
Qed.
End Sec.

(* ---- trash-put: nothing is created, written or moved for the $topdir/.Trash/$uid candidate without the evidence ---- *)
Theorem put_top1_gated_lemma c o path volume : c_check c = TopTrashDirCheck ->
  all_runs (fun t _ => accepts (hist_step is_mutator (cand_parent_dir c)) [] t <> None) (trash_file_in c o path volume).
Proof.
  intros Hc. eapply all_runs_mono; [|apply (wp_sound (hist_step is_mutator (cand_parent_dir c)) (trash_file_in c o path volume) (fun _ _ => True) (fun _ _ => True) [])].
  - intros t out [s [Ha _]]. rewrite Ha. discriminate.
  - unfold trash_file_in. apply wp_bind.
    eapply wp_mono; [| |apply (wp_check_secure is_mutator (fun p => conj eq_refl (conj eq_refl (conj eq_refl (conj eq_refl eq_refl)))) (cand_parent_dir c) c [] Hc eq_refl)]; [|auto].
    intros h r Hr. cbv beta. destruct r as [why|]; [exact I|]. apply wp_secured. apply Hr. reflexivity.
Qed.

(* ---- trash-restore: $topdir/.Trash/$uid is listed and read only with the evidence ---- *)
Definition reads (o : op) : bool := match o with Listdir _ | ReadText _ | Log _ _ _ => true | _ => false end.
Theorem restore_top1_gated_lemma uid scope acc volume :
  all_runs (fun t _ => accepts (hist_step reads (dirname (volume_trash_dir1 volume uid))) [] t <> None) (restore_top1 uid scope acc volume).
Proof.
  eapply all_runs_mono; [|apply (wp_sound (hist_step reads (dirname (volume_trash_dir1 volume uid))) (restore_top1 uid scope acc volume) (fun _ _ => True) (fun _ _ => True) [])].
  - intros t out [s [Ha _]]. rewrite Ha. discriminate.
  - unfold restore_top1. apply wp_bind.
    eapply wp_mono; [| |apply (wp_valid_to_be_read reads (fun p => conj eq_refl (conj eq_refl (conj eq_refl (conj eq_refl eq_refl)))) _ (volume_trash_dir1 volume uid) [] eq_refl)]; [|auto].
    intros h r Hr. cbv beta. destruct r; try exact I. apply wp_secured. apply Hr. reflexivity.
Qed.

(* ---- the shared scanner (trash-list, -empty, -rm): Found $topdir/.Trash/$uid is emitted only with the evidence ---- *)
Definition collect (acc : list scan_event) (ev : scan_event) : prog (list scan_event) := Ret (acc ++ [ev]).
Definition no_trigger (_ : op) : bool := false.

Lemma top1_ne_top2 v uid : join3 v ($".Trash") (dec_of_N uid) <> join2 v ($".Trash-" ++ dec_of_N uid).
Proof.
  intros H. assert (Hb : basename (join3 v ($".Trash") (dec_of_N uid)) = basename (join2 v ($".Trash-" ++ dec_of_N uid))) by (rewrite H; reflexivity).
  unfold join3 in Hb. rewrite basename_join2 in Hb by apply dec_of_N_noslash.
  rewrite basename_join2 in Hb by (rewrite mem_app; rewrite dec_of_N_noslash; reflexivity).
  assert (Hl : length (dec_of_N uid) = length ($".Trash-" ++ dec_of_N uid)) by (rewrite <- Hb; reflexivity).
  rewrite app_length in Hl. simpl in Hl. lia.
Qed.

Theorem scanner_announces_top1_only_secured_lemma uid v :
  let top := join3 v ($".Trash") (dec_of_N uid) in
  all_runs (fun t out => forall evs, out = Done evs -> In (Found top v) evs -> secure_parent t (dirname top) = true)
           (scan_volume collect uid [] v).
Proof.
  intros top.
  eapply all_runs_mono; [|apply (wp_sound (hist_step no_trigger (dirname top)) (scan_volume collect uid [] v)
        (fun h evs => In (Found top v) evs -> secure_parent h (dirname top) = true) (fun _ _ => True) [])].
  - intros t out [s [Ha Ho]] evs Hout Hin. subst out.
    assert (Hs : s = t).
    { clear -Ha. assert (G : forall t0 h s0, accepts (hist_step no_trigger (dirname top)) h t0 = Some s0 -> s0 = h ++ t0).
      { induction t0 as [|[o r] t0 IH]; simpl; intros h s0 H; [inversion H; rewrite app_nil_r; reflexivity|].
        unfold hist_step at 1 in H. simpl in H. apply IH in H. rewrite H. rewrite <- app_assoc. reflexivity. }
      apply (G t [] s Ha). }
    subst s. apply Ho. exact Hin.
  - unfold scan_volume. fold top. apply wp_bind.
    eapply wp_mono; [| |apply (wp_valid_to_be_read no_trigger (fun p => conj eq_refl (conj eq_refl (conj eq_refl (conj eq_refl eq_refl)))) (dirname top) top [] eq_refl)]; [|auto].
    intros h r Hr. cbv beta. apply wp_bind.
    assert (Hfirst : wp (hist_step no_trigger (dirname top))
                (match r with TopValid => collect [] (Found top v) | TopNotSticky => collect [] (SkippedNotSticky top)
                            | TopSymlink => collect [] (SkippedSymlink top) | TopNotExist => Ret [] end)
                (fun h' evs => h' = h /\ (In (Found top v) evs -> r = TopValid)) (fun _ _ => True) h).
    { destruct r; unfold collect; apply wp_ret; (split; [reflexivity|]); simpl; intros Hin; try reflexivity; try contradiction;
        destruct Hin as [Hin|[]]; discriminate. }
    eapply wp_mono; [| |exact Hfirst]; [|auto]. intros h' evs1 [Hh Hev]. subst h'. cbv beta.
    apply wp_bind. apply wp_call_bool. intros rr Hv. vb Hv. eexists. split; [reflexivity|].
    assert (Hkeep : In (Found top v) evs1 -> secure_parent (h ++ [(Isdir (join2 v ($".Trash-" ++ dec_of_N uid)), RBool b)]) (dirname top) = true).
    { intros Hin. apply secure_mono. apply Hr. apply Hev. exact Hin. }
    destruct b; [|apply wp_ret; exact Hkeep].
    unfold collect. apply wp_ret. intros Hin. apply in_app_or in Hin. destruct Hin as [Hin|[Hin|[]]]; [apply Hkeep; exact Hin|].
    exfalso. inversion Hin as [Heq]. apply (top1_ne_top2 v uid). symmetry. exact Heq.
Qed.
