(* An interface shared by the program logics of ProgProofs (asafe over a stateful monitor, ops_sat over a
   predicate on operations): enough structure to verify the parametric scanning/reading code ONCE. *)
From TV Require Import Prelude.Str Prog.Prog Proofs.ProgProofs.

Record plogic := {
  T : forall A : Type, prog A -> (A -> Prop) -> Prop;       (* "every run is fine and returns a value in Q" *)
  OKop : op -> Prop;                                         (* operations that are fine unconditionally *)
  T_ret : forall A (a : A) (Q : A -> Prop), Q a -> T A (Ret a) Q;
  T_throw : forall A e (Q : A -> Prop), T A (Throw e) Q;
  T_mono : forall A (m : prog A) (Q Q' : A -> Prop), (forall a, Q a -> Q' a) -> T A m Q -> T A m Q';
  T_bind : forall A B (m : prog A) (f : A -> prog B) (Q' : A -> Prop) (Q : B -> Prop),
      T A m Q' -> (forall a, Q' a -> T B (f a) Q) -> T B (bind m f) Q;
  T_catch : forall A (m : prog A) (h : exn -> option (prog A)) (Q : A -> Prop),
      T A m Q -> (forall e p, h e = Some p -> T A p Q) -> T A (catch m h) Q;
  T_call : forall o, OKop o -> T res (call o) (fun r => valid_res o r = true)
}.
Arguments T _ {A}.

Section Derived.
Variable L : plogic.
Notation TT := (T L).

Lemma T_seq {A B} (m : prog A) (k : prog B) (Q : B -> Prop) :
  TT m (fun _ => True) -> TT k Q -> TT (bind m (fun _ => k)) Q.
Proof. intros. eapply T_bind; eauto. Qed.

Ltac tcall H := eapply T_bind; [apply (T_call L _ H)|]; intros [] _; try apply T_throw; apply T_ret; exact I.
Lemma T_call_bool o : OKop L o -> TT (call_bool o) (fun _ => True).
Proof. intros H. unfold call_bool. tcall H. Qed.
Lemma T_call_unit o : OKop L o -> TT (call_unit o) (fun _ => True).
Proof. intros H. unfold call_unit. eapply T_bind; [apply (T_call L _ H)|]. intros; apply T_ret; exact I. Qed.
Lemma T_call_str o : OKop L o -> TT (call_str o) (fun _ => True).
Proof. intros H. unfold call_str. tcall H. Qed.
Lemma T_call_list o : OKop L o -> TT (call_list o) (fun _ => True).
Proof. intros H. unfold call_list. tcall H. Qed.
Lemma T_call_stat o : OKop L o -> TT (call_stat o) (fun _ => True).
Proof. intros H. unfold call_stat. tcall H. Qed.
Lemma T_call_z o : OKop L o -> TT (call_z o) (fun _ => True).
Proof. intros H. unfold call_z. tcall H. Qed.
Lemma T_call_date o : OKop L o -> TT (call_date o) (fun _ => True).
Proof. intros H. unfold call_date. tcall H. Qed.
Lemma T_listdir p : OKop L (Listdir p) -> TT (call_list (Listdir p)) (fun l => forallb valid_name l = true).
Proof.
  intros H. unfold call_list. eapply T_bind; [apply (T_call L _ H)|].
  intros r Hv. destruct r; try apply T_throw. apply T_ret. exact Hv.
Qed.
Lemma T_for_each {A} (l : list A) (body : A -> prog unit) :
  (forall x, In x l -> TT (body x) (fun _ => True)) -> TT (for_each l body) (fun _ => True).
Proof.
  induction l as [|x l IH]; simpl; intros Hb; [apply T_ret; exact I|].
  apply T_seq; [apply Hb; auto|apply IH; auto].
Qed.
End Derived.

(* instance 1: any-state safety against a stateful monitor *)
Definition asafe_logic {M} (step : M -> op -> res -> option M) : plogic.
Proof.
  refine {| T := fun A m Q => asafe step m Q; OKop := accepted step |}.
  - intros; apply asafe_ret; auto.
  - intros; apply asafe_throw.
  - intros A m Q Q' HQ H. eapply asafe_mono; eauto.
  - intros A B m f Q' Q Hm Hf. eapply asafe_bind; eauto.
  - intros A m h Q Hm Hh. apply asafe_catch; auto.
  - intros o Ho. apply (asafe_call step o (fun r => valid_res o r = true) Ho). intros r Hv. destruct r; auto.
Defined.

(* instance 2: every operation issued satisfies a predicate *)
Fixpoint ops_sat {A} (P : op -> Prop) (m : prog A) (Q : A -> Prop) : Prop :=
  match m with
  | Ret a => Q a
  | Throw _ => True
  | Do o k => P o /\ forall r, valid_res o r = true -> ops_sat P (k r) Q
  end.

Lemma bind_Do {A B} o k (f : A -> prog B) : bind (Do o k) f = Do o (fun r => bind (k r) f).  Proof. reflexivity. Qed.
Lemma bind_Ret {A B} a (f : A -> prog B) : bind (Ret a) f = f a.  Proof. reflexivity. Qed.
Lemma bind_Throw {A B} e (f : A -> prog B) : bind (Throw e) f = Throw e.  Proof. reflexivity. Qed.
Lemma catch_Do {A} o k (h : exn -> option (prog A)) : catch (Do o k) h = Do o (fun r => catch (k r) h).  Proof. reflexivity. Qed.
Lemma catch_Ret {A} a (h : exn -> option (prog A)) : catch (Ret a) h = Ret a.  Proof. reflexivity. Qed.
Lemma catch_Throw {A} e (h : exn -> option (prog A)) : catch (Throw e) h = match h e with Some p => p | None => Throw e end.  Proof. reflexivity. Qed.

Lemma ops_sat_mono {A} P (m : prog A) (Q Q' : A -> Prop) : (forall a, Q a -> Q' a) -> ops_sat P m Q -> ops_sat P m Q'.
Proof.
  intros HQ. induction m as [a|e|o k IH]; cbn [ops_sat]; auto.
  intros [Ho Hk]. split; [exact Ho|]. intros r Hv. apply IH; auto.
Qed.
Lemma ops_sat_bind {A B} P (m : prog A) (f : A -> prog B) (Q' : A -> Prop) (Q : B -> Prop) :
  ops_sat P m Q' -> (forall a, Q' a -> ops_sat P (f a) Q) -> ops_sat P (bind m f) Q.
Proof.
  induction m as [a|e|o k IH]; [rewrite bind_Ret|rewrite bind_Throw|rewrite bind_Do]; cbn [ops_sat]; auto.
  intros [Ho Hk] Hf. split; [exact Ho|]. intros r Hv. apply IH; auto.
Qed.
Lemma ops_sat_catch {A} P (m : prog A) (h : exn -> option (prog A)) (Q : A -> Prop) :
  ops_sat P m Q -> (forall e p, h e = Some p -> ops_sat P p Q) -> ops_sat P (catch m h) Q.
Proof.
  induction m as [a|e|o k IH]; [rewrite catch_Ret|rewrite catch_Throw|rewrite catch_Do]; cbn [ops_sat]; auto.
  - intros _ Hh. destruct (h e) eqn:He; [apply (Hh e p He)|exact I].
  - intros [Ho Hk] Hh. split; [exact Ho|]. intros r Hv. apply IH; auto.
Qed.
Lemma ops_sat_sound {A} P (m : prog A) Q : ops_sat P m Q ->
  all_runs (fun t out => Forall (fun p => P (fst p)) t /\ match out with Done a => Q a | _ => True end) m.
Proof.
  induction m as [a|e|o k IH]; cbn [ops_sat all_runs]; auto.
  intros [Ho Hk] r Hv. eapply all_runs_mono; [|apply IH; apply Hk; exact Hv].
  intros t out [Ht Hout]. split; [constructor; auto|exact Hout].
Qed.
Global Arguments ops_sat : simpl never.

Definition ops_logic (P : op -> Prop) : plogic.
Proof.
  refine {| T := fun A m Q => ops_sat P m Q; OKop := P |}.
  - intros; assumption.
  - intros; exact I.
  - intros A m Q Q' HQ H. eapply ops_sat_mono; eauto.
  - intros A B m f Q' Q Hm Hf. eapply ops_sat_bind; eauto.
  - intros A m h Q Hm Hh. apply ops_sat_catch; auto.
  - intros o Ho. unfold call. cbn [ops_sat]. split; [exact Ho|]. intros r Hv. destruct r; cbn [ops_sat]; auto.
Defined.
