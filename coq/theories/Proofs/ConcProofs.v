(* Proof of the schedule-universal theorem of C04 (model: Conc/Conc.v) by an inductive invariant.
   sauto (CoqHammer's reconstruction-free tactic, no external prover) closes the routine cases, each under a time limit. *)
From Coq Require Import List Arith Bool Lia.
From Hammer Require Import Tactics.
From TV Require Import Conc.Conc.
Import ListNotations.
Section Proofs.
Variable cand : nat -> nat -> nat.
Variable vis_old vis_new : nat -> bool.
Notation step := (step cand vis_old vis_new).
Notation Inv := (Inv cand vis_old).
Notation visible := (visible vis_old vis_new).

Lemma upd_same {A} (f:nat->A) k v : upd f k v k = v.
Proof. unfold upd. now rewrite Nat.eqb_refl. Qed.
Lemma upd_other {A} (f:nat->A) k v x : x <> k -> upd f k v x = f x.
Proof. unfold upd. intros. destruct (Nat.eqb_spec x k); congruence. Qed.

Definition init_ok (s0: sh) : Prop :=
  (forall p, procs s0 p = Probe 0) /\ (forall n p, files s0 n <> Some (New p)) /\ (forall n p, infos s0 n <> Some (Some p)).

Lemma inv_init s0 : init_ok s0 -> Inv s0 s0.
Proof.
  intros (Hp & Hf & Hi). constructor; intros; try (rewrite Hp in *; simpl in *; congruence); auto.
  - exfalso; eapply Hi; eauto.
  - exfalso; eapply Hf; eauto.
Qed.

Ltac upds := repeat match goal with
  | H : context [upd _ ?k _ ?x] |- _ => unfold upd in H; destruct (Nat.eqb_spec x k); subst
  | |- context [upd _ ?k _ ?x] => unfold upd; destruct (Nat.eqb_spec x k); subst
  end.

Ltac go := constructor; simpl; intros; try (timeout 15 (unfold upd, Conc.visible in *; sauto)).
Ltac ex_info Hinfo Hnew :=
  match goal with
  | H : infos _ ?n = Some (Some ?q) |- exists _, holds (upd _ ?p _ ?q) = Some _ /\ _ =>
      let j := fresh "j" in let Hj := fresh "Hj" in let Hc := fresh "Hc" in
      destruct (Hinfo _ _ H) as (j & Hj & Hc); unfold upd; destruct (Nat.eqb_spec q p); subst; [|exists j; auto]
  | H : files _ ?n = Some (New ?q) |- exists _, upd _ ?p _ ?q = DoneOk _ /\ _ =>
      let j := fresh "j" in let Hj := fresh "Hj" in let Hc := fresh "Hc" in
      destruct (Hnew _ _ H) as (j & Hj & Hc); unfold upd; destruct (Nat.eqb_spec q p); subst; [|exists j; auto]
  end.
Lemma inv_step s0 s p f : init_ok s0 -> Inv s0 s -> Inv s0 (step s p f).
Proof.
  intros (_ & _ & Hi0) [Hown Hinfo Hnew Hdone Holdi Holdf Hmv Hcr Hf0].
  unfold Conc.step. destruct (procs s p) eqn:Ep.
  - (* Probe *) destruct (visible s (cand p i)) eqn:Ev; go.
  - (* Create *) destruct (infos s (cand p i)) eqn:Ei; [go|destruct f; go].
    + ex_info Hinfo Hnew. rewrite Ep in Hj; simpl in Hj; discriminate.
    + ex_info Hinfo Hnew. congruence.
    + unfold upd in H. destruct (Nat.eqb_spec n (cand p i)); subst.
      * inversion H; subst. exists i. unfold upd. rewrite Nat.eqb_refl. auto.
      * ex_info Hinfo Hnew. rewrite Ep in Hj; simpl in Hj; discriminate.
    + unfold upd in H. destruct (Nat.eqb_spec p0 p); subst; [|apply Hmv; auto].
      inversion H; subst. split.
      * destruct (infos s0 (cand p i0)) eqn:E0; auto. rewrite Holdi in Ei by congruence. congruence.
      * destruct (Hcr _ _ Ep) as [Hn|[Hx|(q & Hq)]]; auto.
        destruct (Hnew _ _ Hq) as (j & Hj & Hc). assert (infos s (cand q j) = Some (Some q)) by (apply Hown; rewrite Hj; auto). congruence.
  - (* MoveP *) destruct f; go.
    unfold upd in H. destruct (Nat.eqb_spec p0 p); subst; [discriminate|].
    destruct (Hmv _ _ H) as [Hm1 Hm2]. split; auto.
    unfold upd. destruct (Nat.eqb_spec (cand p0 i0) (cand p i)) as [Heq|]; auto.
    exfalso. assert (infos s (cand p0 i0) = Some (Some p0)) by (apply Hown; rewrite H; auto).
    assert (infos s (cand p i) = Some (Some p)) by (apply Hown; rewrite Ep; auto). congruence.
  - (* Unres *) go.
    + unfold upd in H. destruct (Nat.eqb_spec p0 p); subst; [simpl in H; discriminate|].
      unfold upd. destruct (Nat.eqb_spec (cand p0 i0) (cand p i)) as [Heq|]; auto.
      exfalso. assert (infos s (cand p0 i0) = Some (Some p0)) by (apply Hown; auto).
      assert (infos s (cand p i) = Some (Some p)) by (apply Hown; rewrite Ep; auto). congruence.
    + unfold upd in H. destruct (Nat.eqb_spec n (cand p i)); subst; [discriminate|].
      destruct (Hinfo _ _ H) as (j & Hj & Hc). unfold upd. destruct (Nat.eqb_spec p0 p); subst; [|exists j; auto].
      exfalso. rewrite Ep in Hj; simpl in Hj. inversion Hj; subst. congruence.
    + unfold upd. destruct (Nat.eqb_spec n (cand p i)); subst; auto.
      exfalso. assert (infos s (cand p i) = Some (Some p)) by (apply Hown; rewrite Ep; auto).
      rewrite Holdi in H0 by auto. eapply Hi0; eauto.
  - constructor; auto.
  - constructor; auto.
Qed.

Notation run := (run cand vis_old vis_new).
Theorem inv_run s0 sched : init_ok s0 -> Inv s0 (run s0 sched).
Proof.
  intros H0. assert (G: forall s, Inv s0 s -> Inv s0 (run s sched)).
  { induction sched as [|[p f] r IH]; simpl; intros s Hs; auto. apply IH. apply inv_step; auto. }
  apply G. apply inv_init; auto.
Qed.

(* The property, for every schedule of any number of processes *)
Theorem concurrent_puts_never_overwrite s0 sched : init_ok s0 ->
  let s := run s0 sched in
     (forall n x, files s0 n = Some (Old x) -> (infos s0 n <> None \/ vis_old n = true) -> files s n = Some (Old x))
  /\ (forall n, infos s0 n <> None -> infos s n = infos s0 n)
  /\ (forall p q i j, p <> q -> procs s p = DoneOk i -> procs s q = DoneOk j -> cand p i <> cand q j)
  /\ (forall p i, procs s p = DoneOk i -> files s (cand p i) = Some (New p) /\ infos s (cand p i) = Some (Some p)).
Proof.
  intros H0 s. destruct (inv_run s0 sched H0) as [Hown Hinfo Hnew Hdone Holdi Holdf Hmv Hcr Hf0]. fold s in Hown, Hinfo, Hnew, Hdone, Holdi, Holdf.
  repeat split; auto.
  - intros p q i j Hpq Hp Hq Heq. assert (A: infos s (cand p i) = Some (Some p)) by (apply Hown; rewrite Hp; auto).
    assert (B: infos s (cand q j) = Some (Some q)) by (apply Hown; rewrite Hq; auto). congruence.
  - apply Hown. rewrite H; auto.
Qed.
End Proofs.
