(* C13, "ordered as --sort requests": the list trash-restore prints and indexes is ordered by the key of the sort mode -
   no entry is followed, anywhere later in the list, by one with a strictly smaller key - and the sort is stable: entries
   with equivalent keys keep the order in which they were found.  Generic over the strict order `lt` of the keys, which
   has to be asymmetric and negatively transitive (a strict weak order); instantiated for the two key orders of
   sort_method.py: (date is not None, date) and path + str(date). *)
From Coq Require Import List Bool Permutation Sorted Lia NArith.
From TV Require Import Prelude.Str Prelude.SortStable Codec.DateFmt Logic.Calendar Cmd.Restore Proofs.SortProofs.
Import ListNotations.

Section Sorted.
Context {A : Type}.
Variable lt : A -> A -> bool.
Hypothesis asym : forall x y, lt x y = true -> lt y x = false.
Hypothesis negtrans : forall x y z, lt x y = false -> lt y z = false -> lt x z = false.

Definition le_key (a b : A) : Prop := lt b a = false.       (* b is not strictly before a *)

Lemma insert_In x l w : In w (insert lt x l) -> w = x \/ In w l.
Proof.
  intros H. apply (Permutation_in w (Permutation_sym (insert_perm lt x l))) in H. destruct H as [H|H]; [left; symmetry; exact H|right; exact H].
Qed.

Lemma insert_sorted x l : StronglySorted le_key l -> StronglySorted le_key (insert lt x l).
Proof.
  induction l as [|y l IH]; intros Hs; simpl; [constructor; [constructor|constructor]|].
  inversion Hs as [|y0 l0 Hl Hy]; subst. destruct (lt x y) eqn:E.
  - constructor; [exact Hs|]. constructor; [unfold le_key; apply asym; exact E|].
    rewrite Forall_forall in *. intros z Hz. unfold le_key. apply (negtrans z y x); [apply Hy; exact Hz|apply asym; exact E].
  - constructor; [apply IH; exact Hl|]. rewrite Forall_forall in *. intros w Hw.
    destruct (insert_In x l w Hw) as [Ew|Hin]; [subst w; exact E|apply Hy; exact Hin].
Qed.

Lemma fold_insert_sorted l : forall acc, StronglySorted le_key acc -> StronglySorted le_key (fold_left (fun acc x => insert lt x acc) l acc).
Proof. induction l as [|x l IH]; intros acc H; simpl; [exact H|]. apply IH. apply insert_sorted. exact H. Qed.

Theorem sort_stable_sorted l : StronglySorted le_key (sort_stable lt l).
Proof. apply fold_insert_sorted. constructor. Qed.

(* stability: the elements whose key is equivalent to a given one come out in the order they went in *)
Definition eqv (k e : A) : bool := negb (lt k e) && negb (lt e k).

Lemma insert_other k x l : eqv k x = false -> filter (eqv k) (insert lt x l) = filter (eqv k) l.
Proof.
  intros Hx. induction l as [|y l IH]; simpl; [rewrite Hx; reflexivity|].
  destruct (lt x y); simpl; [rewrite Hx; reflexivity|]. rewrite IH. reflexivity.
Qed.
Lemma insert_same k x l : eqv k x = true -> StronglySorted le_key l ->
  filter (eqv k) (insert lt x l) = filter (eqv k) l ++ [x].
Proof.
  intros Hx. unfold eqv in Hx. apply andb_true_iff in Hx. destruct Hx as [Hkx Hxk]. apply negb_true_iff in Hkx, Hxk.
  assert (Hxe : eqv k x = true) by (unfold eqv; rewrite Hkx, Hxk; reflexivity).
  induction l as [|y l IH]; intros Hs; simpl; [rewrite Hxe; reflexivity|].
  inversion Hs as [|y0 l0 Hl Hy]; subst. destruct (lt x y) eqn:E.
  - (* x goes in front of y: nothing from y on is equivalent to k *)
    assert (Hnone : forall z, In z (y :: l) -> eqv k z = false).
    { intros z Hz. assert (Hxz : lt x z = true).
      { destruct (lt x z) eqn:Exz; [reflexivity|]. exfalso.
        assert (Hzy : lt z y = false) by (destruct Hz as [Hz|Hz]; [subst z; destruct (lt y y) eqn:Eyy; [rewrite (asym y y Eyy) in Eyy; discriminate|reflexivity]|rewrite Forall_forall in Hy; apply Hy; exact Hz]).
        rewrite (negtrans x z y Exz Hzy) in E. discriminate. }
      unfold eqv. destruct (lt k z) eqn:Ekz; [reflexivity|]. destruct (lt z k) eqn:Ezk; [rewrite andb_false_r; reflexivity|]. exfalso.
      rewrite (negtrans x k z Hxk Ekz) in Hxz. discriminate. }
    assert (Hf : filter (eqv k) (y :: l) = []).
    { clear -Hnone. induction (y :: l) as [|z t IHt]; [reflexivity|]. simpl. rewrite (Hnone z (or_introl eq_refl)). apply IHt. intros w Hw. apply Hnone. right. exact Hw. }
    change (filter (eqv k) (x :: y :: l)) with (if eqv k x then x :: filter (eqv k) (y :: l) else filter (eqv k) (y :: l)).
    rewrite Hxe, Hf. simpl in Hf. rewrite Hf. reflexivity.
  - simpl. rewrite (IH Hl). destruct (eqv k y); reflexivity.
Qed.

Lemma fold_insert_stable k l : forall acc, StronglySorted le_key acc ->
  filter (eqv k) (fold_left (fun acc x => insert lt x acc) l acc) = filter (eqv k) acc ++ filter (eqv k) l.
Proof.
  induction l as [|x l IH]; intros acc Hs; simpl; [rewrite app_nil_r; reflexivity|].
  rewrite (IH _ (insert_sorted x acc Hs)). destruct (eqv k x) eqn:E.
  - rewrite (insert_same k x acc E Hs). rewrite <- app_assoc. reflexivity.
  - rewrite (insert_other k x acc E). reflexivity.
Qed.

Theorem sort_stable_stable k l : filter (eqv k) (sort_stable lt l) = filter (eqv k) l.
Proof. unfold sort_stable. rewrite (fold_insert_stable k l []); [reflexivity|constructor]. Qed.
End Sorted.

(* ---- the two key orders ---- *)
Open Scope N_scope.

Lemma str_ltb_asym a : forall b, str_ltb a b = true -> str_ltb b a = false.
Proof.
  induction a as [|x a IH]; intros [|y b] H; simpl in *; try discriminate; try reflexivity.
  apply orb_true_iff in H. apply orb_false_iff. destruct H as [H|H].
  - apply N.ltb_lt in H. split; [apply N.ltb_ge; lia|]. apply andb_false_iff. left. apply N.eqb_neq. lia.
  - apply andb_true_iff in H. destruct H as [H1 H2]. apply N.eqb_eq in H1. subst y. split; [apply N.ltb_irrefl|].
    rewrite N.eqb_refl. simpl. apply IH. exact H2.
Qed.
Lemma str_ltb_negtrans a : forall b c, str_ltb a b = false -> str_ltb b c = false -> str_ltb a c = false.
Proof.
  induction a as [|x a IH]; intros b c Hab Hbc.
  - destruct b; [|discriminate Hab]. exact Hbc.
  - destruct c as [|z c]; [reflexivity|]. destruct b as [|y b]; [discriminate Hbc|]. simpl in *.
    apply orb_false_iff in Hab. apply orb_false_iff in Hbc. destruct Hab as [H1 H2]. destruct Hbc as [H3 H4].
    apply N.ltb_ge in H1. apply N.ltb_ge in H3. apply orb_false_iff. split; [apply N.ltb_ge; lia|].
    destruct (x =? z) eqn:Exz; [|reflexivity]. apply N.eqb_eq in Exz. subst z. assert (y = x) by lia. subst y.
    rewrite N.eqb_refl in H2, H4. simpl in *. apply (IH b c H2 H4).
Qed.

Lemma lex_lt_asym a : forall b, lex_lt a b = true -> lex_lt b a = false.
Proof.
  induction a as [|x a IH]; intros [|y b] H; simpl in *; try discriminate; try reflexivity.
  apply orb_true_iff in H. apply orb_false_iff. destruct H as [H|H].
  - apply N.ltb_lt in H. split; [apply N.ltb_ge; lia|]. apply andb_false_iff. left. apply N.eqb_neq. lia.
  - apply andb_true_iff in H. destruct H as [H1 H2]. apply N.eqb_eq in H1. subst y. split; [apply N.ltb_irrefl|].
    rewrite N.eqb_refl. simpl. apply IH. exact H2.
Qed.
Lemma lex_lt_negtrans a : forall b c, length a = length b -> length b = length c ->
  lex_lt a b = false -> lex_lt b c = false -> lex_lt a c = false.
Proof.
  induction a as [|x a IH]; intros b c L1 L2 Hab Hbc; [reflexivity|].
  destruct b as [|y b]; [discriminate L1|]. destruct c as [|z c]; [discriminate L2|]. simpl in *.
  apply orb_false_iff in Hab. apply orb_false_iff in Hbc. destruct Hab as [H1 H2]. destruct Hbc as [H3 H4].
  apply N.ltb_ge in H1. apply N.ltb_ge in H3. apply orb_false_iff. split; [apply N.ltb_ge; lia|].
  destruct (x =? z) eqn:Exz; [|reflexivity]. apply N.eqb_eq in Exz. subst z. assert (y = x) by lia. subst y.
  rewrite N.eqb_refl in H2, H4. simpl in *. apply (IH b c); auto.
Qed.

Lemma date_key_asym x y : date_key_lt x y = true -> date_key_lt y x = false.
Proof.
  unfold date_key_lt. destruct (tf_date x) as [dx|], (tf_date y) as [dy|]; try discriminate; try reflexivity.
  unfold dt_lt. apply lex_lt_asym.
Qed.
Lemma date_key_negtrans x y z : date_key_lt x y = false -> date_key_lt y z = false -> date_key_lt x z = false.
Proof.
  unfold date_key_lt. destruct (tf_date x) as [dx|], (tf_date y) as [dy|], (tf_date z) as [dz|]; try discriminate; try reflexivity.
  unfold dt_lt. apply lex_lt_negtrans; reflexivity.
Qed.
Lemma path_key_asym x y : path_key_lt x y = true -> path_key_lt y x = false.
Proof. unfold path_key_lt. apply str_ltb_asym. Qed.
Lemma path_key_negtrans x y z : path_key_lt x y = false -> path_key_lt y z = false -> path_key_lt x z = false.
Proof. unfold path_key_lt. apply str_ltb_negtrans. Qed.

Definition key_lt (m : sort_mode) : trashed_file -> trashed_file -> bool :=
  match m with SortByDate => date_key_lt | SortByPath => path_key_lt | SortNone => fun _ _ => false end.

(* the printed list is ordered by the key of the mode: nothing later in the list is strictly before something earlier *)
Theorem sort_files_sorted_lemma m l : m <> SortNone -> StronglySorted (fun a b => key_lt m b a = false) (sort_files m l).
Proof.
  intros Hm. destruct m; [| |contradiction].
  - apply (sort_stable_sorted date_key_lt date_key_asym date_key_negtrans).
  - apply (sort_stable_sorted path_key_lt path_key_asym path_key_negtrans).
Qed.

(* and among entries with equivalent keys the order in which they were found is kept (so the index of an entry is determined
   by the keys and the order of discovery alone) *)
Theorem sort_files_stable_lemma m l k : filter (eqv (key_lt m) k) (sort_files m l) = filter (eqv (key_lt m) k) l.
Proof.
  destruct m; [| |reflexivity].
  - apply (sort_stable_stable date_key_lt date_key_asym date_key_negtrans).
  - apply (sort_stable_stable path_key_lt path_key_asym path_key_negtrans).
Qed.
