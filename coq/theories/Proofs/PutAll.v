(* The whole of trash_single / put_main traversed once for any program logic in which
   - every operation other than Move, Makedirs and Input is fine,
   - a Move is fine when its source is normpath(argument),
   - a Makedirs is fine when its mode is 0700,
   - Input is fine in interactive mode.
   Instances give: C18 (the move acts on the named entry itself: only trailing slashes and dots are
   normalised away, nothing is resolved), C07 (directories are created private, no prompt without -i),
   C01 (a dot entry, a nonexistent path, a declined argument: no mutation at all). *)
From TV Require Import Prelude.Str Prelude.PosixPath Prelude.Utf8 Codec.Quote Codec.DateFmt Codec.TrashInfo
  Logic.OrigLoc Logic.Reply Prog.Prog Cmd.Put Cmd.Scan Proofs.ProgProofs Proofs.PLogic Proofs.ScanProofs Proofs.PutSafe.
Open Scope N_scope.

Section PutAll.
Variable L : plogic.
Variable o : put_opts.
Hypothesis Hgen : forall op, (match op with Move _ _ | Makedirs _ _ | Input _ => False | _ => True end) -> OKop L op.
Hypothesis Hmk : forall p, OKop L (Makedirs p 448).
Hypothesis Hinp : po_mode o = ModeInteractive -> forall p, OKop L (Input p).
Notation TT := (T L).
Ltac aret := first [apply T_ret; exact I | apply T_throw].
Ltac gen := apply Hgen; exact I.

Lemma Hplain' op : put_plain op = true -> OKop L op.
Proof. intros H. apply Hgen. destruct op; try discriminate; exact I. Qed.

Lemma all_atomic_write p c : TT (atomic_write p c) (fun _ => True).
Proof.
  unfold atomic_write. apply T_seq; [apply T_call_unit; gen|]. apply T_seq; [|apply T_call_unit; gen].
  apply T_catch; [apply T_call_unit; gen|]. intros e q He. destruct (is_OSError e); inversion He.
  apply T_seq; [apply T_call_unit; gen|]. apply T_seq; [apply T_call_unit; gen|aret].
Qed.

Lemma all_try_persist d : forall fuel idx ntl, TT (try_persist fuel d idx ntl) (fun _ => True).
Proof.
  induction fuel as [|f IH]; intros idx ntl; cbn [try_persist]; [aret|].
  eapply T_bind; [apply (safe_suffix_for_index L Hplain')|]. intros suffix _.
  eapply T_bind; [apply T_call_bool; gen|]. intros taken _. destruct taken; [apply IH|].
  eapply T_bind with (Q' := fun _ => True).
  - apply T_catch; [apply T_seq; [apply all_atomic_write|aret]|]. intros e q He. destruct e; inversion He. aret.
  - intros r _. destruct r as [n|]; [|apply T_seq; [apply T_call_unit; gen|aret]].
    destruct ((n =? ENAMETOOLONG) && negb ntl); [apply T_seq; [apply T_call_unit; gen|apply IH]|].
    destruct (negb (n =? EEXIST)); [aret|apply T_seq; [apply T_call_unit; gen|apply IH]].
Qed.

Lemma all_remove_file p : TT (remove_file p) (fun _ => True).
Proof.
  unfold remove_file. eapply T_bind; [apply T_call_bool; gen|]. intros e _. destruct e; [|aret].
  apply T_catch; [apply T_call_unit; gen|]. intros e q He. inversion He. apply T_call_unit; gen.
Qed.

(* everything above trash_file_in, for any logic in which trash_file_in is fine *)
Section FromTfi.
Variable path : str.
Hypothesis Htfi : forall c volume, TT (trash_file_in c o path volume) (fun _ => True).

Lemma tfi_try_candidates volume : forall cs failures, TT (try_candidates cs o path volume failures) (fun _ => True).
Proof.
  induction cs as [|c cs IH]; intros failures; cbn [try_candidates].
  - eapply T_bind; [apply (safe_describe L Hplain')|]. intros d _.
    apply T_seq; [apply T_call_unit; gen|]. apply T_seq; [apply (safe_log_failures L Hplain')|aret].
  - apply T_seq; [apply T_call_unit; gen|]. eapply T_bind; [apply Htfi|]. intros r _.
    destruct r; [apply IH|]. apply T_seq; [apply T_call_unit; gen|aret].
Qed.

Lemma tfi_trash_file : TT (trash_file path o) (fun _ => True).
Proof.
  unfold trash_file. eapply T_bind with (Q' := fun _ => True).
  - destruct (po_forced_volume o) as [[|c x]|]; try apply (safe_volume_of_parent L Hplain'). aret.
  - intros volume _. eapply T_bind; [apply (safe_possible_trash_directories_for L Hplain')|]. intros cs _. apply tfi_try_candidates.
Qed.

Lemma tfi_report : TT (d <- describe path ;; log WARNING true ($"cannot trash " ++ d ++ $" '" ++ path ++ $"'") ;;; Ret false) (fun _ => True).
Proof. eapply T_bind; [apply (safe_describe L Hplain')|]. intros d _. apply T_seq; [apply T_call_unit; gen|aret]. Qed.

Lemma tfi_trash_single : TT (trash_single path o) (fun _ => True).
Proof.
  unfold trash_single. destruct (should_skipped_by_specs path); [apply tfi_report|].
  eapply T_bind; [apply T_call_bool; gen|]. intros e _. destruct e; simpl.
  2:{ destruct (po_mode o); try apply tfi_report. aret. }
  eapply T_bind; [apply T_call_bool; gen|]. intros acc _.
  destruct (po_mode o) eqn:Em; try apply tfi_trash_file.
  destruct acc; [|apply tfi_trash_file].
  eapply T_bind; [apply (safe_describe L Hplain')|]. intros d _.
  eapply T_bind with (Q' := fun _ => True).
  { apply T_catch; [apply T_call_str; apply Hinp; reflexivity|]. intros e q He. destruct e; inversion He. aret. }
  intros reply _.
  destruct (parse_user_reply reply); [apply tfi_trash_file|aret].
Qed.
End FromTfi.

Lemma all_trash_each (Hone : forall path, TT (trash_single path o) (fun _ => True)) : forall paths, TT (trash_each paths o) (fun _ => True).
Proof.
  induction paths as [|p ps IH]; cbn [trash_each]; [aret|].
  eapply T_bind; [apply Hone|]. intros ok _. eapply T_bind; [apply IH|]. intros r _. aret.
Qed.
Lemma all_put_main (Hone : forall path, TT (trash_single path o) (fun _ => True)) : TT (put_main o) (fun _ => True).
Proof. unfold put_main. eapply T_bind; [apply all_trash_each; exact Hone|]. intros failed _. aret. Qed.

Section OneArg.
Variable path : str.
Hypothesis Hmove : forall dst, OKop L (Move (normpath path) dst).

Lemma all_try_trash info : TT (try_trash path info) (fun _ => True).
Proof.
  unfold try_trash, fs_move. apply T_catch.
  - apply T_seq; [|aret]. eapply T_bind; [apply T_call_bool; gen|]. intros m _. destruct m; [aret|apply T_call_unit; apply Hmove].
  - intros e q He. destruct (is_OSError e); inversion He. apply T_seq; [apply all_remove_file|aret].
Qed.

Lemma all_trash_file_in c volume : TT (trash_file_in c o path volume) (fun _ => True).
Proof.
  unfold trash_file_in.
  eapply T_bind; [apply (safe_check_secure L Hplain')|]. intros r1 _. destruct r1; [aret|].
  eapply T_bind; [apply (safe_gate L Hplain')|]. intros r2 _. destruct r2; [aret|].
  eapply T_bind; [apply (safe_make_candidate_dirs L Hplain' Hmk)|]. intros r3 _. destruct r3; [aret|].
  eapply T_bind; [apply (safe_make_trashinfo_data L Hplain')|]. intros r4 _. destruct r4 as [data|]; [|aret].
  eapply T_bind; [apply all_try_persist|]. intros r5 _. destruct r5; try aret. apply all_try_trash.
Qed.

Lemma all_trash_file : TT (trash_file path o) (fun _ => True).
Proof. apply tfi_trash_file. apply all_trash_file_in. Qed.
Lemma all_trash_single : TT (trash_single path o) (fun _ => True).
Proof. apply tfi_trash_single. apply all_trash_file_in. Qed.
End OneArg.
End PutAll.
