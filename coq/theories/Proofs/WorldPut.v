(* C05 / C01 on the world: trash-put and the tree of files.
   The put-discipline monitor (PutProofs.put_step) is coupled with the file-system model (World): for every
   trace the monitor accepts and every world the trace is consistent with,
   - whenever a payload is moved into a trash directory, the .trashinfo it belongs to exists at that moment
     with complete, parseable content (the assertion moved_has_info, in every intermediate state);
   - that .trashinfo stays exactly as it is for the rest of the run: trash-put never removes, rewrites or
     moves away the info of an entry it has trashed;
   hence at EVERY prefix of the run (= every crash point, at library-call granularity) every payload this run
   has put under files/ has its complete info file.
   Hypothesis (safe_srcs): no argument of the run contains (is an ancestor of) an info file the run creates -
   trash-put ~/.local/share/Trash/info would move the info files along with everything else. *)
From TV Require Import Prelude.Str Prelude.PosixPath Prog.Prog World.World Cmd.Put Cmd.Scan
  Proofs.ProgProofs Proofs.OrigLocProofs Proofs.PathProofs Proofs.WorldProofs Proofs.PutSafe Proofs.PutProofs.
Open Scope N_scope.

Definition complete (s : wstate) (p : str) : Prop := exists c, wfs s p = Some (NFile c) /\ parseable c = true.

Definition moved_has_info (s : wstate) (o : op) : Prop :=
  match o with
  | Move _ dst => exists p, dst = path_of_backup_copy p /\ is_info_path p = true /\ complete s p
  | _ => True
  end.

(* the coupling between the monitor state, the world, and the info files of the entries trashed so far *)
Definition phase_ok (s : wstate) (p : str) (ph : wphase) : Prop :=
  match ph with
  | Opened => wfs s p = Some (NFile [])
  | Written => complete s p
  | Closed => complete s p /\ wfd s = None
  | Broken => True
  end.
Record PC (m : pst) (s : wstate) (own : list str) : Prop := mkPC {
  pc_own : forall p, In p own -> is_info_path p = true /\ complete s p;
  pc_fd : forall x, wfd s = Some x -> ~ In x own;
  pc_res : match p_res m with
           | None => True
           | Some (p, ph) => is_info_path p = true /\ ~ In p own /\ (forall p', In p' own -> below p p' = false) /\
                             (wfd s = None \/ wfd s = Some p) /\ phase_ok s p ph
           end }.

Definition resv (m : pst) : list str := match p_res m with Some (p, _) => [p] | None => [] end.
Fixpoint opened (t : trace) : list str :=
  match t with [] => [] | (OpenExcl p, _) :: t' => p :: opened t' | _ :: t' => opened t' end.
Definition safe_srcs (t : trace) (known : list str) : Prop :=
  forall src dst r, In (Move src dst, r) t -> forall p, In p (known ++ opened t) -> under src p = false.

Lemma complete_eq s s' p : wfs s' p = wfs s p -> complete s p -> complete s' p.
Proof. intros H [c [Hc Hp]]. exists c. rewrite H. auto. Qed.
Lemma complete_exists s p : complete s p -> wfs s p <> None.
Proof. intros [c [Hc _]]. rewrite Hc. discriminate. Qed.
Lemma phase_eq s s' p ph : (ph <> Broken -> wfs s' p = wfs s p) -> wfd s' = wfd s -> phase_ok s p ph -> phase_ok s' p ph.
Proof.
  intros H Hd. destruct ph; simpl; auto.
  - rewrite H by discriminate. auto.
  - apply complete_eq. apply H. discriminate.
  - intros [Hc Hn]. split; [eapply complete_eq; [apply H; discriminate|exact Hc]|rewrite Hd; exact Hn].
Qed.

(* a step that keeps the descriptor and every file that existed keeps the coupling *)
Lemma PC_keep m s s' own :
  PC m s own -> wfd s' = wfd s -> (forall q, wfs s q <> None -> wfs s' q = wfs s q) ->
  (forall p ph, p_res m = Some (p, ph) -> ph <> Broken -> wfs s' p = wfs s p) -> PC m s' own.
Proof.
  intros [Ho Hf Hr] Hd Hk Hres. constructor.
  - intros p Hp. destruct (Ho p Hp) as [Hi Hc]. split; [exact Hi|]. eapply complete_eq; [|exact Hc].
    apply Hk. apply complete_exists. exact Hc.
  - intros x Hx. apply Hf. rewrite <- Hd. exact Hx.
  - destruct (p_res m) as [[p ph]|] eqn:E; [|exact I]. destruct Hr as [Hi [Hn [Hb [Hfd Hph]]]].
    repeat split; auto; [rewrite Hd; exact Hfd|]. eapply phase_eq; [apply (Hres p ph eq_refl)|exact Hd|exact Hph].
Qed.
Lemma PC_same m s s' own : PC m s own -> same s s' -> PC m s' own.
Proof. intros H [Hd Hs]. eapply PC_keep; eauto. Qed.
Lemma PC_drop m s own m' : PC m s own -> p_res m' = None -> PC m' s own.
Proof. intros [Ho Hf _] H. constructor; auto. rewrite H. exact I. Qed.
(* the monitor state changes but its reservation (path, phase) does not *)
Lemma PC_res m m' s own : PC m s own -> p_res m' = p_res m -> PC m' s own.
Proof. intros [Ho Hf Hr] H. constructor; auto. rewrite H. exact Hr. Qed.

Lemma under_cases p q : under p q = true -> q = p \/ below p q = true.
Proof.
  intros H. unfold below. rewrite H. destruct (str_eqb q p) eqn:E; [left; apply str_eqb_true; exact E|right; reflexivity].
Qed.
Lemma info_nonempty p : is_info_path p = true -> p <> [].
Proof. intros H E. subst p. discriminate H. Qed.
Lemma not_below_if_no_dir s p q : wf (wfs s) -> wfs s q <> None -> wfs s p <> Some NDir -> p <> [] -> below p q = false.
Proof.
  intros Hwf Hq Hp Hne. destruct (below p q) eqn:E; [|reflexivity]. exfalso. apply Hp. apply (Hwf q p Hq E Hne).
Qed.

Definition opened1 (o : op) : list str := match o with OpenExcl p => [p] | _ => [] end.
Definition step_post (m : pst) (o : op) (r : res) (m1 : pst) (s1 : wstate) (own : list str) : Prop :=
  exists own1, PC m1 s1 own1 /\ incl own own1 /\ incl (own1 ++ resv m1) (own ++ resv m ++ opened1 o) /\
    (forall src dst, o = Move src dst -> r = RUnit -> exists p, In p own1 /\ dst = path_of_backup_copy p).

Lemma fin m o r m1 s1 own :
  PC m1 s1 own -> incl (resv m1) (resv m ++ opened1 o) -> (forall src dst, o = Move src dst -> r <> RUnit) ->
  step_post m o r m1 s1 own.
Proof.
  intros HP Hi Hnm. exists own. split; [exact HP|]. split; [apply incl_refl|]. split.
  - intros x Hx. apply in_app_or in Hx. destruct Hx as [Hx|Hx]; [apply in_or_app; left; exact Hx|].
    apply in_or_app. right. apply Hi. exact Hx.
  - intros src dst Eo Er. exfalso. eapply Hnm; eauto.
Qed.
Lemma incl_resv_same m m1 o : p_res m1 = p_res m -> incl (resv m1) (resv m ++ opened1 o).
Proof. intros H. unfold resv. rewrite H. apply incl_appl. apply incl_refl. Qed.
Lemma incl_resv_none m m1 o : p_res m1 = None -> incl (resv m1) (resv m ++ opened1 o).
Proof. intros H. unfold resv. rewrite H. intros x []. Qed.

(* --- Makedirs: creates directories only where nothing was --- *)
Lemma L_makedirs m s s1 own p md r :
  PC m s own -> effect s (Makedirs p md) r s1 -> step_post m (Makedirs p md) r m s1 own.
Proof.
  intros HP He. simpl in He. destruct He as [Hd [Hq _]].
  apply fin; [|apply incl_resv_same; reflexivity|intros; discriminate].
  eapply PC_keep; [exact HP|exact Hd| |].
  - intros q Hex. destruct (Hq q) as [E|[E _]]; [exact E|contradiction].
  - intros p0 ph Ep Hnb. destruct (Hq p0) as [E|[E1 _]]; [exact E|]. exfalso.
    destruct HP as [_ _ Hr]. rewrite Ep in Hr. destruct Hr as [_ [_ [_ [_ Hph]]]]. destruct ph; simpl in Hph.
    + rewrite E1 in Hph. discriminate.
    + apply (complete_exists _ _ Hph). exact E1.
    + apply (complete_exists _ _ (proj1 Hph)). exact E1.
    + apply Hnb. reflexivity.
Qed.

(* --- OpenExcl: a new, empty file; it becomes the reservation --- *)
Lemma L_open m s s1 own p r m1 :
  put_step m (OpenExcl p) r = Some m1 -> PC m s own -> wf (wfs s) -> effect s (OpenExcl p) r s1 ->
  step_post m (OpenExcl p) r m1 s1 own.
Proof.
  intros Hst HP Hwf He. cbn [put_step] in Hst. destruct (is_info_path p) eqn:Hi; [|discriminate].
  destruct r; inversion Hst; subst m1; simpl in He;
    try (apply fin; [eapply PC_same; [exact HP|exact He]|apply incl_resv_same; reflexivity|intros; discriminate]).
  destruct He as [Hnone [Hfd Hq]].
  apply fin; [|unfold resv; simpl; intros x [E|[]]; subst x; apply in_or_app; right; left; reflexivity|intros; discriminate].
  destruct HP as [Ho Hf Hr]. constructor.
  - intros p' Hp'. destruct (Ho p' Hp') as [Hi' Hc]. split; [exact Hi'|]. eapply complete_eq; [|exact Hc].
    rewrite Hq. apply upd_other. intros E. subst p'. apply (complete_exists _ _ Hc). exact Hnone.
  - intros x Hx Hin. rewrite Hfd in Hx. inversion Hx; subst x. destruct (Ho p Hin) as [_ Hc]. apply (complete_exists _ _ Hc). exact Hnone.
  - simpl. split; [exact Hi|]. split; [|split; [|split]].
    + intros Hin. destruct (Ho p Hin) as [_ Hc]. apply (complete_exists _ _ Hc). exact Hnone.
    + intros p' Hp'. destruct (Ho p' Hp') as [_ Hc]. eapply not_below_if_no_dir; [exact Hwf|apply complete_exists; exact Hc| |apply info_nonempty; exact Hi].
      rewrite Hnone. discriminate.
    + right. exact Hfd.
    + rewrite Hq. apply upd_same.
Qed.

(* --- WriteFd: accepted only on the freshly opened reservation; the content becomes what is written --- *)
Lemma L_write m s s1 own b r m1 :
  put_step m (WriteFd b) r = Some m1 -> PC m s own -> effect s (WriteFd b) r s1 -> step_post m (WriteFd b) r m1 s1 own.
Proof.
  intros Hst HP He. cbn [put_step] in Hst. destruct (p_res m) as [[p ph]|] eqn:Er; [|discriminate].
  destruct ph; try discriminate. destruct (parseable b) eqn:Hb; [|discriminate]. inversion Hst; subst m1. clear Hst.
  assert (HPC := HP). destruct HP as [Ho Hf Hr]. rewrite Er in Hr. destruct Hr as [Hi [Hn [Hbl [Hfd Hph]]]]. simpl in Hph.
  assert (Hres : incl (resv (set_res m (Some (p, match r with RUnit => Written | _ => Broken end)))) (resv m ++ opened1 (WriteFd b))).
  { unfold resv. simpl. rewrite Er. simpl. intros x Hx. exact Hx. }
  (* the world side: in both cases only the file behind the descriptor changes, and that file is p *)
  assert (Hcore : forall p' c' newc, wfd s = Some p' -> wfs s p' = Some (NFile c') -> wfd s1 = wfd s ->
             (forall q, wfs s1 q = upd (wfs s) p' (Some (NFile newc)) q) ->
             forall ph', (ph' = Written -> newc = b) -> (ph' = Written \/ ph' = Broken) ->
             PC (set_res m (Some (p, ph'))) s1 own).
  { intros p' c' newc Hfd' Hp' Hd Hq ph' Hnew Hph'.
    assert (p' = p) by (destruct Hfd as [Hfd|Hfd]; congruence). subst p'.
    constructor.
    - intros x Hx. destruct (Ho x Hx) as [Hix Hc]. split; [exact Hix|]. eapply complete_eq; [|exact Hc].
      rewrite Hq. apply upd_other. intros E. subst x. contradiction.
    - intros x Hx. apply Hf. rewrite <- Hd. exact Hx.
    - simpl. repeat split; auto; [rewrite Hd; exact Hfd|].
      destruct Hph' as [E|E]; subst ph'; simpl; [|exact I].
      exists newc. rewrite Hq, upd_same. rewrite (Hnew eq_refl). auto. }
  destruct r; simpl in He;
    try (apply fin; [|exact Hres|intros; discriminate]; eapply PC_res with (m := set_res m (Some (p, Broken)));
         [|reflexivity]; fail).
  all: try (apply fin; [|exact Hres|intros; discriminate]).
  - destruct He as [p' [c' [Hfd' [Hp' [Hd Hq]]]]]. eapply Hcore; eauto.
    intros _. assert (p' = p) by (destruct Hfd as [Hfd|Hfd]; congruence). subst p'.
    rewrite Hph in Hp'. inversion Hp'. reflexivity.
  - (* a boolean answer etc. cannot happen for WriteFd, but the model says: nothing changed *)
    eapply PC_same; [|exact He]. constructor; auto. simpl. repeat split; auto.
  - eapply PC_same; [|exact He]. constructor; auto. simpl. repeat split; auto.
  - eapply PC_same; [|exact He]. constructor; auto. simpl. repeat split; auto.
  - eapply PC_same; [|exact He]. constructor; auto. simpl. repeat split; auto.
  - eapply PC_same; [|exact He]. constructor; auto. simpl. repeat split; auto.
  - eapply PC_same; [|exact He]. constructor; auto. simpl. repeat split; auto.
  - destruct He as [p' [c' [b' [Hfd' [Hp' [Hd Hq]]]]]]. eapply Hcore; eauto. intros; discriminate.
Qed.

(* --- CloseFd: the descriptor is gone; Written becomes Closed when the close succeeded --- *)
Lemma close_resv m r m1 : put_step m CloseFd r = Some m1 -> resv m1 = resv m.
Proof.
  cbn [put_step]. intros H. inversion H; subst m1. clear H. unfold resv.
  destruct r; simpl; destruct (p_res m) as [[p []]|] eqn:E; simpl; rewrite ?E; reflexivity.
Qed.
Lemma L_close m s s1 own r m1 :
  put_step m CloseFd r = Some m1 -> PC m s own -> effect s CloseFd r s1 -> step_post m CloseFd r m1 s1 own.
Proof.
  intros Hst HP He. pose proof (close_resv _ _ _ Hst) as Hrv. cbn [put_step] in Hst. simpl in He. destruct He as [Hd Hq]. destruct HP as [Ho Hf Hr].
  assert (Hown : forall x, In x own -> is_info_path x = true /\ complete s1 x).
  { intros x Hx. destruct (Ho x Hx) as [Hi Hc]. split; [exact Hi|]. eapply complete_eq; [apply Hq|exact Hc]. }
  assert (Hfd1 : forall x, wfd s1 = Some x -> ~ In x own) by (intros x Hx; rewrite Hd in Hx; discriminate).
  apply fin; [|rewrite Hrv; apply incl_appl; apply incl_refl|intros; discriminate].
  constructor; [exact Hown|exact Hfd1|].
  inversion Hst as [Hm1]; clear Hst. clear Hrv. destruct (p_res m) as [[p ph]|] eqn:E.
  - destruct Hr as [Hi [Hn [Hb [_ Hph]]]].
    assert (Hc : forall ph', (ph' = ph \/ (ph = Written /\ ph' = Closed)) ->
               is_info_path p = true /\ ~ In p own /\ (forall p', In p' own -> below p p' = false) /\ (wfd s1 = None \/ wfd s1 = Some p) /\ phase_ok s1 p ph').
    { intros ph' Hph'. repeat split; auto. destruct Hph' as [Eq|[E1 E2]]; [subst ph'|subst ph ph'].
      - destruct ph; simpl in Hph |- *; auto; [rewrite Hq; exact Hph|eapply complete_eq; [apply Hq|exact Hph]|].
        split; [eapply complete_eq; [apply Hq|exact (proj1 Hph)]|exact Hd].
      - simpl in Hph |- *. split; [eapply complete_eq; [apply Hq|exact Hph]|exact Hd]. }
    destruct r; simpl; rewrite ?E; simpl; try (apply Hc; left; reflexivity).
    destruct ph; simpl; rewrite ?E; try (apply Hc; left; reflexivity). apply (Hc Closed). right. auto.
  - destruct r; simpl; rewrite ?E; exact I.
Qed.

(* --- Remove / Rmtree: only the current reservation, never the info of a trashed entry --- *)
Lemma L_removal m s s1 own o q r m1 :
  (o = Remove q \/ o = Rmtree q) ->
  put_step m o r = Some m1 -> PC m s own -> effect s o r s1 -> step_post m o r m1 s1 own.
Proof.
  intros Ho Hst HP He.
  assert (Hst' : match p_res m with
                 | Some (p, _) => if str_eqb q p then Some (match r with RUnit => set_res m None | _ => set_broken m p end) else None
                 | None => None end = Some m1) by (destruct Ho; subst o; exact Hst).
  clear Hst. destruct (p_res m) as [[p ph]|] eqn:Er; [|discriminate].
  destruct (str_eqb q p) eqn:Eq; [|discriminate]. apply str_eqb_true in Eq. subst q. inversion Hst'; subst m1. clear Hst'.
  destruct HP as [Hown Hf Hr]. rewrite Er in Hr. destruct Hr as [Hi [Hn [Hb [Hfd Hph]]]].
  (* the world: own files are neither p nor below p, so they are unchanged; the descriptor is kept *)
  assert (Hw : wfd s1 = wfd s /\ forall x, In x own -> wfs s1 x = wfs s x).
  { destruct Ho; subst o; simpl in He.
    - destruct r; try (destruct He as [Hd Hq]; split; [exact Hd|intros; apply Hq]).
      destruct He as [_ [Hd Hq]]. split; [exact Hd|]. intros x Hx. rewrite Hq. apply upd_other. intros E. subst x. contradiction.
    - assert (Hnu : forall x, In x own -> under p x = false).
      { intros x Hx. destruct (under p x) eqn:E; [|reflexivity]. destruct (under_cases _ _ E) as [E1|E1]; [subst x; contradiction|].
        rewrite (Hb x Hx) in E1. discriminate. }
      destruct r; try (destruct He as [Hd Hq]; split; [exact Hd|intros; apply Hq]).
      + destruct He as [Hd Hq]. split; [exact Hd|]. intros x Hx. rewrite Hq. unfold rm_tree. rewrite (Hnu x Hx). reflexivity.
      + destruct He as [Hd Hq]. split; [exact Hd|]. intros x Hx. destruct (Hq x) as [E|[E _]]; [exact E|]. rewrite (Hnu x Hx) in E. discriminate. }
  destruct Hw as [Hd Hq].
  assert (Hown1 : forall x, In x own -> is_info_path x = true /\ complete s1 x).
  { intros x Hx. destruct (Hown x Hx) as [Hix Hc]. split; [exact Hix|]. eapply complete_eq; [apply Hq; exact Hx|exact Hc]. }
  assert (Hf1 : forall x, wfd s1 = Some x -> ~ In x own) by (intros x Hx; apply Hf; rewrite <- Hd; exact Hx).
  apply fin; [| |destruct Ho; subst o; intros; discriminate].
  2:{ apply incl_appl. unfold resv. rewrite Er. destruct r; simpl; intros x Hx; try contradiction; exact Hx. }
  constructor; [exact Hown1|exact Hf1|].
  destruct r; simpl; try exact I; repeat split; auto; rewrite Hd; exact Hfd.
Qed.

(* --- Move: the info of the payload is complete at that moment, and joins the trashed entries --- *)
Lemma L_move m s s1 own src dst r m1 :
  put_step m (Move src dst) r = Some m1 -> PC m s own -> effect s (Move src dst) r s1 ->
  (forall p, In p (own ++ resv m) -> under src p = false) ->
  moved_has_info s (Move src dst) /\ step_post m (Move src dst) r m1 s1 own.
Proof.
  intros Hst HP He Hsrc. cbn [put_step] in Hst. destruct (p_res m) as [[p ph]|] eqn:Er; [|discriminate].
  destruct ph; try discriminate. destruct (str_eqb dst (path_of_backup_copy p)) eqn:Ed; [|discriminate].
  apply str_eqb_true in Ed. subst dst. assert (HPC := HP). destruct HP as [Hown Hf Hr]. rewrite Er in Hr.
  destruct Hr as [Hi [Hn [Hb [Hfd [Hc Hnone]]]]].
  split; [exists p; auto|].
  destruct r; inversion Hst; subst m1; clear Hst; simpl in He;
    try (apply fin; [eapply PC_same; [exact HPC|exact He]|apply incl_resv_same; reflexivity|intros; discriminate]).
  destruct He as [_ [_ [Hd [_ [_ [Hkeep _]]]]]].
  (* every info file of a trashed entry, and p itself, is outside src, is not the payload path, and exists: untouched *)
  assert (Hun : forall x, In x (p :: own) -> is_info_path x = true /\ complete s1 x).
  { intros x Hx. assert (Hix : is_info_path x = true /\ complete s x).
    { destruct Hx as [E|Hx]; [subst x; auto|apply Hown; exact Hx]. }
    destruct Hix as [Hix Hcx]. split; [exact Hix|]. eapply complete_eq; [|exact Hcx]. apply Hkeep.
    - apply Hsrc. apply in_or_app. destruct Hx as [E|Hx]; [right; unfold resv; rewrite Er; left; exact E|left; exact Hx].
    - intros E. rewrite E in Hix. rewrite pobc_not_info in Hix. discriminate.
    - apply complete_exists. exact Hcx. }
  exists (p :: own). split; [|split; [|split]].
  - constructor; [exact Hun| |simpl; exact I].
    intros x Hx. rewrite Hd in Hx. rewrite Hnone in Hx. discriminate.
  - apply incl_tl. apply incl_refl.
  - unfold resv. simpl. rewrite Er. rewrite app_nil_r. intros x [E|Hx]; [subst x|].
    + apply in_or_app. right. left. reflexivity.
    + apply in_or_app. left. exact Hx.
  - intros s0 d0 E _. inversion E; subst. exists p. split; [left; reflexivity|reflexivity].
Qed.

(* --- the reports (Log INFO / WARNING) and the lexists probe only change the monitor --- *)
Lemma L_silent m s s1 own o r m1 :
  is_mutator o = false -> (forall src dst, o <> Move src dst) ->
  put_step m o r = Some m1 -> (p_res m1 = p_res m \/ p_res m1 = None) ->
  PC m s own -> effect s o r s1 -> step_post m o r m1 s1 own.
Proof.
  intros Hm Hnm Hst Hres HP He. pose proof (effect_probe _ _ _ _ Hm He) as Hsame.
  apply fin; [| |intros src dst E; exfalso; eapply Hnm; eauto].
  - destruct Hres as [E|E]; [eapply PC_res; [eapply PC_same; eauto|exact E]|eapply PC_drop; [eapply PC_same; eauto|exact E]].
  - destruct Hres as [E|E]; [apply incl_resv_same; exact E|apply incl_resv_none; exact E].
Qed.

Lemma put_step_nonmut_res m o r m1 : is_mutator o = false -> put_step m o r = Some m1 -> p_res m1 = p_res m \/ p_res m1 = None.
Proof.
  intros Hm Hst. destruct o; try discriminate Hm; cbn [put_step] in Hst; try (inversion Hst; subst; left; reflexivity).
  - (* Lexists *) destruct r as [|[|]| | | | | |]; try (inversion Hst; subst; left; reflexivity).
    destruct (p_res m) as [[p0 ph]|] eqn:E; [|inversion Hst; subst; auto].
    destruct (str_eqb p p0); inversion Hst; subst; auto.
  - (* Log *) destruct lv.
    + destruct (is_cannot_trash text).
      * destruct (negb (p_moved m) && _); inversion Hst; subst. right. reflexivity.
      * inversion Hst; subst. left. reflexivity.
    + destruct (p_moved m); inversion Hst; subst. right. reflexivity.
    + inversion Hst; subst. left. reflexivity.
Qed.

Lemma put_world_step m o r m1 s s1 own :
  put_step m o r = Some m1 -> PC m s own -> wf (wfs s) -> effect s o r s1 ->
  (forall src dst, o = Move src dst -> forall p, In p (own ++ resv m) -> under src p = false) ->
  moved_has_info s o /\ step_post m o r m1 s1 own.
Proof.
  intros Hst HP Hwf He Hsrc.
  destruct (is_mutator o) eqn:Hm.
  - destruct o; try discriminate Hm.
    + split; [exact I|]. cbn [put_step] in Hst. inversion Hst; subst m1. eapply L_makedirs; eauto.
    + split; [exact I|]. eapply L_open; eauto.
    + split; [exact I|]. eapply L_write; eauto.
    + split; [exact I|]. eapply L_close; eauto.
    + eapply L_move; eauto.
    + split; [exact I|]. eapply (L_removal m s s1 own (Remove p) p); eauto.
    + split; [exact I|]. eapply (L_removal m s s1 own (Rmtree p) p); eauto.
  - split; [destruct o; try discriminate Hm; exact I|].
    eapply L_silent; eauto; [intros src dst E; subst o; discriminate Hm|eapply put_step_nonmut_res; eauto].
Qed.

(* the assertion at a Move depends only on the monitor state and the coupling, not on what the move then does *)
Lemma move_assert m o r m1 s own : put_step m o r = Some m1 -> PC m s own -> moved_has_info s o.
Proof.
  intros Hst [Hown Hf Hr]. destruct o; try exact I. cbn [put_step] in Hst.
  destruct (p_res m) as [[p ph]|]; [|discriminate]. destruct ph; try discriminate.
  destruct (str_eqb dst (path_of_backup_copy p)) eqn:Ed; [|discriminate]. apply str_eqb_true in Ed.
  destruct Hr as [Hi [_ [_ [_ [Hc _]]]]]. exists p. auto.
Qed.

Lemma opened_cons o r t : opened ((o, r) :: t) = opened1 o ++ opened t.
Proof. destruct o; reflexivity. Qed.

(* ---- whole traces ---- *)
Lemma put_world : forall t m s own m',
  accepts put_step m t = Some m' -> PC m s own -> wf (wfs s) -> safe_srcs t (own ++ resv m) ->
  wok moved_has_info s t /\
  forall s', wrun s t s' -> exists own', PC m' s' own' /\ incl own own' /\
     (forall src dst, In (Move src dst, RUnit) t -> exists p, In p own' /\ dst = path_of_backup_copy p).
Proof.
  induction t as [|[o r] t IH]; intros m s own m' Ha HP Hwf Hsafe.
  - simpl in Ha. inversion Ha; subst m'. split; [exact I|]. intros s' Hr. inversion Hr; subst.
    exists own. split; [exact HP|]. split; [apply incl_refl|]. intros src dst [].
  - simpl in Ha. destruct (put_step m o r) as [m1|] eqn:Hst; [|discriminate].
    assert (Hsrc : forall src dst, o = Move src dst -> forall p, In p (own ++ resv m) -> under src p = false).
    { intros src dst Eo p Hp. subst o. apply (Hsafe src dst r); [left; reflexivity|]. apply in_or_app. left. exact Hp. }
    (* what every consistent next state looks like *)
    assert (Hnext : forall s1, wstep s o r s1 ->
              exists own1, PC m1 s1 own1 /\ incl own own1 /\ wf (wfs s1) /\ safe_srcs t (own1 ++ resv m1) /\
                (forall src dst, o = Move src dst -> r = RUnit -> exists p, In p own1 /\ dst = path_of_backup_copy p)).
    { intros s1 [He Hw]. destruct (put_world_step m o r m1 s s1 own Hst HP Hwf He Hsrc) as [_ [own1 [HP1 [Hi1 [Hi2 Hmv]]]]].
      exists own1. split; [exact HP1|]. split; [exact Hi1|]. split; [apply Hw; exact Hwf|]. split; [|exact Hmv].
      intros src dst r0 Hin p Hp. apply (Hsafe src dst r0); [right; exact Hin|].
      rewrite opened_cons. apply in_app_or in Hp. destruct Hp as [Hp|Hp].
      - apply Hi2 in Hp. apply in_app_or in Hp. destruct Hp as [Hp|Hp]; [apply in_or_app; left; apply in_or_app; left; exact Hp|].
        apply in_app_or in Hp. destruct Hp as [Hp|Hp]; [apply in_or_app; left; apply in_or_app; right; exact Hp|].
        apply in_or_app. right. apply in_or_app. left. exact Hp.
      - apply in_or_app. right. apply in_or_app. right. exact Hp. }
    split.
    + cbn [wok]. split; [eapply move_assert; eauto|]. intros s1 Hs1.
      destruct (Hnext s1 Hs1) as [own1 [HP1 [_ [Hwf1 [Hsafe1 _]]]]].
      apply (IH m1 s1 own1 m' Ha HP1 Hwf1 Hsafe1).
    + intros s' Hr. inversion Hr as [|s0 o0 r0 s1 t0 s2 Hs1 Hr1]; subst.
      destruct (Hnext s1 Hs1) as [own1 [HP1 [Hi1 [Hwf1 [Hsafe1 Hmv]]]]].
      destruct (IH m1 s1 own1 m' Ha HP1 Hwf1 Hsafe1) as [_ Hend]. destruct (Hend s' Hr1) as [own' [HP' [Hi' Hmoves]]].
      exists own'. split; [exact HP'|]. split; [eapply incl_tran; eauto|].
      intros src dst [E|Hin].
      * inversion E; subst. destruct (Hmv src dst eq_refl eq_refl) as [p [Hp Hd]]. exists p. split; [apply Hi'; exact Hp|exact Hd].
      * apply (Hmoves src dst Hin).
Qed.

Lemma accepts_app {M} (step : M -> op -> res -> option M) t1 : forall t2 m m', accepts step m (t1 ++ t2) = Some m' ->
  exists m1, accepts step m t1 = Some m1 /\ accepts step m1 t2 = Some m'.
Proof.
  induction t1 as [|[o r] t1 IH]; intros t2 m m' H; simpl in *; [eauto|].
  destruct (step m o r); [apply IH; exact H|discriminate].
Qed.
Lemma opened_app t1 t2 : opened (t1 ++ t2) = opened t1 ++ opened t2.
Proof. induction t1 as [|[o r] t1 IH]; [reflexivity|]. change (((o, r) :: t1) ++ t2) with ((o, r) :: (t1 ++ t2)). rewrite !opened_cons, IH, app_assoc. reflexivity. Qed.
Lemma safe_srcs_prefix t1 t2 known : safe_srcs (t1 ++ t2) known -> safe_srcs t1 known.
Proof.
  intros H src dst r Hin p Hp. apply (H src dst r); [apply in_or_app; left; exact Hin|].
  rewrite opened_app. apply in_app_or in Hp. destruct Hp as [Hp|Hp]; apply in_or_app; [left; exact Hp|right; apply in_or_app; left; exact Hp].
Qed.

Lemma PC_init s : PC put_init s [].
Proof. constructor; [intros p []|intros x _ []|exact I]. Qed.

(* C05 / C01 on the world.  For every run of trash-put, every tree-shaped world it is consistent with, provided no argument
   contains an info file the run creates:
   (1) whenever a payload is moved into the trash, its .trashinfo is there, complete (in every intermediate state);
   (2) at EVERY prefix of the run - every crash point - every payload moved so far still has its complete .trashinfo. *)
Theorem put_world_lemma o :
  all_runs (fun t _ => forall s, wf (wfs s) -> safe_srcs t [] ->
      wok moved_has_info s t /\
      forall t1 t2 s1, t = t1 ++ t2 -> wrun s t1 s1 ->
        forall src dst, In (Move src dst, RUnit) t1 ->
          exists p, dst = path_of_backup_copy p /\ is_info_path p = true /\ complete s1 p) (put_main o).
Proof.
  generalize (put_discipline_lemma o). apply all_runs_mono. intros t out [m' [Ha _]] s Hwf Hsafe.
  split.
  - apply (proj1 (put_world t put_init s [] m' Ha (PC_init s) Hwf Hsafe)).
  - intros t1 t2 s1 Et Hr src dst Hin. subst t.
    destruct (accepts_app put_step t1 t2 put_init m' Ha) as [m1 [Ha1 _]].
    destruct (put_world t1 put_init s [] m1 Ha1 (PC_init s) Hwf (safe_srcs_prefix t1 t2 _ Hsafe)) as [_ Hend].
    destruct (Hend s1 Hr) as [own' [HP' [_ Hmoves]]]. destruct (Hmoves src dst Hin) as [p [Hp Hd]].
    exists p. split; [exact Hd|]. apply (pc_own _ _ _ HP'). exact Hp.
Qed.
