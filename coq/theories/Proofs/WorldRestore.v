(* C06 on the world: in every run of trash-restore without --overwrite that is consistent with the
   file-system model - every trash content, reply, selection, fault - the destination of every move does
   not exist at the moment of the move; so the move is a pure relocation (World.mv_tree) and nothing that
   existed is replaced.  The only other possibility the model leaves open is a destination d with
   under d (dirname d) = true, i.e. d = "" or d consisting of slashes only (the root): os.path.lexists
   never reports the root absent on a real system. *)
From TV Require Import Prelude.Str Prelude.PosixPath Prog.Prog World.World Cmd.Put Cmd.Scan Cmd.Restore
  Proofs.ProgProofs Proofs.PLogic Proofs.OrigLocProofs Proofs.PathProofs Proofs.WorldProofs Proofs.WorldPurge Proofs.RestoreProofs.
Open Scope N_scope.

Definition absent_dst (ow : bool) (s : wstate) (o : op) : Prop :=
  match o with
  | Move _ dst => ow = false -> wfs s dst = None \/ under dst (dirname dst) = true
  | _ => True
  end.

Lemma absent_ok ow o : (match o with Move _ _ => False | _ => True end) -> OKop (world_logic (absent_dst ow)) o.
Proof. intros H s. destruct o; try contradiction; exact I. Qed.

Lemma same_absent s s' p : same s s' -> wfs s p = None -> wfs s' p = None.
Proof. intros [_ H] Hp. rewrite H. exact Hp. Qed.

Lemma restore_one_absent t ow : T (world_logic (absent_dst ow)) (restore_trashed_file t ow) (fun _ => True).
Proof.
  pose (L := world_logic (absent_dst ow)).
  assert (Hrm : T L (remove_file (tf_info t)) (fun _ => True)).
  { unfold remove_file. eapply (T_bind L); [apply (T_call_bool L); apply absent_ok; exact I|]. intros b _.
    destruct b; [|apply (T_ret L); exact I]. apply (T_catch L); [apply (T_call_unit L); apply absent_ok; exact I|].
    intros e p He. inversion He. apply (T_call_unit L); apply absent_ok; exact I. }
  intros s. unfold restore_trashed_file. apply awp_catch.
  set (H := fun (s' : wstate) (e : exn) =>
              match (if is_OSError e then Some (Ret (inr (false, [])) : prog (unit + bool * str)) else None) with
              | Some p => awp (absent_dst ow) p (fun _ _ => True) (fun _ _ => True) s' | None => True end).
  assert (HH : forall s' e, H s' e) by (intros s' e; unfold H; destruct (is_OSError e); exact I).
  set (loc := tf_location t).
  (* from a world where the destination is known to be absent (or --overwrite) *)
  assert (Hrest : forall s1, (ow = false -> wfs s1 loc = None) -> awp (absent_dst ow)
     (mkdirs (dirname loc) ;;; call_unit (Move (tf_payload t) loc) ;;; remove_file (tf_info t) ;;; (Ret (inl tt) : prog (unit + bool * str)))
     (fun _ _ => True) H s1).
  { intros s1 Hs1. apply awp_bind.
    assert (Hmv : forall s2, (ow = false -> wfs s2 loc = None \/ under loc (dirname loc) = true) ->
              awp (absent_dst ow) (call_unit (Move (tf_payload t) loc) ;;; remove_file (tf_info t) ;;; (Ret (inl tt) : prog (unit + bool * str)))
                  (fun _ _ => True) H s2).
    { intros s2 Hs2. apply awp_bind. apply awp_call_unit; [reflexivity|exact Hs2| |intros; apply HH].
      intros s3 _. apply awp_bind. eapply awp_mono; [| |apply (Hrm s3)]; [intros; exact I|intros; apply HH]. }
    unfold mkdirs. apply awp_bind. apply awp_call_bool; [reflexivity|exact I|]. intros b s2 [He _].
    assert (Hs2 : ow = false -> wfs s2 loc = None).
    { intros Ho. eapply same_absent; [|apply Hs1; exact Ho]. destruct b; simpl in He; tauto. }
    destruct b.
    - cbn [awp]. apply Hmv. intros Ho. left. apply Hs2. exact Ho.
    - apply awp_call_unit; [reflexivity|exact I| |intros; apply HH].
      intros s3 [He3 _]. apply Hmv. intros Ho. simpl in He3. destruct He3 as [_ [He3 _]].
      destruct (He3 loc) as [E|[_ [_ E]]]; [left; rewrite E; apply Hs2; exact Ho|right; exact E]. }
  apply awp_bind. destruct ow.
  - cbn [awp]. apply Hrest. intros; discriminate.
  - apply awp_call_bool; [reflexivity|exact I|]. intros b s1 [He _]. simpl in He. destruct He as [Hsame Hb].
    destruct b; [cbn [awp]; exact I|].
    apply Hrest. intros _. eapply same_absent; [exact Hsame|]. destruct (wfs s loc); [discriminate|reflexivity].
Qed.

Theorem restore_dst_absent_lemma o :
  all_runs (fun t _ => forall s, wok (absent_dst (ro_overwrite o)) s t) (restore_main o).
Proof.
  assert (HT : T (world_logic (absent_dst (ro_overwrite o))) (restore_main o) (fun _ => True)).
  { apply (restore_main_T (world_logic (absent_dst (ro_overwrite o)))).
    - intros x Hx. apply absent_ok. destruct x; try discriminate; exact I.
    - intros t _. apply restore_one_absent. }
  generalize (all_runs_forall (fun _ : wstate => True) (restore_main o) (fun s t _ => wok (absent_dst (ro_overwrite o)) s t)
           (fun s _ => all_runs_mono _ _ _ (fun t out H => proj1 H) (awp_sound _ _ _ _ s (HT s)))).
  apply all_runs_mono. intros t out H s. apply H. exact I.
Qed.

(* ---------------------------------------------------------------- C15 on the world, for trash-restore:
   whenever the info file of an entry is removed, its payload is no longer in the trash (it was moved out a moment
   before); together with the destination being absent at the move. *)
Definition restore_ok (ow : bool) (s : wstate) (o : op) : Prop := absent_dst ow s o /\ payload_gone s o.

Lemma restore_ok_plain ow o : (match o with Move _ _ | Remove _ | Rmtree _ => False | _ => True end) -> OKop (world_logic (restore_ok ow)) o.
Proof. intros H s. destruct o; try contradiction; split; exact I. Qed.

Lemma awp_remove_info ow info s :
  wfs s (path_of_backup_copy info) = None ->
  awp (restore_ok ow) (remove_file info) (fun _ _ => True) (fun _ _ => True) s.
Proof.
  intros Hs. unfold remove_file. apply awp_bind. apply awp_call_bool; [reflexivity|split; exact I|]. intros b s1 [He _].
  assert (Hs1 : wfs s1 (path_of_backup_copy info) = None).
  { simpl in He. destruct He as [[_ Hq] _]. rewrite Hq. exact Hs. }
  destruct b; [|cbn [awp]; exact I].
  apply awp_catch. apply awp_call_unit; [reflexivity|split; [exact I|intros _; exact Hs1]|intros; exact I|].
  intros e s2 _ [He2 _]. simpl in He2. cbv beta iota.
  apply awp_call_unit; [reflexivity|split; [exact I|intros _; destruct He2 as [_ Hq]; rewrite Hq; exact Hs1]|intros; exact I|intros; exact I].
Qed.

Lemma restore_one_ok t ow : wf_tf t -> T (world_logic (restore_ok ow)) (restore_trashed_file t ow) (fun _ => True).
Proof.
  intros Hwf s. unfold restore_trashed_file. apply awp_catch.
  set (H := fun (s' : wstate) (e : exn) =>
              match (if is_OSError e then Some (Ret (inr (false, [])) : prog (unit + bool * str)) else None) with
              | Some p => awp (restore_ok ow) p (fun _ _ => True) (fun _ _ => True) s' | None => True end).
  assert (HH : forall s' e, H s' e) by (intros s' e; unfold H; destruct (is_OSError e); exact I).
  set (loc := tf_location t).
  assert (Hrest : forall s1, (ow = false -> wfs s1 loc = None) -> awp (restore_ok ow)
     (mkdirs (dirname loc) ;;; call_unit (Move (tf_payload t) loc) ;;; remove_file (tf_info t) ;;; (Ret (inl tt) : prog (unit + bool * str)))
     (fun _ _ => True) H s1).
  { intros s1 Hs1. apply awp_bind.
    assert (Hmv : forall s2, (ow = false -> wfs s2 loc = None \/ under loc (dirname loc) = true) ->
              awp (restore_ok ow) (call_unit (Move (tf_payload t) loc) ;;; remove_file (tf_info t) ;;; (Ret (inl tt) : prog (unit + bool * str)))
                  (fun _ _ => True) H s2).
    { intros s2 Hs2. apply awp_bind. apply awp_call_unit; [reflexivity|split; [exact Hs2|exact I]| |intros; apply HH].
      intros s3 [He3 _]. apply awp_bind. eapply awp_mono; [| |apply (awp_remove_info ow (tf_info t) s3)]; [intros; exact I|intros; apply HH|].
      (* the payload is gone: it was the source of the move *)
      simpl in He3. destruct He3 as [_ [_ [_ [Hgone _]]]]. rewrite <- Hwf. apply Hgone. apply under_refl. }
    unfold mkdirs. apply awp_bind. apply awp_call_bool; [reflexivity|split; exact I|]. intros b s2 [He _].
    assert (Hs2 : ow = false -> wfs s2 loc = None).
    { intros Ho. eapply same_absent; [|apply Hs1; exact Ho]. destruct b; simpl in He; tauto. }
    destruct b.
    - cbn [awp]. apply Hmv. intros Ho. left. apply Hs2. exact Ho.
    - apply awp_call_unit; [reflexivity|split; exact I| |intros; apply HH].
      intros s3 [He3 _]. apply Hmv. intros Ho. simpl in He3. destruct He3 as [_ [He3 _]].
      destruct (He3 loc) as [E|[_ [_ E]]]; [left; rewrite E; apply Hs2; exact Ho|right; exact E]. }
  apply awp_bind. destruct ow.
  - cbn [awp]. apply Hrest. intros; discriminate.
  - apply awp_call_bool; [reflexivity|split; exact I|]. intros b s1 [He _]. simpl in He. destruct He as [Hsame Hb].
    destruct b; [cbn [awp]; exact I|].
    apply Hrest. intros _. eapply same_absent; [exact Hsame|]. destruct (wfs s loc); [discriminate|reflexivity].
Qed.

Theorem restore_world_lemma o :
  all_runs (fun t _ => forall s, wok (restore_ok (ro_overwrite o)) s t) (restore_main o).
Proof.
  assert (HT : T (world_logic (restore_ok (ro_overwrite o))) (restore_main o) (fun _ => True)).
  { apply (restore_main_T (world_logic (restore_ok (ro_overwrite o)))).
    - intros x Hx. apply restore_ok_plain. destruct x; try discriminate; exact I.
    - intros t Ht. apply restore_one_ok. exact Ht. }
  generalize (all_runs_forall (fun _ : wstate => True) (restore_main o) (fun s t _ => wok (restore_ok (ro_overwrite o)) s t)
           (fun s _ => all_runs_mono _ _ _ (fun t out H => proj1 H) (awp_sound _ _ _ _ s (HT s)))).
  apply all_runs_mono. intros t out H s. apply H. exact I.
Qed.

(* ---------------------------------------------------------------- C13 on the world: without a valid, non-empty selection
   (an empty reply, an invalid one, end of input, nothing to offer) trash-restore leaves the file system as it found it *)
Lemma sel_not_allowed : forall t st st', accepts sel_step st t = Some st' -> snd st' <> Allowed ->
  Forall (fun p => is_mutator (fst p) = false) t.
Proof.
  induction t as [|[o r] t IH]; intros st st' Ha Hn; [constructor|]. simpl in Ha.
  destruct (sel_step st o r) as [st1|] eqn:Es; [|discriminate].
  assert (Hst : snd st <> Allowed).
  { intros E. destruct st as [n ph]. simpl in E. subst ph. simpl in Es. inversion Es; subst st1. clear - Ha Hn.
    assert (G : forall t, accepts sel_step (n, Allowed) t = Some st' -> snd st' = Allowed).
    { induction t0 as [|[o' r'] t0 IH0]; simpl; intros H; [inversion H; reflexivity|auto]. }
    apply Hn. eapply G. exact Ha. }
  constructor; [|eapply IH; eauto]. simpl.
  destruct st as [n ph]. simpl in Hst. unfold sel_step in Es. destruct ph; try contradiction; destruct (is_mutator o); try discriminate; reflexivity.
Qed.

Theorem restore_without_selection_lemma o :
  all_runs (fun t _ => forall st, accepts sel_step (0%nat, Before) t = Some st -> snd st <> Allowed ->
                                  forall s s', wrun s t s' -> same s s') (restore_main o).
Proof.
  generalize (restore_selection_lemma o). apply all_runs_mono.
  intros t out _ st Ha Hn s s' Hr. eapply wrun_probes; [|exact Hr]. eapply sel_not_allowed; eauto.
Qed.
