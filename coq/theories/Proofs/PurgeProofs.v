(* trash-rm and trash-empty: where they delete (C11) and in which order (C15), against every answer
   the environment can give. *)
From TV Require Import Prelude.Str Prelude.PosixPath Codec.DateFmt Codec.TrashInfo Logic.Calendar Logic.Reply Logic.Glob
  Prog.Prog Cmd.Put Cmd.Scan Cmd.Empty Cmd.Rm Proofs.ProgProofs Proofs.PLogic Proofs.ScanProofs Proofs.PathProofs Proofs.EmptyProofs.
From Coq Require Import Lia.
Open Scope N_scope.

(* ---------------------------------------------------------------- decimal strings have no slash *)
Lemma dec_digits_noslash fuel : forall n acc, mem c_slash acc = false -> mem c_slash (dec_digits_fuel fuel n acc) = false.
Proof.
  induction fuel as [|f IH]; simpl; intros n acc Hacc; [exact Hacc|].
  assert (Hd : mem c_slash (48 + n mod 10 :: acc) = false).
  { assert (Hlt : n mod 10 < 10) by (apply N.mod_lt; discriminate). remember (n mod 10) as d.
    cbn [mem]. rewrite Hacc.
    destruct (N.eqb_spec c_slash (48 + d)) as [E|E]; [unfold c_slash in E; lia|reflexivity]. }
  destruct (n <? 10); [exact Hd|apply IH; exact Hd].
Qed.
Lemma dec_of_N_noslash n : mem c_slash (dec_of_N n) = false.
Proof. unfold dec_of_N. apply dec_digits_noslash. reflexivity. Qed.
Lemma dec_digits_nonempty fuel : forall n acc, acc <> [] -> dec_digits_fuel fuel n acc <> [].
Proof.
  induction fuel as [|f IH]; simpl; intros n acc Hacc; [exact Hacc|].
  destruct (n <? 10); [discriminate|apply IH; discriminate].
Qed.
Lemma dec_of_N_nonempty n : dec_of_N n <> [].
Proof. unfold dec_of_N. simpl. destruct (n <? 10); [discriminate|apply dec_digits_nonempty; discriminate]. Qed.

(* ---------------------------------------------------------------- C11: purge targets
   A path is a purge target of trash directory td when it is td/info/x or td/files/x for a directory
   entry name x (non-empty, no '/', not "." or "..").  The shape of a trash directory the commands may
   operate on: the home trash of the environment, a --trash-dir given by the user, or
   <volume>/.Trash/<uid> or <volume>/.Trash-<uid> of some volume. *)
Definition target_in (td p : str) : Prop :=
  exists x, valid_name x = true /\ (p = join2 (join2 td s_info) x \/ p = join2 (join2 td s_files) x).

(* homes: the home trash directories in play; uids: the uids whose volume trash directories are in play.  Without
   --all-users these are the home trash of the environment and the uid of the process; with it, those of every entry
   of the password database (eo_homes / eo_uids below). *)
Definition td_shape (homes : list str) (uids : list N) (users : list str) (td : str) : Prop :=
  In td homes \/ In td users \/
  exists v uid, In uid uids /\ (td = join3 v ($".Trash") (dec_of_N uid) \/ td = join2 v ($".Trash-" ++ dec_of_N uid)).

Definition purge_ok (env : list str) (uid : list N) (users : list str) (o : op) : Prop :=
  match o with
  | Remove p | Rmtree p => exists td, td_shape env uid users td /\ clean td /\ target_in td p
  | Makedirs _ _ | OpenExcl _ | WriteFd _ | CloseFd | Move _ _ => False
  | _ => True
  end.

Lemma clean_app a b : clean b -> clean (a ++ b).
Proof.
  intros Hb. destruct (clean_last b Hb) as [q [c [Hq Hc]]]. subst b. rewrite app_assoc. apply clean_app_last. exact Hc.
Qed.
Lemma home_dirs_clean env p : In p (home_trash_dir_path_from_env env) -> clean p.
Proof.
  unfold home_trash_dir_path_from_env.
  assert (C1 : clean ($"/.local/share/Trash")) by (split; [discriminate|reflexivity]).
  assert (C2 : clean ($"/Trash")) by (split; [discriminate|reflexivity]).
  destruct (env_get env s_XDG) as [[|c x]|]; simpl.
  - destruct (env_get env s_HOME); simpl; [|contradiction]. intros [H|[]]. subst p. apply clean_app. exact C1.
  - intros [H|[]]. subst p. apply (clean_app (c :: x)). exact C2.
  - destruct (env_get env s_HOME); simpl; [|contradiction]. intros [H|[]]. subst p. apply clean_app. exact C1.
Qed.
Lemma top1_clean v uid : clean (join3 v ($".Trash") (dec_of_N uid)).
Proof. unfold join3. apply join2_is_clean; [apply dec_of_N_nonempty|apply dec_of_N_noslash]. Qed.
Lemma top2_clean v uid : clean (join2 v ($".Trash-" ++ dec_of_N uid)).
Proof. apply join2_is_clean; [discriminate|]. rewrite mem_app. rewrite dec_of_N_noslash. reflexivity. Qed.

Section Targets.
Variables (env : list str) (uid : list N) (users : list str).
Hypothesis Husers : Forall clean users.
Hypothesis Hhomes : Forall clean env.
Definition PL := ops_logic (purge_ok env uid users).
Notation TT := (T PL).
Ltac aret := first [apply (T_ret PL); exact I | apply (T_throw PL)].

Lemma purge_scan o : scan_op o = true -> OKop PL o.
Proof. destruct o; try discriminate; intros _; exact I. Qed.

Definition good_td (td : str) : Prop := td_shape env uid users td /\ clean td.

Lemma remove_file2_ok td p : good_td td -> target_in td p -> TT (remove_file2 p) (fun _ => True).
Proof.
  intros [Hs Hc] Ht. unfold remove_file2. apply (T_catch PL).
  - apply (T_call_unit PL). exists td; auto.
  - intros e q He. destruct (is_OSError e); inversion He. apply (T_call_unit PL). exists td; auto.
Qed.
Lemma remove_file_if_exists_ok td p : good_td td -> target_in td p -> TT (remove_file_if_exists p) (fun _ => True).
Proof.
  intros Hg Ht. unfold remove_file_if_exists. eapply (T_bind PL); [apply (T_call_bool PL); exact I|].
  intros e _. destruct e; [eapply remove_file2_ok; eauto|aret].
Qed.
Lemma dispose_ok o td p : good_td td -> target_in td p -> TT (dispose o p) (fun _ => True).
Proof.
  intros Hg Ht. unfold dispose. destruct (eo_dry_run o); [apply (T_call_unit PL); exact I|].
  apply (T_seq PL); [destruct (0 <? eo_verbose o); [apply (T_call_unit PL); exact I|aret]|].
  apply (T_catch PL); [eapply remove_file_if_exists_ok; eauto|].
  intros e q He. destruct (is_OSError e); inversion He. apply (T_call_unit PL). exact I.
Qed.

Lemma info_target td x : valid_name x = true -> target_in td (join2 (join2 td s_info) x).
Proof. intros Hx. exists x. auto. Qed.
Lemma payload_target td x : clean td -> valid_name x = true -> is_trashinfo_name x = true ->
  target_in td (path_of_backup_copy (join2 (join2 td s_info) x)).
Proof.
  intros Hc Hx Ht. destruct (valid_name_noslash x Hx) as [Hs _]. rewrite (pobc_clean td x Hc Hs).
  exists (payload_name x). split; [apply payload_name_valid; assumption|auto].
Qed.

Lemma empty_trash_dir_ok o td : good_td td -> TT (empty_trash_dir o td) (fun _ => True).
Proof.
  intros Hg. unfold empty_trash_dir.
  eapply (T_bind PL); [apply (safe_list_trashinfo PL purge_scan)|]. intros infos Hinfos.
  apply (T_seq PL).
  - apply (T_for_each PL). intros p Hp. destruct (Hinfos p Hp) as [x [Hx [Hti Hpx]]]. subst p. unfold empty_one_info.
    eapply (T_bind PL); [apply (safe_ok_to_delete PL); intros; exact I|]. intros b _. destruct b; [|aret].
    apply (T_seq PL); eapply dispose_ok; eauto; [apply payload_target; [apply Hg|assumption|assumption]|apply info_target; assumption].
  - eapply (T_bind PL); [apply (safe_entries_if_dir_exists PL purge_scan)|]. intros es Hes.
    apply (T_for_each PL). intros x Hx. unfold empty_orphan.
    eapply (T_bind PL); [apply (T_call_bool PL); exact I|]. intros b _. destruct b; [aret|].
    eapply dispose_ok; eauto. exists x. split; [|auto]. rewrite forallb_forall in Hes. apply Hes. exact Hx.
Qed.

Definition ev_ok (ev : scan_event) : Prop := match ev with Found td _ => good_td td | _ => True end.
Lemma empty_handle_ok o u ev : ev_ok ev -> TT (empty_handle o u ev) (fun _ => True).
Proof. intros H. destruct ev; simpl; try aret. apply empty_trash_dir_ok; exact H. Qed.

Lemma ev_top u : In u uid -> top_events ev_ok u.
Proof.
  intros Hu v. split; [|split; [exact I|split; [exact I|]]].
  - split; [right; right; exists v, u; split; [exact Hu|left; reflexivity]|apply top1_clean].
  - split; [right; right; exists v, u; split; [exact Hu|right; reflexivity]|apply top2_clean].
Qed.
Lemma ev_home p : In p env -> ev_ok (Found p [c_slash]).
Proof. intros H. split; [left; exact H|]. rewrite Forall_forall in Hhomes. apply Hhomes. exact H. Qed.
Lemma ev_user d v : In d users -> ev_ok (Found d v).
Proof. intros H. split; [right; left; exact H|]. rewrite Forall_forall in Husers. apply Husers. exact H. Qed.
End Targets.

(* the home trash directories and the uids a run of trash-empty is about *)
Definition eo_homes (o : empty_opts) : list str :=
  match eo_all_users o with
  | None => home_trash_dir_path_from_env (eo_environ o)
  | Some pw => map (fun u => home_trash_dir_path_from_home (fst u)) pw
  end.
Definition eo_uids (o : empty_opts) : list N :=
  match eo_all_users o with None => [eo_uid o] | Some pw => map snd pw end.
Lemma home_from_home_clean h : clean (home_trash_dir_path_from_home h).
Proof. unfold home_trash_dir_path_from_home. apply clean_app. split; [discriminate|reflexivity]. Qed.
Lemma eo_homes_clean o : Forall clean (eo_homes o).
Proof.
  unfold eo_homes. destruct (eo_all_users o) as [pw|].
  - apply Forall_forall. intros p Hp. apply in_map_iff in Hp. destruct Hp as [u [Hu _]]. subst p. apply home_from_home_clean.
  - apply Forall_forall. intros p Hp. eapply home_dirs_clean; eauto.
Qed.
Lemma eo_select_events o (EV : scan_event -> Prop) :
  (forall u, In u (eo_uids o) -> top_events EV u) ->
  (forall p, In p (eo_homes o) -> EV (Found p [c_slash])) ->
  (forall d v, In d (eo_trash_dirs o) -> EV (Found d v)) ->
  match eo_all_users o with
  | Some pw => forall u, In u pw -> top_events EV (snd u) /\ EV (Found (home_trash_dir_path_from_home (fst u)) [c_slash])
  | None => top_events EV (eo_uid o)
            /\ (forall p, In p (home_trash_dir_path_from_env (eo_environ o)) -> EV (Found p [c_slash]))
            /\ (forall d v, In d (eo_trash_dirs o) -> EV (Found d v))
  end.
Proof.
  unfold eo_uids, eo_homes. intros Ht Hh Hu. destruct (eo_all_users o) as [pw|].
  - intros u Hin. split; [apply Ht; apply in_map; exact Hin|apply Hh].
    apply in_map_iff. exists u. split; [reflexivity|exact Hin].
  - split; [apply Ht; left; reflexivity|split; assumption].
Qed.

Theorem empty_targets_inside_lemma o : Forall clean (eo_trash_dirs o) ->
  all_runs (fun t _ => Forall (fun p => purge_ok (eo_homes o) (eo_uids o) (eo_trash_dirs o) (fst p)) t) (empty_main o).
Proof.
  intros Hu. set (env := eo_homes o). set (uid := eo_uids o). set (users := eo_trash_dirs o).
  assert (Hh : Forall clean env) by apply eo_homes_clean.
  eapply all_runs_mono; [|apply (ops_sat_sound (purge_ok env uid users) (empty_main o) (fun _ => True))].
  - intros t out [Ht _]. exact Ht.
  - pose (P := PL env uid users). change (T P (empty_main o) (fun _ => True)). unfold empty_main.
    eapply (T_bind P); [apply (T_call_bool P); exact I|]. intros tty _.
    apply (T_seq P); [|apply (T_ret P); exact I].
    assert (Hsel : match eo_all_users o with
      | Some pw => forall u, In u pw -> top_events (ev_ok env uid users) (snd u)
                                       /\ ev_ok env uid users (Found (home_trash_dir_path_from_home (fst u)) [c_slash])
      | None => top_events (ev_ok env uid users) (eo_uid o)
            /\ (forall p, In p (home_trash_dir_path_from_env (eo_environ o)) -> ev_ok env uid users (Found p [c_slash]))
            /\ (forall d v, In d (eo_trash_dirs o) -> ev_ok env uid users (Found d v))
      end).
    { apply eo_select_events; [intros u Hin; apply ev_top; exact Hin|intros p Hp; apply ev_home; assumption|
                               intros d v Hd; apply ev_user; assumption]. }
    destruct (match eo_interactive o with Some b => b | None => tty end).
    + eapply (T_bind P).
      * apply (safe_select_trash_dirs P (purge_scan env uid users) (fun acc ev => Ret (acc ++ [ev])) (ev_ok env uid users)
                 (Forall (ev_ok env uid users))).
        -- intros s ev Hs Hev. apply (T_ret P). apply Forall_app. split; [exact Hs|constructor; [exact Hev|constructor]].
        -- exact Hsel.
        -- constructor.
      * intros evs Hevs. eapply (T_bind P); [apply (T_call_str P); exact I|]. intros reply _.
        destruct (parse_reply reply); [|apply (T_ret P); exact I]. apply (T_for_each P). intros ev Hev.
        apply empty_handle_ok. rewrite Forall_forall in Hevs. apply Hevs. exact Hev.
    + apply (safe_select_trash_dirs P (purge_scan env uid users) (empty_handle o) (ev_ok env uid users) (fun _ => True)).
      * intros s ev _ Hev. apply empty_handle_ok. exact Hev.
      * exact Hsel.
      * exact I.
Qed.

(* trash-rm *)
Lemma rm_one_info_ok env uid td pattern volume x :
  good_td env uid [] td -> valid_name x = true -> is_trashinfo_name x = true ->
  T (PL env uid []) (rm_one_info pattern volume (join2 (join2 td s_info) x)) (fun _ => True).
Proof.
  intros Hg Hx Hti. pose (P := PL env uid []). unfold rm_one_info.
  eapply (T_bind P) with (Q' := fun _ => True).
  - apply (T_catch P).
    + eapply (T_bind P); [apply (T_call_str P); exact I|]. intros; apply (T_ret P); exact I.
    + intros e q He. destruct (is_OSError e); [inversion He; apply (T_ret P); exact I|]. destruct e; inversion He; apply (T_ret P); exact I.
  - intros r _. destruct r as [rel|]; [|apply (T_call_unit P); exact I].
    destruct (rm_matches pattern (join2 volume rel)) as [[|]|]; [|apply (T_ret P); exact I|apply (T_throw P)].
    unfold delete_trash_info_and_backup_copy. apply (T_seq P).
    + eapply remove_file_if_exists_ok; eauto. apply payload_target; [apply Hg|assumption|assumption].
    + eapply remove_file2_ok; eauto. apply info_target; assumption.
Qed.

Theorem rm_targets_inside_lemma o :
  all_runs (fun t _ => Forall (fun p => purge_ok (home_trash_dir_path_from_env (ro_environ o)) [ro_uid o] [] (fst p)) t) (rm_main o).
Proof.
  set (env := home_trash_dir_path_from_env (ro_environ o)). set (uid := [ro_uid o]).
  assert (Hh : Forall clean env) by (apply Forall_forall; intros p Hp; eapply home_dirs_clean; eauto).
  eapply all_runs_mono; [|apply (ops_sat_sound (purge_ok env uid []) (rm_main o) (fun _ => True))].
  - intros t out [Ht _]. exact Ht.
  - pose (P := PL env uid []). change (T P (rm_main o) (fun _ => True)). unfold rm_main.
    destruct (ro_args o) as [|pattern rest]; [apply (T_seq P); [apply (T_call_unit P); exact I|apply (T_ret P); exact I]|].
    apply (T_seq P); [|apply (T_ret P); exact I].
    apply (safe_scan_trash_dirs P (purge_scan env uid []) (rm_handle pattern) (ev_ok env uid []) (fun _ => True)).
    + intros s ev _ Hev. destruct ev; simpl; try (apply (T_ret P); exact I).
      eapply (T_bind P); [apply (safe_list_trashinfo P (purge_scan env uid []))|]. intros infos Hinfos.
      apply (T_for_each P). intros p Hp. destruct (Hinfos p Hp) as [x [Hx [Hti Hpx]]]. subst p.
      apply rm_one_info_ok; assumption.
    + apply ev_top. left; reflexivity.
    + intros p Hp. apply ev_home; assumption.
    + exact I.
Qed.
