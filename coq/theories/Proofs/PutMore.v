(* Instances of the generic traversal (PutAll) and a small monitor for the arguments trash-put must not touch. *)
From TV Require Import Prelude.Str Prelude.PosixPath Prelude.Utf8 Codec.Quote Codec.DateFmt Codec.TrashInfo
  Logic.OrigLoc Logic.Reply Prog.Prog Cmd.Put Cmd.Scan Proofs.ProgProofs Proofs.PLogic Proofs.ScanProofs Proofs.PutSafe
  Proofs.PutAll Proofs.EmptyProofs.
Open Scope N_scope.

(* ---- C18 / C07: what every operation of trash_single looks like ---- *)
Definition put_op_ok (o : put_opts) (path : str) (op : op) : Prop :=
  match op with
  | Move src _ => src = normpath path                 (* the named entry itself, nothing resolved *)
  | Makedirs _ m => m = 448                           (* 0700 *)
  | Input _ => po_mode o = ModeInteractive            (* no prompt without -i *)
  | _ => True
  end.

Theorem trash_single_ops_lemma o path :
  all_runs (fun t _ => Forall (fun p => put_op_ok o path (fst p)) t) (trash_single path o).
Proof.
  eapply all_runs_mono; [|apply (ops_sat_sound (put_op_ok o path) (trash_single path o) (fun _ => True))].
  - intros t out [H _]. exact H.
  - apply (all_trash_single (ops_logic (put_op_ok o path)) o).
    + intros op H. destruct op; try contradiction; exact I.
    + intros p. reflexivity.
    + intros H p. exact H.
    + intros dst. reflexivity.
Qed.

(* ---- C01: arguments that must not be touched ---- *)
Inductive skip_state := SStart | SExists | SHalt.
Definition skip_step (s : skip_state) (op : op) (r : res) : option skip_state :=
  match s with
  | SStart => if is_mutator op then None else
              match op, r with
              | Lexists _, RBool true => Some SExists
              | Lexists _, RBool false => Some SHalt
              | _, _ => Some SStart
              end
  | SExists => match op, r with
               | Input _, RStr reply => Some (if parse_user_reply reply then SExists else SHalt)
               | Input _, _ => Some SHalt
               | _, _ => Some SExists
               end
  | SHalt => if is_mutator op then None else Some SHalt
  end.

Definition quietop (o : op) (_ : res) : bool := negb (is_mutator o) && match o with Input _ | Lexists _ => false | _ => true end.
Definition QPL := asafe_logic (sstep quietop).
Definition noinput (o : op) (_ : res) : bool := match o with Input _ => false | _ => true end.
Definition NIPL := asafe_logic (sstep noinput).

Lemma describe_quiet path : T QPL (describe path) (fun _ => True).
Proof.
  assert (A : forall op, quietop op RUnit = true -> OKop QPL op) by (intros op H; apply accepted_sstep; intros r _; exact H).
  unfold describe. eapply (T_bind QPL) with (Q' := fun _ => True); [apply (T_call_bool QPL); apply A; reflexivity|]. intros l _. destruct l; [apply (T_ret QPL); exact I|].
  eapply (T_bind QPL) with (Q' := fun _ => True); [apply (T_call_bool QPL); apply A; reflexivity|]. intros d _. destruct d; [apply (T_ret QPL); exact I|].
  eapply (T_bind QPL) with (Q' := fun _ => True); [apply (T_call_bool QPL); apply A; reflexivity|]. intros f _. destruct f.
  - eapply (T_bind QPL) with (Q' := fun _ => True); [apply (T_call_z QPL); apply A; reflexivity|]. intros; apply (T_ret QPL); exact I.
  - eapply (T_bind QPL) with (Q' := fun _ => True); [apply (T_call_bool QPL); apply A; reflexivity|]. intros; apply (T_ret QPL); exact I.
Qed.
Lemma report_quiet path : safe quietop (d <- describe path ;; log WARNING true ($"cannot trash " ++ d ++ $" '" ++ path ++ $"'") ;;; Ret false) (fun _ => True).
Proof.
  apply safe_of_asafe. eapply (T_bind QPL); [apply describe_quiet|].
  intros d _. apply (T_seq QPL); [apply (T_call_unit QPL); apply accepted_sstep; reflexivity|apply (T_ret QPL); exact I].
Qed.

Lemma skip_quiet s op r : quietop op r = true -> skip_step s op r = Some s.
Proof.
  unfold quietop. intros H. apply andb_true_iff in H. destruct H as [Hm Hi]. apply negb_true_iff in Hm.
  destruct s; unfold skip_step; rewrite ?Hm; destruct op; try discriminate; reflexivity.
Qed.

Ltac vb Hv := match type of Hv with valid_res ?o ?r = true =>
  let b := fresh "b" in let Hb := fresh "Hb" in destruct (valid_bool o r eq_refl Hv) as [b Hb]; subst r end.

Theorem untouched_arguments_lemma o path :
  all_runs (fun t _ => accepts skip_step SStart t <> None) (trash_single path o).
Proof.
  eapply all_runs_mono; [|apply (wp_sound skip_step (trash_single path o) (fun _ _ => True) (fun _ _ => True) SStart)].
  - intros t out [s [Ha _]]. rewrite Ha. discriminate.
  - assert (Hrep : forall s, wp skip_step (d <- describe path ;; log WARNING true ($"cannot trash " ++ d ++ $" '" ++ path ++ $"'") ;;; Ret false)
                               (fun _ _ => True) (fun _ _ => True) s).
    { intros s. eapply wp_mono; [| |apply (safe_to_wp skip_step quietop _ (fun _ => True) s)]; auto.
      - intros op r H. apply skip_quiet. exact H.
      - apply report_quiet. }
    assert (Hfile : wp skip_step (trash_file path o) (fun _ _ => True) (fun _ _ => True) SExists).
    { eapply wp_mono; [| |apply (safe_to_wp skip_step noinput _ (fun _ => True) SExists)]; auto.
      - intros op r H. destruct op; try discriminate; reflexivity.
      - apply safe_of_asafe. apply (all_trash_file NIPL o).
        + intros op H. apply accepted_sstep. intros r _. destruct op; try contradiction; reflexivity.
        + intros p. apply accepted_sstep. reflexivity.
        + intros dst. apply accepted_sstep. reflexivity. }
    unfold trash_single. destruct (should_skipped_by_specs path); [apply Hrep|].
    apply wp_bind. apply wp_call_bool. intros r Hv. vb Hv. destruct b.
    + exists SExists. split; [reflexivity|]. cbn [negb].
      apply wp_bind. apply wp_call_bool. intros r Hv'. vb Hv'. exists SExists. split; [reflexivity|].
      destruct (po_mode o); try exact Hfile. destruct b; [|exact Hfile].
      apply wp_bind. eapply wp_mono; [| |apply (safe_to_wp skip_step quietop _ (fun _ => True) SExists)]; auto.
      2:{ intros op r H. apply skip_quiet. exact H. }
      2:{ apply safe_of_asafe. apply describe_quiet. }
      intros s d [Hs _]. subst s. apply wp_bind. apply wp_catch. apply wp_call_str. intros r Hv''.
      destruct r as [| |reply| | | | |e]; try discriminate.
      * eexists. split; [reflexivity|]. destruct (parse_user_reply reply); [exact Hfile|exact I].
      * exists SHalt. split; [destruct e; try discriminate; reflexivity|]. destruct e; exact I.
    + exists SHalt. split; [reflexivity|]. cbn [negb]. destruct (po_mode o); try apply Hrep. exact I.
Qed.

(* ---- C07: the candidate list ---- *)
Definition cand_sig (c : candidate) := (c_path c, c_check c, c_gate c, c_maker c).
Lemma home_trash_dir_paths ps : forall (Q : list (str * str) -> Prop),
  (forall r, map fst r = ps -> Q r) -> ops_sat (fun _ => True) (home_trash_dir ps) Q.
Proof.
  induction ps as [|p ps IH]; intros Q HQ; cbn [home_trash_dir]; [apply (T_ret (ops_logic (fun _ => True))); apply HQ; reflexivity|].
  eapply ops_sat_bind with (Q' := fun _ => True).
  - apply (safe_volume_of (ops_logic (fun _ => True))). intros; exact I.
  - intros v _. eapply ops_sat_bind; [apply IH; intros r Hr; exact Hr|]. intros r Hr. apply (T_ret (ops_logic (fun _ => True))). apply HQ. simpl. rewrite Hr. reflexivity.
Qed.

Theorem candidate_list_shape_lemma volume o :
  po_trash_dir o = None ->
  all_runs (fun _ out => forall cs, out = Done cs ->
     let homes := home_trash_dir_path_from_env (po_environ o) in
     map cand_sig cs =
       map (fun p => (p, NoCheck, GateSameVolume, AbsolutePaths)) homes
       ++ [(volume_trash_dir1 volume (po_uid o), TopTrashDirCheck, GateSameVolume, RelativePaths);
           (volume_trash_dir2 volume (po_uid o), NoCheck, GateSameVolume, RelativePaths)]
       ++ (if po_home_fallback o then map (fun p => (p, NoCheck, GateHomeFallback, AbsolutePaths)) homes else []))
    (possible_trash_directories_for volume o).
Proof.
  intros Htd. set (homes := home_trash_dir_path_from_env (po_environ o)).
  eapply all_runs_mono; [|apply (ops_sat_sound (fun _ => True) (possible_trash_directories_for volume o)
    (fun cs => map cand_sig cs =
       map (fun p => (p, NoCheck, GateSameVolume, AbsolutePaths)) homes
       ++ [(volume_trash_dir1 volume (po_uid o), TopTrashDirCheck, GateSameVolume, RelativePaths);
           (volume_trash_dir2 volume (po_uid o), NoCheck, GateSameVolume, RelativePaths)]
       ++ (if po_home_fallback o then map (fun p => (p, NoCheck, GateHomeFallback, AbsolutePaths)) homes else [])))].
  - intros t out [_ H] cs Hout. subst out. exact H.
  - unfold possible_trash_directories_for. rewrite Htd. fold homes.
    eapply ops_sat_bind; [apply home_trash_dir_paths; intros r Hr; exact Hr|]. intros h1 H1.
    assert (M1 : forall (g : gate) (l : list (str * str)), map fst l = homes ->
                map cand_sig (map (fun pv => mkcand (fst pv) (snd pv) AbsolutePaths NoCheck g) l)
                = map (fun p => (p, NoCheck, g, AbsolutePaths)) homes).
    { intros g l Hl. rewrite <- Hl. rewrite !map_map. apply map_ext. intros [a b]. reflexivity. }
    destruct (po_home_fallback o).
    + eapply ops_sat_bind; [apply home_trash_dir_paths; intros r Hr; exact Hr|]. intros h2 H2.
      apply (T_ret (ops_logic (fun _ => True))). rewrite !map_app. rewrite (M1 GateSameVolume h1 H1), (M1 GateHomeFallback h2 H2). reflexivity.
    + apply (T_ret (ops_logic (fun _ => True))). rewrite !map_app. rewrite (M1 GateSameVolume h1 H1). rewrite app_nil_r. reflexivity.
Qed.
