(* C16: ^C at a prompt.  The only place where trash-put asks anything is the question of -i, in the single-argument procedure; the
   exception handler around it catches end of input only.  So in every run in which a prompt is answered by KeyboardInterrupt that
   answer is the last operation of the run and the run ends with that exception - for the argument asked about, for the list of
   arguments, and for the whole command: no exit status is computed, in particular not 0. *)
From Coq Require Import List NArith Bool.
From TV Require Import Prelude.Str Prelude.PosixPath Logic.Reply Prog.Prog Cmd.Put Cmd.Scan
  Proofs.ProgProofs Proofs.PLogic Proofs.PutSafe Proofs.PutAll Proofs.Independence.
Import ListNotations.
Open Scope N_scope.

Definition not_input (o : op) : Prop := match o with Input _ => False | _ => True end.
Definition NI := ops_logic not_input.
Lemma NI_gen op : (match op with Move _ _ | Makedirs _ _ | Input _ => False | _ => True end) -> OKop NI op.
Proof. destruct op; simpl; auto. Qed.
Lemma NI_plain op : put_plain op = true -> OKop NI op.
Proof. destruct op; simpl; auto; discriminate. Qed.
Lemma NI_mk p : OKop NI (Makedirs p 448).  Proof. exact I. Qed.

(* what a program of that logic never does *)
Lemma no_input_runs {A} (m : prog A) (Q : A -> Prop) : T NI m Q -> forall t out, run_of m t out -> forall q r, ~ In (Input q, r) t.
Proof.
  intros H t out Hr q r Hin.
  pose proof (proj1 (all_runs_iff m _) (ops_sat_sound not_input m Q H) t out Hr) as [Hf _].
  rewrite Forall_forall in Hf. exact (Hf _ Hin).
Qed.

Lemma no_input_describe p : forall t out, run_of (describe p) t out -> forall q r, ~ In (Input q, r) t.
Proof. apply (no_input_runs _ (fun _ => True)). apply (safe_describe NI NI_plain). Qed.
Lemma no_input_trash_file p o : forall t out, run_of (trash_file p o) t out -> forall q r, ~ In (Input q, r) t.
Proof. apply (no_input_runs _ (fun _ => True)). apply (all_trash_file NI o NI_gen NI_mk p). intros dst. exact I. Qed.
Lemma no_input_call_bool o : not_input o -> forall t out, run_of (call_bool o) t out -> forall q r, ~ In (Input q, r) t.
Proof. intros Ho. apply (no_input_runs _ (fun _ => True)). apply (T_call_bool NI). exact Ho. Qed.
Lemma no_input_log lv ex s : forall t out, run_of (log lv ex s) t out -> forall q r, ~ In (Input q, r) t.
Proof. apply (no_input_runs _ (fun _ => True)). unfold log. apply (T_call_unit NI). exact I. Qed.

Definition kbd : res := RErr KeyboardInterrupt.

(* the question itself *)
Lemma run_question q t out :
  run_of (catch (call_str (Input q)) (fun e => match e with EOFError => Some (Ret []) | _ => None end)) t out ->
  exists r, t = [(Input q, r)] /\ (r = kbd -> out = Uncaught KeyboardInterrupt).
Proof.
  unfold call_str, call. intros H.
  change (catch (bind (Do (Input q) (fun r => match r with RErr e => Throw e | _ => Ret r end))
                      (fun r => match r with RStr s => Ret s | _ => Throw TypeErrorE end))
                (fun e => match e with EOFError => Some (Ret []) | _ => None end))
    with (Do (Input q) (fun r => catch (bind (match r with RErr e => Throw e | _ => Ret r end)
                                             (fun r => match r with RStr s => Ret s | _ => Throw TypeErrorE end))
                                       (fun e => match e with EOFError => Some (Ret []) | _ => None end))) in H.
  inversion H as [| |o0 k0 r t0 out0 Hv Hk]; subst. exists r.
  assert (Et : t0 = []).
  { destruct r as [| | | | | | |e]; try (inversion Hk; reflexivity). destruct e; inversion Hk; reflexivity. }
  subst t0. split; [reflexivity|]. intros Er. subst r. inversion Hk; reflexivity.
Qed.

Lemma in_app_last {X} (a b : list X) x : In x (a ++ b) -> In x a \/ In x b.
Proof. apply in_app_or. Qed.

(* one argument *)
Lemma interrupted_single_lemma p o t out : run_of (trash_single p o) t out ->
  forall q, In (Input q, kbd) t -> out = Uncaught KeyboardInterrupt /\ exists t0, t = t0 ++ [(Input q, kbd)].
Proof.
  unfold trash_single. intros H q Hin.
  assert (Hreport : forall t' out', run_of (d <- describe p ;; log WARNING true ($"cannot trash " ++ d ++ $" '" ++ p ++ $"'") ;;; Ret false) t' out' ->
                                    ~ In (Input q, kbd) t').
  { intros t' out' H' Hin'. apply run_of_bind in H'. destruct H' as [[t1 [d [t2 [H1 [H2 Et]]]]]|[e [H1 Eo]]].
    - subst t'. apply in_app_or in Hin'. destruct Hin' as [Hi|Hi]; [exact (no_input_describe _ _ _ H1 _ _ Hi)|].
      apply run_of_bind in H2. destruct H2 as [[t3 [u [t4 [H3 [H4 Et]]]]]|[e [H3 Eo]]].
      + subst t2. apply in_app_or in Hi. destruct Hi as [Hi|Hi]; [exact (no_input_log _ _ _ _ _ H3 _ _ Hi)|]. inversion H4; subst. exact Hi.
      + exact (no_input_log _ _ _ _ _ H3 _ _ Hi).
    - exact (no_input_describe _ _ _ H1 _ _ Hin'). }
  destruct (should_skipped_by_specs p); [exfalso; exact (Hreport _ _ H Hin)|].
  apply run_of_bind in H. destruct H as [[t1 [e [t2 [H1 [H2 Et]]]]]|[ex [H1 Eo]]].
  2:{ exfalso. exact (no_input_call_bool (Lexists p) I _ _ H1 _ _ Hin). }
  subst t. apply in_app_or in Hin. destruct Hin as [Hi|Hin]; [exfalso; exact (no_input_call_bool (Lexists p) I _ _ H1 _ _ Hi)|].
  destruct e; cbn [negb] in H2.
  2:{ exfalso. destruct (po_mode o); try exact (Hreport _ _ H2 Hin). inversion H2; subst. exact Hin. }
  apply run_of_bind in H2. destruct H2 as [[t3 [acc [t4 [H3 [H4 Et]]]]]|[ex [H3 Eo]]].
  2:{ exfalso. exact (no_input_call_bool (Access p) I _ _ H3 _ _ Hin). }
  subst t2. apply in_app_or in Hin. destruct Hin as [Hi|Hin]; [exfalso; exact (no_input_call_bool (Access p) I _ _ H3 _ _ Hi)|].
  destruct (po_mode o); try (exfalso; exact (no_input_trash_file _ _ _ _ H4 _ _ Hin)).
  destruct acc; [|exfalso; exact (no_input_trash_file _ _ _ _ H4 _ _ Hin)].
  apply run_of_bind in H4. destruct H4 as [[t5 [d [t6 [H5 [H6 Et]]]]]|[ex [H5 Eo]]].
  2:{ exfalso. exact (no_input_describe _ _ _ H5 _ _ Hin). }
  subst t4. apply in_app_or in Hin. destruct Hin as [Hi|Hin]; [exfalso; exact (no_input_describe _ _ _ H5 _ _ Hi)|].
  apply run_of_bind in H6. destruct H6 as [[t7 [reply [t8 [H7 [H8 Et]]]]]|[ex [H7 Eo]]].
  - (* the question was answered normally: the interrupt cannot be in what follows *)
    exfalso. apply run_question in H7. destruct H7 as [r [Et7 Hk]]. subst t7 t6.
    cbn [app] in Hin. destruct Hin as [E|Hin].
    + inversion E; subst. specialize (Hk eq_refl). discriminate.
    + destruct (parse_user_reply reply); [exact (no_input_trash_file _ _ _ _ H8 _ _ Hin)|inversion H8; subst; exact Hin].
  - apply run_question in H7. destruct H7 as [r [Et7 Hk]]. subst t6. destruct Hin as [E|[]]. inversion E; subst.
    split; [pose proof (Hk eq_refl) as E'; inversion E'; reflexivity|]. exists (t1 ++ t3 ++ t5). rewrite <- !app_assoc. reflexivity.
Qed.

(* the list of arguments, the whole command *)
Lemma interrupted_each_lemma o : forall paths t out, run_of (trash_each paths o) t out ->
  forall q, In (Input q, kbd) t -> out = Uncaught KeyboardInterrupt /\ exists t0, t = t0 ++ [(Input q, kbd)].
Proof.
  induction paths as [|p ps IH]; intros t out H q Hin; cbn [trash_each] in H.
  - inversion H; subst. destruct Hin.
  - apply run_of_bind in H. destruct H as [[t1 [ok [t2 [H1 [H2 Et]]]]]|[e [H1 Eo]]].
    + subst t. apply in_app_or in Hin. destruct Hin as [Hi|Hin].
      * destruct (interrupted_single_lemma _ _ _ _ H1 q Hi) as [E _]. discriminate.
      * apply run_of_bind in H2. destruct H2 as [[t3 [r [t4 [H3 [H4 Et]]]]]|[e [H3 Eo]]].
        -- subst t2. inversion H4; subst. rewrite app_nil_r in Hin. destruct (IH _ _ H3 q Hin) as [E _]. discriminate.
        -- destruct (IH _ _ H3 q Hin) as [E [t0 Et0]]. subst out. split; [inversion E; reflexivity|]. exists (t1 ++ t0). subst t2. rewrite app_assoc. reflexivity.
    + destruct (interrupted_single_lemma _ _ _ _ H1 q Hin) as [E Hl]. subst out. split; [inversion E; reflexivity|exact Hl].
Qed.

Theorem interrupted_prompt_ends_the_run_lemma o t out : run_of (put_main o) t out ->
  forall q, In (Input q, kbd) t -> out = Uncaught KeyboardInterrupt /\ exists t0, t = t0 ++ [(Input q, kbd)].
Proof.
  unfold put_main. intros H q Hin. apply run_of_bind in H. destruct H as [[t1 [failed [t2 [H1 [H2 Et]]]]]|[e [H1 Eo]]].
  - inversion H2; subst. rewrite app_nil_r in Hin. destruct (interrupted_each_lemma _ _ _ _ H1 q Hin) as [E _]. discriminate.
  - destruct (interrupted_each_lemma _ _ _ _ H1 q Hin) as [E Hl]. subst out. split; [inversion E; reflexivity|exact Hl].
Qed.
