(* posixpath algebra needed to talk about trash directories: basename/dirname of a join with a
   slash-free last component; path_of_backup_copy of an info path inside a clean trash dir. *)
From TV Require Import Prelude.Str Prelude.PosixPath Prog.Prog Cmd.Put Cmd.Scan.
From Coq Require Import Lia.
Open Scope N_scope.
Local Arguments N.eqb : simpl never.

Lemma mem_app c a b : mem c (a ++ b) = mem c a || mem c b.
Proof. induction a as [|d a IH]; simpl; [reflexivity|]. rewrite IH. apply orb_assoc. Qed.
Lemma mem_sep_app_sep sep a x : mem sep (a ++ sep :: x) = true.
Proof. rewrite mem_app. simpl. rewrite N.eqb_refl. apply orb_true_r. Qed.

Lemma after_last_app_sep sep x : mem sep x = false -> forall a, after_last sep (a ++ sep :: x) = x.
Proof.
  intros Hx. induction a as [|c a IH]; simpl.
  - rewrite Hx. rewrite N.eqb_refl. reflexivity.
  - rewrite mem_sep_app_sep. exact IH.
Qed.
Lemma after_last_nomem sep x : mem sep x = false -> after_last sep x = x.
Proof.
  destruct x as [|c x]; simpl; [reflexivity|]. intros H. apply orb_false_iff in H. destruct H as [H1 H2].
  rewrite H2. rewrite N.eqb_sym. rewrite H1. reflexivity.
Qed.
Lemma upto_last_app_sep sep x : mem sep x = false -> forall a, upto_last sep (a ++ sep :: x) = a ++ [sep].
Proof.
  intros Hx. induction a as [|c a IH]; simpl.
  - rewrite Hx. rewrite N.eqb_refl. reflexivity.
  - rewrite mem_sep_app_sep. rewrite IH. reflexivity.
Qed.

Lemma starts_with_noslash x : mem c_slash x = false -> starts_with x [c_slash] = false.
Proof.
  destruct x as [|c x]; simpl; [reflexivity|]. intros H. apply orb_false_iff in H. destruct H as [H _].
  rewrite H. reflexivity.
Qed.

(* a = a' ++ [c] when the last character of a is c *)
Lemma ends_with_single a c : ends_with a [c] = true -> exists a', a = a' ++ [c].
Proof.
  unfold ends_with. simpl. destruct (rev a) as [|d r] eqn:Hr; [discriminate|]. simpl.
  intros H. apply andb_true_iff in H. destruct H as [H _]. apply N.eqb_eq in H. subst d.
  exists (rev r). rewrite <- (rev_involutive a). rewrite Hr. reflexivity.
Qed.
Lemma ends_with_app_single a c : ends_with (a ++ [c]) [c] = true.
Proof. unfold ends_with. rewrite rev_app_distr. simpl. rewrite N.eqb_refl. reflexivity. Qed.

(* join2 a x with x slash-free is pre ++ x where pre is empty or ends with a slash *)
Lemma join2_shape a x : mem c_slash x = false ->
  exists pre, join2 a x = pre ++ x /\ (pre = [] \/ exists q, pre = q ++ [c_slash]).
Proof.
  intros Hx. unfold join2. rewrite (starts_with_noslash x Hx).
  destruct a as [|c a]; [exists []; auto|].
  destruct (ends_with (c :: a) [c_slash]) eqn:He.
  - exists (c :: a). split; [reflexivity|]. right. apply ends_with_single. exact He.
  - exists ((c :: a) ++ [c_slash]). split; [rewrite <- app_assoc; reflexivity|]. right. eauto.
Qed.

Lemma basename_join2 a x : mem c_slash x = false -> basename (join2 a x) = x.
Proof.
  intros Hx. destruct (join2_shape a x Hx) as [pre [Hj [Hp|[q Hp]]]]; rewrite Hj; subst pre; unfold basename.
  - apply after_last_nomem. exact Hx.
  - rewrite <- app_assoc. simpl. apply after_last_app_sep. exact Hx.
Qed.

(* "clean": not empty and not ending with a slash *)
Definition clean (p : str) : Prop := p <> [] /\ ends_with p [c_slash] = false.

Lemma clean_last p : clean p -> exists q c, p = q ++ [c] /\ c <> c_slash.
Proof.
  intros [Hne He]. destruct (rev p) as [|c r] eqn:Hr.
  - exfalso. apply Hne. rewrite <- (rev_involutive p). rewrite Hr. reflexivity.
  - exists (rev r), c. split; [rewrite <- (rev_involutive p); rewrite Hr; reflexivity|].
    intros Hc. subst c. unfold ends_with in He. rewrite Hr in He. simpl in He. discriminate.
Qed.
Lemma clean_app_last q c : c <> c_slash -> clean (q ++ [c]).
Proof.
  intros Hc. split; [destruct q; discriminate|]. unfold ends_with. rewrite rev_app_distr. simpl.
  destruct (N.eqb_spec c_slash c); [congruence|reflexivity].
Qed.

Lemma join2_clean a x : clean a -> mem c_slash x = false -> join2 a x = a ++ c_slash :: x.
Proof.
  intros [Hne He] Hx. unfold join2. rewrite (starts_with_noslash x Hx). destruct a; [congruence|]. rewrite He. reflexivity.
Qed.

Lemma all_c_app c a b : all_c c (a ++ b) = all_c c a && all_c c b.
Proof. induction a as [|d a IH]; simpl; [reflexivity|]. rewrite IH. apply andb_assoc. Qed.

Lemma rstrip_clean_slash q c : c <> c_slash -> rstrip_c c_slash ((q ++ [c]) ++ [c_slash]) = q ++ [c].
Proof.
  intros Hc. unfold rstrip_c. rewrite !rev_app_distr. simpl. try rewrite N.eqb_refl.
  destruct (N.eqb_spec c_slash c); [congruence|]. simpl. rewrite rev_involutive. reflexivity.
Qed.

Lemma dirname_join2 a x : clean a -> mem c_slash x = false -> dirname (join2 a x) = a.
Proof.
  intros Ha Hx. rewrite (join2_clean a x Ha Hx). unfold dirname. rewrite (upto_last_app_sep c_slash x Hx).
  destruct (clean_last a Ha) as [q [c [Hq Hc]]]. subst a.
  rewrite !all_c_app. simpl. destruct (N.eqb_spec c_slash c); [congruence|]. rewrite andb_false_r. simpl.
  apply rstrip_clean_slash. exact Hc.
Qed.

(* join2 a x is clean when x is a non-empty slash-free name *)
Lemma join2_is_clean a x : x <> [] -> mem c_slash x = false -> clean (join2 a x).
Proof.
  intros Hne Hx. destruct (join2_shape a x Hx) as [pre [Hj _]]. rewrite Hj.
  destruct (rev x) as [|c r] eqn:Hr.
  - exfalso. apply Hne. rewrite <- (rev_involutive x). rewrite Hr. reflexivity.
  - assert (Hx' : x = rev r ++ [c]) by (rewrite <- (rev_involutive x); rewrite Hr; reflexivity).
    rewrite Hx'. rewrite app_assoc. apply clean_app_last. intros Hc. subst c.
    rewrite Hx' in Hx. rewrite mem_app in Hx. simpl in Hx. rewrite orb_true_r in Hx. discriminate.
Qed.

Lemma mem_slash_info : mem c_slash s_info = false.  Proof. reflexivity. Qed.
Lemma mem_slash_files : mem c_slash s_files = false.  Proof. reflexivity. Qed.

(* the payload of an info file found in a clean trash directory *)
Lemma pobc_clean td x : clean td -> mem c_slash x = false ->
  path_of_backup_copy (join2 (join2 td s_info) x) = join2 (join2 td s_files) (payload_name x).
Proof.
  intros Htd Hx. unfold path_of_backup_copy, join3.
  assert (Hi : clean (join2 td s_info)) by (apply join2_is_clean; [discriminate|reflexivity]).
  rewrite (dirname_join2 _ x Hi Hx). rewrite (dirname_join2 td s_info Htd mem_slash_info).
  rewrite basename_join2 by exact Hx. reflexivity.
Qed.

(* classification of purge targets *)
Definition is_info_path (p : str) : bool := str_eqb (basename (dirname p)) s_info && ends_with p s_trashinfo.

Lemma firstn_mem c n x : mem c x = false -> mem c (firstn n x) = false.
Proof.
  revert n. induction x as [|d x IH]; intros n H; destruct n; simpl; auto.
  simpl in H. apply orb_false_iff in H. destruct H as [H1 H2]. rewrite H1. simpl. apply IH. exact H2.
Qed.

Lemma payload_not_info D y : mem c_slash y = false -> is_info_path (join2 (join2 D s_files) y) = false.
Proof.
  intros Hy. unfold is_info_path.
  rewrite dirname_join2; [|apply join2_is_clean; [discriminate|reflexivity]|exact Hy].
  rewrite basename_join2 by reflexivity. reflexivity.
Qed.
Lemma pobc_not_info p : is_info_path (path_of_backup_copy p) = false.
Proof.
  unfold path_of_backup_copy, join3. apply payload_not_info. apply firstn_mem.
  unfold basename.
  assert (G : forall s, mem c_slash (after_last c_slash s) = false).
  { induction s as [|c s IH]; simpl; [reflexivity|]. destruct (mem c_slash s) eqn:Hm; [exact IH|].
    destruct (N.eqb_spec c c_slash); [exact Hm|]. simpl. rewrite Hm.
    destruct (N.eqb_spec c_slash c); [congruence|reflexivity]. }
  apply G.
Qed.

(* valid names are slash-free and non-empty *)
Lemma valid_name_noslash x : valid_name x = true -> mem c_slash x = false /\ x <> [].
Proof.
  destruct x as [|c x]; [discriminate|]. unfold valid_name. intros H.
  apply andb_true_iff in H. destruct H as [H _]. apply andb_true_iff in H. destruct H as [H _].
  apply negb_true_iff in H. split; [exact H|discriminate].
Qed.
(* the payload name of a trashinfo entry is again a valid name *)
Lemma payload_name_valid x : valid_name x = true -> is_trashinfo_name x = true -> valid_name (payload_name x) = true.
Proof.
  intros Hv Ht. destruct (valid_name_noslash x Hv) as [Hs _].
  unfold is_trashinfo_name in Ht. apply andb_true_iff in Ht. destruct Ht as [_ Ht]. apply negb_true_iff in Ht.
  apply orb_false_iff in Ht. destruct Ht as [Ht H3]. apply orb_false_iff in Ht. destruct Ht as [H1 H2].
  assert (Hm : mem c_slash (payload_name x) = false) by (apply firstn_mem; exact Hs).
  unfold is_dot in H2. unfold is_dotdot in H3.
  destruct (payload_name x) as [|c r]; [discriminate|].
  unfold valid_name. rewrite Hm, H2, H3. reflexivity.
Qed.

(* ---- info paths built by trash-put: <dir>/info/<slash-free name ending in .trashinfo> ---- *)
Lemma basename_noslash s : mem c_slash (basename s) = false.
Proof.
  unfold basename. induction s as [|c s IH]; simpl; [reflexivity|]. destruct (mem c_slash s) eqn:Hm; [exact IH|].
  destruct (N.eqb_spec c c_slash); [exact Hm|]. simpl. rewrite Hm.
  destruct (N.eqb_spec c_slash c); [congruence|reflexivity].
Qed.
Lemma ends_with_app pre b t : ends_with b t = true -> ends_with (pre ++ b) t = true.
Proof.
  unfold ends_with. rewrite rev_app_distr. generalize (rev b) (rev t) (rev pre). clear.
  intros b t. revert b. induction t as [|c t IH]; intros b pre H; [destruct (b ++ pre); reflexivity|].
  destruct b as [|d b]; [discriminate|]. simpl in *. apply andb_true_iff in H. destruct H as [H1 H2].
  rewrite H1. simpl. apply IH. exact H2.
Qed.
Lemma is_info_path_join D b : mem c_slash b = false -> ends_with b s_trashinfo = true ->
  is_info_path (join2 (join2 D s_info) b) = true.
Proof.
  intros Hb He. unfold is_info_path.
  rewrite dirname_join2; [|apply join2_is_clean; [discriminate|reflexivity]|exact Hb].
  rewrite basename_join2 by reflexivity. simpl.
  destruct (join2_shape (join2 D s_info) b Hb) as [pre [Hj _]]. rewrite Hj. apply ends_with_app. exact He.
Qed.
