(* C09, the full statement at the level of the model: under a file system that holds still (StaticScan.v) the standard output
   of trash-list is EXACTLY one line per readable entry with a Path, over the home trash and every usable volume trash directory,
   in the order of discovery - and nothing else.

       souts fs (list_main o) = flat_map (lines of the directory) (selected_events ...)

   `souts` is what a program writes to standard output under `fs`; the lines of a directory are, for each name of its info/
   listing that is a .trashinfo name, the line  date SP volume-joined-path LF  when the file reads as a text with a Path, and
   nothing otherwise (entry_line). *)
From TV Require Import Prelude.Str Prelude.PosixPath Codec.TrashInfo Prog.Prog Cmd.Put Cmd.Scan Cmd.ListCmd Proofs.ProgProofs
  Proofs.Independence Proofs.StaticScan.
Open Scope N_scope.

Definition out_text (o : op) : list str := match o with Out false t => [t] | _ => [] end.

Fixpoint souts {A} (fs : statics) (m : prog A) : list str :=
  match m with
  | Ret _ | Throw _ => []
  | Do o k => out_text o ++ souts fs (k (fs o))
  end.

Definition after {A} (x : outcome A) (f : A -> list str) : list str := match x with Done a => f a | _ => [] end.

Lemma souts_bind {A B} fs (m : prog A) (f : A -> prog B) :
  souts fs (bind m f) = souts fs m ++ after (srun fs m) (fun a => souts fs (f a)).
Proof.
  induction m as [a|e|o k IH]; [reflexivity|reflexivity|].
  change (bind (Do o k) f) with (Do o (fun r => bind (k r) f)). cbn [souts srun]. rewrite IH, app_assoc. reflexivity.
Qed.
Lemma souts_catch {A} fs (m : prog A) (h : exn -> option (prog A)) :
  souts fs (catch m h) = souts fs m ++ match srun fs m with Uncaught e => match h e with Some p => souts fs p | None => [] end | _ => [] end.
Proof.
  induction m as [a|e|o k IH].
  - reflexivity.
  - change (catch (Throw e) h) with (match h e with Some p => p | None => Throw e end). cbn [souts srun app].
    destruct (h e); reflexivity.
  - change (catch (Do o k) h) with (Do o (fun r => catch (k r) h)). cbn [souts srun]. rewrite IH, app_assoc. reflexivity.
Qed.
Lemma srun_catch {A} fs (m : prog A) (h : exn -> option (prog A)) :
  srun fs (catch m h) = match srun fs m with Uncaught e => match h e with Some p => srun fs p | None => Uncaught e end | x => x end.
Proof.
  induction m as [a|e|o k IH].
  - reflexivity.
  - change (catch (Throw e) h) with (match h e with Some p => p | None => Throw e end). cbn [srun]. destruct (h e); reflexivity.
  - change (catch (Do o k) h) with (Do o (fun r => catch (k r) h)). cbn [srun]. apply IH.
Qed.
Lemma souts_call fs o : souts fs (call o) = out_text o.
Proof. unfold call. cbn [souts]. destruct (fs o); cbn [souts]; rewrite app_nil_r; reflexivity. Qed.

(* a program whose operations are all probes writes nothing *)
Lemma souts_call_bool fs o : out_text o = [] -> souts fs (call_bool o) = [].
Proof.
  intros Ho. unfold call_bool. rewrite souts_bind, souts_call, Ho, srun_call. cbn [app].
  destruct (fs o) as [| [|] | | | | | |]; reflexivity.
Qed.
Lemma souts_call_stat fs o : out_text o = [] -> souts fs (call_stat o) = [].
Proof.
  intros Ho. unfold call_stat. rewrite souts_bind, souts_call, Ho, srun_call. cbn [app]. destruct (fs o); reflexivity.
Qed.
Lemma souts_call_list fs o : out_text o = [] -> souts fs (call_list o) = [].
Proof.
  intros Ho. unfold call_list. rewrite souts_bind, souts_call, Ho, srun_call. cbn [app]. destruct (fs o); reflexivity.
Qed.
Lemma souts_call_str fs o : out_text o = [] -> souts fs (call_str o) = [].
Proof.
  intros Ho. unfold call_str. rewrite souts_bind, souts_call, Ho, srun_call. cbn [app]. destruct (fs o); reflexivity.
Qed.
Lemma souts_call_unit fs o : souts fs (call_unit o) = out_text o.
Proof.
  unfold call_unit. rewrite souts_bind, souts_call, srun_call. destruct (fs o); cbn [after souts]; rewrite app_nil_r; reflexivity.
Qed.

(* the standard output of the consumer over a list of events *)
Fixpoint sfold_outs {S} (fs : statics) (h : S -> scan_event -> prog S) (evs : list scan_event) (s : S) : list str :=
  match evs with
  | [] => []
  | ev :: r => souts fs (h s ev) ++ after (srun fs (h s ev)) (sfold_outs fs h r)
  end.
Lemma sfold_outs_app {S} fs (h : S -> scan_event -> prog S) a : forall b s,
  sfold_outs fs h (a ++ b) s = sfold_outs fs h a s ++ after (sfold fs h a s) (sfold_outs fs h b).
Proof.
  induction a as [|ev a IH]; intros b s; cbn [app sfold_outs sfold after then_run]; [reflexivity|].
  rewrite <- app_assoc. f_equal. destruct (srun fs (h s ev)) as [s'| |]; cbn [after then_run]; auto.
Qed.

Section StaticOut.
Variable fs : statics.
Hypothesis Hsane : sane fs.
Context {S : Type}.
Variable h : S -> scan_event -> prog S.

Lemma souts_is_sticky_dir p : souts fs (is_sticky_dir p) = [].
Proof.
  unfold is_sticky_dir. rewrite souts_bind, souts_call_bool, (srun_call_bool fs Hsane) by reflexivity. cbn [app after].
  destruct (fs_true fs (Isdir p)); [|reflexivity].
  rewrite souts_bind, souts_call_stat by reflexivity. cbn [app]. destruct (srun fs (call_stat (Stat p))); reflexivity.
Qed.
Lemma souts_valid_to_be_read top : souts fs (valid_to_be_read top) = [].
Proof.
  unfold valid_to_be_read. rewrite souts_bind, souts_call_bool, (srun_call_bool fs Hsane) by reflexivity. cbn [app after].
  destruct (fs_true fs (Prog.Exists top)); cbn [negb]; [|reflexivity].
  rewrite souts_bind, souts_is_sticky_dir, (srun_is_sticky_dir fs Hsane). cbn [app after].
  destruct (fs_true fs (Isdir (dirname top)) && fs_sticky fs (dirname top)); cbn [negb]; [|reflexivity].
  rewrite souts_bind, souts_call_bool, (srun_call_bool fs Hsane) by reflexivity. cbn [app after].
  destruct (fs_true fs (Islink (dirname top))); reflexivity.
Qed.

Lemma souts_scan_volume uid s v : souts fs (scan_volume h uid s v) = sfold_outs fs h (volume_events fs uid v) s.
Proof.
  unfold scan_volume, volume_events. rewrite sfold_outs_app.
  rewrite souts_bind, souts_valid_to_be_read, (srun_valid_to_be_read fs Hsane). cbn [app after].
  rewrite souts_bind. unfold top_events_of, alt_events_of, rule_of.
  set (top := join3 v ($".Trash") (dec_of_N uid)). set (alt := join2 v ($".Trash-" ++ dec_of_N uid)).
  assert (Halt : forall s1, souts fs (d <- call_bool (Isdir alt) ;; (if d then h s1 (Found alt v) else Ret s1))
                            = sfold_outs fs h (if fs_true fs (Isdir alt) then [Found alt v] else []) s1).
  { intros s1. rewrite souts_bind, souts_call_bool, (srun_call_bool fs Hsane) by reflexivity. cbn [app after].
    destruct (fs_true fs (Isdir alt)); cbn [sfold_outs souts]; [|reflexivity].
    destruct (srun fs (h s1 (Found alt v))); cbn [after]; rewrite app_nil_r; reflexivity. }
  destruct (fs_true fs (Prog.Exists top)); [|cbn [souts srun sfold_outs sfold after app]; apply Halt].
  destruct (fs_true fs (Isdir (dirname top)) && fs_sticky fs (dirname top)).
  - destruct (fs_true fs (Islink (dirname top))); cbn [sfold_outs sfold];
      destruct (srun fs (h s _)) as [s1| |]; cbn [after then_run]; rewrite ?app_nil_r; auto; f_equal; apply Halt.
  - cbn [sfold_outs sfold]. destruct (srun fs (h s _)) as [s1| |]; cbn [after then_run]; rewrite ?app_nil_r; auto; f_equal; apply Halt.
Qed.

Lemma souts_fold_volumes uid : forall vols s,
  souts fs (fold_prog vols (scan_volume h uid) s) = sfold_outs fs h (flat_map (volume_events fs uid) vols) s.
Proof.
  induction vols as [|v vols IH]; intros s; cbn [fold_prog flat_map]; [reflexivity|].
  rewrite souts_bind, souts_scan_volume, (srun_scan_volume fs Hsane), sfold_outs_app. f_equal.
  destruct (sfold fs h (volume_events fs uid v) s) as [s1| |]; cbn [after]; auto.
Qed.
Lemma souts_each_mount_point uid : forall l s,
  souts fs (each_mount_point l (scan_volume h uid) s)
  = sfold_outs fs h (flat_map (volume_events fs uid) (filter (fun m => fs_true fs (Isdir m)) l)) s.
Proof.
  induction l as [|m l IH]; intros s; cbn [each_mount_point filter flat_map]; [reflexivity|].
  rewrite souts_bind, souts_call_bool, (srun_call_bool fs Hsane) by reflexivity. cbn [app after]. rewrite souts_bind.
  destruct (fs_true fs (Isdir m)); cbn [flat_map].
  - rewrite souts_scan_volume, (srun_scan_volume fs Hsane), sfold_outs_app. f_equal.
    destruct (sfold fs h (volume_events fs uid m) s) as [s1| |]; cbn [after]; auto.
  - cbn [souts srun after app]. apply IH.
Qed.
Lemma souts_for_each_volume env uid s :
  souts fs (for_each_volume env (scan_volume h uid) s) = sfold_outs fs h (flat_map (volume_events fs uid) (volumes_of fs env)) s.
Proof.
  unfold for_each_volume, volumes_of. destruct (env_volumes env) as [vols|]; [apply souts_fold_volumes|].
  destruct (sane_mounts fs Hsane) as [l Hl].
  assert (Hcall : srun fs (call_list ListMounts) = Done l).
  { unfold call_list. rewrite srun_bind, srun_call, Hl. reflexivity. }
  rewrite souts_bind, souts_call_list, Hcall by reflexivity. cbn [app after].
  rewrite souts_bind, souts_call_list, Hcall by reflexivity. cbn [app after].
  unfold fs_mounts. rewrite Hl. apply souts_each_mount_point.
Qed.
Lemma souts_fold_homes : forall homes s,
  souts fs (fold_prog homes (fun s p => h s (Found p [c_slash])) s) = sfold_outs fs h (map (fun p => Found p [c_slash]) homes) s.
Proof.
  induction homes as [|p homes IH]; intros s; cbn [fold_prog map sfold_outs]; [reflexivity|].
  rewrite souts_bind. f_equal. destruct (srun fs (h s (Found p [c_slash]))) as [s1| |]; cbn [after]; auto.
Qed.

Lemma souts_scan_trash_dirs env uid s :
  souts fs (scan_trash_dirs h env uid s) = sfold_outs fs h (user_events fs env (home_trash_dir_path_from_env env) uid) s.
Proof.
  unfold scan_trash_dirs, user_events. rewrite souts_bind, souts_fold_homes, (srun_fold_homes fs), sfold_outs_app. f_equal.
  destruct (sfold fs h (map (fun p => Found p [c_slash]) (home_trash_dir_path_from_env env)) s) as [s1| |]; cbn [after]; auto.
  apply souts_for_each_volume.
Qed.

Lemma souts_user env u s :
  souts fs (s1 <- h s (Found (home_trash_dir_path_from_home (fst u)) [c_slash]) ;; for_each_volume env (scan_volume h (snd u)) s1)
  = sfold_outs fs h (user_events fs env [home_trash_dir_path_from_home (fst u)] (snd u)) s.
Proof.
  unfold user_events. cbn [map app sfold_outs]. rewrite souts_bind. f_equal.
  destruct (srun fs (h s _)) as [s1| |]; cbn [after]; auto. apply souts_for_each_volume.
Qed.
Lemma srun_user env u s :
  srun fs (s1 <- h s (Found (home_trash_dir_path_from_home (fst u)) [c_slash]) ;; for_each_volume env (scan_volume h (snd u)) s1)
  = sfold fs h (user_events fs env [home_trash_dir_path_from_home (fst u)] (snd u)) s.
Proof.
  unfold user_events. cbn [map app sfold]. rewrite srun_bind.
  destruct (srun fs (h s _)) as [s1| |]; cbn [then_run]; auto. apply (srun_for_each_volume fs Hsane).
Qed.

Lemma souts_scan_all_users env : forall pw s,
  souts fs (scan_all_users h pw env s) = sfold_outs fs h (all_users_events fs env pw) s.
Proof.
  unfold scan_all_users, all_users_events. induction pw as [|u pw IH]; intros s; cbn [fold_prog flat_map]; [reflexivity|].
  rewrite souts_bind, souts_user, srun_user, sfold_outs_app. f_equal.
  destruct (sfold fs h (user_events fs env [home_trash_dir_path_from_home (fst u)] (snd u)) s) as [s1| |]; cbn [after]; auto.
Qed.

Lemma souts_select all_users env uid s :
  souts fs (select_trash_dirs h all_users [] env uid s) = sfold_outs fs h (selected_events fs all_users env uid) s.
Proof.
  unfold select_trash_dirs, selected_events. destruct all_users as [pw|]; [apply souts_scan_all_users|].
  rewrite souts_bind. cbn [fold_prog]. rewrite souts_scan_trash_dirs.
  destruct (srun fs (scan_trash_dirs h env uid s)); cbn [after souts]; rewrite app_nil_r; reflexivity.
Qed.
End StaticOut.

(* ---- the reading side ---- *)
Record readable (fs : statics) : Prop := {
  rd_silent : forall o, is_silent o = true -> fs o = RUnit;
  rd_text : forall p, (exists c, fs (ReadText p) = RStr c)
                      \/ (exists e, fs (ReadText p) = RErr e /\ (is_OSError e = true \/ e = UnicodeDecodeError));
  rd_listdir : forall p, fs_true fs (Prog.Exists p) = true -> exists l, fs (Listdir p) = RList l }.

(* the line of one info file: date SP volume-joined-path LF when it reads as a text with a Path, nothing otherwise *)
Definition entry_line (fs : statics) (volume info_path : str) : list str :=
  match fs (ReadText info_path) with
  | RStr c => match parse_path c with
              | Some rel => [(maybe_parse_deletion_date c ++ [c_space] ++ join2 volume rel) ++ [c_nl]]
              | None => []
              end
  | _ => []
  end.
(* the info files of a trash directory: the .trashinfo names of the listing of info/, when info/ exists *)
Definition dir_infos (fs : statics) (td : str) : list str :=
  let info_dir := join2 td s_info in
  if fs_true fs (Prog.Exists info_dir)
  then match fs (Listdir info_dir) with RList es => map (join2 info_dir) (filter is_trashinfo_name es) | _ => [] end
  else [].
Definition dir_lines (fs : statics) (td volume : str) : list str := flat_map (entry_line fs volume) (dir_infos fs td).
Definition event_lines (fs : statics) (ev : scan_event) : list str :=
  match ev with Found td v => dir_lines fs td v | _ => [] end.

Section StaticListing.
Variable fs : statics.
Hypothesis Hsane : sane fs.
Hypothesis Hread : readable fs.
Variable o : list_opts.
Hypothesis Hsize : lo_size o = false.
Hypothesis Hfiles : lo_files o = false.

Lemma silent_unit op : is_silent op = true -> fs op = RUnit.
Proof. apply (rd_silent fs Hread). Qed.

Lemma print_trashinfo_static v p :
  srun fs (print_trashinfo o v p) = Done tt /\ souts fs (print_trashinfo o v p) = entry_line fs v p.
Proof.
  unfold entry_line.
  cbv [print_trashinfo call_str call bind catch println printerr out call_unit]. cbn [srun souts out_text app].
  rewrite Hsize, Hfiles.
  destruct (rd_text fs Hread p) as [[c Hc]|[e [He Hk]]]; rewrite ?Hc, ?He.
  - destruct (parse_path c) as [rel|]; cbn [srun souts out_text app].
    + rewrite (silent_unit (Out false _) eq_refl). cbn [srun souts]. split; reflexivity.
    + rewrite (silent_unit (Log _ _ _) eq_refl). cbn [srun souts]. split; reflexivity.
  - destruct Hk as [Hk|Hk].
    + rewrite Hk. cbn [srun souts out_text app]. rewrite (silent_unit (Log _ _ _) eq_refl). cbn [srun souts]. split; reflexivity.
    + subst e. cbn [is_OSError srun souts out_text app]. rewrite (silent_unit (Log _ _ _) eq_refl). cbn [srun souts]. split; reflexivity.
Qed.

Lemma for_each_print_static v : forall infos,
  srun fs (for_each infos (print_trashinfo o v)) = Done tt
  /\ souts fs (for_each infos (print_trashinfo o v)) = flat_map (entry_line fs v) infos.
Proof.
  induction infos as [|p infos [IH1 IH2]]; cbn [for_each flat_map]; [split; reflexivity|].
  destruct (print_trashinfo_static v p) as [H1 H2].
  rewrite srun_bind, souts_bind, H1, H2. cbn [then_run after]. rewrite IH1, IH2. split; reflexivity.
Qed.

Lemma list_trashinfo_static td : srun fs (list_trashinfo td) = Done (dir_infos fs td) /\ souts fs (list_trashinfo td) = [].
Proof.
  unfold list_trashinfo, entries_if_dir_exists, dir_infos.
  rewrite srun_bind, souts_bind, srun_bind, souts_bind, (srun_call_bool fs Hsane), souts_call_bool by reflexivity.
  cbn [then_run after app].
  destruct (fs_true fs (Prog.Exists (join2 td s_info))) eqn:He.
  - destruct (rd_listdir fs Hread _ He) as [l Hl]. rewrite souts_call_list by reflexivity.
    unfold call_list. rewrite srun_bind, srun_call, Hl. cbn [then_run after srun souts app]. split; reflexivity.
  - cbn [srun souts then_run after app]. split; reflexivity.
Qed.

Lemma list_handle_static ev : srun fs (list_handle o tt ev) = Done tt /\ souts fs (list_handle o tt ev) = event_lines fs ev.
Proof.
  destruct ev as [td v|p|p]; cbn [list_handle event_lines].
  - destruct (list_trashinfo_static td) as [H1 H2]. destruct (for_each_print_static v (dir_infos fs td)) as [H3 H4].
    rewrite srun_bind, souts_bind, H1, H2. cbn [then_run after app]. rewrite H3, H4. split; reflexivity.
  - unfold printerr. rewrite souts_call_unit. unfold call_unit. rewrite srun_bind, srun_call, (silent_unit (Log _ _ _) eq_refl).
    split; reflexivity.
  - unfold printerr. rewrite souts_call_unit. unfold call_unit. rewrite srun_bind, srun_call, (silent_unit (Log _ _ _) eq_refl).
    split; reflexivity.
Qed.

Lemma sfold_list_handle : forall evs,
  sfold fs (list_handle o) evs tt = Done tt /\ sfold_outs fs (list_handle o) evs tt = flat_map (event_lines fs) evs.
Proof.
  induction evs as [|ev evs [IH1 IH2]]; cbn [sfold sfold_outs flat_map]; [split; reflexivity|].
  destruct (list_handle_static ev) as [H1 H2]. rewrite H1, H2. cbn [then_run after]. rewrite IH1, IH2. split; reflexivity.
Qed.

(* trash-list prints exactly the lines of the usable directories, directory by directory, and ends normally *)
Theorem static_list_output_lemma : lo_trash_dirs o = [] ->
  souts fs (list_main o) = flat_map (event_lines fs) (selected_events fs (lo_all_users o) (lo_environ o) (lo_uid o))
  /\ srun fs (list_main o) = Done 0.
Proof.
  intros Hd. unfold list_main. rewrite Hd.
  destruct (sfold_list_handle (selected_events fs (lo_all_users o) (lo_environ o) (lo_uid o))) as [H1 H2].
  rewrite souts_bind, srun_bind, (souts_select fs Hsane), (static_select_lemma fs _ _ _ _ _ Hsane), H1, H2.
  cbn [after then_run souts srun]. rewrite app_nil_r. split; reflexivity.
Qed.
End StaticListing.
