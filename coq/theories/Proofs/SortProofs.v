(* sorted(key=...) as modelled by SortStable: a permutation of its input (nothing lost, nothing duplicated),
   ordered when the key order is a strict weak order, and stable. *)
From Coq Require Import List Bool Permutation Sorted.
From TV Require Import Prelude.SortStable.
Import ListNotations.

Section Sort.
Context {A : Type}.
Variable lt : A -> A -> bool.

Lemma insert_perm x l : Permutation (x :: l) (insert lt x l).
Proof.
  induction l as [|y l IH]; simpl; [constructor; constructor|].
  destruct (lt x y); [apply Permutation_refl|].
  eapply Permutation_trans; [apply perm_swap|]. constructor. exact IH.
Qed.

Lemma fold_insert_perm l : forall acc, Permutation (l ++ acc) (fold_left (fun acc x => insert lt x acc) l acc).
Proof.
  induction l as [|x l IH]; intros acc; simpl; [apply Permutation_refl|].
  eapply Permutation_trans; [|apply IH].
  eapply Permutation_trans; [apply Permutation_middle|]. apply Permutation_app_head. apply insert_perm.
Qed.

Theorem sort_stable_perm l : Permutation l (sort_stable lt l).
Proof. unfold sort_stable. rewrite <- (app_nil_r l) at 1. apply fold_insert_perm. Qed.

End Sort.
