(* C09: looking is not touching.  trash-list issues no mutating operation at all - against every answer of the environment - so
   every file system a run is consistent with is, afterwards, exactly what it was: what trash-list shows is still there. *)
From TV Require Import Prelude.Str Prelude.PosixPath Codec.TrashInfo Prog.Prog World.World Cmd.Put Cmd.Scan Cmd.ListCmd
  Proofs.ProgProofs Proofs.PLogic Proofs.ScanProofs Proofs.WorldProofs.
Open Scope N_scope.

Definition quiet (op : op) : Prop := is_mutator op = false.
Definition QL := ops_logic quiet.
Lemma QL_scan op : scan_op op = true -> OKop QL op.
Proof. destruct op; try discriminate; intros _; reflexivity. Qed.

Lemma QL_printerr e t : T QL (printerr e t) (fun _ => True).
Proof. apply (T_call_unit QL). reflexivity. Qed.
Lemma QL_println t : T QL (println t) (fun _ => True).
Proof. apply (T_call_unit QL). reflexivity. Qed.

Lemma QL_print_trashinfo o volume p : T QL (print_trashinfo o volume p) (fun _ => True).
Proof.
  unfold print_trashinfo. eapply (T_bind QL) with (Q' := fun _ => True).
  - apply (T_catch QL).
    + eapply (T_bind QL); [apply (T_call_str QL); reflexivity|]. intros c _. apply (T_ret QL). exact I.
    + intros e q He. destruct (is_OSError e); [inversion He; apply (T_ret QL); exact I|]. destruct e; inversion He. apply (T_ret QL). exact I.
  - intros r _. destruct r as [c|[|]]; try apply QL_printerr.
    destruct (parse_path c) as [rel|]; [|apply QL_printerr].
    eapply (T_bind QL) with (Q' := fun _ => True).
    + destruct (lo_size o); [|apply (T_ret QL); exact I]. unfold size_attribute. apply (T_catch QL).
      * eapply (T_bind QL); [apply (T_call_stat QL); reflexivity|]. intros st _. apply (T_ret QL). exact I.
      * intros e q He. destruct e as [n| | | | | | | | | |]; try discriminate He.
        destruct n as [|p0]; try discriminate He. destruct p0 as [p0|p0|]; try discriminate He. destruct p0 as [p0|p0|]; try discriminate He.
        inversion He.
        eapply (T_bind QL); [apply (T_call_bool QL); reflexivity|]. intros l _. destruct l; [apply (T_ret QL); exact I|apply (T_throw QL)].
    + intros attr _. destruct (lo_files o); apply QL_println.
Qed.

Lemma QL_list_handle o ev : T QL (list_handle o tt ev) (fun _ => True).
Proof.
  destruct ev as [path volume|path|path]; simpl; try apply QL_printerr.
  eapply (T_bind QL); [apply (safe_list_trashinfo QL QL_scan)|]. intros infos _.
  apply (T_for_each QL). intros x _. apply QL_print_trashinfo.
Qed.

Theorem list_issues_no_mutation_lemma o :
  all_runs (fun t _ => Forall (fun p => is_mutator (fst p) = false) t) (list_main o).
Proof.
  eapply all_runs_mono; [|apply (ops_sat_sound quiet (list_main o) (fun _ => True))].
  - intros t out [H _]. exact H.
  - change (T QL (list_main o) (fun _ => True)). unfold list_main.
    eapply (T_bind QL) with (Q' := fun _ => True); [|intros; apply (T_ret QL); exact I].
    apply (safe_select_trash_dirs QL QL_scan (fun _ ev => list_handle o tt ev) (fun _ => True) (fun _ => True)); try apply select_events_true; auto.
    intros s ev _ _. destruct s. apply QL_list_handle.
Qed.

Theorem list_changes_nothing_lemma o :
  all_runs (fun t _ => forall s s', wrun s t s' -> same s s') (list_main o).
Proof.
  generalize (list_issues_no_mutation_lemma o). apply all_runs_mono. intros t out H s s' Hr. apply (wrun_probes s t s' H Hr).
Qed.
