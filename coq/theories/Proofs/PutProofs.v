(* trash-put against every answer of the environment: ONE monitor ("put discipline") that carries
   C05 (info created, written with parseable content and closed BEFORE the payload is moved, and moved
   to the payload path of THAT info), C17 (honest reporting: "trashed" only after a move returned
   normally, "cannot trash" only when no move succeeded and every info reserved for the argument was
   removed again or its removal was refused by the file system) and C16 (exit status 0 iff no
   "cannot trash" was reported), plus termination of the name search (C17). *)
From TV Require Import Prelude.Str Prelude.PosixPath Prelude.Utf8 Codec.Quote Codec.DateFmt Codec.TrashInfo
  Logic.OrigLoc Logic.Reply Prog.Prog Cmd.Put Cmd.Scan Proofs.ProgProofs Proofs.PLogic Proofs.ScanProofs
  Proofs.TrashInfoProofs Proofs.OrigLocProofs Proofs.PathProofs Proofs.PutSafe.
From Coq Require Import Lia.
Open Scope N_scope.

Inductive wphase := Opened | Written | Closed | Broken.
Record pst := mkpst { p_res : option (str * wphase); p_moved : bool; p_refused : bool; p_nfail : nat }.
Definition set_res (s : pst) r := mkpst r (p_moved s) (p_refused s) (p_nfail s).
Definition set_refused (s : pst) := mkpst (p_res s) (p_moved s) true (p_nfail s).
(* a refused removal: the reservation can no longer become a trashed entry *)
Definition set_broken (s : pst) (p : str) := mkpst (Some (p, Broken)) (p_moved s) true (p_nfail s).

Definition put_step (s : pst) (o : op) (r : res) : option pst :=
  match o with
  (* only info files are created: <dir>/info/<name>.trashinfo *)
  | OpenExcl p => if is_info_path p then Some (match r with RUnit => set_res s (Some (p, Opened)) | _ => s end) else None
  | WriteFd b =>
      match p_res s with
      (* one write, of parseable content; after a failed write nothing more is written (Broken) *)
      | Some (p, Opened) => if parseable b then Some (set_res s (Some (p, match r with RUnit => Written | _ => Broken end))) else None
      | _ => None
      end
  | CloseFd => Some (match r with
                     | RUnit => match p_res s with Some (p, Written) => set_res s (Some (p, Closed)) | _ => s end
                     | _ => set_refused s
                     end)
  | Remove q | Rmtree q =>
      (* trash-put removes nothing but the info file it has reserved and not yet given a payload *)
      match p_res s with
      | Some (p, _) => if str_eqb q p then Some (match r with RUnit => set_res s None | _ => set_broken s p end) else None
      | None => None
      end
  | Lexists q =>
      Some (match r, p_res s with
            | RBool false, Some (p, _) => if str_eqb q p then set_res s None else s
            | _, _ => s
            end)
  | Move _ dst =>
      match p_res s with
      | Some (p, Closed) =>
          if str_eqb dst (path_of_backup_copy p)
          then Some (match r with RUnit => mkpst None true (p_refused s) (p_nfail s) | _ => s end)
          else None
      | _ => None
      end
  | Log INFO _ _ => if p_moved s then Some (mkpst None false false (p_nfail s)) else None
  | Log WARNING _ t =>
      if is_cannot_trash t then
        (if negb (p_moved s) && (match p_res s with None => true | Some _ => p_refused s end)
         then Some (mkpst None false false (S (p_nfail s))) else None)
      else Some s
  | _ => Some s
  end.

(* between two arguments / two candidates: nothing moved, nothing reserved (or a removal was refused) *)
Definition Inv (k : nat) (s : pst) : Prop :=
  p_moved s = false /\ (p_res s = None \/ p_refused s = true) /\ p_nfail s = k.

Lemma wp_Do {M A} (step : M -> op -> res -> option M) o (k : res -> prog A) Q E s :
  wp step (Do o k) Q E s = (forall r, valid_res o r = true -> exists s', step s o r = Some s' /\ wp step (k r) Q E s').
Proof. reflexivity. Qed.

(* operations that keep an invariant of the monitor let whole programs keep it *)
Lemma safe_to_wp_inv {M A} (step : M -> op -> res -> option M) (ok : op -> res -> bool) (I : M -> Prop)
      (m : prog A) (Q : A -> Prop) :
  (forall o r s, ok o r = true -> I s -> exists s', step s o r = Some s' /\ I s') ->
  safe ok m Q -> forall s, I s -> wp step m (fun s' a => I s' /\ Q a) (fun s' _ => I s') s.
Proof.
  intros Hk. unfold safe. induction m as [a|e|o k IH]; intros H s Hs; [split; [exact Hs|exact H]|exact Hs|].
  rewrite wp_Do in *. intros r Hv. destruct (H r Hv) as [[] [Hst Hw]]. unfold sstep in Hst.
  destruct (ok o r) eqn:Hok; [|discriminate]. destruct (Hk o r s Hok Hs) as [s' [Hs' HI]].
  exists s'. split; [exact Hs'|]. apply IH; assumption.
Qed.

Definition plain_ok (o : op) (_ : res) : bool := put_plain o || match o with Makedirs _ _ => true | _ => false end.
Definition PPL := asafe_logic (sstep plain_ok).
Lemma ppl_ok o : put_plain o = true -> OKop PPL o.
Proof. intros H. apply accepted_sstep. intros r _. unfold plain_ok. rewrite H. reflexivity. Qed.
Lemma ppl_mk p : OKop PPL (Makedirs p 448).
Proof. apply accepted_sstep. intros r _. reflexivity. Qed.

Lemma plain_keeps_inv k o r s : plain_ok o r = true -> Inv k s -> exists s', put_step s o r = Some s' /\ Inv k s'.
Proof.
  unfold plain_ok. intros Hp [Hm [Hr Hn]]. destruct o; try discriminate Hp; try (exists s; split; [reflexivity|repeat split; assumption]); simpl in Hp; rewrite ?orb_false_r in Hp.
  - (* Lexists *) simpl. destruct r as [|[|]| | | | | |]; try (exists s; split; [reflexivity|repeat split; assumption]).
    destruct (p_res s) as [[q ph]|] eqn:Er; [|exists s; split; [reflexivity|repeat split; auto]].
    destruct (str_eqb p q); eexists; (split; [reflexivity|]); repeat split; simpl; auto.
    destruct Hr as [Hr|Hr]; [discriminate|right; exact Hr].
  - (* Log *) destruct lv; try discriminate Hp; simpl.
    + simpl in Hp. apply negb_true_iff in Hp. rewrite Hp. exists s. split; [reflexivity|repeat split; assumption].
    + exists s. split; [reflexivity|repeat split; assumption].
Qed.

(* a plain program, as a triple on the monitor *)
Lemma wp_plain {A} k (m : prog A) (Q : A -> Prop) s :
  T PPL m Q -> Inv k s -> wp put_step m (fun s' a => Inv k s' /\ Q a) (fun s' _ => Inv k s') s.
Proof.
  intros Hm Hs. apply (safe_to_wp_inv put_step plain_ok (Inv k) m Q); [apply plain_keeps_inv|apply safe_of_asafe; exact Hm|exact Hs].
Qed.

Ltac vb Hv := match type of Hv with valid_res ?o ?r = true =>
  let b := fresh "b" in let Hb := fresh "Hb" in destruct (valid_bool o r eq_refl Hv) as [b Hb]; subst r end.
Ltac vu Hv := match type of Hv with valid_res ?o ?r = true =>
  let e := fresh "e" in let He := fresh "He" in let Hos := fresh "Hos" in
  destruct (valid_unit o r eq_refl Hv) as [He|[e [He Hos]]]; subst r end.
Ltac inv_solve := repeat split; simpl; auto.

(* fs.py RealAtomicWrite *)
Lemma wp_atomic_write k path content s :
  parseable content = true -> is_info_path path = true -> Inv k s ->
  wp put_step (atomic_write path content)
     (fun s' _ => p_res s' = Some (path, Closed) /\ p_moved s' = false /\ p_nfail s' = k)
     (fun s' _ => Inv k s') s.
Proof.
  intros Hp Hi [Hm [Hr Hn]]. unfold atomic_write. apply wp_bind. apply wp_call_unit. intros r Hv. eexists. split; [simpl; rewrite Hi; reflexivity|].
  vu Hv; [|inv_solve].
  apply wp_bind. apply wp_catch. apply wp_call_unit. intros r Hv'. simpl. rewrite Hp. eexists. split; [reflexivity|].
  vu Hv'.
  - (* written *) apply wp_call_unit. intros r Hv''. eexists. split; [reflexivity|]. vu Hv''; inv_solve.
  - (* write failed: close, remove, re-raise *) rewrite Hos.
    apply wp_bind. apply wp_call_unit. intros r Hv''. eexists. split; [reflexivity|]. vu Hv''; [|inv_solve].
    apply wp_bind. apply wp_call_unit. intros r Hv3. eexists. split; [simpl; rewrite str_eqb_refl; reflexivity|].
    vu Hv3; inv_solve.
Qed.

Definition Reserved (k : nat) (p : str) (s : pst) : Prop := p_res s = Some (p, Closed) /\ p_moved s = false /\ p_nfail s = k.

Lemma wp_debug_log ex t s (Q : pst -> unit -> Prop) (E : pst -> exn -> Prop) :
  Q s tt -> wp put_step (log DEBUG ex t) Q E s.
Proof.
  intros HQ. unfold log. apply wp_call_unit. intros r Hv. exists s. split; [reflexivity|].
  match type of Hv with valid_res ?oo r = true => rewrite (valid_silent oo r eq_refl Hv) end. exact HQ.
Qed.

(* info_file_persister.py try_persist *)
Lemma wp_try_persist k d : wf_data d -> forall fuel idx ntl s, Inv k s ->
  wp put_step (try_persist fuel d idx ntl)
    (fun s' r => match r with Persisted p => Reserved k p s' | _ => Inv k s' end)
    (fun s' _ => Inv k s') s.
Proof.
  intros Hwf. assert (Hp : parseable (td_content d) = true) by apply Hwf.
  induction fuel as [|f IH]; intros idx ntl s Hs; [exact Hs|]. cbn [try_persist].
  apply wp_bind. eapply wp_mono; [| |apply (wp_plain k _ _ s (safe_suffix_for_index PPL ppl_ok idx) Hs)]; [|auto].
  intros s1 suffix [Hs1 Hsfx]. cbv beta.
  set (path := join2 (td_info_dir d) (create_trashinfo_basename (td_basename d) suffix ntl)).
  apply wp_bind. eapply wp_mono; [| |apply (wp_plain k _ (fun _ => True) s1 (T_call_bool PPL (Exists (path_of_backup_copy path)) (ppl_ok (Exists (path_of_backup_copy path)) eq_refl)) Hs1)]; [|auto].
  intros s2 taken [Hs2 _]. cbv beta. destruct taken; [apply IH; exact Hs2|].
  apply wp_bind. apply wp_catch. apply wp_bind.
  eapply wp_mono; [| |apply (wp_atomic_write k path (td_content d) s2 Hp (info_path_of_data d suffix ntl Hwf Hsfx) Hs2)].
  - (* created *) intros s3 u Hres. cbv beta. apply wp_ret. cbv beta iota. apply wp_bind. apply wp_debug_log. apply wp_ret. exact Hres.
  - (* the exclusive create / write / close raised *)
    intros s3 e Hs3. cbv beta. destruct e as [n| | | | | | | | | |]; try exact Hs3. cbv beta iota. apply wp_ret. cbv beta iota.
    destruct ((n =? ENAMETOOLONG) && negb ntl).
    + apply wp_bind. apply wp_debug_log. apply IH. exact Hs3.
    + destruct (negb (n =? EEXIST)); [exact Hs3|].
      apply wp_bind. apply wp_debug_log. apply IH. exact Hs3.
Qed.

(* fs.py RealRemoveFile.remove_file on the info just reserved *)
Lemma wp_remove_reserved k p s :
  Reserved k p s ->
  wp put_step (remove_file p) (fun s' _ => Inv k s') (fun s' _ => Inv k s') s.
Proof.
  intros [Hr [Hm Hn]]. unfold remove_file. apply wp_bind. apply wp_call_bool. intros r Hv. vb Hv.
  eexists. split; [reflexivity|]. simpl. rewrite Hr. rewrite str_eqb_refl. destruct b.
  - apply wp_catch. apply wp_call_unit. intros r Hv'. eexists. split; [simpl; rewrite Hr, str_eqb_refl; reflexivity|].
    vu Hv'; [inv_solve|]. cbv beta iota.
    apply wp_call_unit. intros r Hv''. eexists. split; [simpl; rewrite str_eqb_refl; reflexivity|].
    vu Hv''; inv_solve.
  - inv_solve.
Qed.

(* put_trash_dir.py try_trash: Moved = the payload arrived *)
Definition Moved (k : nat) (s : pst) : Prop := p_res s = None /\ p_moved s = true /\ p_nfail s = k.

Lemma wp_try_trash k path info s :
  Reserved k info s ->
  wp put_step (try_trash path info)
     (fun s' r => match r with None => Moved k s' | Some _ => Inv k s' end) (fun s' _ => Inv k s') s.
Proof.
  intros Hres. assert (Hres' := Hres). destruct Hres' as [Hr [Hm Hn]].
  unfold try_trash. apply wp_catch. apply wp_bind. unfold fs_move. apply wp_bind.
  apply wp_call_bool. intros r Hv. vb Hv. exists s. split; [reflexivity|].
  assert (Hfail : forall e, wp put_step (remove_file info ;;; Ret (Some (RCannotMove e)))
                     (fun s' r => match r with None => Moved k s' | Some _ => Inv k s' end) (fun s' _ => Inv k s') s).
  { intros e. apply wp_bind. eapply wp_mono; [| |apply (wp_remove_reserved k info s Hres)]; auto. }
  destruct b.
  - (* a mount point: refused before any move *) apply wp_throw. simpl. apply Hfail.
  - apply wp_call_unit. intros r Hv'. eexists. split; [simpl; rewrite Hr, str_eqb_refl; reflexivity|].
    vu Hv'.
    + apply wp_ret. inv_solve.
    + rewrite Hos. apply Hfail.
Qed.

(* janitor.py trash_file_in *)
Lemma wp_trash_file_in k c o path volume s :
  Inv k s ->
  wp put_step (trash_file_in c o path volume)
     (fun s' r => match r with None => Moved k s' | Some _ => Inv k s' end) (fun s' _ => Inv k s') s.
Proof.
  intros Hs. unfold trash_file_in.
  apply wp_bind. eapply wp_mono; [| |apply (wp_plain k _ (fun _ => True) s (safe_check_secure PPL ppl_ok c) Hs)]; [|auto].
  intros s1 r1 [Hs1 _]. cbv beta. destruct r1; [exact Hs1|].
  apply wp_bind. eapply wp_mono; [| |apply (wp_plain k _ (fun _ => True) s1 (safe_gate PPL ppl_ok volume c (po_environ o)) Hs1)]; [|auto].
  intros s2 r2 [Hs2 _]. cbv beta. destruct r2; [exact Hs2|].
  apply wp_bind. eapply wp_mono; [| |apply (wp_plain k _ (fun _ => True) s2 (safe_make_candidate_dirs PPL ppl_ok ppl_mk c) Hs2)]; [|auto].
  intros s3 r3 [Hs3 _]. cbv beta. destruct r3; [exact Hs3|].
  apply wp_bind. eapply wp_mono; [| |apply (wp_plain k _ _ s3 (safe_make_trashinfo_data PPL ppl_ok path c) Hs3)]; [|auto].
  intros s4 r4 [Hs4 Hd]. cbv beta. destruct r4 as [data|]; [|exact Hs4]. destruct Hd as [Hparse _].
  apply wp_bind. eapply wp_mono; [| |apply (wp_try_persist k data Hparse (po_fuel o) 0%nat false s4 Hs4)]; [|auto].
  intros s5 r5 H5. cbv beta. destruct r5 as [info| |]; [|exact H5|exact H5].
  apply wp_try_trash. exact H5.
Qed.

Lemma is_cannot_trash_lit x : is_cannot_trash ($"cannot trash " ++ x) = true.
Proof. unfold is_cannot_trash. apply starts_with_app. Qed.

(* the "cannot trash" report: allowed exactly between arguments, counts one failure *)
Lemma wp_cannot_trash k t s (Q : pst -> unit -> Prop) (E : pst -> exn -> Prop) :
  Inv k s -> (forall s', Inv (S k) s' -> Q s' tt) ->
  wp put_step (log WARNING true ($"cannot trash " ++ t)) Q E s.
Proof.
  intros [Hm [Hr Hn]] HQ. unfold log. apply wp_call_unit. intros r Hv.
  match type of Hv with valid_res ?oo r = true => rewrite (valid_silent oo r eq_refl Hv) end.
  eexists. split.
  - cbn [put_step]. rewrite is_cannot_trash_lit. rewrite Hm. cbn [negb andb].
    destruct Hr as [Hr|Hr]; [rewrite Hr; reflexivity|]. rewrite Hr. destruct (p_res s); reflexivity.
  - apply HQ. rewrite Hn. inv_solve.
Qed.

(* file_trasher.py: the candidate loop *)
Lemma wp_try_candidates k o path volume : forall cs failures s, Inv k s ->
  wp put_step (try_candidates cs o path volume failures)
     (fun s' ok => if ok then Inv k s' else Inv (S k) s') (fun _ _ => True) s.
Proof.
  induction cs as [|c cs IH]; intros failures s Hs; cbn [try_candidates].
  - apply wp_bind. eapply wp_mono; [| |apply (wp_plain k _ (fun _ => True) s (safe_describe PPL ppl_ok path) Hs)]; [|auto].
    intros s1 d [Hs1 _]. cbv beta. apply wp_bind.
    apply (wp_cannot_trash k); [exact Hs1|]. intros s2 Hs2.
    apply wp_bind. eapply wp_mono; [| |apply (wp_plain (S k) _ (fun _ => True) s2 (safe_log_failures PPL ppl_ok path (rev failures)) Hs2)].
    + intros s3 u [Hs3 _]. exact Hs3.
    + intros s3 e Hs3. exact I.
  - apply wp_bind. apply wp_debug_log.
    apply wp_bind. eapply wp_mono; [| |apply (wp_trash_file_in k c o path volume s Hs)]; [|auto].
    intros s1 r H1. cbv beta. destruct r as [why|]; [apply IH; exact H1|].
    destruct H1 as [Hr [Hm Hn]].
    apply wp_bind. unfold log. apply wp_call_unit. intros r Hv.
    match type of Hv with valid_res ?oo r = true => rewrite (valid_silent oo r eq_refl Hv) end.
    eexists. split; [cbn [put_step]; rewrite Hm; reflexivity|]. apply wp_ret. rewrite <- Hn. inv_solve.
Qed.

Lemma wp_trash_file k path o s : Inv k s ->
  wp put_step (trash_file path o) (fun s' ok => if ok then Inv k s' else Inv (S k) s') (fun _ _ => True) s.
Proof.
  intros Hs. unfold trash_file.
  apply wp_bind.
  assert (Hvol : T PPL (match po_forced_volume o with Some (c :: x) => Ret (c :: x) | _ => volume_of_parent path end) (fun _ => True)).
  { destruct (po_forced_volume o) as [[|c x]|]; try apply (safe_volume_of_parent PPL ppl_ok). apply (T_ret PPL). exact I. }
  eapply wp_mono; [| |apply (wp_plain k _ (fun _ => True) s Hvol Hs)]; [|auto].
  intros s1 volume [Hs1 _]. cbv beta.
  apply wp_bind. eapply wp_mono; [| |apply (wp_plain k _ (fun _ => True) s1 (safe_possible_trash_directories_for PPL ppl_ok volume o) Hs1)]; [|auto].
  intros s2 cs [Hs2 _]. cbv beta. apply wp_try_candidates. exact Hs2.
Qed.

Lemma wp_report_cannot k path s :
  Inv k s ->
  wp put_step (d <- describe path ;; log WARNING true ($"cannot trash " ++ d ++ $" '" ++ path ++ $"'") ;;; Ret false)
     (fun s' ok => if ok then Inv k s' else Inv (S k) s') (fun _ _ => True) s.
Proof.
  intros Hs. apply wp_bind. eapply wp_mono; [| |apply (wp_plain k _ (fun _ => True) s (safe_describe PPL ppl_ok path) Hs)]; [|auto].
  intros s1 d [Hs1 _]. cbv beta. apply wp_bind. apply (wp_cannot_trash k); [exact Hs1|]. intros s2 Hs2. apply wp_ret. exact Hs2.
Qed.

(* trasher.py trash_single *)
Lemma wp_trash_single k path o s : Inv k s ->
  wp put_step (trash_single path o) (fun s' ok => if ok then Inv k s' else Inv (S k) s') (fun _ _ => True) s.
Proof.
  intros Hs. unfold trash_single. destruct (should_skipped_by_specs path); [apply wp_report_cannot; exact Hs|].
  apply wp_bind.
  eapply wp_mono; [| |apply (wp_plain k _ (fun _ => True) s (T_call_bool PPL (Lexists path) (ppl_ok (Lexists path) eq_refl)) Hs)]; [|auto].
  intros s1 e [Hs1 _]. cbv beta. destruct e; simpl.
  2:{ destruct (po_mode o); try (apply wp_report_cannot; exact Hs1). apply wp_ret. exact Hs1. }
  apply wp_bind.
  eapply wp_mono; [| |apply (wp_plain k _ (fun _ => True) s1 (T_call_bool PPL (Access path) (ppl_ok (Access path) eq_refl)) Hs1)]; [|auto].
  intros s2 acc [Hs2 _]. cbv beta. destruct (po_mode o); try (apply wp_trash_file; exact Hs2).
  destruct acc; [|apply wp_trash_file; exact Hs2].
  apply wp_bind. eapply wp_mono; [| |apply (wp_plain k _ (fun _ => True) s2 (safe_describe PPL ppl_ok path) Hs2)]; [|auto].
  intros s3 d [Hs3 _]. cbv beta. apply wp_bind. apply wp_catch. apply wp_call_str. intros r Hv. exists s3. split; [reflexivity|].
  assert (Hno : wp put_step (if parse_user_reply [] then trash_file path o else Ret true)
                   (fun s' ok => if ok then Inv k s' else Inv (S k) s') (fun _ _ => True) s3) by (apply wp_ret; exact Hs3).
  destruct r as [| |reply| | | | |e]; try exact I.
  - destruct (parse_user_reply reply); [apply wp_trash_file; exact Hs3|apply wp_ret; exact Hs3].
  - destruct e; try exact I. apply wp_ret. exact Hno.
Qed.

Lemma wp_trash_each o : forall paths k s, Inv k s ->
  wp put_step (trash_each paths o) (fun s' failed => Inv (k + length failed) s') (fun _ _ => True) s.
Proof.
  induction paths as [|p ps IH]; intros k s Hs; cbn [trash_each].
  - apply wp_ret. simpl. rewrite Nat.add_0_r. exact Hs.
  - apply wp_bind. eapply wp_mono; [| |apply (wp_trash_single k p o s Hs)]; [|auto].
    intros s1 ok H1. cbv beta. apply wp_bind. destruct ok.
    + eapply wp_mono; [| |apply (IH k s1 H1)]; [|auto]. intros s2 failed H2. apply wp_ret. exact H2.
    + eapply wp_mono; [| |apply (IH (S k) s1 H1)]; [|auto]. intros s2 failed H2. apply wp_ret. simpl.
      rewrite Nat.add_succ_r. exact H2.
Qed.

Definition put_init : pst := mkpst None false false 0.

(* every run of trash-put obeys the discipline, and its exit status is 0 exactly when no
   "cannot trash" was reported (74 otherwise) *)
Theorem put_discipline_lemma o :
  all_runs (fun t out => exists s, accepts put_step put_init t = Some s /\
              match out with
              | Done code => (code = 0 <-> p_nfail s = 0%nat) /\ (code = 0 \/ code = EX_IOERR)
              | _ => True
              end) (put_main o).
Proof.
  eapply all_runs_mono; [|apply (wp_sound put_step (put_main o)
      (fun s code => (code = 0 <-> p_nfail s = 0%nat) /\ (code = 0 \/ code = EX_IOERR)) (fun _ _ => True) put_init)].
  - intros t out [s [Ha Ho]]. exists s. split; [exact Ha|]. destruct out; auto.
  - unfold put_main. apply wp_bind.
    eapply wp_mono; [| |apply (wp_trash_each o (po_paths o) 0%nat put_init)]; [|auto|inv_solve].
    intros s failed [_ [_ Hn]]. apply wp_ret. simpl in Hn. rewrite Hn.
    destruct failed; simpl; split; auto; split; intros H; try reflexivity; discriminate.
Qed.

(* ---------------------------------------------------------------- termination of the name search (C17):
   the loop goes round again only after a "name taken" event - the payload name exists, or the file
   system answered EEXIST / ENAMETOOLONG to the create (or to the write/close/cleanup that follows it);
   every other error ends it.  So it runs out of fuel only after as many such events as it had fuel. *)
Definition retry_errno (n : N) : bool := (n =? EEXIST) || (n =? ENAMETOOLONG).
Definition retryable (e : exn) : bool := match e with OSError n => retry_errno n | _ => false end.
Definition collision_step (c : nat) (o : op) (r : res) : option nat :=
  match o, r with
  | Exists _, RBool true => Some (S c)
  | (OpenExcl _ | WriteFd _ | CloseFd | Remove _), RErr e => Some (if retryable e then S c else c)
  | _, _ => Some c
  end.
Lemma collision_total c o r : exists c', collision_step c o r = Some c' /\ (c <= c')%nat.
Proof.
  unfold collision_step. destruct o; try (exists c; split; [reflexivity|lia]).
  - destruct r as [|[|]| | | | | |]; eexists; (split; [reflexivity|lia]).
  - destruct r as [| | | | | | |e]; try (exists c; split; [reflexivity|lia]). destruct (retryable e); eexists; (split; [reflexivity|lia]).
  - destruct r as [| | | | | | |e]; try (exists c; split; [reflexivity|lia]). destruct (retryable e); eexists; (split; [reflexivity|lia]).
  - destruct r as [| | | | | | |e]; try (exists c; split; [reflexivity|lia]). destruct (retryable e); eexists; (split; [reflexivity|lia]).
  - destruct r as [| | | | | | |e]; try (exists c; split; [reflexivity|lia]). destruct (retryable e); eexists; (split; [reflexivity|lia]).
Qed.

(* any program only increases the counter *)
Lemma wp_collision_mono {A} (m : prog A) : forall c, wp collision_step m (fun c' _ => (c <= c')%nat) (fun c' _ => (c <= c')%nat) c.
Proof.
  induction m as [a|e|o k IH]; intros c; [apply Nat.le_refl|apply Nat.le_refl|]. rewrite wp_Do. intros r _.
  destruct (collision_total c o r) as [c' [Hc' Hle]]. exists c'. split; [exact Hc'|].
  eapply wp_mono; [| |apply IH]; intros c'' x Hle'; simpl in *; lia.
Qed.

(* one of the four file operations of atomic_write: if it raises a retryable error, that was counted *)
Lemma wp_counted_unit o c (Q : nat -> unit -> Prop) :
  (match o with OpenExcl _ | WriteFd _ | CloseFd | Remove _ => True | _ => False end) ->
  Q c tt ->
  wp collision_step (call_unit o) Q (fun c' e => (c <= c')%nat /\ (retryable e = true -> (c < c')%nat)) c.
Proof.
  intros Ho HQ. apply wp_call_unit. intros r Hv.
  destruct o; try contradiction; (vu Hv; [exists c; split; [reflexivity|exact HQ]|]);
    (eexists; split; [reflexivity|]); destruct (retryable e); split; intros; try lia; discriminate.
Qed.

Lemma wp_atomic_write_counted path content c :
  wp collision_step (atomic_write path content) (fun c' _ => (c <= c')%nat)
     (fun c' e => (c <= c')%nat /\ (retryable e = true -> (c < c')%nat)) c.
Proof.
  unfold atomic_write. apply wp_bind. apply wp_counted_unit; [exact I|].
  apply wp_bind. apply wp_catch. eapply wp_mono; [| |apply (wp_counted_unit (WriteFd content) c (fun c' _ => c' = c) I eq_refl)].
  - intros c1 u H1. cbv beta in H1. subst c1. eapply wp_mono; [| |apply (wp_counted_unit CloseFd c (fun c' _ => c' = c) I eq_refl)].
    + intros c2 u2 H2. cbv beta in H2. subst c2. lia.
    + auto.
  - intros c1 e [Hle Hlt]. cbv beta. destruct (is_OSError e) eqn:Hos; [|split; assumption].
    apply wp_bind. eapply wp_mono; [| |apply (wp_counted_unit CloseFd c1 (fun c' _ => c' = c1) I eq_refl)].
    + intros c2 u2 H2. cbv beta in H2. subst c2.
      apply wp_bind. eapply wp_mono; [| |apply (wp_counted_unit (Remove path) c1 (fun c' _ => c' = c1) I eq_refl)].
      * intros c3 u3 H3. cbv beta in H3. subst c3. apply wp_throw. split; [exact Hle|exact Hlt].
      * intros c3 e3 [H3 H3']. split; [lia|]. intros Hr. specialize (H3' Hr). lia.
    + intros c2 e2 [H2 H2']. split; [lia|]. intros Hr. specialize (H2' Hr). lia.
Qed.

Lemma try_persist_fuel d : forall fuel idx ntl c,
  wp collision_step (try_persist fuel d idx ntl)
     (fun c' r => r = OutOfFuel -> (c + fuel <= c')%nat) (fun _ _ => True) c.
Proof.
  induction fuel as [|f IH]; intros idx ntl c; [cbn [try_persist]; apply wp_ret; intros _; lia|]. cbn [try_persist].
  apply wp_bind. eapply wp_mono; [| |apply (wp_collision_mono (suffix_for_index idx) c)]; [|auto].
  intros c1 suffix H1. cbv beta.
  apply wp_bind. apply wp_call_bool. intros r Hv. vb Hv. destruct b.
  - exists (S c1). split; [reflexivity|]. eapply wp_mono; [| |apply IH]; [|auto]. intros c2 res H2. cbv beta in *. intros Hres. specialize (H2 Hres). lia.
  - exists c1. split; [reflexivity|].
    set (path := join2 (td_info_dir d) (create_trashinfo_basename (td_basename d) suffix ntl)).
    apply wp_bind. apply wp_catch. apply wp_bind.
    eapply wp_mono; [| |apply (wp_atomic_write_counted path (td_content d) c1)].
    + intros c2 u H2. cbv beta. apply wp_ret. cbv beta iota. apply wp_bind.
      eapply wp_mono; [| |apply (wp_collision_mono _ c2)]; [|auto]. intros c3 u3 H3. apply wp_ret. discriminate.
    + intros c2 e [H2 H2']. cbv beta. destruct e as [n| | | | | | | | | |]; try exact I. cbv beta iota. apply wp_ret. cbv beta iota.
      unfold retryable, retry_errno in H2'.
      destruct (N.eqb n ENAMETOOLONG) eqn:E1; cbn [andb].
      * destruct ntl; cbn [negb].
        -- destruct (N.eqb n EEXIST) eqn:E2; cbn [negb]; [|apply wp_ret; discriminate].
           apply wp_bind. eapply wp_mono; [| |apply (wp_collision_mono _ c2)]; [|auto]. intros c3 u3 H3.
           eapply wp_mono; [| |apply IH]; [|auto]. intros c4 res H4. cbv beta in *. intros Hres. specialize (H4 Hres).
           assert (c2 > c1)%nat by (apply H2'; reflexivity). lia.
        -- apply wp_bind. eapply wp_mono; [| |apply (wp_collision_mono _ c2)]; [|auto]. intros c3 u3 H3.
           eapply wp_mono; [| |apply IH]; [|auto]. intros c4 res H4. cbv beta in *. intros Hres. specialize (H4 Hres).
           assert (c2 > c1)%nat by (apply H2'; apply orb_true_r). lia.
      * destruct (N.eqb n EEXIST) eqn:E2; cbn [negb]; [|apply wp_ret; discriminate].
        apply wp_bind. eapply wp_mono; [| |apply (wp_collision_mono _ c2)]; [|auto]. intros c3 u3 H3.
        eapply wp_mono; [| |apply IH]; [|auto]. intros c4 res H4. cbv beta in *. intros Hres. specialize (H4 Hres).
        assert (c2 > c1)%nat by (apply H2'; reflexivity). lia.
Qed.

Theorem put_terminates_lemma d fuel :
  all_runs (fun t out => out = Done OutOfFuel ->
              exists c, accepts collision_step 0%nat t = Some c /\ (fuel <= c)%nat) (try_persist fuel d 0 false).
Proof.
  eapply all_runs_mono; [|apply (wp_sound collision_step _ _ _ 0%nat (try_persist_fuel d fuel 0%nat false 0%nat))].
  intros t out [c [Ha Ho]] Hout. subst out. exists c. split; [exact Ha|]. specialize (Ho eq_refl). lia.
Qed.
