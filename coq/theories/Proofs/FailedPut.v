(* C17 / C01: when trash-put gives up on an argument, nothing was moved for it.
   A two-state monitor (nothing moved yet / a move has returned normally) over the single-argument procedure
   Put.trash_single: against every answer of the environment - every errno at every operation - the procedure returns
   "failed" only in runs in which no Move returned normally; and after a Move has returned normally it issues nothing but
   log lines.  Together with WorldPut3.put_destroys_nothing: a trash-put that reports failure for its (single) argument has
   left every file and directory that existed exactly as it was. *)
From TV Require Import Prelude.Str Prelude.PosixPath Logic.Reply Prog.Prog World.World Cmd.Put Cmd.Scan
  Proofs.ProgProofs Proofs.PLogic Proofs.PutSafe Proofs.PutAll Proofs.Independence Proofs.WorldProofs Proofs.WorldPurge Proofs.WorldPut3.
Open Scope N_scope.

Definition mstep (moved : bool) (o : op) (r : res) : option bool :=
  match o with
  | Move _ _ => if moved then None else Some (match r with RUnit => true | _ => false end)
  | _ => if moved then (if is_silent o then Some true else None) else Some false
  end.

Lemma accepts_unmoved t : forall s, accepts mstep s t = Some false -> s = false /\ forall src dst, ~ In (Move src dst, RUnit) t.
Proof.
  induction t as [|[o r] t IH]; intros s H; simpl in H.
  - inversion H. split; [reflexivity|intros src dst []].
  - destruct (mstep s o r) as [s1|] eqn:Hs; [|discriminate]. destruct (IH s1 H) as [E1 Hno]. subst s1.
    assert (Es : s = false /\ forall src dst, (o, r) <> (Move src dst, RUnit)).
    { destruct s; destruct o; simpl in Hs; try discriminate; try (destruct (is_silent _) in Hs; discriminate);
        split; try reflexivity; intros src0 dst0 E; inversion E; subst; discriminate. }
    destruct Es as [Es Hne]. split; [exact Es|]. intros src dst [E|Hin]; [exact (Hne src dst E)|exact (Hno src dst Hin)].
Qed.

(* the logic of the parts that move nothing: from "nothing moved" to "nothing moved", whatever happens *)
Definition keeps {A} (m : prog A) (Q : A -> Prop) : Prop :=
  wp mstep m (fun s' a => s' = false /\ Q a) (fun s' _ => s' = false) false.
Definition KL : plogic.
Proof.
  refine {| T := fun A m Q => keeps m Q; OKop := fun o => match o with Move _ _ => False | _ => True end |}.
  - intros A a Q H. split; [reflexivity|exact H].
  - intros A e Q. reflexivity.
  - intros A m Q Q' HQ H. unfold keeps in *. eapply wp_mono; [| |exact H]; [intros s a [Hs Ha]; auto|auto].
  - intros A B m f Q' Q Hm Hf. unfold keeps in *. apply wp_bind. eapply wp_mono; [| |exact Hm]; [|auto].
    intros s a [Hs Ha]. subst s. apply Hf. exact Ha.
  - intros A m h Q Hm Hh. unfold keeps in *. apply wp_catch. eapply wp_mono; [| |exact Hm]; [auto|].
    intros s e Hs. cbv beta in Hs. subst s. destruct (h e) as [p|] eqn:He; [apply (Hh e p He)|reflexivity].
  - intros o Ho. unfold keeps. apply wp_call. intros r Hv. exists false. split; [destruct o; try contradiction; reflexivity|].
    destruct r; auto.
Defined.

Definition W {A} (m : prog A) (Q : bool -> A -> Prop) : Prop := wp mstep m Q (fun _ _ => True) false.
Lemma W_of_keeps {A} (m : prog A) (Q : A -> Prop) (Q' : bool -> A -> Prop) :
  T KL m Q -> (forall a, Q a -> Q' false a) -> W m Q'.
Proof. intros H HQ. unfold W. eapply wp_mono; [| |exact H]; [intros s a [Hs Ha]; subst s; auto|auto]. Qed.
Lemma W_bind {A B} (m : prog A) (f : A -> prog B) (Q : bool -> B -> Prop) :
  T KL m (fun _ => True) -> (forall a, W (f a) Q) -> W (bind m f) Q.
Proof.
  intros Hm Hf. unfold W. apply wp_bind. eapply wp_mono; [| |exact Hm]; [|auto].
  intros s a [Hs _]. subst s. apply Hf.
Qed.

Section One.
Variable o : put_opts.
Variable path : str.

Lemma KL_gen op : (match op with Move _ _ | Makedirs _ _ | Input _ => False | _ => True end) -> OKop KL op.
Proof. destruct op; simpl; auto. Qed.
Lemma KL_mk p : OKop KL (Makedirs p 448).  Proof. exact I. Qed.
Lemma KL_inp : po_mode o = ModeInteractive -> forall p, OKop KL (Input p).  Proof. intros _ p. exact I. Qed.
Lemma KL_plain op : put_plain op = true -> OKop KL op.
Proof. destruct op; simpl; auto; discriminate. Qed.

(* a log line changes nothing, before or after the move *)
Lemma W_log s lv ex t (Q : bool -> unit -> Prop) : Q s tt -> wp mstep (log lv ex t) Q (fun _ _ => True) s.
Proof.
  intros HQ. unfold log, call_unit. apply wp_bind. apply wp_call. intros r Hv. exists s.
  split; [destruct s; reflexivity|]. destruct r; simpl; auto.
Qed.

(* put_trash_dir.py: None = the move returned normally; Some reason = it did not, and nothing was moved *)
Lemma W_try_trash info :
  W (try_trash path info) (fun s' r => match r with None => s' = true | Some _ => s' = false end).
Proof.
  unfold W, try_trash. apply wp_catch. apply wp_bind. unfold fs_move. apply wp_bind.
  apply wp_call_bool. intros r Hv. exists false. split; [reflexivity|].
  assert (Hh : forall e, match (if is_OSError e then Some (remove_file info ;;; Ret (Some (RCannotMove e))) else None) with
                         | Some p => wp mstep p (fun s' r => match r with None => s' = true | Some _ => s' = false end) (fun _ _ => True) false
                         | None => True end).
  { intros e. destruct (is_OSError e); [|exact I]. apply wp_bind.
    eapply wp_mono; [| |apply (all_remove_file KL KL_gen info)]; [|auto].
    intros s a [Hs _]. subst s. simpl. reflexivity. }
  destruct r as [|b| | | | | |e]; try discriminate Hv.
  destruct b.
  - apply wp_throw. apply (Hh (OSError EBUSY)).
  - apply wp_call_unit. intros r2 Hv2. destruct r2 as [| | | | | | |e2]; try discriminate Hv2.
    + exists true. split; [reflexivity|]. apply wp_ret. reflexivity.
    + exists false. split; [reflexivity|]. apply (Hh e2).
Qed.

(* janitor.py trash_file_in: None = moved; Some reason = nothing moved *)
Lemma W_trash_file_in c volume :
  W (trash_file_in c o path volume) (fun s' r => match r with None => s' = true | Some _ => s' = false end).
Proof.
  unfold trash_file_in.
  apply W_bind; [apply (safe_check_secure KL KL_plain)|]. intros r1. destruct r1; [apply wp_ret; reflexivity|].
  apply W_bind; [apply (safe_gate KL KL_plain)|]. intros r2. destruct r2; [apply wp_ret; reflexivity|].
  apply W_bind; [apply (safe_make_candidate_dirs KL KL_plain KL_mk)|]. intros r3. destruct r3; [apply wp_ret; reflexivity|].
  apply W_bind; [eapply (T_mono KL); [|apply (safe_make_trashinfo_data KL KL_plain)]; auto|]. intros r4. destruct r4 as [data|]; [|apply wp_ret; reflexivity].
  apply W_bind; [apply (all_try_persist KL KL_gen)|]. intros r5. destruct r5; [apply W_try_trash|apply wp_ret; reflexivity|exact I].
Qed.

(* file_trasher.py: "failed" is returned only from the state in which nothing was moved *)
Lemma W_try_candidates volume : forall cs failures,
  W (try_candidates cs o path volume failures) (fun s' ok => ok = false -> s' = false).
Proof.
  induction cs as [|c cs IH]; intros failures; cbn [try_candidates].
  - apply W_bind; [apply (safe_describe KL KL_plain)|]. intros d.
    unfold W. apply wp_bind. apply W_log. apply wp_bind.
    eapply wp_mono; [| |apply (safe_log_failures KL KL_plain path (rev failures))]; [|auto].
    intros s a [Hs _]. apply wp_ret. intros _. exact Hs.
  - unfold W. apply wp_bind. apply W_log. apply wp_bind.
    eapply wp_mono; [| |apply (W_trash_file_in c volume)]; [|auto].
    intros s r Hr. destruct r as [why|].
    + subst s. apply IH.
    + apply wp_bind. apply W_log. apply wp_ret. discriminate.
Qed.

Lemma W_trash_file : W (trash_file path o) (fun s' ok => ok = false -> s' = false).
Proof.
  unfold trash_file. apply W_bind.
  - destruct (po_forced_volume o) as [[|c x]|]; try apply (safe_volume_of_parent KL KL_plain). apply (T_ret KL). exact I.
  - intros volume. apply W_bind; [apply (safe_possible_trash_directories_for KL KL_plain)|]. intros cs. apply W_try_candidates.
Qed.

Lemma W_report : W (d <- describe path ;; log WARNING true ($"cannot trash " ++ d ++ $" '" ++ path ++ $"'") ;;; Ret false)
                   (fun s' ok => ok = false -> s' = false).
Proof.
  apply W_bind; [apply (safe_describe KL KL_plain)|]. intros d. unfold W. apply wp_bind. apply W_log. apply wp_ret. auto.
Qed.

Lemma W_trash_single : W (trash_single path o) (fun s' ok => ok = false -> s' = false).
Proof.
  unfold trash_single. destruct (should_skipped_by_specs path); [apply W_report|].
  apply W_bind; [apply (T_call_bool KL); exact I|]. intros e. destruct e; simpl.
  2:{ destruct (po_mode o); try apply W_report. apply wp_ret. discriminate. }
  apply W_bind; [apply (T_call_bool KL); exact I|]. intros acc.
  destruct (po_mode o) eqn:Em; try apply W_trash_file.
  destruct acc; [|apply W_trash_file].
  apply W_bind; [apply (safe_describe KL KL_plain)|]. intros d.
  apply W_bind.
  { apply (T_catch KL); [apply (T_call_str KL); exact I|]. intros e q He. destruct e; inversion He. apply (T_ret KL). exact I. }
  intros reply. destruct (parse_user_reply reply); [apply W_trash_file|apply wp_ret; discriminate].
Qed.
End One.

(* the single-argument procedure returns "failed" only in runs without a move that returned normally *)
Theorem failed_argument_was_not_moved_lemma path o :
  all_runs (fun t out => out = Done false -> forall src dst, ~ In (Move src dst, RUnit) t) (trash_single path o).
Proof.
  generalize (wp_sound mstep _ _ _ _ (W_trash_single o path)). apply all_runs_mono.
  intros t out [s' [Ha Ho]] Eo. subst out. specialize (Ho eq_refl). subst s'. apply (proj2 (accepts_unmoved t false Ha)).
Qed.

(* C17 on the world: a trash-put that reports failure for its single argument has changed nothing that existed - at the end and
   at every crash point on the way, in every tree-shaped file system the run is consistent with, whatever errors it met *)
Theorem failed_put_changes_nothing_lemma o p : po_paths o = [p] ->
  all_runs (fun t out => out = Done EX_IOERR ->
     forall s, wf (wfs s) -> wfd s = None ->
     forall t1 t2 s1, t = t1 ++ t2 -> wrun s t1 s1 ->
     forall q, wfs s q <> None -> wfs s1 q = wfs s q) (put_main o).
Proof.
  intros Hp.
  generalize (all_runs_and _ _ _ (put_destroys_nothing_lemma o) (put_arguments_are_independent_lemma o)). rewrite Hp.
  intros H. apply all_runs_iff. intros t out Hr. apply (proj1 (all_runs_iff _ _) H) in Hr. destruct Hr as [Hkept [fe [Hea Hout]]].
  intros Eo s Hwf Hfd t1 t2 s1 Et Hrun q Hex. subst out.
  apply (Hkept s Hwf Hfd t1 t2 s1 Et Hrun q Hex).
  (* no move returned normally in t *)
  destruct fe as [failed| |]; try contradiction. destruct Hout as [Hcode _].
  inversion Hea as [|p0 ps0 ta ok tb failed' H1 H2| |]; subst. inversion H2; subst. rewrite app_nil_r.
  assert (ok = false).
  { destruct ok; [|reflexivity]. exfalso. destruct Hcode as [_ Hc]. specialize (Hc eq_refl). discriminate Hc. }
  subst ok. intros src dst Hin. exfalso.
  apply (proj1 (all_runs_iff _ _) (failed_argument_was_not_moved_lemma p o) ta (Done false) H1 eq_refl src dst Hin).
Qed.
