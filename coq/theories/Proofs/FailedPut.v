(* C17 / C01: when trash-put gives up on an argument, nothing was moved for it.
   A two-state monitor (nothing moved yet / a move has returned normally) over the single-argument procedure
   Put.trash_single: against every answer of the environment - every errno at every operation - the procedure returns
   "failed" only in runs in which no Move returned normally; and after a Move has returned normally it issues nothing but
   log lines.  Together with WorldPut3.put_destroys_nothing: a trash-put that reports failure for its (single) argument has
   left every file and directory that existed exactly as it was. *)
From TV Require Import Prelude.Str Prelude.PosixPath Logic.Reply Prog.Prog World.World Cmd.Put Cmd.Scan
  Proofs.ProgProofs Proofs.PLogic Proofs.PutSafe Proofs.PutAll Proofs.Independence Proofs.WorldProofs Proofs.WorldPurge Proofs.WorldPut3.
Open Scope N_scope.

Definition mstep (moved : bool) (o : op) (r : res) : option bool :=
  match o with
  | Move _ _ => if moved then None else Some (match r with RUnit => true | _ => false end)
  | _ => if moved then (if is_silent o then Some true else None) else Some false
  end.

Lemma accepts_unmoved t : forall s, accepts mstep s t = Some false -> s = false /\ forall src dst, ~ In (Move src dst, RUnit) t.
Proof.
  induction t as [|[o r] t IH]; intros s H; simpl in H.
  - inversion H. split; [reflexivity|intros src dst []].
  - destruct (mstep s o r) as [s1|] eqn:Hs; [|discriminate]. destruct (IH s1 H) as [E1 Hno]. subst s1.
    assert (Es : s = false /\ forall src dst, (o, r) <> (Move src dst, RUnit)).
    { destruct s; destruct o; simpl in Hs; try discriminate; try (destruct (is_silent _) in Hs; discriminate);
        split; try reflexivity; intros src0 dst0 E; inversion E; subst; discriminate. }
    destruct Es as [Es Hne]. split; [exact Es|]. intros src dst [E|Hin]; [exact (Hne src dst E)|exact (Hno src dst Hin)].
Qed.

(* the logic of the parts that move nothing: from "nothing moved" to "nothing moved", whatever happens *)
Definition keeps {A} (m : prog A) (Q : A -> Prop) : Prop :=
  wp mstep m (fun s' a => s' = false /\ Q a) (fun s' _ => s' = false) false.
Definition KL : plogic.
Proof.
  refine {| T := fun A m Q => keeps m Q; OKop := fun o => match o with Move _ _ => False | _ => True end |}.
  - intros A a Q H. split; [reflexivity|exact H].
  - intros A e Q. reflexivity.
  - intros A m Q Q' HQ H. unfold keeps in *. eapply wp_mono; [| |exact H]; [intros s a [Hs Ha]; auto|auto].
  - intros A B m f Q' Q Hm Hf. unfold keeps in *. apply wp_bind. eapply wp_mono; [| |exact Hm]; [|auto].
    intros s a [Hs Ha]. subst s. apply Hf. exact Ha.
  - intros A m h Q Hm Hh. unfold keeps in *. apply wp_catch. eapply wp_mono; [| |exact Hm]; [auto|].
    intros s e Hs. cbv beta in Hs. subst s. destruct (h e) as [p|] eqn:He; [apply (Hh e p He)|reflexivity].
  - intros o Ho. unfold keeps. apply wp_call. intros r Hv. exists false. split; [destruct o; try contradiction; reflexivity|].
    destruct r; auto.
Defined.

Definition W {A} (m : prog A) (Q : bool -> A -> Prop) : Prop := wp mstep m Q (fun _ _ => True) false.
Lemma W_of_keeps {A} (m : prog A) (Q : A -> Prop) (Q' : bool -> A -> Prop) :
  T KL m Q -> (forall a, Q a -> Q' false a) -> W m Q'.
Proof. intros H HQ. unfold W. eapply wp_mono; [| |exact H]; [intros s a [Hs Ha]; subst s; auto|auto]. Qed.
Lemma W_bind {A B} (m : prog A) (f : A -> prog B) (Q : bool -> B -> Prop) :
  T KL m (fun _ => True) -> (forall a, W (f a) Q) -> W (bind m f) Q.
Proof.
  intros Hm Hf. unfold W. apply wp_bind. eapply wp_mono; [| |exact Hm]; [|auto].
  intros s a [Hs _]. subst s. apply Hf.
Qed.

Section One.
Variable o : put_opts.
Variable path : str.

Lemma KL_gen op : (match op with Move _ _ | Makedirs _ _ | Input _ => False | _ => True end) -> OKop KL op.
Proof. destruct op; simpl; auto. Qed.
Lemma KL_mk p : OKop KL (Makedirs p 448).  Proof. exact I. Qed.
Lemma KL_inp : po_mode o = ModeInteractive -> forall p, OKop KL (Input p).  Proof. intros _ p. exact I. Qed.
Lemma KL_plain op : put_plain op = true -> OKop KL op.
Proof. destruct op; simpl; auto; discriminate. Qed.

(* a log line changes nothing, before or after the move *)
Lemma W_log s lv ex t (Q : bool -> unit -> Prop) : Q s tt -> wp mstep (log lv ex t) Q (fun _ _ => True) s.
Proof.
  intros HQ. unfold log, call_unit. apply wp_bind. apply wp_call. intros r Hv. exists s.
  split; [destruct s; reflexivity|]. destruct r; simpl; auto.
Qed.

(* put_trash_dir.py: None = the move returned normally; Some reason = it did not, and nothing was moved *)
Lemma W_try_trash info :
  W (try_trash path info) (fun s' r => match r with None => s' = true | Some _ => s' = false end).
Proof.
  unfold W, try_trash. apply wp_catch. apply wp_bind. unfold fs_move. apply wp_bind.
  apply wp_call_bool. intros r Hv. exists false. split; [reflexivity|].
  assert (Hh : forall e, match (if is_OSError e then Some (remove_file info ;;; Ret (Some (RCannotMove e))) else None) with
                         | Some p => wp mstep p (fun s' r => match r with None => s' = true | Some _ => s' = false end) (fun _ _ => True) false
                         | None => True end).
  { intros e. destruct (is_OSError e); [|exact I]. apply wp_bind.
    eapply wp_mono; [| |apply (all_remove_file KL KL_gen info)]; [|auto].
    intros s a [Hs _]. subst s. simpl. reflexivity. }
  destruct r as [|b| | | | | |e]; try discriminate Hv.
  destruct b.
  - apply wp_throw. apply (Hh (OSError EBUSY)).
  - apply wp_call_unit. intros r2 Hv2. destruct r2 as [| | | | | | |e2]; try discriminate Hv2.
    + exists true. split; [reflexivity|]. apply wp_ret. reflexivity.
    + exists false. split; [reflexivity|]. apply (Hh e2).
Qed.

(* janitor.py trash_file_in: None = moved; Some reason = nothing moved *)
Lemma W_trash_file_in c volume :
  W (trash_file_in c o path volume) (fun s' r => match r with None => s' = true | Some _ => s' = false end).
Proof.
  unfold trash_file_in.
  apply W_bind; [apply (safe_check_secure KL KL_plain)|]. intros r1. destruct r1; [apply wp_ret; reflexivity|].
  apply W_bind; [apply (safe_gate KL KL_plain)|]. intros r2. destruct r2; [apply wp_ret; reflexivity|].
  apply W_bind; [apply (safe_make_candidate_dirs KL KL_plain KL_mk)|]. intros r3. destruct r3; [apply wp_ret; reflexivity|].
  apply W_bind; [eapply (T_mono KL); [|apply (safe_make_trashinfo_data KL KL_plain)]; auto|]. intros r4. destruct r4 as [data|]; [|apply wp_ret; reflexivity].
  apply W_bind; [apply (all_try_persist KL KL_gen)|]. intros r5. destruct r5; [apply W_try_trash|apply wp_ret; reflexivity|exact I].
Qed.

(* file_trasher.py: "failed" is returned only from the state in which nothing was moved *)
Lemma W_try_candidates volume : forall cs failures,
  W (try_candidates cs o path volume failures) (fun s' ok => s' = ok).
Proof.
  induction cs as [|c cs IH]; intros failures; cbn [try_candidates].
  - apply W_bind; [apply (safe_describe KL KL_plain)|]. intros d.
    unfold W. apply wp_bind. apply W_log. apply wp_bind.
    eapply wp_mono; [| |apply (safe_log_failures KL KL_plain path (rev failures))]; [|auto].
    intros s a [Hs _]. apply wp_ret. exact Hs.
  - unfold W. apply wp_bind. apply W_log. apply wp_bind.
    eapply wp_mono; [| |apply (W_trash_file_in c volume)]; [|auto].
    intros s r Hr. destruct r as [why|].
    + subst s. apply IH.
    + subst s. apply wp_bind. apply W_log. apply wp_ret. reflexivity.
Qed.

Lemma W_trash_file : W (trash_file path o) (fun s' ok => s' = ok).
Proof.
  unfold trash_file. apply W_bind.
  - destruct (po_forced_volume o) as [[|c x]|]; try apply (safe_volume_of_parent KL KL_plain). apply (T_ret KL). exact I.
  - intros volume. apply W_bind; [apply (safe_possible_trash_directories_for KL KL_plain)|]. intros cs. apply W_try_candidates.
Qed.

Lemma W_report : W (d <- describe path ;; log WARNING true ($"cannot trash " ++ d ++ $" '" ++ path ++ $"'") ;;; Ret false)
                   (fun s' ok => ok = false -> s' = false).
Proof.
  apply W_bind; [apply (safe_describe KL KL_plain)|]. intros d. unfold W. apply wp_bind. apply W_log. apply wp_ret. auto.
Qed.

Lemma W_trash_file' : W (trash_file path o) (fun s' ok => ok = false -> s' = false).
Proof. eapply wp_mono; [| |apply W_trash_file]; [intros s a E Ea; cbv beta in E; rewrite E; exact Ea|auto]. Qed.

Lemma W_trash_single : W (trash_single path o) (fun s' ok => ok = false -> s' = false).
Proof.
  unfold trash_single. destruct (should_skipped_by_specs path); [apply W_report|].
  apply W_bind; [apply (T_call_bool KL); exact I|]. intros e. destruct e; simpl.
  2:{ destruct (po_mode o); try apply W_report. apply wp_ret. discriminate. }
  apply W_bind; [apply (T_call_bool KL); exact I|]. intros acc.
  destruct (po_mode o) eqn:Em; try apply W_trash_file'.
  destruct acc; [|apply W_trash_file'].
  apply W_bind; [apply (safe_describe KL KL_plain)|]. intros d.
  apply W_bind.
  { apply (T_catch KL); [apply (T_call_str KL); exact I|]. intros e q He. destruct e; inversion He. apply (T_ret KL). exact I. }
  intros reply. destruct (parse_user_reply reply); [apply W_trash_file'|apply wp_ret; discriminate].
Qed.
End One.

(* ---- and success is honest too: the procedure returns "done" only when a move returned normally, or the argument was excused:
   it does not exist and -f was given, or the user was asked about it (and did not say yes) ---- *)
Definition flags := (bool * bool)%type.          (* (some lexists answered "absent", the user was asked) *)
Definition fstep (f : flags) (o : op) (r : res) : flags :=
  match o, r with
  | Lexists _, RBool false => (true, snd f)
  | Input _, _ => (fst f, true)
  | _, _ => f
  end.
Definition pstep (s : bool * flags) (o : op) (r : res) : option (bool * flags) :=
  match mstep (fst s) o r with Some m' => Some (m', fstep (snd s) o r) | None => None end.

Lemma wp_product {A} (m : prog A) : forall (Q : bool -> A -> Prop) (E : bool -> exn -> Prop) s f,
  wp mstep m Q E s -> wp pstep m (fun s' a => Q (fst s') a) (fun s' e => E (fst s') e) (s, f).
Proof.
  induction m as [a|e|o k IH]; intros Q E s f H; [exact H|exact H|].
  assert (H' : forall r, valid_res o r = true -> exists s', mstep s o r = Some s' /\ wp mstep (k r) Q E s') by exact H.
  change (forall r, valid_res o r = true -> exists s', pstep (s, f) o r = Some s' /\
            wp pstep (k r) (fun s' a => Q (fst s') a) (fun s' e => E (fst s') e) s').
  intros r Hv. destruct (H' r Hv) as [s1 [Hs Hw]]. exists (s1, fstep f o r). split; [unfold pstep; simpl; rewrite Hs; reflexivity|].
  apply IH. exact Hw.
Qed.

Section Honest.
Variable o : put_opts.
Variable path : str.
Definition excused (s : bool * flags) : Prop :=
  fst s = true \/ (fst (snd s) = true /\ po_mode o = ModeForce) \/ (snd (snd s) = true /\ po_mode o = ModeInteractive).
Notation P m Q s := (wp pstep m Q (fun _ _ => True) s).

(* a part that moves nothing, in the product monitor: the first component stays false *)
Lemma P_of_keeps {A} (m : prog A) (Q : A -> Prop) f (Q' : bool * flags -> A -> Prop) :
  T KL m Q -> (forall f' a, Q a -> Q' (false, f') a) -> P m Q' (false, f).
Proof.
  intros H HQ. eapply wp_mono; [| |apply (wp_product m _ _ false f H)]; [|auto].
  intros [s1 f'] a [Hs Ha]. simpl in Hs. subst s1. apply HQ. exact Ha.
Qed.
Lemma P_bind_keeps {A B} (m : prog A) (k : A -> prog B) f (Q : bool * flags -> B -> Prop) :
  T KL m (fun _ => True) -> (forall f' a, P (k a) Q (false, f')) -> P (bind m k) Q (false, f).
Proof. intros Hm Hk. apply wp_bind. apply (P_of_keeps m (fun _ => True)); [exact Hm|]. intros f' a _. apply Hk. Qed.

Lemma P_report f : P (d <- describe path ;; log WARNING true ($"cannot trash " ++ d ++ $" '" ++ path ++ $"'") ;;; Ret false)
                     (fun s' ok => ok = true -> excused s') (false, f).
Proof.
  apply P_bind_keeps; [apply (safe_describe KL KL_plain)|]. intros f' d. apply wp_bind.
  unfold log, call_unit. apply wp_bind. apply wp_call. intros r Hv. eexists. split; [reflexivity|].
  destruct r; simpl; try exact I; apply wp_ret; apply wp_ret; discriminate.
Qed.

Lemma P_trash_file f : P (trash_file path o) (fun s' ok => ok = true -> excused s') (false, f).
Proof.
  eapply wp_mono; [| |apply (wp_product _ _ _ false f (W_trash_file o path))]; [|auto].
  intros [s1 f'] ok E Hok. simpl in E. left. simpl. rewrite E. exact Hok.
Qed.

Lemma P_trash_single : P (trash_single path o) (fun s' ok => ok = true -> excused s') (false, (false, false)).
Proof.
  unfold trash_single. destruct (should_skipped_by_specs path); [apply P_report|].
  apply wp_bind. apply wp_call_bool. intros r Hv. destruct r as [|e| | | | | |]; try discriminate Hv.
  eexists. split; [reflexivity|]. destruct e; simpl.
  2:{ destruct (po_mode o) eqn:Em; try apply P_report. apply wp_ret. intros _. right. left. split; [reflexivity|exact Em]. }
  apply wp_bind. apply wp_call_bool. intros r Hv2. destruct r as [|acc| | | | | |]; try discriminate Hv2.
  eexists. split; [reflexivity|]. simpl.
  destruct (po_mode o) eqn:Em; try apply P_trash_file.
  destruct acc; [|apply P_trash_file].
  apply P_bind_keeps; [apply (safe_describe KL KL_plain)|]. intros f' d.
  apply wp_bind. apply wp_catch. apply wp_call_str. intros r Hv3.
  assert (Hasked : forall reply f2, snd f2 = true ->
            P (if parse_user_reply reply then trash_file path o else Ret true) (fun s' ok => ok = true -> excused s') (false, f2)).
  { intros reply f2 Hf2. destruct (parse_user_reply reply); [apply P_trash_file|].
    apply wp_ret. intros _. right. right. split; [exact Hf2|exact Em]. }
  destruct r as [| |reply| | | | |e]; try discriminate Hv3.
  - eexists. split; [reflexivity|]. simpl. apply Hasked. reflexivity.
  - eexists. split; [reflexivity|]. simpl. destruct e; try exact I. apply wp_ret. apply Hasked. reflexivity.
Qed.
End Honest.

Lemma fstep_absent f o r : fst (fstep f o r) = true -> fst f = true \/ exists q, o = Lexists q /\ r = RBool false.
Proof. destruct o; simpl; auto. destruct r as [|[|]| | | | | |]; simpl; eauto. Qed.
Lemma fstep_asked f o r : snd (fstep f o r) = true -> snd f = true \/ exists p, o = Input p.
Proof. destruct o; simpl; auto; try solve [destruct r as [|[|]| | | | | |]; simpl; auto]. eauto. Qed.
Lemma mstep_moved s o r m1 : mstep s o r = Some m1 -> m1 = true -> s = true \/ exists src dst, o = Move src dst /\ r = RUnit.
Proof.
  intros H E. subst m1. destruct s; [left; reflexivity|]. right. destruct o; simpl in H; try discriminate.
  destruct r; try discriminate. eauto.
Qed.

Lemma paccepts t : forall s s', accepts pstep s t = Some s' ->
  (fst s' = true -> fst s = true \/ exists src dst, In (Move src dst, RUnit) t) /\
  (fst (snd s') = true -> fst (snd s) = true \/ exists q, In (Lexists q, RBool false) t) /\
  (snd (snd s') = true -> snd (snd s) = true \/ exists p r, In (Input p, r) t).
Proof.
  induction t as [|[o r] t IH]; intros s s' H; simpl in H.
  - inversion H; subst. auto.
  - unfold pstep in H at 1. destruct (mstep (fst s) o r) as [m1|] eqn:Em; [|discriminate].
    destruct (IH _ _ H) as [H1 [H2 H3]]. simpl in H1, H2, H3. repeat split.
    + intros Hs. destruct (H1 Hs) as [E|[src [dst Hin]]]; [|right; exists src, dst; right; exact Hin].
      destruct (mstep_moved _ _ _ _ Em E) as [E1|[src [dst [Eo Er]]]]; [left; exact E1|]. subst. right. exists src, dst. left. reflexivity.
    + intros Hs. destruct (H2 Hs) as [E|[q Hin]]; [|right; exists q; right; exact Hin].
      destruct (fstep_absent _ _ _ E) as [E1|[q [Eo Er]]]; [left; exact E1|]. subst. right. exists q. left. reflexivity.
    + intros Hs. destruct (H3 Hs) as [E|[p [r0 Hin]]]; [|right; exists p, r0; right; exact Hin].
      destruct (fstep_asked _ _ _ E) as [E1|[p Eo]]; [left; exact E1|]. subst. right. exists p, r. left. reflexivity.
Qed.

Theorem successful_argument_was_moved_or_excused_lemma path o :
  all_runs (fun t out => out = Done true ->
      (exists src dst, In (Move src dst, RUnit) t) \/
      (po_mode o = ModeForce /\ exists q, In (Lexists q, RBool false) t) \/
      (po_mode o = ModeInteractive /\ exists p r, In (Input p, r) t)) (trash_single path o).
Proof.
  generalize (wp_sound pstep _ _ _ _ (P_trash_single o path)). apply all_runs_mono.
  intros t out [s' [Ha Ho]] Eo. subst out. specialize (Ho eq_refl).
  destruct (paccepts t _ _ Ha) as [H1 [H2 H3]]. simpl in H1, H2, H3.
  destruct Ho as [Hm|[[Hf Hmode]|[Hq Hmode]]].
  - left. destruct (H1 Hm) as [E|H]; [discriminate E|exact H].
  - right. left. split; [exact Hmode|]. destruct (H2 Hf) as [E|H]; [discriminate E|exact H].
  - right. right. split; [exact Hmode|]. destruct (H3 Hq) as [E|H]; [discriminate E|exact H].
Qed.

(* the single-argument procedure returns "failed" only in runs without a move that returned normally *)
Theorem failed_argument_was_not_moved_lemma path o :
  all_runs (fun t out => out = Done false -> forall src dst, ~ In (Move src dst, RUnit) t) (trash_single path o).
Proof.
  generalize (wp_sound mstep _ _ _ _ (W_trash_single o path)). apply all_runs_mono.
  intros t out [s' [Ha Ho]] Eo. subst out. specialize (Ho eq_refl). subst s'. apply (proj2 (accepts_unmoved t false Ha)).
Qed.

(* C17 on the world: a trash-put that reports failure for its single argument has changed nothing that existed - at the end and
   at every crash point on the way, in every tree-shaped file system the run is consistent with, whatever errors it met *)
Theorem failed_put_changes_nothing_lemma o p : po_paths o = [p] ->
  all_runs (fun t out => out = Done EX_IOERR ->
     forall s, wf (wfs s) -> wfd s = None ->
     forall t1 t2 s1, t = t1 ++ t2 -> wrun s t1 s1 ->
     forall q, wfs s q <> None -> wfs s1 q = wfs s q) (put_main o).
Proof.
  intros Hp.
  generalize (all_runs_and _ _ _ (put_destroys_nothing_lemma o) (put_arguments_are_independent_lemma o)). rewrite Hp.
  intros H. apply all_runs_iff. intros t out Hr. apply (proj1 (all_runs_iff _ _) H) in Hr. destruct Hr as [Hkept [fe [Hea Hout]]].
  intros Eo s Hwf Hfd t1 t2 s1 Et Hrun q Hex. subst out.
  apply (Hkept s Hwf Hfd t1 t2 s1 Et Hrun q Hex).
  (* no move returned normally in t *)
  destruct fe as [failed| |]; try contradiction. destruct Hout as [Hcode _].
  inversion Hea as [|p0 ps0 ta ok tb failed' H1 H2| |]; subst. inversion H2; subst. rewrite app_nil_r.
  assert (ok = false).
  { destruct ok; [|reflexivity]. exfalso. destruct Hcode as [_ Hc]. specialize (Hc eq_refl). discriminate Hc. }
  subst ok. intros src dst Hin. exfalso.
  apply (proj1 (all_runs_iff _ _) (failed_argument_was_not_moved_lemma p o) ta (Done false) H1 eq_refl src dst Hin).
Qed.

(* one argument, at most one move: after a move has returned normally the procedure issues nothing but log lines (the monitor accepts
   no further operation in that state), so an argument is never moved twice, and nothing is cleaned up or created after its move *)
Theorem one_move_per_argument_lemma path o :
  all_runs (fun t _ => accepts mstep false t <> None) (trash_single path o).
Proof.
  generalize (wp_sound mstep _ _ _ _ (W_trash_single o path)). apply all_runs_mono.
  intros t out [s' [Ha _]]. rewrite Ha. discriminate.
Qed.
