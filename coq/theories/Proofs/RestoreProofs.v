(* trash-restore: its own discovery/reading code verified once for every program logic, then
   C15 (payload moved out before the info is removed), C06 (no move onto an existing destination
   without --overwrite) and C13 (nothing is restored unless the reply denotes valid indexes). *)
From TV Require Import Prelude.Str Prelude.PosixPath Prelude.SortStable Codec.DateFmt Codec.TrashInfo
  Logic.Calendar Logic.Indexes Logic.Scope Prog.Prog Cmd.Put Cmd.Scan Cmd.ListCmd Cmd.Restore
  Proofs.ProgProofs Proofs.PLogic Proofs.ScanProofs Proofs.PathProofs Proofs.OrigLocProofs Proofs.OrderProofs.
Open Scope N_scope.

(* every TrashedFile built by the reader pairs an info path with ITS payload path *)
Definition wf_tf (t : trashed_file) : Prop := tf_payload t = path_of_backup_copy (tf_info t).

Lemma insert_Forall {A} (lt : A -> A -> bool) (P : A -> Prop) x l : P x -> Forall P l -> Forall P (insert lt x l).
Proof.
  intros Hx. induction l as [|y l IH]; simpl; intros Hl; [constructor; auto|].
  destruct (lt x y); [constructor; auto|]. inversion Hl; subst. constructor; auto.
Qed.
Lemma sort_stable_Forall {A} (lt : A -> A -> bool) (P : A -> Prop) l : Forall P l -> Forall P (sort_stable lt l).
Proof.
  unfold sort_stable. assert (G : forall l acc, Forall P acc -> Forall P l -> Forall P (fold_left (fun acc x => insert lt x acc) l acc)).
  { clear l. induction l as [|x l IH]; simpl; intros acc Ha Hl; [exact Ha|].
    inversion Hl; subst. apply IH; [apply insert_Forall; auto|auto]. }
  intros H. apply G; [constructor|exact H].
Qed.
Lemma sort_files_Forall (P : trashed_file -> Prop) m l : Forall P l -> Forall P (sort_files m l).
Proof. intros H. destruct m; simpl; auto using sort_stable_Forall. Qed.

Definition restore_read_op (o : op) : bool :=
  match o with
  | Exists _ | Isdir _ | Stat _ | Islink _ | ListMounts | Abspath _ | Ismount _ | Listdir _ | ReadText _ | Log _ _ _ => true
  | _ => false
  end.

Section RestoreScan.
Variable L : plogic.
Hypothesis Hread : forall o, restore_read_op o = true -> OKop L o.
Notation TT := (T L).
Ltac aret := first [apply T_ret; exact I | apply T_throw].
Ltac probe := apply Hread; reflexivity.
Lemma Hscan o : scan_op o = true -> OKop L o.
Proof. intros H. apply Hread. destruct o; try discriminate; reflexivity. Qed.

Lemma safe_all_info_files td : TT (all_info_files td) (fun _ => True).
Proof.
  unfold all_info_files. apply T_catch.
  - eapply T_bind; [apply T_call_list; probe|]. intros; aret.
  - intros e p He. destruct (is_OSError e); inversion He. aret.
Qed.

Lemma safe_read_trashed_file volume is_ti info_path :
  TT (read_trashed_file volume is_ti info_path) (fun r => match r with Some t => wf_tf t | None => True end).
Proof.
  unfold read_trashed_file, warn. destruct is_ti; simpl.
  2:{ apply T_seq; [apply T_call_unit; probe|apply T_ret; exact I]. }
  eapply T_bind with (Q' := fun _ => True).
  - apply T_catch.
    + eapply T_bind; [apply T_call_str; probe|]. intros; aret.
    + intros e p He. destruct (is_OSError e); [inversion He; aret|]. destruct e; inversion He; aret.
  - intros r _. destruct r as [contents|[|]].
    + destruct (parse_original_location contents volume).
      * apply T_ret. reflexivity.
      * apply T_seq; [apply T_call_unit; probe|apply T_ret; exact I].
    + apply T_seq; [apply T_call_unit; probe|apply T_ret; exact I].
    + apply T_seq; [apply T_call_unit; probe|apply T_ret; exact I].
Qed.

Lemma safe_restore_scan_dir scope acc dv : Forall wf_tf acc -> TT (restore_scan_dir scope acc dv) (Forall wf_tf).
Proof.
  intros Hacc. unfold restore_scan_dir. eapply T_bind; [apply safe_all_info_files|]. intros infos _.
  apply safe_fold_inv; [|exact Hacc]. intros s it _ Hs.
  eapply T_bind; [apply safe_read_trashed_file|]. intros t Ht. apply T_ret.
  destruct t as [tf|]; [|exact Hs]. destruct (matches_path (tf_location tf) scope); [|exact Hs].
  apply Forall_app. split; [exact Hs|constructor; [exact Ht|constructor]].
Qed.

Lemma safe_restore_volume uid scope acc volume : Forall wf_tf acc -> TT (restore_volume uid scope acc volume) (Forall wf_tf).
Proof.
  intros Hacc. unfold restore_volume, restore_top1.
  eapply T_bind with (Q' := Forall wf_tf).
  - eapply T_bind; [apply (safe_valid_to_be_read L Hscan)|]. intros r _.
    destruct r; try (apply T_ret; exact Hacc). apply safe_restore_scan_dir. exact Hacc.
  - intros acc1 H1. apply safe_restore_scan_dir. exact H1.
Qed.

Lemma safe_all_files_trashed_from_path o scope : TT (all_files_trashed_from_path o scope) (Forall wf_tf).
Proof.
  unfold all_files_trashed_from_path. destruct (ro_trash_dir o) as [[|c x]|].
  2:{ eapply T_bind; [apply (safe_volume_of L Hscan)|]. intros v _. apply safe_restore_scan_dir. constructor. }
  all: (eapply T_bind;
    [apply safe_fold_inv with (Inv := Forall wf_tf);
      [intros acc p _ Hacc; eapply T_bind; [apply (safe_volume_of L Hscan)|]; intros v _; apply safe_restore_scan_dir; exact Hacc
      |constructor]|];
    intros acc Hacc; eapply T_bind; [apply T_call_list; probe|]; intros _ _;
    eapply T_bind; [apply T_call_list; probe|]; intros l _;
    unfold restore_mounts;
    apply (safe_each_mount_point L Hscan (Forall wf_tf)); [intros; apply safe_restore_volume; assumption|exact Hacc]).
Qed.
End RestoreScan.

(* ---------------------------------------------------------------- the command, for any logic in which the
   reading/printing/asking operations are fine and restoring one well-formed entry is fine *)
Definition restore_plain_op (o : op) : bool :=
  restore_read_op o || match o with Realpath _ | Out _ _ | Input _ => true | _ => false end.

Lemma chosen_Forall (P : trashed_file -> Prop) files idxs : Forall P files ->
  Forall P (flat_map (fun i => match nth_error files (Z.to_nat i) with Some t => [t] | None => [] end) idxs).
Proof.
  intros H. induction idxs as [|i idxs IH]; simpl; [constructor|]. apply Forall_app. split; [|exact IH].
  destruct (nth_error files (Z.to_nat i)) eqn:E; [|constructor]. constructor; [|constructor].
  rewrite Forall_forall in H. apply H. eapply nth_error_In; eauto.
Qed.

Section RestoreMain.
Variable L : plogic.
Hypothesis Hplain : forall o, restore_plain_op o = true -> OKop L o.
Variable o : restore_opts.
Hypothesis Hone : forall t, wf_tf t -> T L (restore_trashed_file t (ro_overwrite o)) (fun _ => True).
Notation TT := (T L).
Ltac aret := first [apply T_ret; exact I | apply T_throw].
Ltac plain := apply Hplain; reflexivity.
Lemma Hread' x : restore_read_op x = true -> OKop L x.
Proof. intros H. apply Hplain. unfold restore_plain_op. rewrite H. reflexivity. Qed.

Lemma safe_print_listing l : forall i, TT (print_listing i l) (fun _ => True).
Proof. induction l as [|t l IH]; simpl; intros i; [aret|]. apply T_seq; [apply T_call_unit; plain|apply IH]. Qed.

Lemma safe_restore_selected l : Forall wf_tf l -> TT (restore_selected l (ro_overwrite o)) (fun _ => True).
Proof.
  induction l as [|t l IH]; simpl; intros H; [aret|]. inversion H; subst.
  eapply T_bind; [apply Hone; assumption|]. intros r _. destruct r; [apply IH; assumption|aret].
Qed.

Lemma safe_die exact msg : TT (die exact msg) (fun _ => True).
Proof. unfold die, warn. apply T_seq; [apply T_call_unit; plain|aret]. Qed.

Lemma restore_main_T : TT (restore_main o) (fun _ => True).
Proof.
  unfold restore_main. eapply T_bind; [apply T_call_str; plain|]. intros curdir _.
  eapply T_bind; [apply (safe_all_files_trashed_from_path L Hread')|]. intros found Hfound.
  assert (Hfiles := sort_files_Forall wf_tf (ro_sort o) found Hfound).
  destruct (sort_files (ro_sort o) found) as [|f fs] eqn:Es.
  - eapply T_bind; [apply T_call_str; plain|]. intros cwd _. apply T_seq; [apply T_call_unit; plain|aret].
  - apply T_seq; [apply safe_print_listing|].
    eapply T_bind with (Q' := fun _ => True).
    + apply T_catch.
      * eapply T_bind; [apply T_call_str; plain|]. intros; aret.
      * intros e p He. destruct e; inversion He; aret.
    + intros r _. destruct r as [[|c reply]|]; [apply T_seq; [apply T_call_unit; plain|aret]| |apply safe_die].
      destruct (parse_indexes (c :: reply) (Z.of_nat (length (f :: fs)))); [|apply safe_die|aret].
      eapply T_bind; [apply safe_restore_selected; apply chosen_Forall; exact Hfiles|].
      intros res _. destruct res as [|[ex msg]]; [aret|apply safe_die].
Qed.
End RestoreMain.

Ltac vb Hv := match type of Hv with valid_res ?o ?r = true =>
  let b := fresh "b" in let Hb := fresh "Hb" in destruct (valid_bool o r eq_refl Hv) as [b Hb]; subst r end.

Ltac vu Hv := match type of Hv with valid_res ?o ?r = true =>
  let e := fresh "e" in let He := fresh "He" in let Hos := fresh "Hos" in
  destruct (valid_unit o r eq_refl Hv) as [He|[e [He Hos]]]; subst r end.

(* ---------------------------------------------------------------- C15 for restore: order_step true *)
Lemma restore_plain_accepts strict o : restore_plain_op o = true -> OKop (OL strict) o.
Proof. intros H. apply order_accepts. destruct o; try discriminate; exact I. Qed.

Lemma wp_remove_file p s : ready true s p -> wp (order_step true) (remove_file p) (fun _ _ => True) (fun _ _ => True) s.
Proof.
  intros Hr. unfold remove_file. apply wp_bind. apply wp_call_bool. intros r Hv.
  vb Hv. eexists. split; [reflexivity|].
  assert (Hr1 : forall v, ready true ((p, v) :: s) p) by (intros v; apply ready_cons; exact Hr).
  destruct b; [|exact I].
  apply wp_catch. apply wp_call_unit. intros r Hv'. eexists. split; [apply step_remove; apply Hr1|].
  vu Hv'; [exact I|]. apply wp_call_unit. intros r' Hv''. eexists. split; [apply step_rmtree; apply ready_cons; apply Hr1|].
  vu Hv''; exact I.
Qed.

Lemma restore_one_ordered t ow : wf_tf t -> asafe (order_step true) (restore_trashed_file t ow) (fun _ => True).
Proof.
  intros Hwf s. unfold restore_trashed_file. apply wp_catch.
  set (H := fun (s' : ost) (e : exn) => match (if is_OSError e then Some (Ret (inr (false, [])) : prog (unit + bool * str)) else None) with
                           | Some p => wp (order_step true) p (fun _ _ => True) (fun _ _ => True) s' | None => True end).
  assert (HH : forall s' e, H s' e) by (intros s' e; unfold H; destruct (is_OSError e); exact I).
  apply wp_bind.
  assert (Hrest : forall s1, wp (order_step true)
     (mkdirs (dirname (tf_location t)) ;;; call_unit (Move (tf_payload t) (tf_location t)) ;;; remove_file (tf_info t) ;;; (Ret (inl tt) : prog (unit + bool * str)))
     (fun _ _ => True) H s1).
  { intros s1. apply wp_bind. unfold mkdirs. apply wp_bind. apply wp_call_bool. intros r Hv.
    vb Hv. exists s1. split; [reflexivity|].
    assert (Hmv : wp (order_step true) (call_unit (Move (tf_payload t) (tf_location t)) ;;; remove_file (tf_info t) ;;; (Ret (inl tt) : prog (unit + bool * str)))
                     (fun _ _ => True) H s1).
    { apply wp_bind. apply wp_call_unit. intros r Hv'. eexists. split; [reflexivity|].
      vu Hv'; [|apply HH]. apply wp_bind. eapply wp_mono; [| |apply wp_remove_file].
      - intros; exact I.
      - intros; apply HH.
      - intros Hi. rewrite Hwf. apply done_cons_same. }
    destruct b; [exact Hmv|]. apply wp_call_unit. intros r Hv'. exists s1. split; [reflexivity|]. vu Hv'; [exact Hmv|apply HH]. }
  destruct ow.
  - apply Hrest.
  - apply wp_call_bool. intros r Hv. vb Hv. eexists. split; [reflexivity|].
    destruct b; [exact I|apply Hrest].
Qed.

Theorem restore_ordered_lemma o : all_runs (fun t _ => accepts (order_step true) [] t <> None) (restore_main o).
Proof.
  eapply all_runs_mono; [|apply (asafe_sound (order_step true) (restore_main o) (fun _ => True) [])].
  - intros t out [H _]. exact H.
  - apply (restore_main_T (OL true) (restore_plain_accepts true) o). intros t Ht. apply restore_one_ordered. exact Ht.
Qed.

(* ---------------------------------------------------------------- C06: no move onto an existing destination
   without --overwrite.  Monitor state: the last answer of lexists for each path. *)
Definition seen := list (str * bool).
Fixpoint last_seen (s : seen) (q : str) : option bool :=
  match s with [] => None | (k, v) :: s' => if str_eqb q k then Some v else last_seen s' q end.
Definition refuse_step (overwrite : bool) (s : seen) (o : op) (r : res) : option seen :=
  match o with
  | Lexists q => Some (match r with RBool b => (q, b) :: s | _ => s end)
  | Move _ dst => if overwrite then Some s else match last_seen s dst with Some false => Some s | _ => None end
  | _ => Some s
  end.

Lemma refuse_accepts ow o : (match o with Move _ _ => False | _ => True end) -> accepted (refuse_step ow) o.
Proof. intros H s r _. destruct o; try contradiction; simpl; eauto. Qed.

Lemma restore_one_refuses t ow : asafe (refuse_step ow) (restore_trashed_file t ow) (fun _ => True).
Proof.
  pose (L := asafe_logic (refuse_step ow)).
  assert (Hrm : T L (remove_file (tf_info t)) (fun _ => True)).
  { unfold remove_file. eapply (T_bind L); [apply (T_call_bool L); apply refuse_accepts; exact I|]. intros b _.
    destruct b; [|apply (T_ret L); exact I]. apply (T_catch L); [apply (T_call_unit L); apply refuse_accepts; exact I|].
    intros e p He. inversion He. apply (T_call_unit L); apply refuse_accepts; exact I. }
  assert (Hmk : T L (mkdirs (dirname (tf_location t))) (fun _ => True)).
  { unfold mkdirs. eapply (T_bind L); [apply (T_call_bool L); apply refuse_accepts; exact I|]. intros b _.
    destruct b; [apply (T_ret L); exact I|apply (T_call_unit L); apply refuse_accepts; exact I]. }
  intros s. unfold restore_trashed_file. apply wp_catch.
  eapply wp_mono with (Q := fun _ _ => True) (E := fun _ _ => True); [auto| |].
  { intros s' e _. destruct (is_OSError e); exact I. }
  apply wp_bind. destruct ow.
  - (* --overwrite: every move is allowed *)
    apply wp_bind. eapply wp_mono; [| |apply (Hmk s)]; [|auto]. intros s1 _ _.
    apply wp_bind. apply wp_call_unit. intros r Hv. exists s1. split; [reflexivity|]. vu Hv; [|exact I].
    apply wp_bind. eapply wp_mono; [| |apply (Hrm s1)]; auto.
  - apply wp_call_bool. intros r Hv. vb Hv. eexists. split; [reflexivity|].
    destruct b; [exact I|].
    (* lexists said no: the state records it; mkdirs does not change the state *)
    apply wp_bind. unfold mkdirs. apply wp_bind. apply wp_call_bool. intros r Hv'.
    vb Hv'. eexists. split; [reflexivity|].
    assert (Hmv : wp (refuse_step false) (call_unit (Move (tf_payload t) (tf_location t)) ;;; remove_file (tf_info t) ;;; (Ret (inl tt) : prog (unit + bool * str)))
                     (fun _ _ => True) (fun _ _ => True) ((tf_location t, false) :: s)).
    { apply wp_bind. apply wp_call_unit. intros r Hv''. eexists. split; [simpl; rewrite str_eqb_refl; reflexivity|].
      vu Hv''; [|exact I]. apply wp_bind. eapply wp_mono; [| |apply (Hrm _)]; auto. }
    destruct b; [exact Hmv|]. apply wp_call_unit. intros r Hv''. eexists. split; [reflexivity|]. vu Hv''; [exact Hmv|exact I].
Qed.

Theorem restore_refuses_lemma o :
  all_runs (fun t _ => accepts (refuse_step (ro_overwrite o)) [] t <> None) (restore_main o).
Proof.
  eapply all_runs_mono; [|apply (asafe_sound (refuse_step (ro_overwrite o)) (restore_main o) (fun _ => True) [])].
  - intros t out [H _]. exact H.
  - apply (restore_main_T (asafe_logic (refuse_step (ro_overwrite o)))).
    + intros x Hx. apply refuse_accepts. destruct x; try discriminate; exact I.
    + intros t _. apply restore_one_refuses.
Qed.

(* ---------------------------------------------------------------- C13: nothing is restored unless the reply
   denotes indexes that are all within the printed list.
   Monitor state: number of lines printed on stdout so far, and the phase. *)
Inductive sel_phase := Before | Allowed | EmptyReply | Invalid.
Definition sel_state := (nat * sel_phase)%type.
Definition sel_step (s : sel_state) (o : op) (r : res) : option sel_state :=
  let '(n, ph) := s in
  match ph with
  | Allowed => Some s
  | Before =>
      if is_mutator o then None else
      match o, r with
      | Out false _, _ => Some (S n, Before)
      | Input _, RStr [] => Some (n, EmptyReply)
      | Input _, RStr reply => Some (n, match parse_indexes reply (Z.of_nat n) with Selected _ => Allowed | _ => Invalid end)
      | Input _, _ => Some (n, Invalid)
      | _, _ => Some s
      end
  | _ => if is_mutator o then None else Some s
  end.
Definition sel_final (s : sel_state) (code : N) : Prop :=
  match snd s with EmptyReply => code = 0 | Invalid => code = 1 | _ => True end.

(* reading code: no mutator, no question, nothing on stdout *)
Definition silent_read (o : op) (_ : res) : bool :=
  negb (is_mutator o) && match o with Input _ | Out false _ => false | _ => true end.
Definition SRL := asafe_logic (sstep silent_read).
Lemma silent_read_ok o : restore_read_op o = true -> OKop SRL o.
Proof. intros H. apply accepted_sstep. intros r _. destruct o; try discriminate; reflexivity. Qed.
Lemma sel_transparent s o r : silent_read o r = true -> snd s <> Allowed -> sel_step s o r = Some s.
Proof.
  destruct s as [n ph]. unfold silent_read. intros H Hph. apply andb_true_iff in H. destruct H as [Hm Ho].
  apply negb_true_iff in Hm. unfold sel_step. destruct ph; try (rewrite Hm; reflexivity); [|contradiction Hph; reflexivity].
  rewrite Hm. destruct o; try discriminate; try reflexivity. destruct to_stderr; [reflexivity|discriminate].
Qed.

Lemma wp_print_listing l : forall i n (Q : sel_state -> unit -> Prop),
  (Q (n + length l, Before) tt)%nat ->
  wp sel_step (print_listing i l) Q (fun _ _ => True) (n, Before).
Proof.
  induction l as [|t l IH]; simpl; intros i n Q HQ; [rewrite Nat.add_0_r in HQ; exact HQ|].
  apply wp_bind. unfold println, out. apply wp_call_unit. intros r Hv. exists (S n, Before). split; [reflexivity|].
  match type of Hv with valid_res ?oo r = true => rewrite (valid_silent oo r eq_refl Hv) end. apply IH. rewrite <- Nat.add_succ_comm in HQ. exact HQ.
Qed.

(* code that neither mutates nor asks keeps the phase (it may print) *)
Definition no_mut_no_input (o : op) (_ : res) : bool := negb (is_mutator o) && match o with Input _ => false | _ => true end.
Definition NIL := asafe_logic (sstep no_mut_no_input).
Lemma nil_ok o : is_mutator o = false -> (match o with Input _ => False | _ => True end) -> OKop NIL o.
Proof. intros Hm Hi. apply accepted_sstep. intros r _. unfold no_mut_no_input. rewrite Hm. destruct o; try contradiction; reflexivity. Qed.
Lemma sel_keeps_phase s o r : no_mut_no_input o r = true -> snd s <> Allowed -> exists s', sel_step s o r = Some s' /\ snd s' = snd s.
Proof.
  destruct s as [n ph]. unfold no_mut_no_input. intros H Hph. apply andb_true_iff in H. destruct H as [Hm Ho].
  apply negb_true_iff in Hm. unfold sel_step. destruct ph; try (rewrite Hm; eexists; split; reflexivity); [|contradiction Hph; reflexivity].
  rewrite Hm. destruct o; try discriminate; try (eexists; split; reflexivity).
  destruct to_stderr; eexists; split; reflexivity.
Qed.
Lemma wp_Do {M A} (step : M -> op -> res -> option M) o (k : res -> prog A) Q E s :
  wp step (Do o k) Q E s = (forall r, valid_res o r = true -> exists s', step s o r = Some s' /\ wp step (k r) Q E s').
Proof. reflexivity. Qed.
Lemma wp_absorbing_eq {M A} (step : M -> op -> res -> option M) (m : prog A) s : (forall o r, step s o r = Some s) ->
  wp step m (fun s' _ => s' = s) (fun _ _ => True) s.
Proof.
  intros Habs. induction m as [a|e|o k IH]; [reflexivity|exact I|]. rewrite wp_Do.
  intros r _. exists s. split; [apply Habs|apply IH].
Qed.
Lemma wp_keeps_phase {A} (m : prog A) (Q : A -> Prop) : forall s, snd s <> Allowed -> safe no_mut_no_input m Q ->
  wp sel_step m (fun s' a => snd s' = snd s /\ Q a) (fun _ _ => True) s.
Proof.
  unfold safe. induction m as [a|e|o k IH]; intros s Hs H; [split; [reflexivity|exact H]|exact I|].
  rewrite wp_Do in *. intros r Hv. destruct (H r Hv) as [[] [Hst Hw]]. unfold sstep in Hst.
  destruct (no_mut_no_input o r) eqn:Hok; [|discriminate].
  destruct (sel_keeps_phase s o r Hok Hs) as [s' [Hs' Hph]]. exists s'. split; [exact Hs'|].
  eapply wp_mono; [| |apply IH; [rewrite Hph; exact Hs|exact Hw]]; [|auto].
  intros s2 a [H2 Ha]. split; [rewrite H2; exact Hph|exact Ha].
Qed.

Theorem restore_selection_lemma o :
  all_runs (fun t out => exists s, accepts sel_step (0%nat, Before) t = Some s /\
                         match out with Done code => sel_final s code | _ => True end) (restore_main o).
Proof.
  eapply all_runs_mono; [|apply (wp_sound sel_step (restore_main o) sel_final (fun _ _ => True) (0%nat, Before))].
  - intros t out [s [Ha Ho]]. exists s. split; [exact Ha|]. destruct out; auto.
  - unfold restore_main. apply wp_bind.
    apply wp_call_str. intros r Hv. exists (0%nat, Before). split; [destruct r; reflexivity|].
    destruct r as [| |curdir| | | | |e]; try exact I. apply wp_bind.
    eapply wp_mono; [| |apply (safe_to_wp sel_step silent_read _ (fun _ => True) (0%nat, Before))].
    3:{ intros op r Hq. apply sel_transparent; [exact Hq|discriminate]. }
    3:{ apply safe_of_asafe. eapply (T_mono SRL); [|apply (safe_all_files_trashed_from_path SRL silent_read_ok)]. auto. }
    2:{ auto. }
    intros s found [Hs _]. subst s.
    destruct (sort_files (ro_sort o) found) as [|f fs] eqn:Es.
    + (* nothing in scope: a message, exit 0, no mutator *)
      eapply wp_mono; [| |apply (wp_keeps_phase _ (fun _ => True) (0%nat, Before))]; [| |discriminate|].
      * intros s' a [Hph _]. unfold sel_final. rewrite Hph. exact I.
      * auto.
      * apply safe_of_asafe. eapply (T_bind NIL); [apply (T_call_str NIL); apply nil_ok; [reflexivity|exact I]|]. intros cwd _.
        apply (T_seq NIL); [apply (T_call_unit NIL); apply nil_ok; [reflexivity|exact I]|apply (T_ret NIL); exact I].
    + apply wp_bind. apply wp_print_listing. cbn [Nat.add].
      (* the question *)
      apply wp_bind. apply wp_catch. apply wp_bind. apply wp_call_str. intros r Hv'.
      set (n := length (f :: fs)).
      assert (Htail : forall ph (m : prog N) (Q : N -> Prop), ph <> Allowed -> safe no_mut_no_input m Q ->
                 (forall c, Q c -> sel_final (n, ph) c) -> wp sel_step m sel_final (fun _ _ => True) (n, ph)).
      { intros ph m Q Hph Hm HQ. eapply wp_mono; [| |apply (wp_keeps_phase m Q (n, ph) Hph Hm)]; [|auto].
        intros s' c [Hs' Hc]. specialize (HQ c Hc). unfold sel_final in *. rewrite Hs'. exact HQ. }
      assert (Hdie : forall ex msg, safe no_mut_no_input (die ex msg) (fun c => c = 1)).
      { intros ex msg. apply safe_of_asafe. unfold die, warn. apply (T_seq NIL); [apply (T_call_unit NIL); apply nil_ok; [reflexivity|exact I]|].
        apply (T_ret NIL). reflexivity. }
      destruct r as [| |reply| | | | |e]; try discriminate.
      * destruct reply as [|c reply].
        -- exists (n, EmptyReply). split; [reflexivity|]. apply wp_ret. cbv beta iota.
           apply (Htail EmptyReply _ (fun c => c = 0)); [discriminate| |auto].
           apply safe_of_asafe. unfold println, out. apply (T_seq NIL); [apply (T_call_unit NIL); apply nil_ok; [reflexivity|exact I]|].
           apply (T_ret NIL). reflexivity.
        -- destruct (parse_indexes (c :: reply) (Z.of_nat n)) eqn:Ep.
           ++ exists (n, Allowed). split; [unfold sel_step; rewrite Ep; reflexivity|]. apply wp_ret. cbv beta iota.
              eapply wp_mono; [| |apply wp_absorbing_eq; reflexivity]; [|auto]. intros s' c' Hs'. cbv beta in Hs'. rewrite Hs'. exact I.
           ++ exists (n, Invalid). split; [unfold sel_step; rewrite Ep; reflexivity|]. apply wp_ret. cbv beta iota.
              fold n. rewrite Ep. apply (Htail Invalid _ (fun c => c = 1)); [discriminate|apply Hdie|auto].
           ++ exists (n, Invalid). split; [unfold sel_step; rewrite Ep; reflexivity|]. apply wp_ret. cbv beta iota.
              fold n. rewrite Ep. exact I.
      * exists (n, Invalid). split; [destruct e; try discriminate; reflexivity|].
        cbv beta. destruct e; try discriminate; try exact I; cbv beta iota; apply wp_ret; cbv beta iota;
        apply (Htail Invalid _ (fun c => c = 1)); try discriminate; try apply Hdie; auto.
Qed.
