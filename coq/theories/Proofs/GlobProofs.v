From TV Require Import Prelude.Str Logic.Glob Logic.GlobSpec.
From Coq Require Import Lia.
Open Scope N_scope.

Lemma glob_match_star_unfold r s :
  glob_match (GStar :: r) s = glob_match r s || match s with [] => false | _ :: s' => glob_match (GStar :: r) s' end.
Proof. destruct s; reflexivity. Qed.

Lemma glob_match_one it r s : it <> GStar ->
  glob_match (it :: r) s = match s with [] => false | c :: s' => item_ok it c && glob_match r s' end.
Proof. intros H. destruct it; try reflexivity. congruence. Qed.

Lemma star_skip r s1 : forall s2, glob_match r s2 = true -> glob_match (GStar :: r) (s1 ++ s2) = true.
Proof.
  induction s1 as [|c s1 IH]; intros s2 H; rewrite glob_match_star_unfold.
  - cbn [app]. now rewrite H.
  - cbn [app]. rewrite (IH _ H). apply orb_true_r.
Qed.

Lemma glob_match_sound items : forall s, gmatch items s -> glob_match items s = true.
Proof.
  intros s H. induction H as [|it r c s Hne Hok _ IH|r s1 s2 _ IH].
  - reflexivity.
  - rewrite glob_match_one by assumption. now rewrite Hok, IH.
  - now apply star_skip.
Qed.

Lemma glob_match_complete items : forall s, glob_match items s = true -> gmatch items s.
Proof.
  induction items as [|it r IH]; intros s H.
  - destruct s; [constructor|discriminate].
  - destruct it.
    1,2,4,5: (rewrite glob_match_one in H by discriminate; destruct s as [|x s]; [discriminate|];
              apply andb_true_iff in H; destruct H as [H1 H2]; constructor; [discriminate|assumption|now apply IH]).
    induction s as [|x s IHs].
    + rewrite glob_match_star_unfold in H. rewrite orb_false_r in H. apply (gm_star r [] []). now apply IH.
    + rewrite glob_match_star_unfold in H. apply orb_true_iff in H. destruct H as [H|H].
      * apply (gm_star r [] (x :: s)). now apply IH.
      * specialize (IHs H). inversion IHs as [|it r' c' s' Hne|r' s1 s2 Hm]; subst; [congruence|].
        apply (gm_star r (x :: s1) s2). exact Hm.
Qed.

Theorem glob_match_iff_lemma items s : glob_match items s = true <-> gmatch items s.
Proof. split; [apply glob_match_complete | apply glob_match_sound]. Qed.

(* ---- literal patterns ---- *)
Lemma translate_fuel_literal pat : forall fuel, (length pat <= fuel)%nat -> no_meta pat ->
  translate_fuel fuel pat = map GLit pat.
Proof.
  induction pat as [|c p IH]; intros fuel Hf Hm; destruct fuel; cbn in Hf; try lia; try reflexivity.
  inversion Hm as [|? ? Hc Hp]; subst. unfold is_meta in Hc.
  apply orb_false_iff in Hc. destruct Hc as [Hc H3]. apply orb_false_iff in Hc. destruct Hc as [H1 H2].
  cbn [translate_fuel map]. rewrite H1, H2, H3. f_equal. apply IH; [lia|assumption].
Qed.

Lemma glob_match_literals pat : forall s, glob_match (map GLit pat) s = true <-> s = pat.
Proof.
  induction pat as [|c p IH]; intros s.
  - cbn. destruct s; split; intros; try reflexivity; try discriminate.
  - cbn [map]. rewrite glob_match_one by discriminate. destruct s as [|d s].
    + split; intros; discriminate.
    + cbn [item_ok]. rewrite andb_true_iff, IH, N.eqb_eq. split; [intros [-> ->]; reflexivity|intros [= -> ->]; auto].
Qed.

Theorem literal_is_equality_lemma pat s : no_meta pat -> (fnmatchcase s pat = true <-> s = pat).
Proof.
  intros H. unfold fnmatchcase, translate. rewrite translate_fuel_literal by (auto; lia). apply glob_match_literals.
Qed.

(* ---- the meaning of the three metacharacters on their own ---- *)
Theorem star_matches_everything_lemma s : fnmatchcase s [c_star] = true.
Proof.
  unfold fnmatchcase. change (translate [c_star]) with [GStar].
  apply glob_match_iff_lemma. rewrite <- (app_nil_r s). apply gm_star. constructor.
Qed.

Theorem qm_matches_one_lemma s : fnmatchcase s [c_qm] = true <-> exists c, s = [c].
Proof.
  unfold fnmatchcase. change (translate [c_qm]) with [GAny]. destruct s as [|c [|d s]]; cbn; split; intros H; try discriminate; eauto.
  - destruct H as [x H]; discriminate.
  - destruct H as [x H]; discriminate.
Qed.

(* prefix + star: "lit*" matches exactly the strings that start with lit *)
Lemma gmatch_lits_app lit r : forall s, gmatch (map GLit lit ++ r) s <-> exists t, s = lit ++ t /\ gmatch r t.
Proof.
  induction lit as [|c lit IH]; intros s; cbn [map app].
  - split; [intros H; exists s; auto | intros [t [-> H]]; exact H].
  - split.
    + intros H. inversion H as [|it r' d s' Hne Hok Hm|]; subst. cbn [item_ok] in Hok. apply N.eqb_eq in Hok. subst.
      apply IH in Hm. destruct Hm as [t [-> Ht]]. exists t. auto.
    + intros [t [-> Ht]]. constructor; [discriminate|cbn; apply N.eqb_refl|]. apply IH. eauto.
Qed.

Lemma translate_fuel_app_literal lit rest : forall fuel, (length (lit ++ rest) <= fuel)%nat -> no_meta lit ->
  exists fuel', (length rest <= fuel')%nat /\ translate_fuel fuel (lit ++ rest) = map GLit lit ++ translate_fuel fuel' rest.
Proof.
  induction lit as [|c p IH]; intros fuel Hf Hm.
  - exists fuel. split; [exact Hf|reflexivity].
  - destruct fuel; cbn in Hf; [lia|]. inversion Hm as [|? ? Hc Hp]; subst. unfold is_meta in Hc.
    apply orb_false_iff in Hc. destruct Hc as [Hc H3]. apply orb_false_iff in Hc. destruct Hc as [H1 H2].
    destruct (IH fuel) as [f' [Hf' He]]; [lia|assumption|].
    exists f'. split; [assumption|]. cbn [app translate_fuel map]. rewrite H1, H2, H3. now rewrite He.
Qed.

Theorem prefix_star_lemma lit s : no_meta lit -> (fnmatchcase s (lit ++ [c_star]) = true <-> exists t, s = lit ++ t).
Proof.
  intros H. unfold fnmatchcase, translate.
  destruct (translate_fuel_app_literal lit [c_star] (length (lit ++ [c_star]))) as [f' [Hf' He]]; [lia|assumption|].
  rewrite He. destruct f'; [cbn in Hf'; lia|]. cbn [translate_fuel].
  replace (c_star =? c_star) with true by reflexivity.
  assert (translate_fuel f' [] = []) as -> by (destruct f'; reflexivity).
  rewrite glob_match_iff_lemma, gmatch_lits_app. split.
  - intros [t [-> _]]. eauto.
  - intros [t ->]. exists t. split; [reflexivity|]. rewrite <- (app_nil_r t). apply gm_star. constructor.
Qed.
