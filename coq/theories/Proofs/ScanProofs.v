(* Safety (stateless monitors) of the trash-directory discovery code, parametric in the consumer `handle`:
   if the monitor accepts every probe the scanner issues and the consumer is safe on every event the
   scanner can produce, the whole scan is safe. *)
From TV Require Import Prelude.Str Prelude.PosixPath Prog.Prog Cmd.Put Cmd.Scan Proofs.ProgProofs.

Definition scan_op (o : op) : bool :=
  match o with
  | Exists _ | Isdir _ | Stat _ | Islink _ | ListMounts | Abspath _ | Ismount _ | Listdir _ => true
  | _ => false
  end.

Section ScanSafe.
Variable ok : op -> res -> bool.
Hypothesis Hprobe : forall o r, scan_op o = true -> ok o r = true.

Ltac probe := intros; apply Hprobe; reflexivity.

Lemma safe_volume_walk fuel : forall path, safe ok (volume_walk fuel path) (fun _ => True).
Proof.
  induction fuel as [|f IH]; simpl; intros path; [exact I|].
  destruct (str_eqb path (dirname path)); [exact I|].
  eapply safe_bind; [apply safe_call_bool; probe|]. intros m _. destruct m; [exact I|apply IH].
Qed.
Lemma safe_volume_of path : safe ok (volume_of path) (fun _ => True).
Proof.
  unfold volume_of. eapply safe_bind; [apply safe_call_str; probe|]. intros a _. apply safe_volume_walk.
Qed.
Lemma safe_is_sticky_dir path : safe ok (is_sticky_dir path) (fun _ => True).
Proof.
  unfold is_sticky_dir. eapply safe_bind; [apply safe_call_bool; probe|]. intros d _. destruct d; [|exact I].
  eapply safe_bind; [apply safe_call_stat; probe|]. intros; exact I.
Qed.
Lemma safe_valid_to_be_read path : safe ok (valid_to_be_read path) (fun _ => True).
Proof.
  unfold valid_to_be_read. eapply safe_bind; [apply safe_call_bool; probe|]. intros e _. destruct e; simpl; [|exact I].
  eapply safe_bind; [apply safe_is_sticky_dir|]. intros s _. destruct s; simpl; [|exact I].
  eapply safe_bind; [apply safe_call_bool; probe|]. intros l _. destruct l; exact I.
Qed.

Lemma safe_fold_prog {A S} (l : list A) (body : S -> A -> prog S) :
  (forall s x, In x l -> safe ok (body s x) (fun _ => True)) -> forall s, safe ok (fold_prog l body s) (fun _ => True).
Proof.
  induction l as [|x l IH]; simpl; intros Hb s; [exact I|].
  eapply safe_bind; [apply Hb; auto|]. intros s' _. apply IH. auto.
Qed.

Context {S : Type}.
Variable handle : S -> scan_event -> prog S.
Variable EV : scan_event -> Prop.
Hypothesis Hhandle : forall s ev, EV ev -> safe ok (handle s ev) (fun _ => True).

Section Vol.
Variable uid : N.
Hypothesis Htop : forall v, EV (Found (join3 v ($".Trash") (dec_of_N uid)) v)
                          /\ EV (SkippedNotSticky (join3 v ($".Trash") (dec_of_N uid)))
                          /\ EV (SkippedSymlink (join3 v ($".Trash") (dec_of_N uid)))
                          /\ EV (Found (join2 v ($".Trash-" ++ dec_of_N uid)) v).

Lemma safe_scan_volume s v : safe ok (scan_volume handle uid s v) (fun _ => True).
Proof.
  unfold scan_volume. destruct (Htop v) as [H1 [H2 [H3 H4]]].
  eapply safe_bind; [apply safe_valid_to_be_read|]. intros r _.
  eapply safe_bind with (Q' := fun _ => True).
  - destruct r; try (apply Hhandle; assumption). exact I.
  - intros s1 _. eapply safe_bind; [apply safe_call_bool; probe|]. intros d _.
    destruct d; [apply Hhandle; assumption|exact I].
Qed.

Lemma safe_each_mount_point (body : S -> str -> prog S) l :
  (forall s m, safe ok (body s m) (fun _ => True)) -> forall s, safe ok (each_mount_point l body s) (fun _ => True).
Proof.
  intros Hb. induction l as [|m l IH]; simpl; intros s; [exact I|].
  eapply safe_bind; [apply safe_call_bool; probe|]. intros d _.
  eapply safe_bind with (Q' := fun _ => True); [destruct d; [apply Hb|exact I]|]. intros s' _. apply IH.
Qed.

Lemma safe_for_each_volume env s : safe ok (for_each_volume env (scan_volume handle uid) s) (fun _ => True).
Proof.
  unfold for_each_volume. destruct (env_volumes env).
  - apply safe_fold_prog. intros; apply safe_scan_volume.
  - eapply safe_bind; [apply safe_call_list; probe|]. intros _ _.
    eapply safe_bind; [apply safe_call_list; probe|]. intros l _.
    apply safe_each_mount_point. intros; apply safe_scan_volume.
Qed.

Lemma safe_scan_trash_dirs env s :
  (forall p, In p (home_trash_dir_path_from_env env) -> EV (Found p [c_slash])) ->
  safe ok (scan_trash_dirs handle env uid s) (fun _ => True).
Proof.
  intros Hhome. unfold scan_trash_dirs.
  eapply safe_bind; [apply safe_fold_prog; intros s0 p Hp; apply Hhandle; auto|].
  intros s1 _. apply safe_for_each_volume.
Qed.

Lemma safe_select_trash_dirs user_dirs env s :
  (forall p, In p (home_trash_dir_path_from_env env) -> EV (Found p [c_slash])) ->
  (forall d v, In d user_dirs -> EV (Found d v)) ->
  safe ok (select_trash_dirs handle user_dirs env uid s) (fun _ => True).
Proof.
  intros Hhome Huser. unfold select_trash_dirs.
  eapply safe_bind with (Q' := fun _ => True).
  - destruct user_dirs; [apply safe_scan_trash_dirs; auto|exact I].
  - intros s1 _. apply safe_fold_prog. intros s0 d Hd.
    eapply safe_bind; [apply safe_volume_of|]. intros v _. apply Hhandle. auto.
Qed.
End Vol.
End ScanSafe.
