(* The trash-directory discovery code and the shared readers, verified once for every program logic
   (PLogic.plogic), parametric in the consumer `handle`: if the logic accepts every probe the scanner
   issues and the consumer is fine on every event the scanner can produce, the whole scan is fine. *)
From TV Require Import Prelude.Str Prelude.PosixPath Codec.DateFmt Codec.TrashInfo Logic.Calendar
  Prog.Prog Cmd.Put Cmd.Scan Cmd.Empty Proofs.ProgProofs Proofs.PLogic.

Definition scan_op (o : op) : bool :=
  match o with
  | Exists _ | Isdir _ | Stat _ | Islink _ | ListMounts | Abspath _ | Ismount _ | Listdir _ => true
  | _ => false
  end.

Section ScanSafe.
Variable L : plogic.
Hypothesis Hprobe : forall o, scan_op o = true -> OKop L o.
Notation TT := (T L).

Ltac aret := first [apply T_ret; exact I | apply T_throw].
Ltac probe := apply Hprobe; reflexivity.

Lemma safe_volume_walk fuel : forall path, TT (volume_walk fuel path) (fun _ => True).
Proof.
  induction fuel as [|f IH]; simpl; intros path; [aret|].
  destruct (str_eqb path (dirname path)); [aret|].
  eapply T_bind; [apply T_call_bool; probe|]. intros m _. destruct m; [aret|apply IH].
Qed.
Lemma safe_volume_of path : TT (volume_of path) (fun _ => True).
Proof.
  unfold volume_of. eapply T_bind; [apply T_call_str; probe|]. intros a _. apply safe_volume_walk.
Qed.
Lemma safe_is_sticky_dir path : TT (is_sticky_dir path) (fun _ => True).
Proof.
  unfold is_sticky_dir. eapply T_bind; [apply T_call_bool; probe|]. intros d _. destruct d; [|aret].
  eapply T_bind; [apply T_call_stat; probe|]. intros; aret.
Qed.
Lemma safe_valid_to_be_read path : TT (valid_to_be_read path) (fun _ => True).
Proof.
  unfold valid_to_be_read. eapply T_bind; [apply T_call_bool; probe|]. intros e _. destruct e; simpl; [|aret].
  eapply T_bind; [apply safe_is_sticky_dir|]. intros s _. destruct s; simpl; [|aret].
  eapply T_bind; [apply T_call_bool; probe|]. intros l _. destruct l; aret.
Qed.

Lemma safe_fold_prog {A S} (l : list A) (body : S -> A -> prog S) :
  (forall s x, In x l -> TT (body s x) (fun _ => True)) -> forall s, TT (fold_prog l body s) (fun _ => True).
Proof.
  induction l as [|x l IH]; simpl; intros Hb s; [aret|].
  eapply T_bind; [apply Hb; auto|]. intros s' _. apply IH. auto.
Qed.

Lemma safe_fold_inv {A S} (l : list A) (body : S -> A -> prog S) (Inv : S -> Prop) :
  (forall s x, In x l -> Inv s -> TT (body s x) Inv) -> forall s, Inv s -> TT (fold_prog l body s) Inv.
Proof.
  induction l as [|x l IH]; simpl; intros Hb s Hs; [apply T_ret; exact Hs|].
  eapply T_bind; [apply Hb; auto|]. intros s' Hs'. apply IH; auto.
Qed.

Lemma safe_entries_if_dir_exists p : TT (entries_if_dir_exists p) (fun l => forallb valid_name l = true).
Proof.
  unfold entries_if_dir_exists. eapply T_bind; [apply T_call_bool; probe|].
  intros e _. destruct e; [apply T_listdir; probe|apply T_ret; reflexivity].
Qed.

Lemma safe_list_trashinfo td : TT (list_trashinfo td)
  (fun l => forall p, In p l -> exists x, valid_name x = true /\ is_trashinfo_name x = true /\ p = join2 (join2 td s_info) x).
Proof.
  unfold list_trashinfo. eapply T_bind; [apply safe_entries_if_dir_exists|].
  intros es Hes. apply T_ret. intros p Hp. apply in_map_iff in Hp. destruct Hp as [x [Hx Hin]].
  apply filter_In in Hin. destruct Hin as [Hin Hti]. exists x. split; [|split; auto].
  rewrite forallb_forall in Hes. apply Hes. exact Hin.
Qed.

Section Handler.
Context {S : Type}.
Variable handle : S -> scan_event -> prog S.
Variable EV : scan_event -> Prop.
Variable Inv : S -> Prop.
Hypothesis Hhandle : forall s ev, Inv s -> EV ev -> TT (handle s ev) Inv.
Variable uid : N.
Hypothesis Htop : forall v, EV (Found (join3 v ($".Trash") (dec_of_N uid)) v)
                          /\ EV (SkippedNotSticky (join3 v ($".Trash") (dec_of_N uid)))
                          /\ EV (SkippedSymlink (join3 v ($".Trash") (dec_of_N uid)))
                          /\ EV (Found (join2 v ($".Trash-" ++ dec_of_N uid)) v).

Lemma safe_scan_volume s v : Inv s -> TT (scan_volume handle uid s v) Inv.
Proof.
  intros Hs. unfold scan_volume. destruct (Htop v) as [H1 [H2 [H3 H4]]].
  eapply T_bind; [apply safe_valid_to_be_read|]. intros r _.
  eapply T_bind with (Q' := Inv).
  - destruct r; try (apply Hhandle; assumption). apply T_ret; exact Hs.
  - intros s1 Hs1. eapply T_bind; [apply T_call_bool; probe|]. intros d _.
    destruct d; [apply Hhandle; assumption|apply T_ret; exact Hs1].
Qed.

Lemma safe_each_mount_point (body : S -> str -> prog S) l :
  (forall s m, Inv s -> TT (body s m) Inv) -> forall s, Inv s -> TT (each_mount_point l body s) Inv.
Proof.
  intros Hb. induction l as [|m l IH]; simpl; intros s Hs; [apply T_ret; exact Hs|].
  eapply T_bind; [apply T_call_bool; probe|]. intros d _.
  eapply T_bind with (Q' := Inv); [destruct d; [apply Hb; exact Hs|apply T_ret; exact Hs]|]. intros s' Hs'. apply IH; exact Hs'.
Qed.

Lemma safe_for_each_volume env s : Inv s -> TT (for_each_volume env (scan_volume handle uid) s) Inv.
Proof.
  intros Hs. unfold for_each_volume. destruct (env_volumes env).
  - apply safe_fold_inv; [intros; apply safe_scan_volume; assumption|exact Hs].
  - eapply T_bind; [apply T_call_list; probe|]. intros _ _.
    eapply T_bind; [apply T_call_list; probe|]. intros l _.
    apply safe_each_mount_point; [intros; apply safe_scan_volume; assumption|exact Hs].
Qed.

Lemma safe_scan_trash_dirs env s :
  (forall p, In p (home_trash_dir_path_from_env env) -> EV (Found p [c_slash])) ->
  Inv s -> TT (scan_trash_dirs handle env uid s) Inv.
Proof.
  intros Hhome Hs. unfold scan_trash_dirs.
  eapply T_bind; [apply safe_fold_inv; [intros s0 p Hp Hs0; apply Hhandle; auto|exact Hs]|].
  intros s1 Hs1. apply safe_for_each_volume. exact Hs1.
Qed.

End Handler.

(* --all-users: the same for every entry of the password database, each with its own uid *)
Section Selector.
Context {S : Type}.
Variable handle : S -> scan_event -> prog S.
Variable EV : scan_event -> Prop.
Variable Inv : S -> Prop.
Hypothesis Hhandle : forall s ev, Inv s -> EV ev -> TT (handle s ev) Inv.
Definition top_events (uid : N) : Prop :=
  forall v, EV (Found (join3 v ($".Trash") (dec_of_N uid)) v)
         /\ EV (SkippedNotSticky (join3 v ($".Trash") (dec_of_N uid)))
         /\ EV (SkippedSymlink (join3 v ($".Trash") (dec_of_N uid)))
         /\ EV (Found (join2 v ($".Trash-" ++ dec_of_N uid)) v).

Lemma safe_scan_all_users pw env s :
  (forall u, In u pw -> top_events (snd u) /\ EV (Found (home_trash_dir_path_from_home (fst u)) [c_slash])) ->
  Inv s -> TT (scan_all_users handle pw env s) Inv.
Proof.
  intros Hpw Hs. unfold scan_all_users. apply safe_fold_inv; [|exact Hs].
  intros s0 u Hu Hs0. destruct (Hpw u Hu) as [Htop Hhome].
  eapply T_bind; [apply Hhandle; [exact Hs0|exact Hhome]|]. intros s1 Hs1.
  apply (safe_for_each_volume handle EV Inv Hhandle (snd u) Htop). exact Hs1.
Qed.

Lemma safe_select_trash_dirs all_users user_dirs env uid s :
  match all_users with
  | Some pw => forall u, In u pw -> top_events (snd u) /\ EV (Found (home_trash_dir_path_from_home (fst u)) [c_slash])
  | None => top_events uid
            /\ (forall p, In p (home_trash_dir_path_from_env env) -> EV (Found p [c_slash]))
            /\ (forall d v, In d user_dirs -> EV (Found d v))
  end ->
  Inv s -> TT (select_trash_dirs handle all_users user_dirs env uid s) Inv.
Proof.
  intros Hev Hs. unfold select_trash_dirs. destruct all_users as [pw|].
  - apply safe_scan_all_users; assumption.
  - destruct Hev as [Htop [Hhome Huser]]. eapply T_bind with (Q' := Inv).
    + destruct user_dirs; [apply (safe_scan_trash_dirs handle EV Inv Hhandle uid Htop); auto|apply T_ret; exact Hs].
    + intros s1 Hs1. apply safe_fold_inv; [|exact Hs1]. intros s0 d Hd Hs0.
      eapply T_bind; [apply safe_volume_of|]. intros v _. apply Hhandle; auto.
Qed.
End Selector.

Lemma select_events_true all_users (user_dirs : list str) env uid :
  match all_users with
  | Some pw => forall u : str * N, In u pw ->
      top_events (fun _ => True) (snd u) /\ (fun _ : scan_event => True) (Found (home_trash_dir_path_from_home (fst u)) [c_slash])
  | None => top_events (fun _ => True) uid
            /\ (forall p, In p (home_trash_dir_path_from_env env) -> (fun _ : scan_event => True) (Found p [c_slash]))
            /\ (forall d v, In d user_dirs -> (fun _ : scan_event => True) (Found d v))
  end.
Proof.
  destruct all_users as [pw|].
  - intros u _. split; [intros v; repeat split|exact I].
  - split; [intros v; repeat split|split; intros; exact I].
Qed.

(* ---- the readers of trash-empty ---- *)
Hypothesis Hread : forall p, OKop L (ReadText p).
Hypothesis Hnow : OKop L Now.
Hypothesis Hlog : forall l e t, OKop L (Log l e t).

Lemma safe_get_now_value env : TT (get_now_value env) (fun _ => True).
Proof.
  unfold get_now_value. destruct (env_get env s_TRASH_DATE) as [v|]; [|apply T_call_date; apply Hnow].
  destruct (strptime_body v); [aret|].
  apply T_seq; [apply T_call_unit; apply Hlog|apply T_call_date; apply Hnow].
Qed.

Lemma safe_ok_to_delete o p : TT (ok_to_delete o p) (fun _ => True).
Proof.
  unfold ok_to_delete. destruct (eo_days o) as [days|]; [|aret].
  eapply T_bind with (Q' := fun _ => True).
  - apply T_catch.
    + eapply T_bind; [apply T_call_str; apply Hread|]. intros; aret.
    + intros e p0 He. destruct (is_OSError e); [inversion He; aret|]. destruct e; inversion He; aret.
  - intros r _. destruct r as [contents|]; [|aret].
    eapply T_bind; [apply safe_get_now_value|]. intros now _.
    destruct (parse_deletion_date contents); [|aret]. destruct (older_than days now d); aret.
Qed.
End ScanSafe.
