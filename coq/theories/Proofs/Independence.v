(* C16, independence of the arguments, at the level of the program: the runs of trash-put on a list of arguments are EXACTLY the
   concatenations of runs of the single-argument procedure (Put.trash_single) on each argument in turn - the same procedure,
   with the same options, that a command line naming that argument alone executes; nothing but the list of failed paths is
   carried from one argument to the next.  (What the file system answers may of course depend on what earlier arguments did to
   it: that part of independence is decided by the check's oracle.) *)
From TV Require Import Prelude.Str Prog.Prog Cmd.Put Proofs.ProgProofs.
Open Scope N_scope.

(* the runs of a program, as a relation: all_runs P m says P of exactly these *)
Inductive run_of {A} : prog A -> trace -> outcome A -> Prop :=
| run_ret a : run_of (Ret a) [] (Done a)
| run_throw e : run_of (Throw e) [] (Uncaught e)
| run_do o k r t out : valid_res o r = true -> run_of (k r) t out -> run_of (Do o k) ((o, r) :: t) out.

Lemma all_runs_iff {A} (m : prog A) : forall P, all_runs P m <-> forall t out, run_of m t out -> P t out.
Proof.
  induction m as [a|e|o k IH]; intros P; simpl.
  - split; [intros H t out Hr; inversion Hr; subst; exact H|intros H; apply H; constructor].
  - split; [intros H t out Hr; inversion Hr; subst; exact H|intros H; apply H; constructor].
  - split.
    + intros H t out Hr. inversion Hr as [| |o0 k0 r t0 out0 Hv Hk]; subst.
      apply (proj1 (IH r (fun t out => P ((o, r) :: t) out)) (H r Hv) t0 out Hk).
    + intros H r Hv. apply (IH r). intros t out Hk. apply H. constructor; assumption.
Qed.

Lemma run_of_bind {A B} (m : prog A) (f : A -> prog B) : forall t out, run_of (bind m f) t out <->
  (exists t1 a t2, run_of m t1 (Done a) /\ run_of (f a) t2 out /\ t = t1 ++ t2) \/
  (exists e, run_of m t (Uncaught e) /\ out = Uncaught e).
Proof.
  induction m as [a|e|o k IH]; intros t out; cbn [bind].
  - split.
    + intros H. left. exists [], a, t. split; [constructor|]. split; [exact H|reflexivity].
    + intros [[t1 [a' [t2 [H1 [H2 Et]]]]]|[e [H _]]]; [|inversion H]. inversion H1; subst. exact H2.
  - split.
    + intros H. inversion H; subst. right. exists e. split; [constructor|reflexivity].
    + intros [[t1 [a' [t2 [H1 _]]]]|[e' [H Eo]]]; [inversion H1|]. inversion H; subst. constructor.
  - split.
    + intros H. inversion H as [| |o0 k0 r t0 out0 Hv Hk]; subst. apply IH in Hk.
      destruct Hk as [[t1 [a [t2 [H1 [H2 Et]]]]]|[e [H1 Eo]]].
      * left. exists ((o, r) :: t1), a, t2. split; [constructor; assumption|]. split; [exact H2|subst; reflexivity].
      * right. exists e. split; [constructor; assumption|exact Eo].
    + intros [[t1 [a [t2 [H1 [H2 Et]]]]]|[e [H1 Eo]]].
      * inversion H1 as [| |o0 k0 r t0 out0 Hv Hk]; subst. cbn [app]. constructor; [exact Hv|]. apply IH. left. exists t0, a, t2. auto.
      * inversion H1 as [| |o0 k0 r t0 out0 Hv Hk]; subst. constructor; [exact Hv|]. apply IH. right. exists e. auto.
Qed.

(* a run of the whole list: one run of the single-argument procedure after the other *)
Inductive each_alone (o : put_opts) : list str -> trace -> outcome (list str) -> Prop :=
| ea_nil : each_alone o [] [] (Done [])
| ea_done p ps t1 ok t2 failed :
    run_of (trash_single p o) t1 (Done ok) -> each_alone o ps t2 (Done failed) ->
    each_alone o (p :: ps) (t1 ++ t2) (Done (if ok then failed else p :: failed))
| ea_raised_here p ps t e :
    run_of (trash_single p o) t (Uncaught e) -> each_alone o (p :: ps) t (Uncaught e)
| ea_raised_later p ps t1 ok t2 e :
    run_of (trash_single p o) t1 (Done ok) -> each_alone o ps t2 (Uncaught e) ->
    each_alone o (p :: ps) (t1 ++ t2) (Uncaught e).

Lemma run_never_stuck {A} (m : prog A) t : ~ run_of m t Stuck.
Proof. intros H. remember Stuck as out eqn:E. induction H; try discriminate; auto. Qed.

Theorem trash_each_runs o : forall ps t out, run_of (trash_each ps o) t out <-> each_alone o ps t out.
Proof.
  induction ps as [|p ps IH]; intros t out; cbn [trash_each].
  - split; intros H; inversion H; subst; constructor.
  - rewrite run_of_bind. split.
    + intros [[t1 [ok [t2 [H1 [H2 Et]]]]]|[e [H1 Eo]]]; [|subst; apply ea_raised_here; exact H1].
      apply run_of_bind in H2. destruct H2 as [[t3 [failed [t4 [H3 [H4 Et2]]]]]|[e [H3 Eo]]].
      * inversion H4; subst. rewrite app_nil_r. apply ea_done; [exact H1|apply IH; exact H3].
      * subst. apply ea_raised_later with (ok := ok); [exact H1|apply IH; exact H3].
    + intros H. inversion H as [|p0 ps0 t1 ok t2 failed H1 H2|p0 ps0 t0 e H1|p0 ps0 t1 ok t2 e H1 H2]; subst.
      * left. exists t1, ok, t2. split; [exact H1|]. split; [|reflexivity]. apply run_of_bind. left.
        exists t2, failed, []. split; [apply IH; exact H2|]. split; [constructor|rewrite app_nil_r; reflexivity].
      * right. exists e. auto.
      * left. exists t1, ok, t2. split; [exact H1|]. split; [|reflexivity]. apply run_of_bind. right. exists e. split; [apply IH; exact H2|reflexivity].
Qed.

(* C16: every run of trash-put on a list of arguments is a sequence of runs of the single-argument procedure, one per argument,
   in order; the exit status is 0 exactly when every one of them reported success. *)
Theorem put_arguments_are_independent_lemma o :
  all_runs (fun t out => exists failed_or_exn : outcome (list str),
      each_alone o (po_paths o) t failed_or_exn /\
      match out, failed_or_exn with
      | Done code, Done failed => (code = 0 <-> failed = []) /\ (code = 0 \/ code = EX_IOERR)
      | Uncaught e, Uncaught e' => e = e'
      | _, _ => False
      end) (put_main o).
Proof.
  apply all_runs_iff. intros t out H. unfold put_main in H. apply run_of_bind in H.
  destruct H as [[t1 [failed [t2 [H1 [H2 Et]]]]]|[e [H1 Eo]]].
  - inversion H2; subst. rewrite app_nil_r. exists (Done failed). split; [apply trash_each_runs; exact H1|].
    destruct failed as [|x l]; cbn.
    + split; [split; intros _; reflexivity|left; reflexivity].
    + split; [split; intros H; discriminate H|right; reflexivity].
  - subst. exists (Uncaught e). split; [apply trash_each_runs; exact H1|reflexivity].
Qed.
