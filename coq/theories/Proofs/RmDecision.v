(* C12, the decision of trash-rm, against every answer: inside one trash directory (path td, attached volume v)
   trash-rm removes a path only if it was APPROVED: it is the info file, or the payload path of the info file, whose
   contents - as just read - have a Path line that, joined to v, matches the pattern (Rm.rm_matches: the whole
   original path when the pattern starts with '/', its base name otherwise).  Unreadable, undecodable, Path-less
   info files and non-matching entries are never approved.  The volume is the one the scanner attaches to the
   directory (Scan.scan_trash_dirs: '/' for the home trash, the mount point for $top/.Trash/$uid and
   $top/.Trash-$uid), which is why the statement is per directory: rm_main runs exactly this handler on every
   directory the scanner finds (Rm.rm_main, by definition). *)
From TV Require Import Prelude.Str Prelude.PosixPath Codec.TrashInfo Logic.Glob Prog.Prog Cmd.Put Cmd.Scan Cmd.Empty Cmd.Rm
  Proofs.ProgProofs Proofs.PLogic Proofs.ScanProofs Proofs.OrigLocProofs Proofs.DecisionProofs.
Open Scope N_scope.

Definition rm_approves (pattern volume contents : str) : bool :=
  match parse_path contents with
  | Some rel => match rm_matches pattern (join2 volume rel) with Some true => true | _ => false end
  | None => false
  end.

Definition rm_dec_step (pattern volume : str) (s : list str) (o : op) (r : res) : option (list str) :=
  match o, r with
  | ReadText p, RStr c => Some (if rm_approves pattern volume c then p :: path_of_backup_copy p :: s else s)
  | (Remove q | Rmtree q), _ => if mem_str q s then Some s else None
  | _, _ => Some s
  end.

Section RmDec.
Variables pattern volume : str.
Notation step := (rm_dec_step pattern volume).

Lemma rstep_plain s o r : (match o with Remove _ | Rmtree _ | ReadText _ => False | _ => True end) -> step s o r = Some s.
Proof. intros H. destruct o; try contradiction; reflexivity. Qed.
Lemma rstep_remove s q r : In q s -> step s (Remove q) r = Some s.
Proof. intros H. unfold rm_dec_step. apply mem_str_In in H. rewrite H. reflexivity. Qed.
Lemma rstep_rmtree s q r : In q s -> step s (Rmtree q) r = Some s.
Proof. intros H. unfold rm_dec_step. apply mem_str_In in H. rewrite H. reflexivity. Qed.

Ltac vb Hv := match type of Hv with valid_res ?o ?r = true =>
  let b := fresh "b" in let Hb := fresh "Hb" in destruct (valid_bool o r eq_refl Hv) as [b Hb]; subst r end.
Ltac vu Hv := match type of Hv with valid_res ?o ?r = true =>
  let e := fresh "e" in let He := fresh "He" in let Hos := fresh "Hos" in
  destruct (valid_unit o r eq_refl Hv) as [He|[e [He Hos]]]; subst r end.

(* removing an approved path (remove, then rmtree on OSError) keeps the monitor state *)
Lemma wp_remove_file2_approved q s (Q : list str -> unit -> Prop) :
  In q s -> Q s tt -> wp step (remove_file2 q) Q (fun _ _ => True) s.
Proof.
  intros Hq HQ. unfold remove_file2. apply wp_catch. apply wp_call_unit. intros r Hv.
  exists s. split; [apply rstep_remove; exact Hq|]. vu Hv; [exact HQ|]. rewrite Hos.
  apply wp_call_unit. intros r Hv'. exists s. split; [apply rstep_rmtree; exact Hq|]. vu Hv'; [exact HQ|exact I].
Qed.

Lemma wp_delete_approved p s :
  In p s -> In (path_of_backup_copy p) s ->
  wp step (delete_trash_info_and_backup_copy p) (fun _ _ => True) (fun _ _ => True) s.
Proof.
  intros Hp Hb. unfold delete_trash_info_and_backup_copy. apply wp_bind. unfold remove_file_if_exists.
  apply wp_bind. apply wp_call_bool. intros r Hv. vb Hv. exists s. split; [apply rstep_plain; exact I|].
  assert (Hinfo : wp step (remove_file2 p) (fun _ _ => True) (fun _ _ => True) s) by (apply wp_remove_file2_approved; [exact Hp|exact I]).
  destruct b; [|apply wp_ret; exact Hinfo].
  apply wp_remove_file2_approved; [exact Hb|exact Hinfo].
Qed.

Lemma wp_rm_one_info p s : wp step (rm_one_info pattern volume p) (fun _ _ => True) (fun _ _ => True) s.
Proof.
  unfold rm_one_info. apply wp_bind. apply wp_catch. apply wp_bind. apply wp_call_str. intros r Hv.
  destruct r as [| |c| | | | |e]; try discriminate Hv.
  - (* read *) eexists. split; [reflexivity|]. apply wp_ret. cbv beta.
    unfold rm_approves. destruct (parse_path c) as [rel|] eqn:Ep.
    + destruct (rm_matches pattern (join2 volume rel)) as [[|]|] eqn:Em; cbv beta iota.
      * apply wp_delete_approved; simpl; auto.
      * apply wp_ret. exact I.
      * apply wp_throw. exact I.
    + apply wp_call_unit. intros r Hv'. eexists. split; [apply rstep_plain; exact I|]. destruct r; exact I.
  - (* the read raised *) exists s. split; [reflexivity|].
    assert (Hwarn : wp step (call_unit (Log WARNING true ($"trash-rm: " ++ p ++ $": unable to parse 'Path'"))) (fun _ _ => True) (fun _ _ => True) s).
    { apply wp_call_unit. intros r Hv'. exists s. split; [apply rstep_plain; exact I|]. destruct r; exact I. }
    destruct e; simpl in Hv; try discriminate Hv; simpl; try (apply wp_ret; exact Hwarn); exact I.
Qed.

Lemma wp_rm_handle td s : wp step (rm_handle pattern tt (Found td volume)) (fun _ _ => True) (fun _ _ => True) s.
Proof.
  unfold rm_handle. apply wp_bind. unfold list_trashinfo. apply wp_bind. unfold entries_if_dir_exists.
  apply wp_bind. apply wp_call_bool. intros r Hv. vb Hv. exists s. split; [apply rstep_plain; exact I|].
  assert (Hloop : forall l s', wp step (for_each l (rm_one_info pattern volume)) (fun _ _ => True) (fun _ _ => True) s').
  { induction l as [|x l IH]; intros s'; simpl; [apply wp_ret; exact I|].
    apply wp_bind. eapply wp_mono; [| |apply wp_rm_one_info]; [intros s'' _ _; apply IH|auto]. }
  destruct b.
  - unfold call_list. apply wp_bind. apply wp_call. intros r Hv'. exists s. split; [apply rstep_plain; exact I|].
    destruct r; try exact I; try (apply wp_throw; exact I). apply wp_ret. apply wp_ret. apply Hloop.
  - apply wp_ret. apply wp_ret. apply Hloop.
Qed.
End RmDec.

Theorem rm_removes_only_matching_lemma pattern td volume :
  all_runs (fun t _ => accepts (rm_dec_step pattern volume) [] t <> None) (rm_handle pattern tt (Found td volume)).
Proof.
  generalize (wp_sound (rm_dec_step pattern volume) (rm_handle pattern tt (Found td volume)) (fun _ _ => True) (fun _ _ => True) []
                       (wp_rm_handle pattern volume td [])).
  apply all_runs_mono. intros t out [s' [Ha _]]. rewrite Ha. discriminate.
Qed.
