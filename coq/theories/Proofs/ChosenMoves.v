(* C13: the entries that are restored are the entries chosen, in the order of the reply (continued: the list, the whole command). *)
From Coq Require Import List NArith ZArith Bool.
From TV Require Import Prelude.Str Prelude.PosixPath Prelude.SortStable Codec.DateFmt Codec.TrashInfo
  Logic.Calendar Logic.Indexes Logic.Scope Prog.Prog Cmd.Put Cmd.Scan Cmd.ListCmd Cmd.Restore Proofs.Independence Proofs.ListingOverwrite
  Proofs.ChosenMovesOne.
Import ListNotations.
Open Scope N_scope.

Lemma run_restore_selected ow : forall l t out, run_of (restore_selected l ow) t out ->
  exists n, moves_of t = map mv (firstn n l) /\ (forall u, out = Done (inl u) -> moves_of t = map mv l).
Proof.
  induction l as [|x l IH]; intros t out H; cbn [restore_selected] in H.
  - inversion H; subst. exists 0%nat. split; reflexivity.
  - apply run_of_bind in H. destruct H as [[t1 [r1 [t2 [H1 [H2 Et]]]]]|[e [H1 Eo]]].
    + destruct (run_restore_one _ _ _ _ H1) as [Hm Hs]. subst t. rewrite moves_of_app. destruct r1 as [u|m].
      * rewrite (Hs u eq_refl). destruct (IH _ _ H2) as [n [En Ea]]. exists (S n). cbn [firstn map app]. split; [rewrite En; reflexivity|].
        intros u' Eo. rewrite (Ea u' Eo). reflexivity.
      * inversion H2; subst. cbn [moves_of]. rewrite app_nil_r.
        destruct Hm as [Hm|Hm]; [exists 1%nat|exists 0%nat]; rewrite Hm; (split; [reflexivity|discriminate]).
    + destruct (run_restore_one _ _ _ _ H1) as [Hm _]. subst out.
      destruct Hm as [Hm|Hm]; [exists 1%nat|exists 0%nat]; rewrite Hm; (split; [reflexivity|discriminate]).
Qed.

(* ---- the whole command after the listing ---- *)
Definition chosen (files : list trashed_file) (idxs : list Z) : list trashed_file :=
  flat_map (fun i => match nth_error files (Z.to_nat i) with Some t => [t] | None => [] end) idxs.
Definition prompt (files : list trashed_file) : str :=
  $"What file to restore [0.." ++ dec_of_N (N.of_nat (length files - 1)) ++ $"]: ".
Definition line (i : nat) (t : trashed_file) : str :=
  (pad4d i ++ [c_space] ++ date_str (tf_date t) ++ [c_space] ++ tf_location t) ++ [c_nl].

Lemma run_call_unit_any o t out : run_of (call_unit o) t out -> exists r, t = [(o, r)].
Proof.
  unfold call_unit, call. intros H. cbv [bind] in H. inversion H as [| |o0 k0 r t0 out0 Hv Hk]; subst. exists r.
  destruct r; cbv beta iota in Hk; inversion Hk; subst; reflexivity.
Qed.

(* the listing: line i shows entry i; nothing else happens *)
Lemma run_print_listing : forall l i t out, run_of (print_listing i l) t out ->
  moves_of t = [] /\ (out = Done tt -> map fst t = map (fun p => Out false (line (fst p) (snd p))) (combine (seq i (length l)) l)).
Proof.
  induction l as [|x l IH]; intros i t out H; cbn [print_listing] in H.
  - inversion H; subst. split; [reflexivity|]. intros _. reflexivity.
  - apply run_of_bind in H. destruct H as [[t1 [u [t2 [H1 [H2 Et]]]]]|[e [H1 Eo]]].
    + unfold println, Prog.out in H1. apply run_call_unit_any in H1. destruct H1 as [r1 E1]. subst t1 t.
      destruct (IH _ _ _ H2) as [Hm Hl]. split; [cbn [app moves_of]; exact Hm|].
      intros Eo. cbn [app map fst length seq combine snd]. rewrite (Hl Eo). reflexivity.
    + unfold println, Prog.out in H1. apply run_call_unit_any in H1. destruct H1 as [r1 E1]. subst t out.
      split; [reflexivity|discriminate].
Qed.

Lemma run_ask p t out :
  run_of (catch (reply <- call_str (Input p) ;; Ret (Some reply))
                (fun e => match e with EOFError | KeyboardInterrupt => Some (Ret None) | _ => None end)) t out ->
  exists r, t = [(Input p, r)] /\ (forall reply, out = Done (Some reply) -> r = RStr reply).
Proof.
  unfold call_str, call. intros H. cbv [bind catch] in H.
  inversion H as [| |o0 k0 r t0 out0 Hv Hk]; subst. exists r.
  destruct r as [| |c| | | | |e]; cbv beta iota in Hk; try (inversion Hk; subst; split; [reflexivity|intros reply E; congruence]).
  destruct e; cbv beta iota in Hk; inversion Hk; subst; split; try reflexivity; intros reply E; discriminate.
Qed.

Lemma run_die exact msg t out : run_of (die exact msg) t out -> moves_of t = [].
Proof.
  unfold die, warn. intros H. apply run_of_bind in H. destruct H as [[t1 [u [t2 [H1 [H2 Et]]]]]|[e [H1 Eo]]].
  - apply run_call_unit_any in H1. destruct H1 as [r E]. inversion H2; subst. reflexivity.
  - apply run_call_unit_any in H1. destruct H1 as [r E]. subst. reflexivity.
Qed.

Lemma run_println s t out : run_of (println s) t out -> moves_of t = [].
Proof. unfold println, Prog.out. intros H. apply run_call_unit_any in H. destruct H as [r E]. subst. reflexivity. Qed.

(* every Move of a run is the Move of a chosen entry: the reply that was typed denotes indexes, the moves are those of the entries
   printed under these indexes, in the order of the reply, up to the first one that is refused or fails *)
Lemma restored_are_the_chosen_lemma ow files t out :
  run_of (after_listing ow files) t out ->
  moves_of t = [] \/
  exists reply idxs n, In (Input (prompt files), RStr reply) t /\
    parse_indexes reply (Z.of_nat (length files)) = Selected idxs /\
    moves_of t = map mv (firstn n (chosen files idxs)) /\
    (out = Done 0 -> moves_of t = map mv (chosen files idxs)).
Proof.
  unfold after_listing. destruct files as [|f0 fs].
  - intros H. left. apply run_of_bind in H. destruct H as [[t1 [cwd [t2 [H1 [H2 Et]]]]]|[e [H1 Eo]]].
    + apply run_of_bind in H2. destruct H2 as [[t3 [u [t4 [H3 [H4 Et2]]]]]|[e [H3 Eo]]].
      * apply run_println in H3. inversion H4; subst. rewrite !moves_of_app, H3.
        unfold call_str, call in H1. cbv [bind] in H1. inversion H1 as [| |o0 k0 r t0 out0 Hv Hk]; subst.
        destruct r; cbv beta iota in Hk; inversion Hk; subst; reflexivity.
      * apply run_println in H3. subst. rewrite moves_of_app, H3.
        unfold call_str, call in H1. cbv [bind] in H1. inversion H1 as [| |o0 k0 r t0 out0 Hv Hk]; subst.
        destruct r; cbv beta iota in Hk; inversion Hk; subst; reflexivity.
    + unfold call_str, call in H1. cbv [bind] in H1. inversion H1 as [| |o0 k0 r t0 out0 Hv Hk]; subst.
      destruct r; cbv beta iota in Hk; inversion Hk; subst; reflexivity.
  - set (files := f0 :: fs). intros H.
    apply run_of_bind in H. destruct H as [[t1 [u [t2 [H1 [H2 Et]]]]]|[e [H1 Eo]]].
    2:{ left. apply run_print_listing in H1. exact (proj1 H1). }
    apply run_print_listing in H1. destruct H1 as [Hm1 _].
    apply run_of_bind in H2. destruct H2 as [[t3 [a [t4 [H3 [H4 Et2]]]]]|[e [H3 Eo]]].
    2:{ left. apply run_ask in H3. destruct H3 as [r [E _]]. subst. rewrite moves_of_app, Hm1. reflexivity. }
    apply run_ask in H3. destruct H3 as [r [E3 Hr]]. subst t3 t2 t.
    destruct a as [reply|].
    2:{ left. apply run_die in H4. rewrite !moves_of_app, Hm1, H4. reflexivity. }
    pose proof (Hr reply eq_refl) as Er. subst r.
    destruct reply as [|c reply].
    { left. apply run_of_bind in H4. destruct H4 as [[t5 [u' [t6 [H5 [H6 Et4]]]]]|[e [H5 Eo]]].
      - apply run_println in H5. inversion H6; subst. rewrite !moves_of_app, Hm1, H5. reflexivity.
      - apply run_println in H5. subst. rewrite !moves_of_app, Hm1, H5. reflexivity. }
    destruct (parse_indexes (c :: reply) (Z.of_nat (length files))) as [idxs| |] eqn:Ep.
    + right. apply run_of_bind in H4. destruct H4 as [[t5 [res [t6 [H5 [H6 Et4]]]]]|[e [H5 Eo]]].
      * destruct (run_restore_selected _ _ _ _ H5) as [n [En Ea]].
        assert (Hm6 : moves_of t6 = []).
        { destruct res as [u'|[exact msg]]; [inversion H6; subst; reflexivity|apply run_die in H6; exact H6]. }
        exists (c :: reply), idxs, n. split.
        { apply in_or_app. right. apply in_or_app. left. left. reflexivity. }
        split; [exact Ep|]. subst t4. rewrite !moves_of_app, Hm1, Hm6, app_nil_r. cbn [moves_of app]. split; [exact En|].
        intros Eo. destruct res as [u'|[exact msg]].
        -- exact (Ea u' eq_refl).
        -- exfalso. unfold die, warn in H6. apply run_of_bind in H6. destruct H6 as [[t7 [u7 [t8 [H7 [H8 Et6]]]]]|[e [H7 Eo7]]].
           ++ inversion H8; subst. discriminate.
           ++ subst out. discriminate.
      * destruct (run_restore_selected _ _ _ _ H5) as [n [En Ea]].
        exists (c :: reply), idxs, n. split.
        { apply in_or_app. right. apply in_or_app. left. left. reflexivity. }
        split; [exact Ep|]. rewrite !moves_of_app, Hm1. cbn [moves_of app]. split; [exact En|].
        intros Eo'. subst out. discriminate.
    + left. apply run_die in H4. rewrite !moves_of_app, Hm1, H4. reflexivity.
    + left. inversion H4; subst. rewrite !moves_of_app, Hm1. reflexivity.
Qed.
