(* C12, the other direction: trash-rm removes EVERY matching entry.
   RmDecision shows that only approved paths are removed; here: in every run of the per-directory handler that ends
   normally, for every info file whose contents - as read - are approved (Path, joined to the volume, matches the
   pattern), what follows before the next info file is read is: the payload path answered "absent" to lexists or was
   removed (remove, or rmtree after a refused remove) with success, and then the info file itself was removed with
   success.  A run in which a removal is refused twice ends with the exception (not normally): that case is the
   stated one (the file system refuses), and the entry is then still whole or has lost its payload only (C15). *)
From TV Require Import Prelude.Str Prelude.PosixPath Codec.TrashInfo Logic.Glob Prog.Prog Cmd.Put Cmd.Scan Cmd.Empty Cmd.Rm
  Proofs.ProgProofs Proofs.OrigLocProofs Proofs.RmDecision.
Open Scope N_scope.

Inductive lst := Idle | Pay (p : str) | Info (p : str) | Bad.

Definition live_step (pattern volume : str) (s : lst) (o : op) (r : res) : option lst :=
  Some (match s with
        | Bad => Bad
        | Idle => match o, r with
                  | ReadText p, RStr c => if rm_approves pattern volume c then Pay p else Idle
                  | _, _ => Idle
                  end
        | Pay p => match o, r with
                   | Lexists q, RBool false => if str_eqb q (path_of_backup_copy p) then Info p else Pay p
                   | (Remove q | Rmtree q), RUnit => if str_eqb q (path_of_backup_copy p) then Info p else Pay p
                   | ReadText _, _ => Bad
                   | _, _ => Pay p
                   end
        | Info p => match o, r with
                    | (Remove q | Rmtree q), RUnit => if str_eqb q p then Idle else Info p
                    | ReadText _, _ => Bad
                    | _, _ => Info p
                    end
        end).

Section Live.
Variables pattern volume : str.
Notation step := (live_step pattern volume).
Notation W m Q s := (wp step m Q (fun _ _ => True) s).

Ltac vb Hv := match type of Hv with valid_res ?o ?r = true =>
  let b := fresh "b" in let Hb := fresh "Hb" in destruct (valid_bool o r eq_refl Hv) as [b Hb]; subst r end.
Ltac vu Hv := match type of Hv with valid_res ?o ?r = true =>
  let e := fresh "e" in let He := fresh "He" in let Hos := fresh "Hos" in
  destruct (valid_unit o r eq_refl Hv) as [He|[e [He Hos]]]; subst r end.

(* remove, or rmtree after a refused remove: q is gone when this returns normally *)
Lemma W_remove_file2 q s s' (Q : lst -> unit -> Prop) :
  (forall r, step s (Remove q) r = Some (match r with RUnit => s' | _ => s end)) ->
  (forall r, step s (Rmtree q) r = Some (match r with RUnit => s' | _ => s end)) ->
  Q s' tt -> W (remove_file2 q) Q s.
Proof.
  intros Hrm Hrt HQ. unfold remove_file2. apply wp_catch. apply wp_call_unit. intros r Hv.
  eexists. split; [apply Hrm|]. vu Hv; [exact HQ|]. rewrite Hos.
  apply wp_call_unit. intros r Hv'. eexists. split; [apply Hrt|]. vu Hv'; [exact HQ|exact I].
Qed.

Lemma W_delete p : W (delete_trash_info_and_backup_copy p) (fun s' _ => s' = Idle) (Pay p).
Proof.
  unfold delete_trash_info_and_backup_copy. apply wp_bind. unfold remove_file_if_exists.
  assert (Hinfo : W (remove_file2 p) (fun s' _ => s' = Idle) (Info p)).
  { apply (W_remove_file2 p (Info p) Idle); [| |reflexivity]; intros r; unfold live_step; rewrite str_eqb_refl; destruct r; reflexivity. }
  apply wp_bind. apply wp_call_bool. intros r Hv. vb Hv. destruct b.
  - exists (Pay p). split; [reflexivity|].
    apply (W_remove_file2 (path_of_backup_copy p) (Pay p) (Info p)); [| |exact Hinfo]; intros r; unfold live_step; rewrite str_eqb_refl; destruct r; reflexivity.
  - exists (Info p). split; [unfold live_step; rewrite str_eqb_refl; reflexivity|]. apply wp_ret. exact Hinfo.
Qed.

Lemma W_rm_one_info p : W (rm_one_info pattern volume p) (fun s' _ => s' = Idle) Idle.
Proof.
  unfold rm_one_info. apply wp_bind. apply wp_catch. apply wp_bind. apply wp_call_str. intros r Hv.
  destruct r as [| |c| | | | |e]; try discriminate Hv.
  - (* read *) eexists. split; [reflexivity|]. apply wp_ret. cbv beta.
    unfold rm_approves. destruct (parse_path c) as [rel|] eqn:Ep.
    + destruct (rm_matches pattern (join2 volume rel)) as [[|]|] eqn:Em; cbv beta iota.
      * apply W_delete.
      * apply wp_ret. reflexivity.
      * apply wp_throw. exact I.
    + apply wp_call_unit. intros r Hv'. eexists. split; [reflexivity|]. destruct r; try exact I; reflexivity.
  - (* the read raised *) exists Idle. split; [reflexivity|].
    assert (Hwarn : W (call_unit (Log WARNING true ($"trash-rm: " ++ p ++ $": unable to parse 'Path'"))) (fun s' _ => s' = Idle) Idle).
    { apply wp_call_unit. intros r Hv'. exists Idle. split; [reflexivity|]. destruct r; try exact I; reflexivity. }
    destruct e; simpl in Hv; try discriminate Hv; simpl; try (apply wp_ret; exact Hwarn); exact I.
Qed.

Lemma W_rm_handle td : W (rm_handle pattern tt (Found td volume)) (fun s' _ => s' = Idle) Idle.
Proof.
  unfold rm_handle. apply wp_bind. unfold list_trashinfo. apply wp_bind. unfold entries_if_dir_exists.
  apply wp_bind. apply wp_call_bool. intros r Hv. vb Hv. exists Idle. split; [reflexivity|].
  assert (Hloop : forall l, W (for_each l (rm_one_info pattern volume)) (fun s' _ => s' = Idle) Idle).
  { induction l as [|x l IH]; simpl; [apply wp_ret; reflexivity|].
    apply wp_bind. eapply wp_mono; [| |apply W_rm_one_info]; [intros s'' a0 E; cbv beta in E; subst s''; apply IH|auto]. }
  destruct b.
  - unfold call_list. apply wp_bind. apply wp_call. intros r Hv'. exists Idle. split; [reflexivity|].
    destruct r; try exact I; try (apply wp_throw; exact I). apply wp_ret. apply wp_ret. apply Hloop.
  - apply wp_ret. apply wp_ret. apply Hloop.
Qed.
End Live.

Theorem rm_removes_every_matching_lemma pattern td volume :
  all_runs (fun t out => forall a, out = Done a -> accepts (live_step pattern volume) Idle t = Some Idle)
           (rm_handle pattern tt (Found td volume)).
Proof.
  generalize (wp_sound (live_step pattern volume) _ _ _ _ (W_rm_handle pattern volume td)).
  apply all_runs_mono. intros t out [s' [Ha Ho]] a Eo. subst out. rewrite Ha, Ho. reflexivity.
Qed.
