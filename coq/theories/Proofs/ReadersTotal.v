(* C19: handling ONE info file always returns to the loop that enumerates them - whatever the file contains,
   and however reading it fails (any OSError, or bytes that are not UTF-8).  For every reader. *)
From TV Require Import Prelude.Str Prelude.PosixPath Codec.DateFmt Codec.TrashInfo Logic.Calendar Logic.Glob Logic.Scope
  Prog.Prog Cmd.Put Cmd.Scan Cmd.Empty Cmd.Rm Cmd.ListCmd Cmd.Restore Proofs.ProgProofs.
Open Scope N_scope.

Definition triv : unit -> op -> res -> option unit := fun _ _ _ => Some tt.
(* every run of m ends normally, or with an exception allowed by E *)
Definition ends {A} (m : prog A) (E : exn -> Prop) : Prop := wp triv m (fun _ _ => True) (fun _ e => E e) tt.
Definition never (_ : exn) : Prop := False.

Lemma ends_sound {A} (m : prog A) E : ends m E ->
  all_runs (fun _ out => match out with Done _ => True | Uncaught e => E e | Stuck => False end) m.
Proof.
  intros H. eapply all_runs_mono; [|apply (wp_sound triv m _ _ tt H)].
  intros t out [[] [_ Ho]]. destruct out; auto.
Qed.

Ltac vu Hv := match type of Hv with valid_res ?o ?r = true =>
  let e := fresh "e" in let He := fresh "He" in let Hos := fresh "Hos" in
  destruct (valid_unit o r eq_refl Hv) as [He|[e [He Hos]]]; subst r end.
Ltac vb Hv := match type of Hv with valid_res ?o ?r = true =>
  let b := fresh "b" in let Hb := fresh "Hb" in destruct (valid_bool o r eq_refl Hv) as [b Hb]; subst r end.
Ltac wret := repeat (cbv beta iota; match goal with |- wp _ (Ret _) _ _ _ => apply wp_ret end); cbv beta iota; try exact I.

(* an output operation always returns *)
Lemma wp_silent o (Q : unit -> unit -> Prop) (E : unit -> exn -> Prop) : is_silent o = true -> Q tt tt -> wp triv (call_unit o) Q E tt.
Proof.
  intros Hs HQ. apply wp_call_unit. intros r Hv. exists tt. split; [reflexivity|]. rewrite (valid_silent o r Hs Hv). exact HQ.
Qed.

(* reading one info file: the text, or one of the two ways it can fail - nothing else *)
Lemma wp_read_text p {B} (ok : str -> B) (bad_os bad_utf8 : B) (Q : unit -> B -> Prop) (E : unit -> exn -> Prop) :
  (forall c, Q tt (ok c)) -> Q tt bad_os -> Q tt bad_utf8 ->
  wp triv (catch (c <- call_str (ReadText p) ;; Ret (ok c))
                 (fun e => if is_OSError e then Some (Ret bad_os)
                           else match e with UnicodeDecodeError => Some (Ret bad_utf8) | _ => None end)) Q E tt.
Proof.
  intros Hok Hos Hu. apply wp_catch. apply wp_bind. apply wp_call_str. intros r Hv. exists tt. split; [reflexivity|].
  destruct r as [| |c| | | | |e]; try discriminate.
  - apply wp_ret. apply Hok.
  - destruct e; try discriminate; cbv beta iota; cbn [is_OSError]; apply wp_ret; assumption.
Qed.

(* ---- trash-list ---- *)
Theorem list_entry_total_lemma o volume p : lo_size o = false -> ends (print_trashinfo o volume p) never.
Proof.
  intros Hs. unfold ends, print_trashinfo. apply wp_bind.
  apply (wp_read_text p (fun c => inl c) (inr true) (inr false)).
  - intros c. cbv beta iota. unfold printerr, println, out. destruct (parse_path c) as [rel|]; [|apply wp_silent; [reflexivity|exact I]].
    rewrite Hs. apply wp_bind. wret. destruct (lo_files o); apply wp_silent; try reflexivity; exact I.
  - cbv beta iota. unfold printerr. apply wp_silent; [reflexivity|exact I].
  - cbv beta iota. unfold printerr. apply wp_silent; [reflexivity|exact I].
Qed.

(* ---- trash-restore ---- *)
Theorem restore_entry_total_lemma volume is_ti p : ends (read_trashed_file volume is_ti p) never.
Proof.
  unfold ends, read_trashed_file, warn. destruct is_ti; cbn [negb].
  2:{ apply wp_bind. apply wp_silent; [reflexivity|]. wret. }
  apply wp_bind. apply (wp_read_text p (fun c => inl c) (inr true) (inr false)).
  - intros c. cbv beta iota. destruct (parse_original_location c volume); [wret|]. apply wp_bind. apply wp_silent; [reflexivity|]. wret.
  - cbv beta iota. apply wp_bind. apply wp_silent; [reflexivity|]. wret.
  - cbv beta iota. apply wp_bind. apply wp_silent; [reflexivity|]. wret.
Qed.

(* the date key of the sort is total: an undated entry sorts first instead of raising TypeError *)
Theorem date_key_total_lemma a b : exists r, date_key_lt a b = r.
Proof. eauto. Qed.

(* ---- trash-rm: only the file system refusing a REMOVAL can end the handling of an entry abnormally ---- *)
Lemma wp_remove_file2_os p : wp triv (remove_file2 p) (fun _ _ => True) (fun _ e => is_OSError e = true) tt.
Proof.
  unfold remove_file2. apply wp_catch. apply wp_call_unit. intros r Hv. exists tt. split; [reflexivity|].
  vu Hv; [exact I|]. rewrite Hos. apply wp_call_unit. intros r Hv'. exists tt. split; [reflexivity|]. vu Hv'; [exact I|exact Hos0].
Qed.

Theorem rm_entry_total_lemma c pat volume p : ends (rm_one_info (c :: pat) volume p) (fun e => is_OSError e = true).
Proof.
  unfold ends, rm_one_info. apply wp_bind.
  apply (wp_read_text p (fun c0 => parse_path c0) None None).
  - intros c0. cbv beta iota. destruct (parse_path c0) as [rel|]; [|apply wp_silent; [reflexivity|exact I]].
    cbn [rm_matches]. destruct (fnmatchcase _ _); [|wret].
    unfold delete_trash_info_and_backup_copy. apply wp_bind. unfold remove_file_if_exists. apply wp_bind.
    apply wp_call_bool. intros r Hv. vb Hv. exists tt. split; [reflexivity|]. destruct b.
    + eapply wp_mono; [| |apply wp_remove_file2_os]; [|auto]. intros [] u _. apply wp_remove_file2_os.
    + apply wp_remove_file2_os.
  - cbv beta iota. apply wp_silent; [reflexivity|exact I].
  - cbv beta iota. apply wp_silent; [reflexivity|exact I].
Qed.

(* ---- trash-empty: only a DAYS/clock combination outside datetime's range (OverflowError) can; a failing removal is
   reported and the purge goes on ---- *)
Lemma wp_dispose_total o q (Q : unit -> unit -> Prop) (E : unit -> exn -> Prop) : Q tt tt -> wp triv (dispose o q) Q E tt.
Proof.
  intros HQ. unfold dispose. destruct (eo_dry_run o); [apply wp_silent; [reflexivity|exact HQ]|].
  apply wp_bind. assert (Hout : wp triv (if 0 <? eo_verbose o then out ($"removing " ++ q ++ [c_nl]) else Ret tt) (fun _ _ => True) E tt).
  { destruct (0 <? eo_verbose o); [apply wp_silent; [reflexivity|exact I]|exact I]. }
  eapply wp_mono; [| |exact Hout]; [|auto]. intros [] u _.
  apply wp_catch. unfold remove_file_if_exists. apply wp_bind. apply wp_call_bool. intros r Hv. vb Hv. exists tt. split; [reflexivity|].
  destruct b; [|exact HQ].
  eapply wp_mono; [| |apply wp_remove_file2_os].
  - intros [] [] _. exact HQ.
  - intros [] e He. cbv beta in He. rewrite He. apply wp_silent; [reflexivity|exact HQ].
Qed.

Theorem empty_entry_total_lemma o p : ends (empty_one_info o p) (fun e => e = OverflowErrorE).
Proof.
  unfold ends, empty_one_info. apply wp_bind. unfold ok_to_delete. destruct (eo_days o) as [days|].
  2:{ wret. apply wp_bind. apply wp_dispose_total. apply wp_dispose_total. exact I. }
  apply wp_bind. apply (wp_read_text p (fun c => Some c) None None).
  - intros c. cbv beta iota. apply wp_bind. unfold get_now_value.
    assert (Htail : forall now, wp triv (match parse_deletion_date c with
                                         | Some d => match older_than days now d with Some b => Ret b | None => Throw OverflowErrorE end
                                         | None => Ret false end)
              (fun s' a => wp triv (if a then dispose o (path_of_backup_copy p) ;;; dispose o p else Ret tt) (fun _ _ => True)
                             (fun _ e => e = OverflowErrorE) s') (fun _ e => e = OverflowErrorE) tt).
    { intros now. destruct (parse_deletion_date c) as [d|]; [|wret]. destruct (older_than days now d) as [[|]|]; [| wret|reflexivity].
      apply wp_ret. cbv beta iota. apply wp_bind. apply wp_dispose_total. apply wp_dispose_total. exact I. }
    assert (Hnow : wp triv (call_date Now) (fun s0 now => wp triv (match parse_deletion_date c with
                                         | Some d => match older_than days now d with Some b => Ret b | None => Throw OverflowErrorE end
                                         | None => Ret false end)
              (fun s' a => wp triv (if a then dispose o (path_of_backup_copy p) ;;; dispose o p else Ret tt) (fun _ _ => True)
                             (fun _ e => e = OverflowErrorE) s') (fun _ e => e = OverflowErrorE) s0) (fun _ e => e = OverflowErrorE) tt).
    { unfold call_date. apply wp_bind. apply wp_call. intros r Hv. exists tt. split; [reflexivity|].
      destruct r as [| | | | | |now|e]; try discriminate. cbv beta iota. apply wp_ret. apply Htail. }
    destruct (env_get (eo_environ o) s_TRASH_DATE) as [v|]; [destruct (strptime_body v) as [now|]|].
    + wret. apply Htail.
    + apply wp_bind. apply wp_silent; [reflexivity|]. exact Hnow.
    + exact Hnow.
  - wret.
  - wret.
Qed.
