(* C13: the entries that are restored are the entries chosen, in the order of the reply.  The only Move operations of a run of
   [restore_selected chosen ow] are those of the chosen entries - payload to recorded location - in that order, one per entry, stopping
   at the first entry that is refused or fails; when the selection ends well, all of them were issued. *)
From Coq Require Import List NArith ZArith Bool.
From TV Require Import Prelude.Str Prelude.PosixPath Prelude.SortStable Codec.DateFmt Codec.TrashInfo
  Logic.Calendar Logic.Indexes Logic.Scope Prog.Prog Cmd.Put Cmd.Scan Cmd.ListCmd Cmd.Restore Proofs.Independence Proofs.ListingOverwrite.
Import ListNotations.
Open Scope N_scope.

Fixpoint moves_of (t : trace) : list (str * str) :=
  match t with
  | [] => []
  | (Move a b, _) :: t' => (a, b) :: moves_of t'
  | _ :: t' => moves_of t'
  end.

Lemma moves_of_app t1 t2 : moves_of (t1 ++ t2) = moves_of t1 ++ moves_of t2.
Proof. induction t1 as [|[o r] t1 IH]; [reflexivity|]. destruct o; cbn [app moves_of]; rewrite IH; reflexivity. Qed.

Definition mv (t : trashed_file) : str * str := (tf_payload t, tf_location t).

Ltac run_inv H :=
  let r := fresh "r" in let Hv := fresh "Hv" in let Hk := fresh "Hk" in
  inversion H as [| |? ? r ? ? Hv Hk]; subst; clear H; cbv beta in Hk.
Ltac run_case H :=
  repeat match type of H with
         | context [match ?x with _ => _ end] => is_var x; destruct x; cbv beta iota delta [is_OSError negb] in H
         end.
Ltac run_go :=
  repeat match goal with
  | H : run_of (Ret _) _ _ |- _ => inversion H; subst; clear H
  | H : run_of (Throw _) _ _ |- _ => inversion H; subst; clear H
  | H : run_of (Do _ _) _ _ |- _ =>
      let r := fresh "r" in let Hv := fresh "Hv" in let Hk := fresh "Hk" in
      inversion H as [| |? ? r ? ? Hv Hk]; subst; clear H; cbv beta in Hk; run_case Hk
  end.

(* runs of [catch m h], seen from the runs of m *)
Lemma run_of_catch_inv {A} (m : prog A) (h : exn -> option (prog A)) : forall t out, run_of (catch m h) t out ->
  exists t1 out1, run_of m t1 out1 /\
    ((t = t1 /\ out = out1 /\ forall e, out1 = Uncaught e -> h e = None) \/
     (exists e p t2, out1 = Uncaught e /\ h e = Some p /\ run_of p t2 out /\ t = t1 ++ t2)).
Proof.
  induction m as [a|e|o k IH]; intros t out H.
  - change (catch (Ret a) h) with (@Ret A a) in H. inversion H; subst. exists [], (Done a). split; [constructor|]. left. split; [reflexivity|]. split; [reflexivity|discriminate].
  - change (catch (Throw e) h) with (match h e with Some p => p | None => Throw e end) in H. destruct (h e) as [p|] eqn:E.
    + exists [], (Uncaught e). split; [constructor|]. right. exists e, p, t. split; [reflexivity|]. split; [exact E|]. split; [exact H|reflexivity].
    + inversion H; subst. exists [], (Uncaught e). split; [constructor|]. left. split; [reflexivity|]. split; [reflexivity|].
      intros e' Ee. inversion Ee; subst. exact E.
  - change (catch (Do o k) h) with (Do o (fun r => catch (k r) h)) in H.
    inversion H as [| |o0 k0 r t0 out0 Hv Hk]; subst. destruct (IH r _ _ Hk) as [t1 [out1 [H1 Hc]]].
    exists ((o, r) :: t1), out1. split; [constructor; assumption|].
    destruct Hc as [[Et [Eo Hn]]|[e [p [t2 [Eo [Eh [Hp Et]]]]]]].
    + left. subst. split; [reflexivity|]. split; [reflexivity|exact Hn].
    + right. exists e, p, t2. subst. split; [reflexivity|]. split; [exact Eh|]. split; [exact Hp|reflexivity].
Qed.

(* programs that move nothing *)
Definition quiet {A} (m : prog A) : Prop := forall t out, run_of m t out -> moves_of t = [].

Lemma quiet_ret {A} (a : A) : quiet (Ret a).
Proof. intros t out H. inversion H; subst. reflexivity. Qed.
Lemma quiet_call o : (forall a b, o <> Move a b) -> quiet (call o).
Proof.
  intros Hn t out H. unfold call in H. inversion H as [| |o0 k0 r t0 out0 Hv Hk]; subst.
  assert (t0 = []) by (destruct r; inversion Hk; reflexivity). subst t0.
  destruct o; try reflexivity. exfalso. eapply Hn. reflexivity.
Qed.
Lemma quiet_bind {A B} (m : prog A) (f : A -> prog B) : quiet m -> (forall a, quiet (f a)) -> quiet (bind m f).
Proof.
  intros Hm Hf t out H. apply run_of_bind in H. destruct H as [[t1 [a [t2 [H1 [H2 Et]]]]]|[e [H1 Eo]]].
  - subst t. rewrite moves_of_app, (Hm _ _ H1), (Hf a _ _ H2). reflexivity.
  - exact (Hm _ _ H1).
Qed.
Lemma quiet_catch {A} (m : prog A) h : quiet m -> (forall e p, h e = Some p -> quiet p) -> quiet (catch m h).
Proof.
  intros Hm Hh t out H. apply run_of_catch_inv in H. destruct H as [t1 [out1 [H1 [[Et _]|[e [p [t2 [Eo [Eh [Hp Et]]]]]]]]]].
  - subst t. exact (Hm _ _ H1).
  - subst t. rewrite moves_of_app, (Hm _ _ H1), (Hh e p Eh _ _ Hp). reflexivity.
Qed.
Lemma quiet_call_bool o : (forall a b, o <> Move a b) -> quiet (call_bool o).
Proof. intros Hn. unfold call_bool. apply quiet_bind; [apply quiet_call; exact Hn|]. intros r. destruct r; intros t out H; inversion H; reflexivity. Qed.
Lemma quiet_call_unit o : (forall a b, o <> Move a b) -> quiet (call_unit o).
Proof. intros Hn. unfold call_unit. apply quiet_bind; [apply quiet_call; exact Hn|]. intros r. apply quiet_ret. Qed.

Lemma quiet_mkdirs d : quiet (mkdirs d).
Proof.
  unfold mkdirs. apply quiet_bind; [apply quiet_call_bool; discriminate|]. intros b. destruct b; [apply quiet_ret|apply quiet_call_unit; discriminate].
Qed.
Lemma quiet_remove_file p : quiet (remove_file p).
Proof.
  unfold remove_file. apply quiet_bind; [apply quiet_call_bool; discriminate|]. intros b. destruct b; [|apply quiet_ret].
  apply quiet_catch; [apply quiet_call_unit; discriminate|]. intros e q E. inversion E; subst. apply quiet_call_unit. discriminate.
Qed.

Lemma run_move a b t out : run_of (call_unit (Move a b)) t out -> moves_of t = [(a, b)].
Proof.
  unfold call_unit, call. intros H. cbn [bind] in H. inversion H as [| |o0 k0 r t0 out0 Hv Hk]; subst.
  assert (t0 = []) by (destruct r; cbn [bind] in Hk; inversion Hk; reflexivity). subst. reflexivity.
Qed.

(* one chosen entry: no Move but its own, at most once; restored (inl) means its Move was issued *)
Lemma run_restore_one tf ow t out :
  run_of (restore_trashed_file tf ow) t out ->
  (moves_of t = [mv tf] \/ moves_of t = []) /\ (forall u, out = Done (inl u) -> moves_of t = [mv tf]).
Proof.
  unfold restore_trashed_file. intros H. apply run_of_catch_inv in H. destruct H as [t1 [out1 [H1 Hc]]].
  (* the body *)
  assert (Hb : (moves_of t1 = [mv tf] \/ moves_of t1 = []) /\ (forall u, out1 = Done (inl u) -> moves_of t1 = [mv tf])).
  { clear Hc. apply run_of_bind in H1. destruct H1 as [[ta [refuse [tb [Ha [Hb Et]]]]]|[e [Ha Eo]]].
    2:{ assert (Q : moves_of t1 = []) by (destruct ow; [inversion Ha|eapply quiet_call_bool; [|exact Ha]; discriminate]).
        rewrite Q. split; [right; reflexivity|subst; discriminate]. }
    assert (Qa : moves_of ta = []) by (destruct ow; [inversion Ha; reflexivity|eapply quiet_call_bool; [|exact Ha]; discriminate]).
    subst t1. rewrite moves_of_app, Qa. cbn [app]. destruct refuse.
    { inversion Hb; subst. split; [right; reflexivity|discriminate]. }
    apply run_of_bind in Hb. destruct Hb as [[tc [u1 [td [Hc [Hd Et]]]]]|[e [Hc Eo]]].
    2:{ rewrite (quiet_mkdirs _ _ _ Hc). split; [right; reflexivity|subst; discriminate]. }
    subst tb. rewrite moves_of_app, (quiet_mkdirs _ _ _ Hc). cbn [app].
    apply run_of_bind in Hd. destruct Hd as [[te [u2 [tf' [He [Hf Et]]]]]|[e [He Eo]]].
    2:{ rewrite (run_move _ _ _ _ He). split; [left; reflexivity|subst; discriminate]. }
    subst td. rewrite moves_of_app, (run_move _ _ _ _ He).
    apply run_of_bind in Hf. destruct Hf as [[tg [u3 [th [Hg [Hh Et]]]]]|[e [Hg Eo]]].
    - subst tf'. rewrite moves_of_app, (quiet_remove_file _ _ _ Hg). inversion Hh; subst. split; [left; reflexivity|reflexivity].
    - rewrite (quiet_remove_file _ _ _ Hg). split; [left; reflexivity|reflexivity]. }
  destruct Hb as [Hm Hs]. destruct Hc as [[Et [Eo _]]|[e [p [t2 [Eo [Eh [Hp Et]]]]]]].
  - subst. split; assumption.
  - destruct (is_OSError e); [|discriminate]. inversion Eh; subst p. inversion Hp; subst. rewrite app_nil_r. split; [exact Hm|discriminate].
Qed.
