(* C10, safety half, against every answer: with a DAYS argument trash-empty removes a path only if it
   was APPROVED: it is the info file, or the payload, of an entry whose contents (as just read) carry a
   first DeletionDate strictly older than now - DAYS; or it is a payload whose info file was just found
   missing (an orphan).  "now" is TRASH_DATE when it parses, else the clock answer of that entry. *)
From TV Require Import Prelude.Str Prelude.PosixPath Codec.DateFmt Codec.TrashInfo Logic.Calendar Logic.Reply
  Prog.Prog Cmd.Put Cmd.Scan Cmd.Empty Proofs.ProgProofs Proofs.PLogic Proofs.ScanProofs Proofs.PathProofs
  Proofs.OrigLocProofs Proofs.PurgeProofs.
Open Scope N_scope.

Record dst := mkdst { d_last : option (str * str); d_approved : list str }.
Definition env_now (env : environ) : option datetime :=
  match env_get env s_TRASH_DATE with Some v => strptime_body v | None => None end.
Definition is_old (days : Z) (now : datetime) (contents : str) : bool :=
  match parse_deletion_date contents with
  | Some d => match older_than days now d with Some true => true | _ => false end
  | None => false
  end.
Definition approve (s : dst) (p : str) : dst := mkdst None (p :: path_of_backup_copy p :: d_approved s).
Fixpoint mem_str (q : str) (l : list str) : bool := match l with [] => false | x :: l' => str_eqb q x || mem_str q l' end.

Definition decision_step (days : option Z) (envnow : option datetime) (s : dst) (o : op) (r : res) : option dst :=
  match days with
  | None => Some s
  | Some dd =>
    match o, r with
    | ReadText p, RStr c =>
        Some (match envnow with
              | Some now => if is_old dd now c then approve s p else mkdst None (d_approved s)
              | None => mkdst (Some (p, c)) (d_approved s)
              end)
    | Now, RDate now =>
        Some (match d_last s with
              | Some (p, c) => if is_old dd now c then approve s p else mkdst None (d_approved s)
              | None => s
              end)
    | Exists q, RBool false => Some (mkdst (d_last s) (path_of_backup_copy q :: d_approved s))
    | (Remove q | Rmtree q), _ => if mem_str q (d_approved s) then Some s else None
    | _, _ => Some s
    end
  end.

Lemma mem_str_In q l : mem_str q l = true <-> In q l.
Proof.
  induction l as [|x l IH]; simpl; [split; [discriminate|contradiction]|].
  rewrite orb_true_iff, IH. split; intros [H|H]; auto; [left; symmetry; apply str_eqb_true; exact H|left; subst; apply str_eqb_refl].
Qed.

Section Decision.
Variable days : option Z.
Variable env : environ.
Notation step := (decision_step days (env_now env)).
Definition DL := asafe_logic step.

Lemma dec_accepts o : (match o with Remove _ | Rmtree _ => False | _ => True end) -> OKop DL o.
Proof.
  intros H s r _. unfold decision_step. destruct days; [|eauto]. destruct o; try contradiction; try (eexists; reflexivity).
  - destruct r as [|[|]| | | | | |]; eexists; reflexivity.
  - destruct r; eexists; reflexivity.
  - destruct r; eexists; reflexivity.
Qed.
Lemma dec_scan o : scan_op o = true -> OKop DL o.
Proof. intros H. apply dec_accepts. destruct o; try discriminate; exact I. Qed.

Definition approved (s : dst) (q : str) : Prop := days = None \/ In q (d_approved s).
Lemma approved_mono s s' q : (forall x, In x (d_approved s) -> In x (d_approved s')) -> approved s q -> approved s' q.
Proof. intros H [Hd|Hi]; [left; exact Hd|right; apply H; exact Hi]. Qed.

(* the approvals only grow *)
Lemma step_grows s o r s' : step s o r = Some s' -> forall x, In x (d_approved s) -> In x (d_approved s').
Proof.
  unfold decision_step.
  repeat (match goal with |- context [match ?x with _ => _ end] => destruct x end);
  intros H; inversion H; subst; simpl; auto.
Qed.

(* from a state where q is approved, every program that only removes q-like approved things ... we need the
   simple fact: a removal of an approved path is accepted and keeps approvals *)
Lemma step_remove_approved s q r : approved s q -> step s (Remove q) r = Some s.
Proof.
  intros [Hd|Hi]; unfold decision_step; [rewrite Hd; reflexivity|]. destruct days; [|reflexivity].
  apply mem_str_In in Hi. rewrite Hi. reflexivity.
Qed.
Lemma step_rmtree_approved s q r : approved s q -> step s (Rmtree q) r = Some s.
Proof.
  intros [Hd|Hi]; unfold decision_step; [rewrite Hd; reflexivity|]. destruct days; [|reflexivity].
  apply mem_str_In in Hi. rewrite Hi. reflexivity.
Qed.

Ltac vb Hv := match type of Hv with valid_res ?o ?r = true =>
  let b := fresh "b" in let Hb := fresh "Hb" in destruct (valid_bool o r eq_refl Hv) as [b Hb]; subst r end.
Ltac vu Hv := match type of Hv with valid_res ?o ?r = true =>
  let e := fresh "e" in let He := fresh "He" in let Hos := fresh "Hos" in
  destruct (valid_unit o r eq_refl Hv) as [He|[e [He Hos]]]; subst r end.

Ltac wret := repeat (cbv beta iota; match goal with |- wp _ (Ret _) _ _ _ => apply wp_ret end); cbv beta iota; try exact I.

Lemma step_plain s o r : (match o with Remove _ | Rmtree _ | ReadText _ | Now | Exists _ => False | _ => True end) -> step s o r = Some s.
Proof. intros H. unfold decision_step. destruct days; [|reflexivity]. destruct o; try contradiction; reflexivity. Qed.

(* disposing of an approved path never changes the monitor state *)
Lemma wp_dispose_approved o q s (Q : dst -> unit -> Prop) :
  approved s q -> Q s tt -> wp step (dispose o q) Q (fun _ _ => True) s.
Proof.
  intros Ha HQ. unfold dispose. destruct (eo_dry_run o).
  - apply wp_call_unit. intros r Hv. exists s. split; [apply step_plain; exact I|]. destruct r; try exact I; exact HQ.
  - apply wp_bind.
    assert (Hout : wp step (if 0 <? eo_verbose o then out ($"removing " ++ q ++ [c_nl]) else Ret tt) (fun s' _ => s' = s) (fun _ _ => True) s).
    { destruct (0 <? eo_verbose o); [|reflexivity]. apply wp_call_unit. intros r Hv. exists s. split; [apply step_plain; exact I|].
      destruct r; try exact I; reflexivity. }
    eapply wp_mono; [| |exact Hout]; [|auto]. intros s0 u Hs0. cbv beta in Hs0. rewrite Hs0. clear s0 u Hs0.
    apply wp_catch. unfold remove_file_if_exists. apply wp_bind. apply wp_call_bool. intros r Hv. vb Hv.
    exists s. split; [apply step_plain; exact I|]. destruct b; [|exact HQ].
    unfold remove_file2. apply wp_catch. apply wp_call_unit. intros r Hv'. exists s. split; [apply step_remove_approved; exact Ha|].
    assert (Hlog : forall e : exn, match (if is_OSError e then Some (call_unit (Log WARNING true ($"trash-empty: cannot remove " ++ q))) else None) with
                    | Some p => wp step p Q (fun _ _ => True) s | None => True end).
    { intros e. destruct (is_OSError e); [|exact I]. apply wp_call_unit. intros r0 Hv0. exists s. split; [apply step_plain; exact I|].
      destruct r0; try exact I; exact HQ. }
    vu Hv'; [exact HQ|]. rewrite Hos.
    apply wp_call_unit. intros r Hv''. exists s. split; [apply step_rmtree_approved; exact Ha|].
    vu Hv''; [exact HQ|]. apply Hlog.
Qed.

Lemma approve_has s p : In p (d_approved (approve s p)) /\ In (path_of_backup_copy p) (d_approved (approve s p)).
Proof. simpl. auto. Qed.

Lemma tail_decided o p dd c now s2 :
  (is_old dd now c = true -> approved s2 p /\ approved s2 (path_of_backup_copy p)) ->
  wp step (match parse_deletion_date c with
           | Some d => match older_than dd now d with Some b => Ret b | None => Throw OverflowErrorE end
           | None => Ret false
           end)
     (fun s' a => wp step (if a then dispose o (path_of_backup_copy p) ;;; dispose o p else Ret tt)
                     (fun _ _ => True) (fun _ _ => True) s')
     (fun _ _ => True) s2.
Proof.
  intros H. unfold is_old in H. destruct (parse_deletion_date c) as [d|]; [|wret].
  destruct (older_than dd now d) as [[|]|]; [|wret|exact I].
  destruct (H eq_refl) as [H1 H2]. wret.
  apply wp_bind. apply wp_dispose_approved; [exact H2|]. apply wp_dispose_approved; [exact H1|exact I].
Qed.

Lemma approve_approved s p : approved (approve s p) p /\ approved (approve s p) (path_of_backup_copy p).
Proof. split; right; apply approve_has. Qed.

Lemma wp_now_decides o p dd c s1 : days = Some dd -> env_now env = None -> d_last s1 = Some (p, c) ->
  wp step (call_date Now)
     (fun s2 now => wp step
           (match parse_deletion_date c with
            | Some d => match older_than dd now d with Some b => Ret b | None => Throw OverflowErrorE end
            | None => Ret false
            end)
           (fun s' a => wp step (if a then dispose o (path_of_backup_copy p) ;;; dispose o p else Ret tt)
                     (fun _ _ => True) (fun _ _ => True) s')
           (fun _ _ => True) s2)
     (fun _ _ => True) s1.
Proof.
  intros Hd En Hl. unfold call_date. apply wp_bind. apply wp_call. intros r Hv.
  destruct r as [| | | | | |now|e]; try discriminate.
  eexists. split; [unfold decision_step; rewrite Hd, Hl; reflexivity|]. wret.
  apply tail_decided. intros Ho. rewrite Ho. apply approve_approved.
Qed.

Lemma empty_one_info_decided o p : eo_days o = days -> eo_environ o = env -> asafe step (empty_one_info o p) (fun _ => True).
Proof.
  intros Hd He s. unfold empty_one_info.
  apply wp_bind. unfold ok_to_delete. destruct (eo_days o) as [dd|] eqn:Eo.
  2:{ assert (Edays : days = None) by congruence.
      apply wp_ret. apply wp_bind. apply wp_dispose_approved; [left; exact Edays|]. apply wp_dispose_approved; [left; exact Edays|exact I]. }
  assert (Edays : days = Some dd) by congruence.
  apply wp_bind. apply wp_catch. apply wp_bind. apply wp_call_str. intros r Hv.
  destruct r as [| |c| | | | |e]; try discriminate.
  2:{ (* unreadable: kept *) exists s. split; [unfold decision_step; rewrite Edays; reflexivity|].
      cbv beta. destruct (is_OSError e) eqn:Eos; [wret|]. destruct e; try exact I; try discriminate; wret. }
  rewrite He. unfold get_now_value.
  destruct (env_get env s_TRASH_DATE) as [v|] eqn:Ev; [destruct (strptime_body v) as [now|] eqn:Es|].
  - (* TRASH_DATE decides *)
    assert (En : env_now env = Some now) by (unfold env_now; rewrite Ev; exact Es).
    eexists. split; [unfold decision_step; rewrite Edays, En; reflexivity|]. wret.
    apply wp_bind. wret. apply tail_decided. intros Ho. rewrite Ho. apply approve_approved.
  - assert (En : env_now env = None) by (unfold env_now; rewrite Ev; exact Es).
    eexists. split; [unfold decision_step; rewrite Edays, En; reflexivity|]. wret.
    apply wp_bind. apply wp_bind. apply wp_call_unit. intros r Hv'. eexists. split; [apply step_plain; exact I|].
    destruct r; try exact I; (apply wp_now_decides; [exact Edays|exact En|reflexivity]).
  - assert (En : env_now env = None) by (unfold env_now; rewrite Ev; reflexivity).
    eexists. split; [unfold decision_step; rewrite Edays, En; reflexivity|]. wret.
    apply wp_bind. apply wp_now_decides; [exact Edays|exact En|reflexivity].
Qed.

Lemma payload_name_app entry : payload_name (entry ++ s_trashinfo) = entry.
Proof.
  unfold payload_name. rewrite app_length. change (length s_trashinfo) with 10%nat.
  rewrite Nat.add_sub. rewrite firstn_app, Nat.sub_diag, firstn_all. simpl. apply app_nil_r.
Qed.

Lemma empty_orphan_decided o td entry : clean td -> valid_name entry = true ->
  asafe step (empty_orphan o (join2 td s_info) (join2 td s_files) entry) (fun _ => True).
Proof.
  intros Hc Hv s. unfold empty_orphan. apply wp_bind. apply wp_call_bool. intros r Hvr. vb Hvr.
  destruct (valid_name_noslash entry Hv) as [Hns _].
  assert (Hpob : path_of_backup_copy (join2 (join2 td s_info) (entry ++ s_trashinfo)) = join2 (join2 td s_files) entry).
  { rewrite pobc_clean; [rewrite payload_name_app; reflexivity|exact Hc|]. rewrite mem_app. rewrite Hns. reflexivity. }
  destruct b.
  - exists s. split; [unfold decision_step; destruct days; reflexivity|]. exact I.
  - assert (Hst : exists s', step s (Exists (join2 (join2 td s_info) (entry ++ s_trashinfo))) (RBool false) = Some s'
                             /\ approved s' (join2 (join2 td s_files) entry)).
    { unfold decision_step, approved. destruct days as [dd|]; eexists; (split; [reflexivity|]).
      - right. simpl. left. exact Hpob.
      - left. reflexivity. }
    destruct Hst as [s' [Hs' Ha]]. exists s'. split; [exact Hs'|].
    apply wp_dispose_approved; [exact Ha|exact I].
Qed.
End Decision.

Definition ev_clean (ev : scan_event) : Prop := match ev with Found td _ => clean td | _ => True end.

Theorem empty_only_approved_lemma o : Forall clean (eo_trash_dirs o) ->
  all_runs (fun t _ => accepts (decision_step (eo_days o) (env_now (eo_environ o))) (mkdst None []) t <> None) (empty_main o).
Proof.
  intros Hu. set (days := eo_days o). set (env := eo_environ o).
  eapply all_runs_mono; [|apply (asafe_sound (decision_step days (env_now env)) (empty_main o) (fun _ => True) (mkdst None []))].
  - intros t out [H _]. exact H.
  - pose (L := DL days env). change (T L (empty_main o) (fun _ => True)).
    assert (Hacc : forall x, (match x with Remove _ | Rmtree _ => False | _ => True end) -> OKop L x) by (intros x Hx; apply dec_accepts; exact Hx).
    assert (Hdir : forall td, clean td -> T L (empty_trash_dir o td) (fun _ => True)).
    { intros td Hc. unfold empty_trash_dir.
      eapply (T_bind L); [apply (safe_list_trashinfo L (dec_scan days env))|]. intros infos _.
      apply (T_seq L); [apply (T_for_each L); intros p _; apply empty_one_info_decided; reflexivity|].
      eapply (T_bind L); [apply (safe_entries_if_dir_exists L (dec_scan days env))|]. intros es Hes.
      apply (T_for_each L). intros x Hx. apply empty_orphan_decided; [exact Hc|]. rewrite forallb_forall in Hes. apply Hes. exact Hx. }
    assert (Hh : forall u ev, ev_clean ev -> T L (empty_handle o u ev) (fun _ => True)).
    { intros u ev Hev. destruct ev; simpl; try (apply (T_ret L); exact I). apply Hdir. exact Hev. }
    assert (Htop : forall uid, top_events ev_clean uid).
    { intros uid v. split; [apply top1_clean|split; [exact I|split; [exact I|apply top2_clean]]]. }
    assert (Hhome : forall p, In p (home_trash_dir_path_from_env env) -> ev_clean (Found p [c_slash])).
    { intros p Hp. eapply home_dirs_clean; eauto. }
    assert (Huser : forall d v, In d (eo_trash_dirs o) -> ev_clean (Found d v)).
    { intros d v Hd. rewrite Forall_forall in Hu. apply Hu. exact Hd. }
    assert (Hsel : match eo_all_users o with
      | Some pw => forall u, In u pw -> top_events ev_clean (snd u) /\ ev_clean (Found (home_trash_dir_path_from_home (fst u)) [c_slash])
      | None => top_events ev_clean (eo_uid o)
            /\ (forall p, In p (home_trash_dir_path_from_env (eo_environ o)) -> ev_clean (Found p [c_slash]))
            /\ (forall d v, In d (eo_trash_dirs o) -> ev_clean (Found d v))
      end).
    { destruct (eo_all_users o) as [pw|].
      - intros u _. split; [apply Htop|apply home_from_home_clean].
      - split; [apply Htop|split; assumption]. }
    unfold empty_main.
    eapply (T_bind L); [apply (T_call_bool L); apply Hacc; exact I|]. intros tty _.
    apply (T_seq L); [|apply (T_ret L); exact I].
    destruct (match eo_interactive o with Some b => b | None => tty end).
    + eapply (T_bind L).
      * apply (safe_select_trash_dirs L (dec_scan days env) (fun acc ev => Ret (acc ++ [ev])) ev_clean (Forall ev_clean)); auto.
        intros s ev Hs Hev. apply (T_ret L). apply Forall_app. split; [exact Hs|constructor; [exact Hev|constructor]].
      * intros evs Hevs. eapply (T_bind L); [apply (T_call_str L); apply Hacc; exact I|]. intros reply _.
        destruct (parse_reply reply); [|apply (T_ret L); exact I]. apply (T_for_each L). intros ev Hev.
        apply Hh. rewrite Forall_forall in Hevs. apply Hevs. exact Hev.
    + apply (safe_select_trash_dirs L (dec_scan days env) (empty_handle o) ev_clean (fun _ => True)); auto.
Qed.
