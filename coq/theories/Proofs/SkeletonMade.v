(* C07 / C04: the three directories of a trash directory.  Whenever trash_dir_creator reports success, it has asked for the trash
   directory, its files/ and its info/ - in this order, each with mode 0700 - and each of these requests either succeeded or was
   answered by an error after which the directory was found to exist (mkdir -p).  None of the three is skipped because another one
   is already there. *)
From Coq Require Import List NArith Bool.
From TV Require Import Prelude.Str Prelude.PosixPath Prog.Prog Cmd.Put Cmd.Scan Proofs.Independence Proofs.ChosenMovesOne Proofs.DryRunOne.
Import ListNotations.
Open Scope N_scope.

Fixpoint makedirs_of (t : trace) : list (str * N) :=
  match t with
  | [] => []
  | (Makedirs p m, _) :: t' => (p, m) :: makedirs_of t'
  | _ :: t' => makedirs_of t'
  end.
Lemma makedirs_of_app a b : makedirs_of (a ++ b) = makedirs_of a ++ makedirs_of b.
Proof. induction a as [|[o r] a IH]; [reflexivity|]. destruct o; cbn [app makedirs_of]; rewrite IH; reflexivity. Qed.

(* mkdir -p: exactly one request, for that path and mode - whatever the answer *)
Lemma run_mkdir_p path mode t out : run_of (mkdir_p path mode) t out -> makedirs_of t = [(path, mode)].
Proof.
  unfold mkdir_p. intros H. apply run_of_catch_inv in H. destruct H as [t1 [out1 [H1 Hc]]].
  apply run_call_unit_any' in H1. destruct H1 as [r1 E1]. subst t1.
  destruct Hc as [[Et _]|[e [p [t2 [Eo [Eh [Hp Et]]]]]]].
  - subst t. reflexivity.
  - subst t. destruct (is_OSError e); [|discriminate]. inversion Eh; subst p.
    apply run_of_bind in Hp. destruct Hp as [[t3 [d [t4 [H3 [H4 Et]]]]]|[e' [H3 Eo']]].
    + apply run_call_bool_any in H3. destruct H3 as [r3 E3]. subst t3 t2. destruct d; inversion H4; subst; reflexivity.
    + apply run_call_bool_any in H3. destruct H3 as [r3 E3]. subst. reflexivity.
Qed.

(* the creator: success means all three were asked for, in this order, private *)
Lemma skeleton_made_lemma c t : run_of (make_candidate_dirs c) t (Done None) ->
  makedirs_of t = [(c_path c, 448); (cand_files_dir c, 448); (cand_info_dir c, 448)].
Proof.
  unfold make_candidate_dirs. intros H. apply run_of_catch_inv in H. destruct H as [t1 [out1 [H1 Hc]]].
  destruct Hc as [[Et [Eo _]]|[e [p [t2 [Eo [Eh [Hp Et]]]]]]].
  2:{ destruct (is_OSError e); [|discriminate]. inversion Eh; subst p. inversion Hp. }
  subst t out1.
  apply run_of_bind in H1. destruct H1 as [[ta [u1 [tb [Ha [Hb Et]]]]]|[e [_ Eo]]]; [|discriminate].
  apply run_of_bind in Hb. destruct Hb as [[tc [u2 [td [Hc [Hd Et2]]]]]|[e [_ Eo]]]; [|discriminate].
  apply run_of_bind in Hd. destruct Hd as [[te [u3 [tf [He [Hf Et3]]]]]|[e [_ Eo]]]; [|discriminate].
  inversion Hf; subst. rewrite !makedirs_of_app, (run_mkdir_p _ _ _ _ Ha), (run_mkdir_p _ _ _ _ Hc), (run_mkdir_p _ _ _ _ He). reflexivity.
Qed.

(* ... and a failure is reported only after a request that failed: the prefix of the three that was asked for *)
Lemma skeleton_attempted_lemma c t out : run_of (make_candidate_dirs c) t out ->
  exists n, makedirs_of t = firstn n [(c_path c, 448); (cand_files_dir c, 448); (cand_info_dir c, 448)] /\ (0 < n)%nat.
Proof.
  unfold make_candidate_dirs. intros H. apply run_of_catch_inv in H. destruct H as [t1 [out1 [H1 Hc]]].
  assert (Hm : exists n, makedirs_of t1 = firstn n [(c_path c, 448); (cand_files_dir c, 448); (cand_info_dir c, 448)] /\ (0 < n)%nat).
  { apply run_of_bind in H1. destruct H1 as [[ta [u1 [tb [Ha [Hb Et]]]]]|[e [Ha Eo]]].
    2:{ exists 1%nat. rewrite (run_mkdir_p _ _ _ _ Ha). split; [reflexivity|auto]. }
    apply run_of_bind in Hb. destruct Hb as [[tc [u2 [td [Hc' [Hd Et2]]]]]|[e [Hc' Eo]]].
    2:{ exists 2%nat. subst t1. rewrite makedirs_of_app, (run_mkdir_p _ _ _ _ Ha), (run_mkdir_p _ _ _ _ Hc'). split; [reflexivity|auto]. }
    apply run_of_bind in Hd. destruct Hd as [[te [u3 [tf [He [Hf Et3]]]]]|[e [He Eo]]].
    - exists 3%nat. inversion Hf; subst. rewrite !makedirs_of_app, (run_mkdir_p _ _ _ _ Ha), (run_mkdir_p _ _ _ _ Hc'), (run_mkdir_p _ _ _ _ He).
      split; [reflexivity|auto].
    - exists 3%nat. subst. rewrite !makedirs_of_app, (run_mkdir_p _ _ _ _ Ha), (run_mkdir_p _ _ _ _ Hc'), (run_mkdir_p _ _ _ _ He).
      split; [reflexivity|auto]. }
  destruct Hc as [[Et _]|[e [p [t2 [Eo [Eh [Hp Et]]]]]]].
  - subst t. exact Hm.
  - destruct (is_OSError e); [|discriminate]. inversion Eh; subst p. inversion Hp; subst. rewrite app_nil_r. exact Hm.
Qed.
