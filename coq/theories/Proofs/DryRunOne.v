(* C14: what a dry run announces is what the real run goes for.  Per entry of info/: the decision [ok_to_delete] is a program in which
   --dry-run does not occur; after the same decision the dry run prints "would remove" for exactly the payload path and the info path
   of an approved entry (nothing for the others), and the real run probes exactly these two paths, in this order, and removes nothing
   else.  The same for a payload without .trashinfo. *)
From Coq Require Import List NArith ZArith Bool.
From TV Require Import Prelude.Str Prelude.PosixPath Codec.TrashInfo Codec.DateFmt Prog.Prog Cmd.Put Cmd.Scan Cmd.Empty
  Proofs.Independence Proofs.ChosenMovesOne.
Import ListNotations.
Open Scope N_scope.

Definition with_dry (o : empty_opts) (b : bool) : empty_opts :=
  {| eo_trash_dirs := eo_trash_dirs o; eo_interactive := eo_interactive o; eo_days := eo_days o; eo_dry_run := b;
     eo_verbose := eo_verbose o; eo_environ := eo_environ o; eo_uid := eo_uid o;
     eo_all_users := eo_all_users o |}.

Lemma ok_to_delete_ignores_dry o b p : ok_to_delete (with_dry o b) p = ok_to_delete o p.
Proof. reflexivity. Qed.

Definition targets (ok : bool) (p : str) : list str := if ok then [path_of_backup_copy p; p] else [].
Definition would_remove (x : str) : op := Out false ($"would remove " ++ x ++ [c_nl]).

Fixpoint removal_paths (t : trace) : list str :=
  match t with
  | [] => []
  | (Remove p, _) :: t' => p :: removal_paths t'
  | (Rmtree p, _) :: t' => p :: removal_paths t'
  | _ :: t' => removal_paths t'
  end.
Fixpoint probed (t : trace) : list str :=
  match t with
  | [] => []
  | (Lexists p, _) :: t' => p :: probed t'
  | _ :: t' => probed t'
  end.
Lemma removal_paths_app a b : removal_paths (a ++ b) = removal_paths a ++ removal_paths b.
Proof. induction a as [|[o r] a IH]; [reflexivity|]. destruct o; cbn [app removal_paths]; rewrite IH; reflexivity. Qed.
Lemma probed_app a b : probed (a ++ b) = probed a ++ probed b.
Proof. induction a as [|[o r] a IH]; [reflexivity|]. destruct o; cbn [app probed]; rewrite IH; reflexivity. Qed.

(* one path handed to the consumer *)
Lemma run_dispose_dry o path t out : eo_dry_run o = true -> run_of (dispose o path) t out ->
  map fst t = [would_remove path].
Proof.
  unfold dispose, Prog.out, call_unit, call. intros Hd H. rewrite Hd in H. cbv [bind] in H. run_go; reflexivity.
Qed.

Lemma run_call_bool_any o t out : run_of (call_bool o) t out -> exists r, t = [(o, r)].
Proof.
  unfold call_bool, call. intros H. cbv [bind] in H. inversion H as [| |o0 k0 r t0 out0 Hv Hk]; subst. exists r.
  destruct r; cbv beta iota in Hk; inversion Hk; subst; reflexivity.
Qed.
Lemma run_call_unit_any' o t out : run_of (call_unit o) t out -> exists r, t = [(o, r)].
Proof.
  unfold call_unit, call. intros H. cbv [bind] in H. inversion H as [| |o0 k0 r t0 out0 Hv Hk]; subst. exists r.
  destruct r; cbv beta iota in Hk; inversion Hk; subst; reflexivity.
Qed.

Lemma run_remove_file2 path t out : run_of (remove_file2 path) t out ->
  (forall x, In x (removal_paths t) -> x = path) /\ probed t = [].
Proof.
  unfold remove_file2. intros H. apply run_of_catch_inv in H. destruct H as [t1 [out1 [H1 Hc]]].
  apply run_call_unit_any' in H1. destruct H1 as [r1 E1]. subst t1.
  destruct Hc as [[Et _]|[e [p [t2 [Eo [Eh [Hp Et]]]]]]].
  - subst t. cbn [removal_paths probed In]. split; [intros x [Hx|[]]; symmetry; exact Hx|reflexivity].
  - destruct (is_OSError e); [|discriminate]. inversion Eh; subst p. apply run_call_unit_any' in Hp. destruct Hp as [r2 E2]. subst.
    cbn [app removal_paths probed In]. split; [intros x [Hx|[Hx|[]]]; symmetry; exact Hx|reflexivity].
Qed.

Lemma run_remove_file_if_exists path t out : run_of (remove_file_if_exists path) t out ->
  (forall x, In x (removal_paths t) -> x = path) /\ probed t = [path].
Proof.
  unfold remove_file_if_exists. intros H. apply run_of_bind in H. destruct H as [[t1 [b [t2 [H1 [H2 Et]]]]]|[e [H1 Eo]]].
  - apply run_call_bool_any in H1. destruct H1 as [r E]. subst t1 t. cbn [app removal_paths probed]. destruct b.
    + destruct (run_remove_file2 _ _ _ H2) as [R P]. rewrite P. split; [exact R|reflexivity].
    + inversion H2; subst. split; [intros x []|reflexivity].
  - apply run_call_bool_any in H1. destruct H1 as [r E]. subst t. cbn [removal_paths probed]. split; [intros x []|reflexivity].
Qed.

Lemma run_dispose_real o path t out : eo_dry_run o = false -> run_of (dispose o path) t out ->
  (forall x, In x (removal_paths t) -> x = path) /\ (probed t = [path] \/ probed t = []) /\ (out = Done tt -> probed t = [path]).
Proof.
  unfold dispose. intros Hd H. rewrite Hd in H. apply run_of_bind in H. destruct H as [[t1 [u [t2 [H1 [H2 Et]]]]]|[e [H1 Eo]]].
  - assert (Q : removal_paths t1 = [] /\ probed t1 = []).
    { destruct (0 <? eo_verbose o); [unfold Prog.out in H1; apply run_call_unit_any' in H1; destruct H1 as [r E]; subst; split; reflexivity
                                    |inversion H1; subst; split; reflexivity]. }
    destruct Q as [Q1 Q2]. subst t. rewrite removal_paths_app, probed_app, Q1, Q2. cbn [app].
    apply run_of_catch_inv in H2. destruct H2 as [t3 [out3 [H3 Hc]]]. destruct (run_remove_file_if_exists _ _ _ H3) as [R P].
    destruct Hc as [[Et _]|[e [p [t4 [Eo [Eh [Hp Et]]]]]]].
    + subst t2. split; [exact R|]. split; [left; exact P|intros _; exact P].
    + destruct (is_OSError e); [|discriminate]. inversion Eh; subst p. apply run_call_unit_any' in Hp. destruct Hp as [r E]. subst.
      rewrite removal_paths_app, probed_app, P. cbn [removal_paths probed app]. rewrite app_nil_r.
      split; [exact R|]. split; [left; reflexivity|intros _; reflexivity].
  - assert (Q : removal_paths t = [] /\ probed t = []).
    { destruct (0 <? eo_verbose o); [unfold Prog.out in H1; apply run_call_unit_any' in H1; destruct H1 as [r E]; subst; split; reflexivity
                                    |inversion H1]. }
    destruct Q as [Q1 Q2]. rewrite Q1, Q2. split; [intros x []|]. split; [right; reflexivity|subst; discriminate].
Qed.
