(* C04 / C01 on the world (single process): trash-put never moves a payload onto something that exists.
   In every run consistent with a file system s, at the moment of every Move the destination is absent - or is a
   symbolic link (a payload without .trashinfo that os.path.exists cannot see because it dangles: the stated
   exception).  By World.effect a move onto an absent destination relocates the tree unchanged (mv_tree): the whole
   entry arrives under files/, nothing that was in the trash is replaced. *)
From TV Require Import Prelude.Str Prelude.PosixPath Prelude.Utf8 Codec.Quote Codec.DateFmt Codec.TrashInfo Logic.OrigLoc Logic.Reply
  Prog.Prog World.World Cmd.Put Cmd.Scan Proofs.ProgProofs Proofs.PLogic Proofs.OrigLocProofs Proofs.PathProofs Proofs.ScanProofs
  Proofs.WorldProofs Proofs.PutSafe Proofs.PutAll Proofs.OrderProofs.
Open Scope N_scope.

Definition free_dst (s : wstate) (o : op) : Prop :=
  match o with
  | Move _ dst => wfs s dst = None \/ wfs s dst = Some NLink
  | _ => True
  end.
Definition FL := world_logic free_dst.
Definition free (s : wstate) (q : str) : Prop := wfs s q = None \/ wfs s q = Some NLink.

Lemma free_ok o : (match o with Move _ _ => False | _ => True end) -> OKop FL o.
Proof. intros H s. destruct o; try contradiction; exact I. Qed.
Lemma free_same s s' q : same s s' -> free s q -> free s' q.
Proof. intros [_ H] Hf. unfold free. rewrite H. exact Hf. Qed.
Lemma free_eq s s' q : wfs s' q = wfs s q -> free s q -> free s' q.
Proof. intros H Hf. unfold free. rewrite H. exact Hf. Qed.

(* a debug line changes nothing *)
Lemma awp_log lv ex t (Q : wstate -> unit -> Prop) (E : wstate -> exn -> Prop) s :
  (forall s', same s s' -> Q s' tt) -> awp free_dst (log lv ex t) Q E s.
Proof.
  intros HQ. unfold log, call_unit. apply awp_bind. apply awp_call; [exact I|]. intros r s' Hv [He _].
  rewrite (valid_silent (Log lv ex t) r eq_refl Hv). cbn [awp]. apply HQ. simpl in He. exact He.
Qed.

(* fs.py RealAtomicWrite: whatever happens, only the info file itself changes *)
Lemma awp_atomic_write p c q s (Q : wstate -> unit -> Prop) (E : wstate -> exn -> Prop) :
  q <> p -> free s q ->
  (forall s', free s' q -> Q s' tt) -> (forall s' e, E s' e) ->
  awp free_dst (atomic_write p c) Q E s.
Proof.
  intros Hne Hf HQ HE. unfold atomic_write. apply awp_bind. apply awp_call_unit; [reflexivity|exact I| |intros; apply HE].
  intros s1 [He1 _]. simpl in He1. destruct He1 as [_ [Hfd1 Hq1]].
  assert (Hf1 : free s1 q) by (eapply free_eq; [rewrite Hq1; apply upd_other; exact Hne|exact Hf]).
  apply awp_bind. apply awp_catch. apply awp_call_unit; [reflexivity|exact I| |].
  - (* written *) intros s2 [He2 _]. simpl in He2. destruct He2 as [p' [c' [Hfd' [Hp' [Hd2 Hq2]]]]].
    assert (p' = p) by congruence. subst p'.
    assert (Hf2 : free s2 q) by (eapply free_eq; [rewrite Hq2; apply upd_other; exact Hne|exact Hf1]).
    apply awp_call_unit; [reflexivity|exact I| |intros; apply HE].
    intros s3 [He3 _]. simpl in He3. destruct He3 as [_ Hq3]. apply HQ. eapply free_eq; [apply Hq3|exact Hf2].
  - (* the write failed: close, remove, re-raise - nothing to show but the operations issued *)
    intros e s2 Hos _. rewrite Hos.
    apply awp_bind. apply awp_call_unit; [reflexivity|exact I| |intros; apply HE]. intros s3 _.
    apply awp_bind. apply awp_call_unit; [reflexivity|exact I| |intros; apply HE]. intros s4 _. apply HE.
Qed.

(* info_file_persister.py: the name search.  When it returns an info path, the payload path of that info is free *)
Lemma awp_try_persist d : wf_data d -> forall fuel idx ntl s,
  awp free_dst (try_persist fuel d idx ntl)
      (fun s' r => match r with Persisted p => free s' (path_of_backup_copy p) | _ => True end) (fun _ _ => True) s.
Proof.
  intros Hwf. induction fuel as [|f IH]; intros idx ntl s; [exact I|]. cbn [try_persist].
  apply awp_bind. eapply awp_mono; [| |apply (safe_suffix_for_index FL (fun o H => free_ok o ltac:(destruct o; try discriminate H; exact I)) idx s)]; [|auto].
  intros s1 suffix Hsfx. cbv beta.
  set (path := join2 (td_info_dir d) (create_trashinfo_basename (td_basename d) suffix ntl)).
  assert (Hip : is_info_path path = true) by (apply info_path_of_data; assumption).
  assert (Hne : path_of_backup_copy path <> path).
  { intros E. pose proof (info_ne_payload path Hip) as H. rewrite E in H. rewrite str_eqb_refl in H. discriminate. }
  apply awp_bind. apply awp_call_bool; [reflexivity|exact I|]. intros taken s2 [He2 _].
  destruct taken; [apply IH|].
  assert (Hf2 : free s2 (path_of_backup_copy path)).
  { simpl in He2. destruct He2 as [Hsame [_ Hfalse]]. eapply free_same; [exact Hsame|]. apply Hfalse. reflexivity. }
  apply awp_bind. apply awp_catch. apply awp_bind.
  apply (awp_atomic_write path (td_content d) (path_of_backup_copy path) s2); [exact Hne|exact Hf2| |].
  - (* created *) intros s3 Hf3. apply awp_ret. cbv beta iota. apply awp_bind. apply awp_log. intros s4 Hs4. apply awp_ret. eapply free_same; eauto.
  - (* raised *) intros s3 e. destruct e as [n| | | | | | | | | |]; try exact I. apply awp_ret. cbv beta iota.
    match goal with |- context [if ?c then _ else _] => destruct c end.
    + apply awp_bind. apply awp_log. intros s4 _. apply IH.
    + match goal with |- context [if ?c then _ else _] => destruct c end; [apply awp_ret; exact I|].
      apply awp_bind. apply awp_log. intros s4 _. apply IH.
Qed.

Section OneArg.
Variable o : put_opts.
Variable path : str.

Lemma FL_plain op : put_plain op = true -> OKop FL op.
Proof. intros H. apply free_ok. destruct op; try discriminate H; exact I. Qed.
Lemma FL_gen op : (match op with Move _ _ | Makedirs _ _ | Input _ => False | _ => True end) -> OKop FL op.
Proof. intros H. apply free_ok. destruct op; try contradiction; exact I. Qed.

(* put_trash_dir.py: the move goes onto the payload path of the info just created, which is free *)
Lemma awp_try_trash info s : free s (path_of_backup_copy info) ->
  awp free_dst (try_trash path info) (fun _ _ => True) (fun _ _ => True) s.
Proof.
  intros Hf. unfold try_trash. apply awp_catch.
  assert (Hh : forall s' e, match (if is_OSError e then Some (remove_file info ;;; Ret (Some (RCannotMove e))) else None) with
                            | Some p => awp free_dst p (fun _ _ => True) (fun _ _ => True) s' | None => True end).
  { intros s' e. destruct (is_OSError e); [|exact I].
    apply awp_bind. eapply awp_mono; [| |apply (all_remove_file FL FL_gen info s')]; [intros; apply awp_ret; exact I|auto]. }
  apply awp_bind. unfold fs_move. apply awp_bind. apply awp_call_bool; [reflexivity|exact I|]. intros m s1 [He _].
  assert (Hf1 : free s1 (path_of_backup_copy info)) by (eapply free_same; [|exact Hf]; destruct m; simpl in He; exact He).
  destruct m; [apply awp_throw; apply Hh|].
  apply awp_call_unit; [reflexivity|exact Hf1| |intros; apply Hh].
  intros s2 _. apply awp_ret. exact I.
Qed.

Lemma tfi_free c volume : T FL (trash_file_in c o path volume) (fun _ => True).
Proof.
  unfold trash_file_in.
  eapply (T_bind FL); [apply (safe_check_secure FL FL_plain)|]. intros r1 _. destruct r1; [apply (T_ret FL); exact I|].
  eapply (T_bind FL); [apply (safe_gate FL FL_plain)|]. intros r2 _. destruct r2; [apply (T_ret FL); exact I|].
  eapply (T_bind FL); [apply (safe_make_candidate_dirs FL FL_plain (fun p => free_ok (Makedirs p 448) I))|]. intros r3 _. destruct r3; [apply (T_ret FL); exact I|].
  eapply (T_bind FL); [apply (safe_make_trashinfo_data FL FL_plain)|]. intros r4 Hd. destruct r4 as [data|]; [|apply (T_ret FL); exact I].
  destruct Hd as [Hwf _]. intros s. apply awp_bind.
  eapply awp_mono; [| |apply (awp_try_persist data Hwf (po_fuel o) 0%nat false s)]; [|auto].
  intros s1 r5 H5. cbv beta. destruct r5 as [info| |]; [|apply awp_ret; exact I|apply awp_throw; exact I].
  apply awp_try_trash. exact H5.
Qed.
End OneArg.

Theorem put_never_clobbers_lemma o :
  all_runs (fun t _ => forall s, wok free_dst s t) (put_main o).
Proof.
  assert (HT : T FL (put_main o) (fun _ => True)).
  { apply (all_put_main FL o). intros path. apply (tfi_trash_single FL o FL_gen).
    - intros _ p. apply free_ok. exact I.
    - intros c volume. apply tfi_free. }
  generalize (all_runs_forall (fun _ : wstate => True) (put_main o) (fun s t _ => wok free_dst s t)
           (fun s _ => all_runs_mono _ _ _ (fun t out H => proj1 H) (awp_sound _ _ _ _ s (HT s)))).
  apply all_runs_mono. intros t out H s. apply H. exact I.
Qed.
