(* C14: what a dry run announces is what the real run goes for (continued: one entry, one orphan). *)
From Coq Require Import List NArith ZArith Bool.
From TV Require Import Prelude.Str Prelude.PosixPath Codec.TrashInfo Codec.DateFmt Prog.Prog Cmd.Put Cmd.Scan Cmd.Empty
  Proofs.Independence Proofs.DryRunOne.
Import ListNotations.
Open Scope N_scope.

(* one entry of info/, dry run: after the decision, the two lines of an approved entry - and nothing else *)
Lemma dry_run_announces_lemma o p t : eo_dry_run o = true -> run_of (empty_one_info o p) t (Done tt) ->
  exists t_ok ok t_out, run_of (ok_to_delete o p) t_ok (Done ok) /\ t = t_ok ++ t_out /\
                        map fst t_out = map would_remove (targets ok p).
Proof.
  unfold empty_one_info. intros Hd H. apply run_of_bind in H.
  destruct H as [[t1 [ok [t2 [H1 [H2 Et]]]]]|[e [_ Eo]]]; [|discriminate].
  exists t1, ok, t2. split; [exact H1|]. split; [exact Et|]. destruct ok; cbn [targets map].
  - apply run_of_bind in H2. destruct H2 as [[t3 [u [t4 [H3 [H4 Et2]]]]]|[e [_ Eo]]]; [|discriminate].
    apply (run_dispose_dry _ _ _ _ Hd) in H3. apply (run_dispose_dry _ _ _ _ Hd) in H4. subst t2. rewrite map_app, H3, H4. reflexivity.
  - inversion H2; subst. reflexivity.
Qed.

(* the same entry, real run: after the decision, the probes are those two paths in that order (all of them when the entry was worked
   through), and no other path is removed *)
Lemma real_run_targets_lemma o p t out : eo_dry_run o = false -> run_of (empty_one_info o p) t out ->
  (exists e, run_of (ok_to_delete o p) t (Uncaught e) /\ out = Uncaught e) \/
  exists t_ok ok t_rest, run_of (ok_to_delete o p) t_ok (Done ok) /\ t = t_ok ++ t_rest /\
    (forall x, In x (removal_paths t_rest) -> In x (targets ok p)) /\
    (exists n, probed t_rest = firstn n (targets ok p)) /\
    (out = Done tt -> probed t_rest = targets ok p).
Proof.
  unfold empty_one_info. intros Hd H. apply run_of_bind in H.
  destruct H as [[t1 [ok [t2 [H1 [H2 Et]]]]]|[e [H1 Eo]]]; [right|left; exists e; auto].
  exists t1, ok, t2. split; [exact H1|]. split; [exact Et|]. destruct ok; cbn [targets].
  - apply run_of_bind in H2. destruct H2 as [[t3 [u [t4 [H3 [H4 Et2]]]]]|[e [H3 Eo]]].
    + destruct u. destruct (run_dispose_real _ _ _ _ Hd H3) as [R3 [P3 D3]]. destruct (run_dispose_real _ _ _ _ Hd H4) as [R4 [P4 D4]].
      subst t2. rewrite removal_paths_app, probed_app, (D3 eq_refl). split.
      * intros x Hx. apply in_app_or in Hx. destruct Hx as [Hx|Hx]; [left; symmetry; exact (R3 x Hx)|right; left; symmetry; exact (R4 x Hx)].
      * split; [destruct P4 as [P4|P4]; rewrite P4; [exists 2%nat|exists 1%nat]; reflexivity|].
        intros Eo. rewrite (D4 Eo). reflexivity.
    + destruct (run_dispose_real _ _ _ _ Hd H3) as [R3 [P3 D3]]. subst out. split.
      * intros x Hx. left. symmetry. exact (R3 x Hx).
      * split; [destruct P3 as [P3|P3]; rewrite P3; [exists 1%nat|exists 0%nat]; reflexivity|discriminate].
  - inversion H2; subst. split; [intros x []|]. split; [exists 0%nat; reflexivity|reflexivity].
Qed.

(* a payload without .trashinfo: the same pair of statements *)
Lemma orphan_announced_and_targeted_lemma o info_dir files_dir entry t out : run_of (empty_orphan o info_dir files_dir entry) t out ->
  exists r t_rest, t = (Exists (join2 info_dir (entry ++ s_trashinfo)), r) :: t_rest /\
    match r with
    | RBool true => t_rest = []
    | RBool false =>
        if eo_dry_run o then map fst t_rest = [would_remove (join2 files_dir entry)]
        else (forall x, In x (removal_paths t_rest) -> x = join2 files_dir entry) /\ (out = Done tt -> probed t_rest = [join2 files_dir entry])
    | _ => t_rest = []
    end.
Proof.
  unfold empty_orphan, call_bool, call. intros H. cbv [bind] in H.
  inversion H as [| |o0 k0 r t0 out0 Hv Hk]; subst. exists r, t0. split; [reflexivity|].
  destruct r as [|b| | | | | |e]; cbv beta iota in Hk; try (inversion Hk; subst; reflexivity).
  destruct b; [inversion Hk; subst; reflexivity|].
  destruct (eo_dry_run o) eqn:Hd.
  - exact (run_dispose_dry _ _ _ _ Hd Hk).
  - destruct (run_dispose_real _ _ _ _ Hd Hk) as [R [_ D]]. split; assumption.
Qed.
