(* What trash-put writes is read back exactly by the shared readers. *)
From TV Require Import Prelude.Str Prelude.Utf8 Prelude.UnicodeTables Codec.Quote Codec.DateFmt Codec.TrashInfo
  Proofs.Utf8Proofs Proofs.QuoteProofs.
From Coq Require Import Lia ZifyBool ZifyN ZifyNat.
Open Scope N_scope.
Ltac Zify.zify_post_hook ::= Z.div_mod_to_equations.

(* ---------- small list/string facts ---------- *)
Lemma split_on_app_sep sep a rest :
  mem sep a = false -> split_on sep (a ++ sep :: rest) = a :: split_on sep rest.
Proof.
  induction a as [|c a IH]; cbn [app mem split_on]; intros H.
  - now rewrite N.eqb_refl.
  - apply orb_false_iff in H. destruct H as [H1 H2]. rewrite N.eqb_sym in H1. rewrite H1.
    now rewrite IH.
Qed.

Lemma universal_newlines_id s : mem c_cr s = false -> universal_newlines s = s.
Proof.
  induction s as [|c s IH]; [reflexivity|]. cbn [mem universal_newlines]. intros H.
  apply orb_false_iff in H. destruct H as [H1 H2]. rewrite N.eqb_sym in H1. rewrite H1. now rewrite IH.
Qed.

Lemma mem_app c a b : mem c (a ++ b) = mem c a || mem c b.
Proof. induction a as [|x a IH]; [reflexivity|]. cbn [app mem]. now rewrite IH, orb_assoc. Qed.

Lemma mem_false_Forall c s : Forall (fun x => x <> c) s -> mem c s = false.
Proof.
  induction 1 as [|x s Hx _ IH]; [reflexivity|]. cbn [mem]. rewrite IH, orb_false_r.
  apply N.eqb_neq. congruence.
Qed.

Lemma starts_with_app p r : starts_with (p ++ r) p = true.
Proof. induction p as [|c p IH]; [reflexivity|]. cbn [app starts_with]. now rewrite N.eqb_refl, IH. Qed.

Lemma skipn_app_exact {A} (p r : list A) : skipn (length p) (p ++ r) = r.
Proof. induction p; [reflexivity|assumption]. Qed.

(* ---------- characters of the pieces ---------- *)
Definition text_char (c : N) : Prop := c < 128 /\ c <> c_nl /\ c <> c_cr.

Lemma path_char_text c : path_char c -> text_char c.
Proof.
  unfold path_char, text_char, is_safe, is_alnum, is_upper_hex, c_pct, c_nl, c_cr. intros [H|[H|H]]; lia.
Qed.

Definition digit_char (c : N) : Prop := 48 <= c <= 57.

Lemma dec_digits_fuel_chars fuel : forall n acc, Forall digit_char acc -> Forall digit_char (dec_digits_fuel fuel n acc).
Proof.
  induction fuel as [|f IH]; intros n acc H; cbn [dec_digits_fuel]; [assumption|].
  assert (digit_char (48 + n mod 10)) by (unfold digit_char; lia).
  destruct (n <? 10); [constructor; assumption|]. apply IH. constructor; assumption.
Qed.

Lemma digit_text c : digit_char c -> text_char c.
Proof. unfold digit_char, text_char, c_nl, c_cr. lia. Qed.

Lemma pad2_chars n : Forall digit_char (pad2 n).
Proof. unfold pad2, digit_char. repeat constructor; lia. Qed.

Lemma format_date_text d : Forall text_char (format_date d).
Proof.
  unfold format_date, dec_of_N.
  repeat (apply Forall_app; split);
    try (eapply Forall_impl; [apply digit_text|]; first [apply pad2_chars | apply dec_digits_fuel_chars; constructor]);
    repeat constructor; unfold c_dash, c_T, c_colon, c_nl, c_cr; lia.
Qed.

(* ---------- strptime on what strftime wrote ---------- *)
Lemma nd_zeros_head : nd_zeros = 48 :: tl nd_zeros.
Proof. reflexivity. Qed.

Lemma uni_digit_ascii x : x < 10 -> uni_digit (48 + x) = Some x.
Proof.
  intros H. unfold uni_digit. rewrite nd_zeros_head. cbn [digit_in].
  replace ((48 <=? 48 + x) && (48 + x <? 48 + 10)) with true by lia. f_equal. lia.
Qed.

Lemma ascii_digit_ascii x : x < 10 -> ascii_digit (48 + x) = Some x.
Proof. intros H. unfold ascii_digit. replace ((48 <=? 48 + x) && (48 + x <=? 57)) with true by lia. f_equal. lia. Qed.

Lemma field_pad2 two ou one n r :
  n < 100 -> two ((n / 10) mod 10) (n mod 10) = true -> field two ou one (pad2 n ++ r) = Some (n, r).
Proof.
  intros Hn Ht. unfold pad2. cbn [app]. unfold field.
  rewrite ascii_digit_ascii by lia. rewrite uni_digit_ascii by lia.
  replace ((48 <=? 48 + n mod 10) && (48 + n mod 10 <=? 57)) with true by lia.
  rewrite Ht. f_equal. f_equal. lia.
Qed.

Lemma dec_of_N_4digits_b : forallb (fun y => str_eqb (dec_of_N y) (pad4 y))
                                   (map (fun k => 1000 + N.of_nat k) (seq 0 (N.to_nat 9000))) = true.
Proof. vm_compute. reflexivity. Qed.

Lemma str_eqb_eq a : forall b, str_eqb a b = true -> a = b.
Proof.
  induction a as [|x a IH]; destruct b as [|y b]; cbn [str_eqb]; intros H; try discriminate; [reflexivity|].
  apply andb_true_iff in H. destruct H as [H1 H2]. apply N.eqb_eq in H1. subst. f_equal. now apply IH.
Qed.

Lemma dec_of_N_4digits y : 1000 <= y <= 9999 -> dec_of_N y = pad4 y.
Proof.
  intros H. apply str_eqb_eq.
  pose proof dec_of_N_4digits_b as Hb. rewrite forallb_forall in Hb. apply Hb.
  apply in_map_iff. exists (N.to_nat (y - 1000)). split; [lia|]. apply in_seq. lia.
Qed.

Lemma f_year_pad4 y r : y <= 9999 -> f_year (pad4 y ++ r) = Some (y, r).
Proof.
  intros H. unfold pad4. cbn [app]. unfold f_year.
  rewrite !uni_digit_ascii by lia. f_equal. f_equal. lia.
Qed.

Lemma expect_same c r : expect c (c :: r) = Some r.
Proof. unfold expect. now rewrite N.eqb_refl. Qed.
Lemma expect_T_T r : expect_T (c_T :: r) = Some r.
Proof. reflexivity. Qed.

Definition zero_micro (d : datetime) : datetime :=
  mkdt (dyear d) (dmonth d) (dday d) (dhour d) (dminute d) (dsecond d) 0.

Lemma strptime_format_date d :
  dt_valid d = true -> 1000 <= dyear d -> strptime_body (format_date d) = Some (zero_micro d).
Proof.
  intros Hv Hy. unfold dt_valid in Hv.
  repeat (apply andb_true_iff in Hv; destruct Hv as [Hv ?]).
  assert (days_in_month (dyear d) (dmonth d) <= 31)
    by (unfold days_in_month; destruct (dmonth d =? 2), (is_leap (dyear d)),
          ((dmonth d =? 4) || (dmonth d =? 6) || (dmonth d =? 9) || (dmonth d =? 11)); lia).
  unfold format_date. rewrite dec_of_N_4digits by lia.
  unfold strptime_body.
  rewrite f_year_pad4 by lia.
  cbn [app]. rewrite expect_same.
  unfold f_month. rewrite field_pad2; [|lia|unfold is_ascii2; lia].
  rewrite expect_same.
  unfold f_day, f_day_digits. rewrite field_pad2; [|lia|unfold is_ascii2; lia].
  rewrite expect_T_T.
  unfold f_hour. rewrite field_pad2; [|lia|unfold is_ascii2; lia].
  rewrite expect_same.
  unfold f_minute. rewrite field_pad2; [|lia|unfold is_ascii2; lia].
  rewrite expect_same.
  unfold f_second. rewrite <- (app_nil_r (pad2 (dsecond d))). rewrite field_pad2; [|lia|unfold is_ascii2; lia].
  unfold zero_micro.
  replace (dt_valid _) with true; [reflexivity|].
  unfold dt_valid. cbn [dyear dmonth dday dhour dminute dsecond dmicro]. lia.
Qed.

(* ---------- the file as a whole ---------- *)
Lemma header_text : Forall text_char s_header.
Proof. unfold s_header, text_char, c_nl, c_cr. repeat constructor; lia. Qed.
Lemma sPath_text : Forall text_char s_Path.
Proof. unfold s_Path, text_char, c_nl, c_cr. repeat constructor; lia. Qed.
Lemma sDD_text : Forall text_char s_DeletionDate.
Proof. unfold s_DeletionDate, text_char, c_nl, c_cr. repeat constructor; lia. Qed.

Lemma text_no_nl s : Forall text_char s -> mem c_nl s = false.
Proof. intros H. apply mem_false_Forall. eapply Forall_impl; [|exact H]. unfold text_char. tauto. Qed.
Lemma text_no_cr s : Forall text_char s -> mem c_cr s = false.
Proof. intros H. apply mem_false_Forall. eapply Forall_impl; [|exact H]. unfold text_char. tauto. Qed.
Lemma text_ascii s : Forall text_char s -> Forall (fun c => c < 128) s.
Proof. intros H. eapply Forall_impl; [|exact H]. unfold text_char. tauto. Qed.

Lemma format_read loc d b q :
  quote loc = Some q -> format_trashinfo loc d = Some b ->
  read_text b = Some (s_header ++ [c_nl] ++ (s_Path ++ q) ++ [c_nl] ++ (s_DeletionDate ++ format_date d) ++ [c_nl])
  /\ lines (s_header ++ [c_nl] ++ (s_Path ++ q) ++ [c_nl] ++ (s_DeletionDate ++ format_date d) ++ [c_nl])
     = [s_header; s_Path ++ q; s_DeletionDate ++ format_date d; []].
Proof.
  intros Hq Hf. unfold format_trashinfo, format_trashinfo_str in Hf. rewrite Hq in Hf.
  assert (Hqt : Forall text_char q)
    by (eapply Forall_impl; [apply path_char_text | eapply quote_alphabet_lemma; eauto]).
  pose proof header_text as H1. pose proof sPath_text as H2. pose proof sDD_text as H3.
  pose proof (format_date_text d) as H4.
  assert (Htxt : s_header ++ [c_nl] ++ s_Path ++ q ++ [c_nl] ++ s_DeletionDate ++ format_date d ++ [c_nl]
                = s_header ++ [c_nl] ++ (s_Path ++ q) ++ [c_nl] ++ (s_DeletionDate ++ format_date d) ++ [c_nl])
    by (now rewrite <- !app_assoc).
  rewrite Htxt in Hf. clear Htxt.
  set (l1 := s_header) in *. set (l2 := s_Path ++ q) in *. set (l3 := s_DeletionDate ++ format_date d) in *.
  assert (Hl2 : Forall text_char l2) by (apply Forall_app; split; assumption).
  assert (Hl3 : Forall text_char l3) by (apply Forall_app; split; assumption).
  clearbody l1 l2 l3.
  set (txt := l1 ++ [c_nl] ++ l2 ++ [c_nl] ++ l3 ++ [c_nl]) in *.
  assert (Hascii : Forall (fun c => c < 128) txt).
  { unfold txt. repeat (apply Forall_app; split); try (apply text_ascii; assumption);
      repeat (constructor; try (unfold c_nl; lia)). }
  rewrite (utf8_encode_ascii _ Hascii) in Hf. injection Hf as <-.
  split.
  - unfold read_text. rewrite (decode_strict_encode txt txt) by (now apply utf8_encode_ascii).
    rewrite universal_newlines_id; [reflexivity|].
    unfold txt. rewrite !mem_app. rewrite (text_no_cr l1), (text_no_cr l2), (text_no_cr l3) by assumption. reflexivity.
  - unfold lines, txt. cbn [app].
    rewrite split_on_app_sep by (now apply text_no_nl).
    rewrite split_on_app_sep by (now apply text_no_nl).
    rewrite split_on_app_sep by (now apply text_no_nl). reflexivity.
Qed.

Theorem parse_path_format_lemma loc d b :
  format_trashinfo loc d = Some b -> exists txt, read_text b = Some txt /\ parse_path txt = Some loc.
Proof.
  intros Hf. assert (exists q, quote loc = Some q) as [q Hq].
  { unfold format_trashinfo, format_trashinfo_str in Hf. destruct (quote loc); [eauto|discriminate]. }
  destruct (format_read _ _ _ _ Hq Hf) as [Hr Hl]. eexists. split; [exact Hr|].
  unfold parse_path. rewrite Hl. cbn [first_path].
  replace (starts_with s_header s_Path) with false by reflexivity.
  rewrite starts_with_app. change 5%nat with (length s_Path). rewrite skipn_app_exact.
  f_equal. now apply unquote_quote_lemma.
Qed.

Theorem parse_date_format_lemma loc d b :
  format_trashinfo loc d = Some b -> dt_valid d = true -> 1000 <= dyear d ->
  exists txt, read_text b = Some txt /\ date_of txt = ValidDate (zero_micro d)
              /\ parse_deletion_date txt = Some (zero_micro d).
Proof.
  intros Hf Hv Hy. assert (exists q, quote loc = Some q) as [q Hq].
  { unfold format_trashinfo, format_trashinfo_str in Hf. destruct (quote loc); [eauto|discriminate]. }
  destruct (format_read _ _ _ _ Hq Hf) as [Hr Hl]. eexists. split; [exact Hr|].
  assert (date_of (s_header ++ [c_nl] ++ (s_Path ++ q) ++ [c_nl] ++ (s_DeletionDate ++ format_date d) ++ [c_nl])
          = ValidDate (zero_micro d)) as Hd.
  { unfold date_of. rewrite Hl. cbn [first_date].
    replace (starts_with s_header s_DeletionDate) with false by reflexivity.
    replace (starts_with (s_Path ++ q) s_DeletionDate) with false by reflexivity.
    rewrite starts_with_app. change 13%nat with (length s_DeletionDate). rewrite skipn_app_exact.
    now rewrite strptime_format_date. }
  split; [exact Hd|]. unfold parse_deletion_date. now rewrite Hd.
Qed.

(* the written file has exactly the three lines the spec asks for *)
Theorem format_shape_lemma loc d b :
  format_trashinfo loc d = Some b ->
  exists q txt, quote loc = Some q /\ read_text b = Some txt /\
                lines txt = [s_header; s_Path ++ q; s_DeletionDate ++ format_date d; []].
Proof.
  intros Hf. assert (exists q, quote loc = Some q) as [q Hq].
  { unfold format_trashinfo, format_trashinfo_str in Hf. destruct (quote loc); [eauto|discriminate]. }
  destruct (format_read _ _ _ _ Hq Hf) as [Hr Hl]. eauto.
Qed.
