(* Reply grammar (indexes), restore scope, y/N rule. *)
From TV Require Import Prelude.Str Prelude.PosixPath Logic.PyInt Logic.Indexes Logic.Scope Logic.Reply Proofs.OrigLocProofs.
From Coq Require Import Lia ZifyBool.
Open Scope Z_scope.

(* ---------- indexes ---------- *)
Definition part_list (p : part) : list Z :=
  match p with PSingle i => [i] | PRange a b => z_range_fuel (Z.to_nat (b - a + 1)) a end.

Lemma in_z_range k : forall a i, In i (z_range_fuel k a) <-> a <= i < a + Z.of_nat k.
Proof.
  induction k as [|k IH]; intros a i; cbn [z_range_fuel In].
  - lia.
  - rewrite IH. lia.
Qed.

Lemma part_indexes_spec n p l :
  part_indexes n p = Some l <-> (l = part_list p /\ Forall (fun i => 0 <= i < n) l).
Proof.
  destruct p as [i|a b]; cbn [part_indexes part_list].
  - destruct ((0 <=? i) && (i <? n)) eqn:E; split.
    + intros [= <-]. split; [reflexivity|]. constructor; [lia|constructor].
    + intros [-> _]. reflexivity.
    + discriminate.
    + intros [-> H]. inversion H; subst. lia.
  - destruct (b <? a) eqn:E1.
    + replace (Z.to_nat (b - a + 1)) with O by lia. cbn [z_range_fuel]. split.
      * intros [= <-]. split; [reflexivity|constructor].
      * intros [-> _]. reflexivity.
    + destruct ((0 <=? a) && (b <? n)) eqn:E2; split.
      * intros [= <-]. split; [reflexivity|]. apply Forall_forall. intros i Hi. apply in_z_range in Hi. lia.
      * intros [-> _]. reflexivity.
      * discriminate.
      * intros [-> H]. rewrite Forall_forall in H.
        assert (0 <= a < n) by (apply H; apply in_z_range; lia).
        assert (0 <= b < n) by (apply H; apply in_z_range; lia). lia.
Qed.

Theorem all_indexes_spec n ps : forall l,
  all_indexes n ps = Some l <-> (l = flat_map part_list ps /\ Forall (fun i => 0 <= i < n) l).
Proof.
  induction ps as [|p ps IH]; intros l; cbn [all_indexes flat_map].
  - split; [intros [= <-]; split; [reflexivity|constructor] | intros [-> _]; reflexivity].
  - destruct (part_indexes n p) as [l1|] eqn:E1.
    + apply part_indexes_spec in E1. destruct E1 as [-> F1].
      destruct (all_indexes n ps) as [l2|] eqn:E2.
      * destruct (IH l2) as [IH1 _]. destruct (IH1 eq_refl) as [-> F2]. split.
        -- intros [= <-]. split; [reflexivity|]. apply Forall_app. split; assumption.
        -- intros [-> _]. reflexivity.
      * split; [discriminate|]. intros [-> H]. apply Forall_app in H. destruct H as [_ H].
        destruct (IH (flat_map part_list ps)) as [_ IH2]. specialize (IH2 (conj eq_refl H)). discriminate.
    + split; [discriminate|]. intros [-> H]. apply Forall_app in H. destruct H as [H _].
      assert (part_indexes n p = Some (part_list p)) as Hx by (apply part_indexes_spec; split; [reflexivity|assumption]).
      rewrite Hx in E1. discriminate.
Qed.

(* what a successful parse denotes, and that it never selects anything outside the list *)
Theorem parse_indexes_spec_lemma r n l :
  parse_indexes r n = Selected l <->
  exists ps, parse_parts (split_on c_comma r) = inr ps /\ l = flat_map part_list ps /\ Forall (fun i => 0 <= i < n) l.
Proof.
  unfold parse_indexes. destruct (parse_parts (split_on c_comma r)) as [e|ps] eqn:E.
  - split; [destruct e; discriminate|]. intros [ps [H _]]. discriminate.
  - destruct (all_indexes n ps) as [l'|] eqn:E2.
    + apply all_indexes_spec in E2. destruct E2 as [-> F]. split.
      * intros [= <-]. exists ps. auto.
      * intros [ps' [[= <-] [-> _]]]. reflexivity.
    + split; [discriminate|]. intros [ps' [[= <-] [-> F]]].
      assert (all_indexes n ps = Some (flat_map part_list ps)) as Hx by (apply all_indexes_spec; auto).
      rewrite Hx in E2. discriminate.
Qed.

Theorem parse_indexes_in_range_lemma r n l : parse_indexes r n = Selected l -> Forall (fun i => 0 <= i < n) l.
Proof. intros H. apply parse_indexes_spec_lemma in H. destruct H as [ps [_ [_ F]]]. exact F. Qed.

(* a part is: an int, or int '-' int with exactly one hyphen and both sides present *)
Theorem parse_part_spec_lemma x p :
  parse_part x = POk p <->
  (mem c_dash x = false /\ exists i, py_int x = Some i /\ p = PSingle i)
  \/ (exists f l a b, mem c_dash x = true /\ split_on c_dash x = [f; l] /\ f <> [] /\ l <> []
                      /\ py_int f = Some a /\ py_int l = Some b /\ p = PRange a b).
Proof.
  unfold parse_part. destruct (mem c_dash x) eqn:Em.
  - split.
    + intros H. right. destruct (split_on c_dash x) as [|f [|l [|? ?]]] eqn:Es; try discriminate.
      destruct f as [|f0 f]; [discriminate|]. destruct l as [|l0 l]; [discriminate|].
      destruct (py_int (f0 :: f)) as [a|] eqn:Ea; [|discriminate].
      destruct (py_int (l0 :: l)) as [b|] eqn:Eb; [|discriminate].
      injection H as <-. exists (f0 :: f), (l0 :: l), a, b. repeat split; auto; discriminate.
    + intros [[H _]|[f [l [a [b [_ [Hs [Hf [Hl [Ha [Hb ->]]]]]]]]]]]; [discriminate|].
      rewrite Hs. destruct f; [congruence|]. destruct l; [congruence|]. now rewrite Ha, Hb.
  - split.
    + intros H. left. split; [reflexivity|]. destruct (py_int x) as [i|]; [|discriminate]. injection H as <-. eauto.
    + intros [[_ [i [Hi ->]]]|[f [l [a [b [H _]]]]]]; [now rewrite Hi|discriminate].
Qed.

(* ---------- scope ---------- *)
Theorem scope_iff_lemma o p :
  matches_path o p = true <-> p = [c_slash] \/ o = p \/ exists r, o = p ++ [c_slash] ++ r.
Proof.
  unfold matches_path. rewrite !orb_true_iff. split.
  - intros [[H|H]|H].
    + left. now apply str_eqb_true.
    + right. right. apply starts_with_prefix in H. destruct H as [r ->]. exists r. now rewrite <- app_assoc.
    + right. left. now apply str_eqb_true.
  - intros [->|[->|[r ->]]].
    + left. left. apply str_eqb_refl.
    + right. apply str_eqb_refl.
    + left. right. rewrite app_assoc. apply starts_with_self_app.
Qed.

(* ---------- y/N ---------- *)
Theorem parse_reply_iff_lemma r : parse_reply r = true <-> exists t, r = 121%N :: t \/ r = 89%N :: t.
Proof.
  unfold parse_reply, is_y. destruct r as [|c t].
  - split; [discriminate|]. intros [t [H|H]]; discriminate.
  - rewrite orb_true_iff, !N.eqb_eq. split.
    + intros [->| ->]; exists t; auto.
    + intros [t' [[= -> _]|[= -> _]]]; auto.
Qed.
