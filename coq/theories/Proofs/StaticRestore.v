(* C13 - which trash directories trash-restore reads, under a file system that holds still (see StaticScan.v): after the home
   trash, for every mount point that is a directory, in the order of the mount table:  $topdir/.Trash/$uid  when it exists
   under a sticky $topdir/.Trash that is not a link, then ALWAYS  $topdir/.Trash-$uid  (both can hold entries of the user at
   once; a directory that is not there lists as empty).  The entries found are threaded through in that order. *)
From TV Require Import Prelude.Str Prelude.PosixPath Prog.Prog Cmd.Put Cmd.Scan Cmd.Restore Proofs.ProgProofs
  Proofs.Independence Proofs.StaticScan.
Open Scope N_scope.

Section StaticRestore.
Variable fs : statics.
Hypothesis Hsane : sane fs.
Variables (uid : N) (scope : str).

(* the directories of one volume, with the volume their relative paths are joined to *)
Definition restore_dirs_of_volume (v : str) : list (str * str) :=
  (match rule_of fs (volume_trash_dir1 v uid) with TopValid => [(volume_trash_dir1 v uid, v)] | _ => [] end)
  ++ [(volume_trash_dir2 v uid, v)].
Definition restore_dirs_of_mounts (l : list str) : list (str * str) :=
  flat_map restore_dirs_of_volume (filter (fun m => fs_true fs (Isdir m)) l).

(* reading a list of directories one after the other *)
Fixpoint sread (dirs : list (str * str)) (acc : list trashed_file) : outcome (list trashed_file) :=
  match dirs with
  | [] => Done acc
  | d :: r => then_run (srun fs (restore_scan_dir scope acc d)) (sread r)
  end.
Lemma sread_app a : forall b acc, sread (a ++ b) acc = then_run (sread a acc) (sread b).
Proof.
  induction a as [|d a IH]; intros b acc; cbn [app sread then_run]; [reflexivity|].
  destruct (srun fs (restore_scan_dir scope acc d)) as [acc'| |]; cbn [then_run]; auto.
Qed.

Lemma srun_restore_volume acc v : srun fs (restore_volume uid scope acc v) = sread (restore_dirs_of_volume v) acc.
Proof.
  unfold restore_volume, restore_top1, restore_dirs_of_volume. rewrite sread_app.
  rewrite srun_bind, srun_bind, (srun_valid_to_be_read fs Hsane). cbn [then_run].
  destruct (rule_of fs (volume_trash_dir1 v uid)); cbn [srun sread then_run];
    try (destruct (srun fs (restore_scan_dir scope acc (volume_trash_dir2 v uid, v))); reflexivity).
  destruct (srun fs (restore_scan_dir scope acc (volume_trash_dir1 v uid, v))) as [acc1| |]; cbn [then_run]; auto.
  destruct (srun fs (restore_scan_dir scope acc1 (volume_trash_dir2 v uid, v))); reflexivity.
Qed.

Theorem static_restore_mounts_lemma : forall l acc,
  srun fs (restore_mounts l uid scope acc) = sread (restore_dirs_of_mounts l) acc.
Proof.
  unfold restore_mounts, restore_dirs_of_mounts. induction l as [|m l IH]; intros acc; cbn [each_mount_point filter flat_map]; [reflexivity|].
  rewrite srun_bind, (srun_call_bool fs Hsane) by reflexivity. cbn [then_run]. rewrite srun_bind.
  destruct (fs_true fs (Isdir m)); cbn [flat_map].
  - rewrite srun_restore_volume, sread_app. destruct (sread (restore_dirs_of_volume m) acc) as [acc1| |]; cbn [then_run]; auto.
  - cbn [srun then_run]. apply IH.
Qed.

(* the whole search, no --trash-dir: the home trash (on the volume volume_of finds for it), then exactly those directories *)
Theorem static_restore_search_lemma o : ro_trash_dir o = None -> rs_uid o = uid ->
  srun fs (all_files_trashed_from_path o scope)
  = then_run (srun fs (fold_prog (home_trash_dir_path_from_env (rs_environ o))
                                 (fun acc p => v <- volume_of p ;; restore_scan_dir scope acc (p, v)) []))
             (sread (restore_dirs_of_mounts (fs_mounts fs))).
Proof.
  intros Htd Hu. unfold all_files_trashed_from_path. rewrite Htd, Hu. rewrite srun_bind.
  destruct (srun fs (fold_prog _ _ [])) as [acc| |]; cbn [then_run]; auto.
  destruct (sane_mounts fs Hsane) as [l Hl].
  assert (Hcall : srun fs (call_list ListMounts) = Done l).
  { unfold call_list. rewrite srun_bind, srun_call, Hl. reflexivity. }
  rewrite srun_bind, Hcall. cbn [then_run]. rewrite srun_bind, Hcall. cbn [then_run].
  unfold fs_mounts. rewrite Hl. apply static_restore_mounts_lemma.
Qed.
End StaticRestore.
