(* C13 - which trash directories trash-restore reads, under a file system that holds still (see StaticScan.v): after the home
   trash, for every mount point that is a directory, in the order of the mount table:  $topdir/.Trash/$uid  when it exists
   under a sticky $topdir/.Trash that is not a link, then ALWAYS  $topdir/.Trash-$uid  (both can hold entries of the user at
   once; a directory that is not there lists as empty).  The entries found are threaded through in that order. *)
From TV Require Import Prelude.Str Prelude.PosixPath Codec.TrashInfo Logic.Scope Prog.Prog Cmd.Put Cmd.Scan Cmd.Restore Proofs.ProgProofs
  Proofs.Independence Proofs.StaticScan Proofs.StaticList.
Open Scope N_scope.

Section StaticRestore.
Variable fs : statics.
Hypothesis Hsane : sane fs.
Variables (uid : N) (scope : str).

(* the directories of one volume, with the volume their relative paths are joined to *)
Definition restore_dirs_of_volume (v : str) : list (str * str) :=
  (match rule_of fs (volume_trash_dir1 v uid) with TopValid => [(volume_trash_dir1 v uid, v)] | _ => [] end)
  ++ [(volume_trash_dir2 v uid, v)].
Definition restore_dirs_of_mounts (l : list str) : list (str * str) :=
  flat_map restore_dirs_of_volume (filter (fun m => fs_true fs (Isdir m)) l).

(* reading a list of directories one after the other *)
Fixpoint sread (dirs : list (str * str)) (acc : list trashed_file) : outcome (list trashed_file) :=
  match dirs with
  | [] => Done acc
  | d :: r => then_run (srun fs (restore_scan_dir scope acc d)) (sread r)
  end.
Lemma sread_app a : forall b acc, sread (a ++ b) acc = then_run (sread a acc) (sread b).
Proof.
  induction a as [|d a IH]; intros b acc; cbn [app sread then_run]; [reflexivity|].
  destruct (srun fs (restore_scan_dir scope acc d)) as [acc'| |]; cbn [then_run]; auto.
Qed.

Lemma srun_restore_volume acc v : srun fs (restore_volume uid scope acc v) = sread (restore_dirs_of_volume v) acc.
Proof.
  unfold restore_volume, restore_top1, restore_dirs_of_volume. rewrite sread_app.
  rewrite srun_bind, srun_bind, (srun_valid_to_be_read fs Hsane). cbn [then_run].
  destruct (rule_of fs (volume_trash_dir1 v uid)); cbn [srun sread then_run];
    try (destruct (srun fs (restore_scan_dir scope acc (volume_trash_dir2 v uid, v))); reflexivity).
  destruct (srun fs (restore_scan_dir scope acc (volume_trash_dir1 v uid, v))) as [acc1| |]; cbn [then_run]; auto.
  destruct (srun fs (restore_scan_dir scope acc1 (volume_trash_dir2 v uid, v))); reflexivity.
Qed.

Theorem static_restore_mounts_lemma : forall l acc,
  srun fs (restore_mounts l uid scope acc) = sread (restore_dirs_of_mounts l) acc.
Proof.
  unfold restore_mounts, restore_dirs_of_mounts. induction l as [|m l IH]; intros acc; cbn [each_mount_point filter flat_map]; [reflexivity|].
  rewrite srun_bind, (srun_call_bool fs Hsane) by reflexivity. cbn [then_run]. rewrite srun_bind.
  destruct (fs_true fs (Isdir m)); cbn [flat_map].
  - rewrite srun_restore_volume, sread_app. destruct (sread (restore_dirs_of_volume m) acc) as [acc1| |]; cbn [then_run]; auto.
  - cbn [srun then_run]. apply IH.
Qed.

(* the whole search, no --trash-dir: the home trash (on the volume volume_of finds for it), then exactly those directories *)
Theorem static_restore_search_lemma o : ro_trash_dir o = None -> rs_uid o = uid ->
  srun fs (all_files_trashed_from_path o scope)
  = then_run (srun fs (fold_prog (home_trash_dir_path_from_env (rs_environ o))
                                 (fun acc p => v <- volume_of p ;; restore_scan_dir scope acc (p, v)) []))
             (sread (restore_dirs_of_mounts (fs_mounts fs))).
Proof.
  intros Htd Hu. unfold all_files_trashed_from_path. rewrite Htd, Hu. rewrite srun_bind.
  destruct (srun fs (fold_prog _ _ [])) as [acc| |]; cbn [then_run]; auto.
  destruct (sane_mounts fs Hsane) as [l Hl].
  assert (Hcall : srun fs (call_list ListMounts) = Done l).
  { unfold call_list. rewrite srun_bind, srun_call, Hl. reflexivity. }
  rewrite srun_bind, Hcall. cbn [then_run]. rewrite srun_bind, Hcall. cbn [then_run].
  unfold fs_mounts. rewrite Hl. apply static_restore_mounts_lemma.
Qed.
End StaticRestore.

(* ---- what is found: the entries in scope of the searched directories, in order ---- *)
Definition entry_of (fs : statics) (volume : str) (it : bool * str) : option trashed_file :=
  if negb (fst it) then None
  else match fs (ReadText (snd it)) with
       | RStr c => match parse_original_location c volume with
                   | Some loc => Some (mktf loc (parse_deletion_date c) (snd it) (path_of_backup_copy (snd it)))
                   | None => None
                   end
       | _ => None
       end.
Definition dir_items (fs : statics) (td : str) : list (bool * str) :=
  let info_dir := join2 (normpath td) s_info in
  match fs (Listdir info_dir) with
  | RList es => map (fun e => (is_trashinfo_name e, join2 info_dir e)) es
  | _ => []
  end.
Definition item_found (fs : statics) (scope volume : str) (it : bool * str) : list trashed_file :=
  match entry_of fs volume it with
  | Some tf => if matches_path (tf_location tf) scope then [tf] else []
  | None => []
  end.
Definition dir_found (fs : statics) (scope : str) (d : str * str) : list trashed_file :=
  flat_map (item_found fs scope (snd d)) (dir_items fs (fst d)).

Section StaticFound.
Variable fs : statics.
Hypothesis Hsane : sane fs.
Hypothesis Hread : readable fs.
Hypothesis Hls : forall p, (exists l, fs (Listdir p) = RList l) \/ (exists e, fs (Listdir p) = RErr e /\ is_OSError e = true).
Variable scope : str.

Lemma srun_read_trashed_file v it : srun fs (read_trashed_file v (fst it) (snd it)) = Done (entry_of fs v it).
Proof.
  destruct it as [is_ti p]. unfold entry_of. cbn [fst snd].
  cbv [read_trashed_file warn call_str call_unit call bind catch]. destruct is_ti; cbn [negb srun].
  - destruct (rd_text fs Hread p) as [[c Hc]|[e [He Hk]]]; rewrite ?Hc, ?He.
    + destruct (parse_original_location c v); cbn [srun]; [reflexivity|].
      rewrite (rd_silent fs Hread (Log _ _ _) eq_refl). reflexivity.
    + destruct Hk as [Hk|Hk].
      * rewrite Hk. cbn [srun]. rewrite (rd_silent fs Hread (Log _ _ _) eq_refl). reflexivity.
      * subst e. cbn [is_OSError srun]. rewrite (rd_silent fs Hread (Log _ _ _) eq_refl). reflexivity.
  - rewrite (rd_silent fs Hread (Log _ _ _) eq_refl). reflexivity.
Qed.

Lemma srun_all_info_files td : srun fs (all_info_files td) = Done (dir_items fs td).
Proof.
  unfold all_info_files, dir_items. rewrite srun_catch, srun_bind. unfold call_list. rewrite srun_bind, srun_call.
  destruct (Hls (join2 (normpath td) s_info)) as [[l Hl]|[e [He Hk]]]; rewrite ?Hl, ?He; cbn [then_run srun].
  - reflexivity.
  - rewrite Hk. reflexivity.
Qed.

Lemma srun_restore_scan_dir d : forall acc, srun fs (restore_scan_dir scope acc d) = Done (acc ++ dir_found fs scope d).
Proof.
  intros acc. unfold restore_scan_dir, dir_found. rewrite srun_bind, srun_all_info_files. cbn [then_run].
  generalize (dir_items fs (fst d)). intros items. revert acc.
  induction items as [|it items IH]; intros acc; cbn [fold_prog flat_map srun]; [rewrite app_nil_r; reflexivity|].
  rewrite srun_bind, srun_bind, srun_read_trashed_file. cbn [then_run srun]. rewrite IH. unfold item_found at 2.
  destruct (entry_of fs (snd d) it) as [tf|]; [destruct (matches_path (tf_location tf) scope)|];
    rewrite <- ?app_assoc; reflexivity.
Qed.

Lemma sread_found : forall dirs acc, sread fs scope dirs acc = Done (acc ++ flat_map (dir_found fs scope) dirs).
Proof.
  induction dirs as [|d dirs IH]; intros acc; cbn [sread flat_map]; [rewrite app_nil_r; reflexivity|].
  rewrite srun_restore_scan_dir. cbn [then_run]. rewrite IH, <- app_assoc. reflexivity.
Qed.

(* the whole search: what trash-restore has in hand when it prints its list *)
Theorem static_restore_found_lemma o (home_vol : str -> str) : ro_trash_dir o = None ->
  (forall p, In p (home_trash_dir_path_from_env (rs_environ o)) -> srun fs (volume_of p) = Done (home_vol p)) ->
  srun fs (all_files_trashed_from_path o scope)
  = Done (flat_map (fun p => dir_found fs scope (p, home_vol p)) (home_trash_dir_path_from_env (rs_environ o))
          ++ flat_map (dir_found fs scope) (restore_dirs_of_mounts fs (rs_uid o) (fs_mounts fs))).
Proof.
  intros Htd Hhome. rewrite (static_restore_search_lemma fs Hsane (rs_uid o) scope o Htd eq_refl).
  assert (Hh : forall homes acc, (forall p, In p homes -> srun fs (volume_of p) = Done (home_vol p)) ->
             srun fs (fold_prog homes (fun acc p => v <- volume_of p ;; restore_scan_dir scope acc (p, v)) acc)
             = Done (acc ++ flat_map (fun p => dir_found fs scope (p, home_vol p)) homes)).
  { induction homes as [|p homes IH]; intros acc Hp; cbn [fold_prog flat_map srun]; [rewrite app_nil_r; reflexivity|].
    rewrite srun_bind, srun_bind, (Hp p (or_introl eq_refl)). cbn [then_run]. rewrite srun_restore_scan_dir. cbn [then_run].
    rewrite IH by (intros q Hq; apply Hp; right; exact Hq). rewrite <- app_assoc. reflexivity. }
  rewrite (Hh _ [] Hhome). cbn [then_run app]. apply sread_found.
Qed.
End StaticFound.
