(* World-level consequences for the purging commands (trash-empty, trash-rm): the trace theorems
   (no mutation without consent / in a dry run; every removal target inside info/ or files/ of a trash
   directory; info removed only after its payload) are lifted to statements about the tree of files,
   for every world the run is consistent with (World.wrun), every fault pattern and - through wok, which
   speaks about every intermediate state - every crash point at library-call granularity. *)
From TV Require Import Prelude.Str Prelude.PosixPath Logic.Reply Prog.Prog World.World Cmd.Put Cmd.Scan Cmd.Empty Cmd.Rm
  Proofs.ProgProofs Proofs.OrigLocProofs Proofs.PathProofs Proofs.WorldProofs Proofs.EmptyProofs Proofs.PurgeProofs Proofs.OrderProofs Proofs.DecisionProofs.
Open Scope N_scope.

Lemma all_runs_and {A} (m : prog A) : forall (P Q : trace -> outcome A -> Prop),
  all_runs P m -> all_runs Q m -> all_runs (fun t out => P t out /\ Q t out) m.
Proof.
  induction m as [a|e|o k IH]; simpl; intros P Q HP HQ; [auto|auto|].
  intros r Hv. apply (IH r (fun t out => P ((o, r) :: t) out) (fun t out => Q ((o, r) :: t) out)); auto.
Qed.

(* ---------------------------------------------------------------- C14 on the world *)
(* trash-empty --dry-run leaves the file system exactly as it found it *)
Theorem dry_run_world_unchanged_lemma o : eo_dry_run o = true ->
  all_runs (fun t _ => forall s s', wrun s t s' -> same s s') (empty_main o).
Proof.
  intros H. generalize (dry_run_no_mutation_lemma o H). apply all_runs_mono.
  intros t out Hf s s' Hr. eapply wrun_probes; eauto.
Qed.

(* a run of the consent monitor that does not end in Granted contains no mutator *)
Lemma consent_not_granted i : forall t st st', accepts (consent_step i) st t = Some st' -> st' <> Granted ->
  Forall (fun p => is_mutator (fst p) = false) t.
Proof.
  induction t as [|[o r] t IH]; intros st st' Ha Hn; [constructor|]. simpl in Ha.
  destruct (consent_step i st o r) as [st1|] eqn:Es; [|discriminate].
  assert (Hst : st <> Granted).
  { intros E. subst st. simpl in Es. inversion Es; subst st1. clear - Ha Hn.
    assert (G : forall t, accepts (consent_step i) Granted t = Some st' -> st' = Granted).
    { induction t0 as [|[o' r'] t0 IH0]; simpl; intros H; [inversion H; reflexivity|auto]. }
    apply Hn. eapply G. exact Ha. }
  constructor; [|eapply IH; eauto]. simpl.
  destruct st; [|exfalso; apply Hst; reflexivity|]; simpl in Es; destruct (is_mutator o); try discriminate; reflexivity.
Qed.
(* without consent (no -f, and a reply that is not y/Y, or end of input) the file system is untouched *)
Theorem no_consent_world_unchanged_lemma o :
  all_runs (fun t _ => forall st, accepts (consent_step (eo_interactive o)) Unknown t = Some st -> st <> Granted ->
                                  forall s s', wrun s t s' -> same s s') (empty_main o).
Proof.
  generalize (consent_lemma o). apply all_runs_mono.
  intros t out _ st Ha Hn s s' Hr. eapply wrun_probes; [|exact Hr]. eapply consent_not_granted; eauto.
Qed.

(* ---------------------------------------------------------------- C11 on the world *)
(* every path that is not at or below some <td>/info/<x> or <td>/files/<x> of a trash directory of the
   spec's shape is, after the run, what it was before *)
Lemma purge_frame env uid users t : Forall (fun p => purge_ok env uid users (fst p)) t ->
  forall q, (forall td p, td_shape env uid users td -> clean td -> target_in td p -> under p q = false) ->
  forall s s', wrun s t s' -> wfs s' q = wfs s q.
Proof.
  intros Hf q Hq s s' Hr. eapply wrun_removals; [|exact Hr].
  eapply Forall_impl; [|exact Hf]. intros [o r] Ho. simpl in *.
  destruct o; simpl in Ho; try contradiction; try reflexivity;
    destruct Ho as [td [Hs [Hc Ht]]]; eapply Hq; eauto.
Qed.
Theorem empty_world_frame_lemma o : Forall clean (eo_trash_dirs o) ->
  all_runs (fun t _ => forall q,
      (forall td p, td_shape (eo_homes o) (eo_uids o) (eo_trash_dirs o) td -> clean td -> target_in td p -> under p q = false) ->
      forall s s', wrun s t s' -> wfs s' q = wfs s q) (empty_main o).
Proof.
  intros H. generalize (empty_targets_inside_lemma o H). apply all_runs_mono.
  intros t out Hf q Hq s s' Hr. eapply purge_frame; eauto.
Qed.
Theorem rm_world_frame_lemma o :
  all_runs (fun t _ => forall q,
      (forall td p, td_shape (home_trash_dir_path_from_env (ro_environ o)) [ro_uid o] [] td -> clean td -> target_in td p -> under p q = false) ->
      forall s s', wrun s t s' -> wfs s' q = wfs s q) (rm_main o).
Proof.
  generalize (rm_targets_inside_lemma o). apply all_runs_mono.
  intros t out Hf q Hq s s' Hr. eapply purge_frame; eauto.
Qed.
(* and nothing is ever created by a purge *)
Lemma purge_creates_nothing env uid users t : Forall (fun p => purge_ok env uid users (fst p)) t ->
  forall q s s', wrun s t s' -> wfs s q = None -> wfs s' q = None.
Proof.
  intros Hf q s s' Hr. eapply wrun_removals_absent; [|exact Hr].
  eapply Forall_impl; [|exact Hf]. intros [o r] Ho. simpl in *. destruct o; simpl in Ho; try contradiction; auto.
Qed.

(* ---------------------------------------------------------------- C15 on the world (trash-rm) *)
(* whenever an info file is removed, its payload does not exist at that moment *)
Definition payload_gone (s : wstate) (o : op) : Prop :=
  match o with
  | Remove p | Rmtree p => is_info_path p = true -> wfs s (path_of_backup_copy p) = None
  | _ => True
  end.
Definition coupled (m : ost) (s : wstate) : Prop := forall P, payload_done true m P = true -> wfs s P = None.

Lemma done_cons strict k v m P : payload_done strict ((k, v) :: m) P =
  if str_eqb P k then match v with Absent | Gone => true | Failed => negb strict | Pending => false end else payload_done strict m P.
Proof. unfold payload_done. simpl. destruct (str_eqb P k); [destruct v|]; reflexivity. Qed.

Lemma order_world env uid users : forall t m s,
  Forall (fun p => purge_ok env uid users (fst p)) t -> accepts (order_step true) m t <> None -> coupled m s ->
  wok payload_gone s t.
Proof.
  induction t as [|[o r] t IH]; intros m s Hf Ha Hc; simpl; [exact I|].
  inversion Hf as [|x l Ho Hl]; subst. simpl in Ho, Ha.
  destruct (order_step true m o r) as [m1|] eqn:Es; [|contradiction].
  split.
  - (* the assertion *)
    destruct o; simpl; auto; intros Hi; apply Hc; simpl in Es; rewrite Hi in Es; simpl in Es;
      destruct (payload_done true m (path_of_backup_copy p)); [reflexivity|discriminate| reflexivity|discriminate].
  - (* the coupling is kept *)
    intros s1 [He _]. apply (IH m1 s1 Hl Ha). intros P HP.
    destruct o; simpl in Ho; try contradiction;
      try (simpl in Es; inversion Es; subst m1;
           match type of He with effect ?a ?b ?c ?d => destruct (effect_probe a b c d eq_refl He) as [_ Hsame] end;
           rewrite Hsame; apply Hc; exact HP).
    + (* Lexists *) simpl in Es. simpl in He. destruct r; inversion Es; subst m1;
        try (destruct He as [_ Hsame]; rewrite Hsame; apply Hc; exact HP).
      destruct He as [[_ Hsame] Hb]. rewrite Hsame. destruct b; rewrite done_cons in HP; destruct (str_eqb P p) eqn:E.
      * discriminate.
      * apply Hc; exact HP.
      * apply str_eqb_true in E. subst P. destruct (wfs s p); [discriminate|reflexivity].
      * apply Hc; exact HP.
    + (* Remove *) simpl in Es. destruct (is_info_path p && negb (payload_done true m (path_of_backup_copy p))); [discriminate|].
      inversion Es; subst m1. rewrite done_cons in HP. simpl in He. destruct (str_eqb P p) eqn:E.
      * apply str_eqb_true in E. subst P. destruct r; simpl in HP; try discriminate.
        destruct He as [_ [_ He]]. rewrite He. apply upd_same.
      * assert (Hs : wfs s P = None) by (apply Hc; exact HP).
        destruct r; try (destruct He as [_ He]; rewrite He; exact Hs).
        destruct He as [_ [_ He]]. rewrite He. unfold upd. rewrite E. exact Hs.
    + (* Rmtree *) simpl in Es. destruct (is_info_path p && negb (payload_done true m (path_of_backup_copy p))); [discriminate|].
      inversion Es; subst m1. rewrite done_cons in HP. simpl in He. destruct (str_eqb P p) eqn:E.
      * apply str_eqb_true in E. subst P. destruct r; simpl in HP; try discriminate.
        destruct He as [_ He]. rewrite He. unfold rm_tree. rewrite under_refl. reflexivity.
      * assert (Hs : wfs s P = None) by (apply Hc; exact HP).
        destruct r; try (destruct He as [_ He]; rewrite He; exact Hs).
        -- destruct He as [_ He]. rewrite He. unfold rm_tree. destruct (under p P); [reflexivity|exact Hs].
        -- destruct He as [_ He]. destruct (He P) as [H|[_ H]]; [rewrite H; exact Hs|exact H].
Qed.

Theorem rm_payload_gone_lemma o : all_runs (fun t _ => forall s, wok payload_gone s t) (rm_main o).
Proof.
  generalize (all_runs_and _ _ _ (rm_targets_inside_lemma o) (rm_ordered_lemma o)). apply all_runs_mono.
  intros t out [Hf Ha] s. eapply order_world; eauto. intros P HP. discriminate HP.
Qed.

(* ---------------------------------------------------------------- C10 on the world *)
(* with a DAYS argument, whatever trash-empty changes lies at or below a path the decision monitor approved: the info file or
   the payload of an entry whose contents, as just read, were older than the threshold, or a payload whose info was found
   missing.  Every other path of every file system the run is consistent with is what it was. *)
Lemma dec_targets days envnow dd : days = Some dd -> forall t st st',
  accepts (decision_step days envnow) st t = Some st' ->
  (forall x, In x (d_approved st) -> In x (d_approved st')) /\
  Forall (fun p => match fst p with Remove q | Rmtree q => In q (d_approved st') | _ => True end) t.
Proof.
  intros Hd. induction t as [|[o r] t IH]; intros st st' Ha; simpl in Ha.
  - inversion Ha; subst. split; [auto|constructor].
  - destruct (decision_step days envnow st o r) as [st1|] eqn:Es; [|discriminate].
    destruct (IH st1 st' Ha) as [Hg Hf].
    assert (Hg1 : forall x, In x (d_approved st) -> In x (d_approved st1)).
    { revert Es. unfold decision_step. rewrite Hd.
      repeat (match goal with |- context [match ?x with _ => _ end] => destruct x end);
      intros H; inversion H; subst; simpl; auto. }
    split; [auto|]. constructor; [|exact Hf]. simpl.
    destruct o; try exact I; apply Hg; unfold decision_step in Es; rewrite Hd in Es;
      (destruct (mem_str _ (d_approved st)) eqn:Em; [|destruct r; discriminate]);
      assert (st1 = st) by (destruct r; inversion Es; reflexivity); subst st1; apply mem_str_In; exact Em.
Qed.

Theorem empty_days_world_lemma o dd : eo_days o = Some dd -> Forall clean (eo_trash_dirs o) ->
  all_runs (fun t _ => forall st, accepts (decision_step (eo_days o) (env_now (eo_environ o))) (mkdst None []) t = Some st ->
              forall q, (forall p, In p (d_approved st) -> under p q = false) ->
              forall s s', wrun s t s' -> wfs s' q = wfs s q) (empty_main o).
Proof.
  intros Hd Hc. generalize (empty_targets_inside_lemma o Hc). apply all_runs_mono.
  intros t out Hf st Ha q Hq s s' Hr. eapply wrun_removals; [|exact Hr].
  destruct (dec_targets _ _ dd Hd t _ _ Ha) as [_ Ht].
  rewrite Forall_forall in *. intros [op r] Hin. specialize (Hf _ Hin). specialize (Ht _ Hin). simpl in *.
  destruct op; simpl in Hf; try contradiction; try reflexivity; apply Hq; exact Ht.
Qed.
