(* urllib quote/unquote: alphabet of the output, byte-exact percent decoding, exact round trip. *)
From TV Require Import Prelude.Str Prelude.Utf8 Codec.Quote Proofs.Utf8Proofs.
From Coq Require Import Lia ZifyBool ZifyN.
Open Scope N_scope.
Ltac Zify.zify_post_hook ::= Z.div_mod_to_equations.

Definition is_upper_hex (c : N) : bool := ((48 <=? c) && (c <=? 57)) || ((65 <=? c) && (c <=? 70)).

(* what may appear in a written Path value: unreserved characters, '/', and %XX escapes *)
Definition path_char (c : N) : Prop := is_safe c = true \/ c = c_pct \/ is_upper_hex c = true.

Lemma hex_digit_upper n : n < 16 -> is_upper_hex (hex_digit n) = true.
Proof. unfold hex_digit, is_upper_hex. intros. destruct (n <? 10) eqn:E; lia. Qed.

Lemma hex_val_digit n : n < 16 -> hex_val (hex_digit n) = Some n.
Proof.
  unfold hex_digit, hex_val. intros H. destruct (n <? 10) eqn:E.
  - replace ((48 <=? 48 + n) && (48 + n <=? 57)) with true by lia. f_equal. lia.
  - replace ((48 <=? 55 + n) && (55 + n <=? 57)) with false by lia.
    replace ((65 <=? 55 + n) && (55 + n <=? 70)) with true by lia. f_equal. lia.
Qed.

Lemma quote_byte_chars b : b < 256 -> Forall path_char (quote_byte b).
Proof.
  intros H. unfold quote_byte. destruct (is_safe b) eqn:E.
  - constructor; [left; exact E|constructor].
  - constructor; [right; left; reflexivity|].
    constructor; [right; right; apply hex_digit_upper; lia|].
    constructor; [right; right; apply hex_digit_upper; lia|constructor].
Qed.

Lemma safe_not_pct b : is_safe b = true -> (b =? c_pct) = false.
Proof. unfold is_safe, is_alnum, c_pct. lia. Qed.

Lemma safe_ascii b : is_safe b = true -> b < 128.
Proof. unfold is_safe, is_alnum. lia. Qed.

Lemma pct_decode_quote_byte b rest : b < 256 -> pct_decode (quote_byte b ++ rest) = b :: pct_decode rest.
Proof.
  intros H. unfold quote_byte. destruct (is_safe b) eqn:E.
  - cbn [app pct_decode]. rewrite (safe_not_pct _ E). reflexivity.
  - cbn [app pct_decode]. replace (c_pct =? c_pct) with true by reflexivity.
    rewrite !hex_val_digit by lia. f_equal. lia.
Qed.

Lemma pct_decode_flat_map b : Forall (fun x => x < 256) b -> pct_decode (flat_map quote_byte b) = b.
Proof.
  induction 1 as [|x b Hx _ IH]; [reflexivity|].
  cbn [flat_map]. rewrite pct_decode_quote_byte by assumption. now rewrite IH.
Qed.

Lemma quote_byte_ascii b : b < 256 -> Forall (fun c => c < 128) (quote_byte b).
Proof.
  intros H. unfold quote_byte. destruct (is_safe b) eqn:E.
  - constructor; [now apply safe_ascii|constructor].
  - unfold hex_digit, c_pct. repeat constructor;
      try (destruct (b / 16 <? 10) eqn:?; lia); try (destruct (b mod 16 <? 10) eqn:?; lia).
Qed.

Lemma flat_map_quote_ascii b : Forall (fun x => x < 256) b -> Forall (fun c => c < 128) (flat_map quote_byte b).
Proof.
  induction 1 as [|x b Hx _ IH]; [constructor|].
  cbn [flat_map]. apply Forall_app. split; [now apply quote_byte_ascii | assumption].
Qed.

(* on an all-ASCII string the run splitter makes a single run *)
Lemma unquote_runs_ascii s : forall run, Forall (fun c => c < 128) s ->
  unquote_runs s run = flush_run (rev s ++ run).
Proof.
  induction s as [|c s IH]; intros run H; [reflexivity|].
  inversion H as [|? ? Hc Hs]; subst. cbn [unquote_runs]. unfold is_ascii.
  replace (c <? 128) with true by lia. rewrite IH by assumption.
  cbn [rev]. now rewrite <- app_assoc.
Qed.

Lemma pct_decode_no_pct s : mem c_pct s = false -> pct_decode s = s.
Proof.
  induction s as [|c s IH]; [reflexivity|]. cbn [mem pct_decode]. intros H.
  apply orb_false_iff in H. destruct H as [H1 H2].
  rewrite N.eqb_sym in H1. rewrite H1. now rewrite IH.
Qed.

Lemma decode_replace_ascii s : Forall (fun c => c < 128) s -> utf8_decode_replace s = s.
Proof. intros H. apply decode_replace_encode. now apply utf8_encode_ascii. Qed.

(* ---- the statements used by Props/C03.v ---- *)

Theorem quote_alphabet_lemma s q : quote s = Some q -> Forall path_char q.
Proof.
  unfold quote. destruct (utf8_encode s) as [b|] eqn:E; [|discriminate]. intros [= <-].
  pose proof (utf8_encode_bytes _ _ E) as Hb. clear E. induction Hb as [|x b Hx _ IH]; [constructor|].
  cbn [flat_map]. apply Forall_app. split; [now apply quote_byte_chars | assumption].
Qed.

Theorem quote_defined_iff s : (exists q, quote s = Some q) <-> (exists b, utf8_encode s = Some b).
Proof.
  unfold quote. split; intros [x H]; destruct (utf8_encode s) eqn:E; try discriminate; eauto.
Qed.

Theorem spec_unescape_quote_lemma s b q : utf8_encode s = Some b -> quote s = Some q -> pct_decode q = b.
Proof.
  unfold quote. intros E. rewrite E. intros [= <-]. apply pct_decode_flat_map. eapply utf8_encode_bytes; eauto.
Qed.

Theorem unquote_quote_lemma s q : quote s = Some q -> unquote q = s.
Proof.
  intros Hq. pose proof Hq as Hq'. unfold quote in Hq. destruct (utf8_encode s) as [b|] eqn:E; [|discriminate].
  injection Hq as <-.
  pose proof (utf8_encode_bytes _ _ E) as Hb.
  pose proof (flat_map_quote_ascii _ Hb) as Ha.
  pose proof (pct_decode_flat_map _ Hb) as Hd.
  unfold unquote. destruct (mem c_pct (flat_map quote_byte b)) eqn:Hm.
  - rewrite unquote_runs_ascii by assumption. rewrite app_nil_r. unfold flush_run.
    destruct (rev (flat_map quote_byte b)) eqn:Hr.
    + assert (flat_map quote_byte b = []) as Hnil by (rewrite <- (rev_involutive (flat_map _ _)), Hr; reflexivity).
      rewrite Hnil in Hm. discriminate.
    + rewrite <- Hr, rev_involutive, Hd. now apply decode_replace_encode.
  - (* no escape at all: the quoted text is the encoding, and it is ASCII *)
    rewrite (pct_decode_no_pct _ Hm) in Hd. rewrite Hd in *.
    rewrite <- (decode_replace_encode _ _ E). symmetry. now apply decode_replace_ascii.
Qed.
