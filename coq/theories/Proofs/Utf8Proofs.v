(* Round trip of the UTF-8 model: decoding what utf8_encode produced gives the string back,
   with the strict decoder and with the 'replace' decoder alike. *)
From TV Require Import Prelude.Str Prelude.Utf8.
From Coq Require Import Lia ZifyBool ZifyN.
Open Scope N_scope.
Ltac Zify.zify_post_hook ::= Z.div_mod_to_equations.

Lemma decode_step_encode_cp c rest :
  is_scalar c = true -> decode_step (encode_cp c ++ rest) = DOk c rest.
Proof.
  unfold is_scalar, is_surrogate, encode_cp. intros H.
  destruct (c <? 128) eqn:E1.
  { cbn [app decode_step]. rewrite E1. reflexivity. }
  destruct (c <? 2048) eqn:E2.
  { cbn [app decode_step].
    replace (192 + c / 64 <? 128) with false by lia.
    replace (192 + c / 64 <? 194) with false by lia.
    replace (192 + c / 64 <? 224) with true by lia.
    unfold is_cont.
    replace ((128 <=? 128 + c mod 64) && (128 + c mod 64 <? 192)) with true by lia.
    f_equal. lia. }
  destruct (c <? 65536) eqn:E3.
  { cbn [app decode_step].
    replace (224 + c / 4096 <? 128) with false by lia.
    replace (224 + c / 4096 <? 194) with false by lia.
    replace (224 + c / 4096 <? 224) with false by lia.
    replace (224 + c / 4096 <? 240) with true by lia.
    unfold is_cont.
    replace (negb ((128 <=? 128 + (c / 64) mod 64) && (128 + (c / 64) mod 64 <? 192))
             || (224 + c / 4096 =? 224) && (128 + (c / 64) mod 64 <? 160)
             || (224 + c / 4096 =? 237) && (160 <=? 128 + (c / 64) mod 64)) with false by lia.
    replace ((128 <=? 128 + c mod 64) && (128 + c mod 64 <? 192)) with true by lia.
    f_equal. lia. }
  cbn [app decode_step].
  replace (240 + c / 262144 <? 128) with false by lia.
  replace (240 + c / 262144 <? 194) with false by lia.
  replace (240 + c / 262144 <? 224) with false by lia.
  replace (240 + c / 262144 <? 240) with false by lia.
  replace (240 + c / 262144 <? 245) with true by lia.
  unfold is_cont.
  replace (negb ((128 <=? 128 + (c / 4096) mod 64) && (128 + (c / 4096) mod 64 <? 192))
           || (240 + c / 262144 =? 240) && (128 + (c / 4096) mod 64 <? 144)
           || (240 + c / 262144 =? 244) && (144 <=? 128 + (c / 4096) mod 64)) with false by lia.
  replace (negb ((128 <=? 128 + (c / 64) mod 64) && (128 + (c / 64) mod 64 <? 192))) with false by lia.
  replace ((128 <=? 128 + c mod 64) && (128 + c mod 64 <? 192)) with true by lia.
  f_equal. lia.
Qed.

Lemma encode_cp_nonempty c : encode_cp c <> [].
Proof. unfold encode_cp. destruct (c <? 128), (c <? 2048), (c <? 65536); discriminate. Qed.

Lemma encode_cp_length c : (1 <= length (encode_cp c))%nat.
Proof. unfold encode_cp. destruct (c <? 128), (c <? 2048), (c <? 65536); simpl; lia. Qed.

Lemma decode_replace_fuel_encode s : forall b fuel,
  utf8_encode s = Some b -> (length b <= fuel)%nat -> decode_replace_fuel fuel b = s.
Proof.
  induction s as [|c s IH]; intros b fuel He Hf; cbn [utf8_encode] in He.
  - injection He as <-. destruct fuel; reflexivity.
  - destruct (is_scalar c) eqn:Hc; [|discriminate].
    destruct (utf8_encode s) as [b'|] eqn:Hs; [|discriminate].
    injection He as <-.
    pose proof (encode_cp_length c) as Hl. rewrite app_length in Hf.
    destruct fuel as [|fuel]; [lia|].
    cbn [decode_replace_fuel].
    destruct (encode_cp c ++ b') eqn:Hx.
    { apply app_eq_nil in Hx. destruct Hx as [Hx _]. now apply encode_cp_nonempty in Hx. }
    rewrite <- Hx, decode_step_encode_cp by assumption.
    f_equal. apply IH; [reflexivity | lia].
Qed.

Theorem decode_replace_encode s b : utf8_encode s = Some b -> utf8_decode_replace b = s.
Proof. intros H. unfold utf8_decode_replace. eapply decode_replace_fuel_encode; eauto. Qed.

Lemma decode_strict_fuel_encode s : forall b fuel,
  utf8_encode s = Some b -> (length b <= fuel)%nat -> decode_strict_fuel fuel b = Some s.
Proof.
  induction s as [|c s IH]; intros b fuel He Hf; cbn [utf8_encode] in He.
  - injection He as <-. destruct fuel; reflexivity.
  - destruct (is_scalar c) eqn:Hc; [|discriminate].
    destruct (utf8_encode s) as [b'|] eqn:Hs; [|discriminate].
    injection He as <-.
    pose proof (encode_cp_length c) as Hl. rewrite app_length in Hf.
    destruct fuel as [|fuel]; [lia|].
    cbn [decode_strict_fuel].
    destruct (encode_cp c ++ b') eqn:Hx.
    { apply app_eq_nil in Hx. destruct Hx as [Hx _]. now apply encode_cp_nonempty in Hx. }
    rewrite <- Hx, decode_step_encode_cp by assumption.
    rewrite (IH b' fuel); [reflexivity | reflexivity | lia].
Qed.

Theorem decode_strict_encode s b : utf8_encode s = Some b -> utf8_decode_strict b = Some s.
Proof. intros H. unfold utf8_decode_strict. eapply decode_strict_fuel_encode; eauto. Qed.

(* every byte produced by the encoder is a byte *)
Lemma encode_cp_bytes c : is_scalar c = true -> Forall (fun b => b < 256) (encode_cp c).
Proof.
  unfold is_scalar, is_surrogate, encode_cp. intros H.
  destruct (c <? 128) eqn:E1; [repeat constructor; lia|].
  destruct (c <? 2048) eqn:E2; [repeat constructor; lia|].
  destruct (c <? 65536) eqn:E3; repeat constructor; lia.
Qed.

Lemma utf8_encode_bytes s : forall b, utf8_encode s = Some b -> Forall (fun x => x < 256) b.
Proof.
  induction s as [|c s IH]; intros b He; cbn [utf8_encode] in He.
  - injection He as <-. constructor.
  - destruct (is_scalar c) eqn:Hc; [|discriminate].
    destruct (utf8_encode s) as [b'|] eqn:Hs; [|discriminate].
    injection He as <-. apply Forall_app. split; [now apply encode_cp_bytes | now apply IH].
Qed.

(* ASCII text encodes to itself *)
Lemma utf8_encode_ascii s : Forall (fun c => c < 128) s -> utf8_encode s = Some s.
Proof.
  induction 1 as [|c s Hc _ IH]; [reflexivity|].
  cbn [utf8_encode]. unfold is_scalar, is_surrogate.
  replace ((c <=? 1114111) && negb ((55296 <=? c) && (c <=? 57343))) with true by lia.
  rewrite IH. unfold encode_cp. replace (c <? 128) with true by lia. reflexivity.
Qed.
