(* trash-empty (trashcli/empty/*.py, post-fix); --all-users is eo_all_users; --print-time, --version not modelled. *)
From TV Require Import Prelude.Str Prelude.PosixPath Codec.DateFmt Codec.TrashInfo Logic.Calendar Logic.Reply
  Prog.Prog Cmd.Put Cmd.Scan.
Open Scope N_scope.

Record empty_opts := mkempty {
  eo_trash_dirs : list str;
  eo_interactive : option bool;     (* Some b: -i / -f given last; None: default = os.isatty(0) *)
  eo_days : option Z;
  eo_dry_run : bool;
  eo_verbose : N;
  eo_environ : environ;
  eo_uid : N;
  eo_all_users : option (list (str * N)) }.   (* Some (pwd.getpwall() as (pw_dir, pw_uid))  when --all-users was given *)

(* fs.py RealRemoveFile2 / RealRemoveFileIfExists *)
Definition remove_file2 (path : str) : prog unit :=
  catch (call_unit (Remove path)) (fun e => if is_OSError e then Some (call_unit (Rmtree path)) else None).
Definition remove_file_if_exists (path : str) : prog unit :=
  e <- call_bool (Lexists path) ;; if e then remove_file2 path else Ret tt.

(* emptier.py do_empty: what happens to one path yielded by files_to_delete *)
Definition dispose (o : empty_opts) (path : str) : prog unit :=
  if eo_dry_run o then out ($"would remove " ++ path ++ [c_nl])
  else
    (if 0 <? eo_verbose o then out ($"removing " ++ path ++ [c_nl]) else Ret tt) ;;;
    catch (remove_file_if_exists path)
          (fun e => if is_OSError e then Some (call_unit (Log WARNING true ($"trash-empty: cannot remove " ++ path))) else None).

(* clock.py get_now_value *)
Definition s_TRASH_DATE := Eval compute in $"TRASH_DATE".
Definition get_now_value (env : environ) : prog datetime :=
  match env_get env s_TRASH_DATE with
  | Some v => match strptime_body v with
              | Some d => Ret d
              | None => call_unit (Log WARNING true ($"trash-empty: invalid TRASH_DATE: " ++ v)) ;;; call_date Now
              end
  | None => call_date Now
  end.

(* delete_according_date.py ok_to_delete (fixed: an unreadable info is kept) *)
Definition ok_to_delete (o : empty_opts) (trashinfo_path : str) : prog bool :=
  match eo_days o with
  | None => Ret true
  | Some days =>
    r <- catch (c <- call_str (ReadText trashinfo_path) ;; Ret (Some c))
               (fun e => if is_OSError e then Some (Ret None)
                         else match e with UnicodeDecodeError => Some (Ret None) | _ => None end) ;;
    match r with
    | None => Ret false
    | Some contents =>
      now <- get_now_value (eo_environ o) ;;
      match parse_deletion_date contents with
      | None => Ret false
      | Some d => match older_than days now d with
                  | Some b => Ret b
                  | None => Throw OverflowErrorE
                  end
      end
    end
  end.

(* files_to_delete for one trash directory, interleaved with the consumer *)
Definition empty_one_info (o : empty_opts) (trashinfo_path : str) : prog unit :=
  ok <- ok_to_delete o trashinfo_path ;;
  if ok then dispose o (path_of_backup_copy trashinfo_path) ;;; dispose o trashinfo_path else Ret tt.

Definition empty_orphan (o : empty_opts) (info_dir files_dir entry : str) : prog unit :=
  has_info <- call_bool (Exists (join2 info_dir (entry ++ s_trashinfo))) ;;
  if has_info then Ret tt else dispose o (join2 files_dir entry).

Definition empty_trash_dir (o : empty_opts) (path : str) : prog unit :=
  infos <- list_trashinfo path ;;
  for_each infos (empty_one_info o) ;;;
  let info_dir := join2 path s_info in
  let files_dir := join2 path s_files in
  entries <- entries_if_dir_exists files_dir ;;
  for_each entries (empty_orphan o info_dir files_dir).

Definition empty_handle (o : empty_opts) (_ : unit) (ev : scan_event) : prog unit :=
  match ev with Found path _ => empty_trash_dir o path | _ => Ret tt end.

(* prepare_output_message *)
Definition found_paths (evs : list scan_event) : list str :=
  flat_map (fun ev => match ev with Found p _ => [p] | _ => [] end) evs.
Definition prepare_output_message (evs : list scan_event) : str :=
  match evs with
  | [] => $"No trash directories to empty." ++ [c_nl]
  | _ => join_with [c_nl] ([$"Would empty the following trash directories:"]
                            ++ map (fun p => $"    - " ++ p) (found_paths evs)
                            ++ [$"Proceed? (y/N) "])
  end.

Definition empty_main (o : empty_opts) : prog N :=
  tty <- call_bool IsAtty ;;                                    (* default_is_interactive, always evaluated *)
  let interactive := match eo_interactive o with Some b => b | None => tty end in
  (if interactive then
     (* list(trash_dirs): the whole scan happens first *)
     evs <- select_trash_dirs (fun acc ev => Ret (acc ++ [ev])) (eo_all_users o) (eo_trash_dirs o) (eo_environ o) (eo_uid o) [] ;;
     reply <- call_str (Input (prepare_output_message evs)) ;;
     if parse_reply reply then for_each evs (empty_handle o tt) else Ret tt
   else
     select_trash_dirs (empty_handle o) (eo_all_users o) (eo_trash_dirs o) (eo_environ o) (eo_uid o) tt) ;;;
  Ret 0.
