(* Discovery of trash directories by the reading commands:
   trashcli/trash_dirs_scanner.py (TopTrashDirRules, TrashDirsScanner), list/trash_dir_selector.py,
   fstab/volume_listing.py, fstab/mount_points_listing.py, lib/trash_dir_reader.py. *)
From TV Require Import Prelude.Str Prelude.PosixPath Prog.Prog Cmd.Put.
Open Scope N_scope.

(* lib/trash_dirs.py home_trash_dir_path_from_home *)
Definition home_trash_dir_path_from_home (home : str) : str := home ++ $"/.local/share/Trash".

Inductive scan_event :=
| Found (path volume : str)
| SkippedNotSticky (path : str)
| SkippedSymlink (path : str).

(* volume_listing.py: TRASH_VOLUMES (non-empty) wins over the mount table *)
Definition s_TRASH_VOLUMES := Eval compute in $"TRASH_VOLUMES".
Definition c_colon' := 58.
Definition env_volumes (env : environ) : option (list str) :=
  match env_get env s_TRASH_VOLUMES with
  | Some (c :: x) => Some (filter (fun v => match v with [] => false | _ => true end) (split_on 58 (c :: x)))
  | _ => None
  end.

(* TopTrashDirRules.valid_to_be_read *)
Inductive top_rule := TopNotExist | TopNotSticky | TopSymlink | TopValid.
Definition is_sticky_dir (path : str) : prog bool :=
  d <- call_bool (Isdir path) ;;
  if d then (st <- call_stat (Stat path) ;; Ret (has_sticky (fst st))) else Ret false.
Definition valid_to_be_read (path : str) : prog top_rule :=
  let parent := dirname path in
  e <- call_bool (Exists path) ;;
  if negb e then Ret TopNotExist else
  s <- is_sticky_dir parent ;;
  if negb s then Ret TopNotSticky else
  l <- call_bool (Islink parent) ;;
  if l then Ret TopSymlink else Ret TopValid.

(* Python generators are consumed lazily: the consumer's work for one event happens before the scanner
   probes for the next.  The scanner is therefore a fold: `handle` is the consumer, S its state. *)
Fixpoint fold_prog {A S} (l : list A) (body : S -> A -> prog S) (s : S) : prog S :=
  match l with
  | [] => Ret s
  | x :: l' => s' <- body s x ;; fold_prog l' body s'
  end.

Section Scanner.
Context {S : Type}.
Variable handle : S -> scan_event -> prog S.

(* one volume of TrashDirsScanner.scan_trash_dirs *)
Definition scan_volume (uid : N) (s : S) (volume : str) : prog S :=
  let top := join3 volume ($".Trash") (dec_of_N uid) in
  r <- valid_to_be_read top ;;
  s1 <- (match r with
         | TopValid => handle s (Found top volume)
         | TopNotSticky => handle s (SkippedNotSticky top)
         | TopSymlink => handle s (SkippedSymlink top)
         | TopNotExist => Ret s
         end) ;;
  let alt := join2 volume ($".Trash-" ++ dec_of_N uid) in
  d <- call_bool (Isdir alt) ;;
  if d then handle s1 (Found alt volume) else Ret s1.

(* mount_points_listing.os_mount_points: psutil.disk_partitions() twice, then isdir per mount point,
   lazily: the consumer runs between two mount points *)
Fixpoint each_mount_point (l : list str) (body : S -> str -> prog S) (s : S) : prog S :=
  match l with
  | [] => Ret s
  | m :: l' => d <- call_bool (Isdir m) ;; s' <- (if d then body s m else Ret s) ;; each_mount_point l' body s'
  end.
Definition for_each_volume (env : environ) (body : S -> str -> prog S) (s : S) : prog S :=
  match env_volumes env with
  | Some vols => fold_prog vols body s
  | None => _ <- call_list ListMounts ;; l <- call_list ListMounts ;; each_mount_point l body s
  end.

Definition scan_trash_dirs (env : environ) (uid : N) (s : S) : prog S :=
  s1 <- fold_prog (home_trash_dir_path_from_env env) (fun s p => handle s (Found p [c_slash])) s ;;
  for_each_volume env (scan_volume uid) s1.

(* lib/user_info.py AllUsersInfoProvider + TrashDirsScanner.scan_trash_dirs: for every entry (pw_dir, pw_uid) of the
   password database, in its order: the home trash of that home directory, then every volume for that uid.  The
   database (pwd.getpwall(), read once) is an input of the command like the environment and the uid. *)
Definition scan_all_users (pw : list (str * N)) (env : environ) (s : S) : prog S :=
  fold_prog pw (fun s u => s1 <- handle s (Found (home_trash_dir_path_from_home (fst u)) [c_slash]) ;;
                           for_each_volume env (scan_volume (snd u)) s1) s.

(* TrashDirsSelector.select; all_users = Some (password database) when --all-users was given: the directories
   named with --trash-dir are then ignored *)
Definition select_trash_dirs (all_users : option (list (str * N))) (user_dirs : list str) (env : environ) (uid : N) (s : S) : prog S :=
  match all_users with
  | Some pw => scan_all_users pw env s
  | None =>
    s1 <- (match user_dirs with [] => scan_trash_dirs env uid s | _ => Ret s end) ;;
    fold_prog user_dirs (fun s d => v <- volume_of d ;; handle s (Found d v)) s1
  end.
End Scanner.

(* lib/trash_dir_reader.py (fixed: '.trashinfo', '..trashinfo', '...trashinfo' are not entries: the payload
   they would name is files/ itself, files/. or files/..) *)
Definition payload_name (entry : str) : str := firstn (length entry - 10) entry.
Definition is_trashinfo_name (entry : str) : bool :=
  ends_with entry s_trashinfo &&
  negb (str_eqb (payload_name entry) [] || is_dot (payload_name entry) || is_dotdot (payload_name entry)).
Definition entries_if_dir_exists (path : str) : prog (list str) :=
  e <- call_bool (Exists path) ;; if e then call_list (Listdir path) else Ret [].
Definition list_trashinfo (trash_dir : str) : prog (list str) :=
  let info_dir := join2 trash_dir s_info in
  es <- entries_if_dir_exists info_dir ;;
  Ret (map (join2 info_dir) (filter is_trashinfo_name es)).

