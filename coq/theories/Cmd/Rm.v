(* trash-rm (trashcli/rm/*.py, post-fix) *)
From TV Require Import Prelude.Str Prelude.PosixPath Codec.TrashInfo Logic.Glob Prog.Prog Cmd.Put Cmd.Scan Cmd.Empty.
Open Scope N_scope.

Record rm_opts := mkrm { ro_args : list str; ro_environ : environ; ro_uid : N }.

(* filter.py: None = IndexError (empty pattern) *)
Definition rm_matches (pattern original_location : str) : option bool :=
  match pattern with
  | [] => None
  | c :: _ => let subject := if c =? c_slash then original_location else basename original_location in
              Some (fnmatchcase subject pattern)
  end.

(* cleanable_trashcan.py *)
Definition delete_trash_info_and_backup_copy (trashinfo_path : str) : prog unit :=
  remove_file_if_exists (path_of_backup_copy trashinfo_path) ;;; remove_file2 trashinfo_path.

Definition rm_one_info (pattern volume trashinfo_path : str) : prog unit :=
  r <- catch (c <- call_str (ReadText trashinfo_path) ;; Ret (parse_path c))
             (fun e => if is_OSError e then Some (Ret None)
                       else match e with UnicodeDecodeError => Some (Ret None) | _ => None end) ;;
  match r with
  | None => call_unit (Log WARNING true ($"trash-rm: " ++ trashinfo_path ++ $": unable to parse 'Path'"))
  | Some rel =>
    match rm_matches pattern (join2 volume rel) with
    | None => Throw IndexErrorE
    | Some true => delete_trash_info_and_backup_copy trashinfo_path
    | Some false => Ret tt
    end
  end.

Definition rm_handle (pattern : str) (_ : unit) (ev : scan_event) : prog unit :=
  match ev with
  | Found path volume => infos <- list_trashinfo path ;; for_each infos (rm_one_info pattern volume)
  | _ => Ret tt
  end.

Definition rm_usage : str := Eval compute in
  $"Usage:" ++ [10] ++ $"    trash-rm PATTERN" ++ [10; 10] ++ $"Please specify PATTERN." ++ [10]
  ++ $"trash-rm uses fnmatch.fnmatchcase to match patterns, see https://docs.python.org/3/library/fnmatch.html for more details.".

Definition rm_main (o : rm_opts) : prog N :=
  match ro_args o with
  | [] => call_unit (Log WARNING true rm_usage) ;;; Ret 8
  | pattern :: _ => scan_trash_dirs (rm_handle pattern) (ro_environ o) (ro_uid o) tt ;;; Ret 0
  end.
