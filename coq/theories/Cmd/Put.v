(* trash-put, one definition per Python function (trashcli/put/*, post-fix tree).
   argparse is not modelled: the command starts from the parsed options (record put_opts). *)
From TV Require Import Prelude.Str Prelude.PosixPath Prelude.Utf8 Codec.Quote Codec.DateFmt Codec.TrashInfo
  Logic.OrigLoc Logic.Reply Prog.Prog.
Open Scope N_scope.

Inductive put_mode := ModeUnspecified | ModeInteractive | ModeForce.
Inductive gate := GateHomeFallback | GateSameVolume.
Inductive check_type := NoCheck | TopTrashDirCheck.

Record candidate := mkcand {
  c_path : str; c_volume : str; c_maker : path_maker; c_check : check_type; c_gate : gate }.

Record put_opts := mkput {
  po_paths : list str;
  po_trash_dir : option str;        (* --trash-dir *)
  po_mode : put_mode;
  po_forced_volume : option str;    (* --force-volume *)
  po_home_fallback : bool;          (* --home-fallback *)
  po_verbose : N;
  po_environ : environ;
  po_uid : N;
  po_fuel : nat                     (* bound on the `while True` of try_persist; see C17 *)
}.

Definition lit (s : string) : str := of_string s.
Definition s_info := Eval compute in $"info".
Definition s_files := Eval compute in $"files".
Definition s_trashinfo := Eval compute in $".trashinfo".

Definition cand_parent_dir (c : candidate) := dirname (c_path c).
Definition cand_info_dir (c : candidate) := join2 (c_path c) s_info.
Definition cand_files_dir (c : candidate) := join2 (c_path c) s_files.
Definition cand_norm_path (c : candidate) := normpath (c_path c).

(* lib/path_of_backup_copy.py *)
Definition path_of_backup_copy (trashinfo_path : str) : str :=
  let trash_dir := dirname (dirname trashinfo_path) in
  let base := basename trashinfo_path in
  join3 trash_dir s_files (firstn (length base - 10) base).

(* core/trashee.py (fixed): basename(path.rstrip('/')) in ('.', '..') *)
Definition should_skipped_by_specs (path : str) : bool :=
  let b := basename (rstrip_c c_slash path) in is_dot b || is_dotdot b.

(* describer.py *)
Definition describe (path : str) : prog str :=
  l <- call_bool (Islink path) ;;
  if l then Ret ($"symbolic link") else
  d <- call_bool (Isdir path) ;;
  if d then
    Ret (if is_dot path || is_dotdot path then $"directory"
         else if is_dot (basename path) then $"'.' directory"
         else if is_dotdot (basename path) then $"'..' directory"
         else $"directory")
  else
  f <- call_bool (Isfile path) ;;
  if f then (sz <- call_z (Getsize path) ;; Ret (if (sz =? 0)%Z then $"regular empty file" else $"regular file"))
  else
  e <- call_bool (Exists path) ;;
  Ret (if e then $"entry" else $"non existent").

(* fstab/volume_of_impl.py: abspath, then walk up until a mount point *)
Fixpoint volume_walk (fuel : nat) (path : str) : prog str :=
  match fuel with
  | O => Ret path
  | S f =>
    if str_eqb path (dirname path) then Ret path
    else m <- call_bool (Ismount path) ;;
         if m then Ret path else volume_walk f (dirname path)
  end.
Definition volume_of (path : str) : prog str :=
  a <- call_str (Abspath path) ;; volume_walk (S (length a)) a.

(* put/fs/volume_of_parent.py *)
Definition volume_of_parent (path : str) : prog str :=
  pr <- call_str (Realpath (dirname path)) ;; volume_of pr.

(* lib/trash_dirs.py (fixed: empty XDG_DATA_HOME counts as unset) *)
Definition s_XDG := Eval compute in $"XDG_DATA_HOME".
Definition s_HOME := Eval compute in $"HOME".
Definition home_trash_dir_path_from_env (env : environ) : list str :=
  match env_get env s_XDG with
  | Some (c :: x) => [(c :: x) ++ $"/Trash"]
  | _ => match env_get env s_HOME with
         | Some h => [h ++ $"/.local/share/Trash"]
         | None => []
         end
  end.

Fixpoint home_trash_dir (paths : list str) : prog (list (str * str)) :=
  match paths with
  | [] => Ret []
  | p :: ps => v <- volume_of p ;; r <- home_trash_dir ps ;; Ret ((p, v) :: r)
  end.

Definition volume_trash_dir1 (volume : str) (uid : N) : str := join2 volume ($".Trash/" ++ dec_of_N uid).
Definition volume_trash_dir2 (volume : str) (uid : N) : str := join2 volume ($".Trash-" ++ dec_of_N uid).

(* trash_directories_finder.py *)
Definition possible_trash_directories_for (volume : str) (o : put_opts) : prog (list candidate) :=
  match po_trash_dir o with
  | Some (c :: x) =>
      v <- volume_of (c :: x) ;;
      Ret [mkcand (c :: x) v RelativePaths NoCheck GateSameVolume]
  | _ =>
      homes <- home_trash_dir (home_trash_dir_path_from_env (po_environ o)) ;;
      let hs := map (fun pv => mkcand (fst pv) (snd pv) AbsolutePaths NoCheck GateSameVolume) homes in
      let tops := [mkcand (volume_trash_dir1 volume (po_uid o)) volume RelativePaths TopTrashDirCheck GateSameVolume;
                   mkcand (volume_trash_dir2 volume (po_uid o)) volume RelativePaths NoCheck GateSameVolume] in
      if po_home_fallback o then
        homes2 <- home_trash_dir (home_trash_dir_path_from_env (po_environ o)) ;;
        Ret (hs ++ tops ++ map (fun pv => mkcand (fst pv) (snd pv) AbsolutePaths NoCheck GateHomeFallback) homes2)
      else Ret (hs ++ tops)
  end.

(* why a candidate was not used *)
Inductive reason :=
| RNoParent | RParentIsFile | RParentSymlink | RParentNotSticky        (* security_check.py *)
| RDifferentVolumes (td_volume file_volume : str) | RHomeFallbackNotEnabled   (* trash_dir_checker.py *)
| RCannotCreateDirs (e : exn) | RCannotCreateContent (e : exn) | RCannotCreateInfo (e : exn)
| RCannotMove (e : exn).

Definition S_ISVTX := 512.
Definition has_sticky (mode : N) : bool := N.testbit mode 9.

(* janitor_tools/security_check.py *)
Definition check_trash_dir_is_secure (c : candidate) : prog (option reason) :=
  match c_check c with
  | NoCheck => Ret None
  | TopTrashDirCheck =>
    let parent := cand_parent_dir c in
    e <- call_bool (Lexists parent) ;;
    if negb e then Ret (Some RNoParent) else
    d <- call_bool (Isdir parent) ;;
    if negb d then Ret (Some RParentIsFile) else
    l <- call_bool (Islink parent) ;;
    if l then Ret (Some RParentSymlink) else
    st <- call_stat (Stat parent) ;;
    if negb (has_sticky (fst st)) then Ret (Some RParentNotSticky) else Ret None
  end.

(* janitor_tools/trash_dir_checker.py *)
Definition s_FALLBACK := Eval compute in $"TRASH_ENABLE_HOME_FALLBACK".
Definition file_could_be_trashed_in (trashee_volume : str) (c : candidate) (env : environ) : prog (option reason) :=
  match c_gate c with
  | GateHomeFallback =>
      Ret (match env_get env s_FALLBACK with
           | Some v => if str_eqb v [49] then None else Some RHomeFallbackNotEnabled
           | None => Some RHomeFallbackNotEnabled
           end)
  | GateSameVolume =>
      rp <- call_str (Realpath (normpath (c_path c))) ;;
      v <- volume_of rp ;;
      Ret (if str_eqb v trashee_volume then None else Some (RDifferentVolumes v trashee_volume))
  end.

(* dir_maker.py: makedirs; on OSError accept an existing directory *)
Definition mkdir_p (path : str) (mode : N) : prog unit :=
  catch (call_unit (Makedirs path mode))
        (fun e => if is_OSError e
                  then Some (d <- call_bool (Isdir path) ;; if d then Ret tt else Throw e)
                  else None).

(* janitor_tools/trash_dir_creator.py *)
Definition make_candidate_dirs (c : candidate) : prog (option reason) :=
  catch (mkdir_p (c_path c) 448 ;;; mkdir_p (cand_files_dir c) 448 ;;; mkdir_p (cand_info_dir c) 448 ;;; Ret None)
        (fun e => if is_OSError e then Some (Ret (Some (RCannotCreateDirs e))) else None).

(* janitor_tools/info_creator.py (fixed: UnicodeError is caught too) *)
Record trashinfo_data := mkdata { td_basename : str; td_content : bytes; td_info_dir : str }.
Definition make_trashinfo_data (path : str) (c : candidate) : prog (trashinfo_data + reason) :=
  catch (pr <- call_str (Realpath (orig_loc_parent_arg path)) ;;
         let loc := orig_loc_result path pr (c_volume c) (c_maker c) in
         now <- call_date Now ;;
         match format_trashinfo loc now with
         | None => Throw UnicodeEncodeError
         | Some content => Ret (inl (mkdata (basename loc) content (cand_info_dir c)))
         end)
        (fun e => if is_OSError e || is_UnicodeError e then Some (Ret (inr (RCannotCreateContent e))) else None).

(* suffix.py *)
Definition suffix_for_index (index : nat) : prog str :=
  match index with
  | O => Ret []
  | _ => if Nat.ltb index 100 then Ret (c_us :: dec_of_N (N.of_nat index))
         else r <- call_z (RandInt 0 65535) ;; Ret (c_us :: dec_of_Z r)
  end.

(* info_file_persister.py *)
Definition create_trashinfo_basename (base suffix : str) (name_too_long : bool) : str :=
  let after := suffix ++ s_trashinfo in
  (* basename[0 : len(basename) - len(after)] with Python's negative-index rule *)
  let n := length base in let a := length after in
  (if name_too_long then (if Nat.leb a n then firstn (n - a) base else firstn (n - (a - n)) base) else base) ++ after.

(* fs.py RealAtomicWrite (fixed: a failed write removes the file just created) *)
Definition atomic_write (path : str) (content : bytes) : prog unit :=
  call_unit (OpenExcl path) ;;;
  catch (call_unit (WriteFd content))
        (fun e => if is_OSError e then Some (call_unit CloseFd ;;; call_unit (Remove path) ;;; Throw e) else None) ;;;
  call_unit CloseFd.

(* try_persist + JobExecutor.execute (fixed: only EEXIST, and ENAMETOOLONG once, are retried).
   inl path = the info file created; inr e = gave up with OSError e; fuel exhaustion = Stuck-like ValueErrorE
   ("Should not happen!") is excluded by theorem put_terminates. *)
Inductive persist_result := Persisted (info_path : str) | PersistFailed (e : exn) | OutOfFuel.
Fixpoint try_persist (fuel : nat) (d : trashinfo_data) (index : nat) (name_too_long : bool) : prog persist_result :=
  match fuel with
  | O => Ret OutOfFuel
  | S f =>
    suffix <- suffix_for_index index ;;
    let base := create_trashinfo_basename (td_basename d) suffix name_too_long in
    let path := join2 (td_info_dir d) base in
    taken <- call_bool (Exists (path_of_backup_copy path)) ;;
    if taken then try_persist f d (S index) name_too_long
    else
      r <- catch (atomic_write path (td_content d) ;;; Ret None)
                 (fun e => match e with OSError n => Some (Ret (Some n)) | _ => None end) ;;
      match r with
      | None => log DEBUG true ($".trashinfo created as " ++ path ++ [c_dot]) ;;; Ret (Persisted path)
      | Some n =>
        if (n =? ENAMETOOLONG) && negb name_too_long then
          log DEBUG true ($"attempt for creating " ++ path ++ $" failed.") ;;; try_persist f d (S index) true
        else if negb (n =? EEXIST) then Ret (PersistFailed (OSError n))
        else log DEBUG true ($"attempt for creating " ++ path ++ $" failed.") ;;; try_persist f d (S index) name_too_long
      end
  end.

(* fs.py RealRemoveFile.remove_file: lexists; remove; on ANY exception rmtree *)
Definition remove_file (path : str) : prog unit :=
  e <- call_bool (Lexists path) ;;
  if e then catch (call_unit (Remove path)) (fun _ => Some (call_unit (Rmtree path))) else Ret tt.

(* put_trash_dir.py try_trash + real_fs.py RealFs.move (fixed: a mount point is refused) *)
Definition fs_move (src dst : str) : prog unit :=
  m <- call_bool (Ismount src) ;;
  if m then Throw (OSError EBUSY) else call_unit (Move src dst).
Definition try_trash (path info_path : str) : prog (option reason) :=
  catch (fs_move (normpath path) (path_of_backup_copy info_path) ;;; Ret None)
        (fun e => if is_OSError e then Some (remove_file info_path ;;; Ret (Some (RCannotMove e))) else None).

(* janitor.py trash_file_in *)
Definition trash_file_in (c : candidate) (o : put_opts) (path volume : str) : prog (option reason) :=
  s <- check_trash_dir_is_secure c ;;
  match s with Some r => Ret (Some r) | None =>
  g <- file_could_be_trashed_in volume c (po_environ o) ;;
  match g with Some r => Ret (Some r) | None =>
  m <- make_candidate_dirs c ;;
  match m with Some r => Ret (Some r) | None =>
  d <- make_trashinfo_data path c ;;
  match d with inr r => Ret (Some r) | inl data =>
  p <- try_persist (po_fuel o) data 0 false ;;
  match p with
  | OutOfFuel => Throw ValueErrorE
  | PersistFailed e => Ret (Some (RCannotCreateInfo e))
  | Persisted info_path => try_trash path info_path
  end end end end end.

(* candidate.shrink_user *)
Definition s_SHRINK := Eval compute in $"TRASH_PUT_DISABLE_SHRINK".
Definition shrink_user (c : candidate) (env : environ) : str :=
  let path := cand_norm_path c in
  match env_get env s_SHRINK with
  | Some [49] => path
  | _ =>
    let home := normpath (match env_get env s_HOME with Some h => h | None => [] end) in
    if starts_with path (home ++ [c_slash]) then $"~/" ++ skipn (length home + 1) path else path
  end.

Definition reason_text (r : reason) (path : str) (c : candidate) : str * bool :=
  let parent_problem msg := (msg ++ $", trash-dir: " ++ cand_norm_path c ++ $", parent: " ++ cand_parent_dir c, true) in
  match r with
  | RNoParent => parent_problem ($"trash dir cannot be created because its parent does not exists")
  | RParentIsFile => parent_problem ($"trash dir cannot be created as its parent is a file instead of being a directory")
  | RParentSymlink => parent_problem ($"trash dir is insecure, its parent should not be a symlink")
  | RParentNotSticky => parent_problem ($"trash dir is insecure, its parent should be sticky")
  | RDifferentVolumes tv fv =>
      ($"trash dir and file to be trashed are not in the same volume, trash-dir volume: " ++ tv ++ $", file volume: " ++ fv, true)
  | RHomeFallbackNotEnabled => ($"home fallback not enabled", true)
  | RCannotCreateDirs _ => ($"error during directory creation: ", false)
  | RCannotCreateContent _ => ($"failed to generate trashinfo content: ", false)
  | RCannotCreateInfo _ => ($"failed to create the trashinfo file: ", false)
  | RCannotMove _ => ($"failed to move " ++ path ++ $" in " ++ cand_files_dir c ++ $": ", false)
  end.

Fixpoint log_failures (path : str) (fs : list (candidate * reason)) : prog unit :=
  match fs with
  | [] => Ret tt
  | (c, r) :: fs' =>
      let '(t, exact) := reason_text r path c in
      log WARNING exact ($" `- failed to trash " ++ path ++ $" in " ++ cand_norm_path c ++ $", because " ++ t) ;;;
      log_failures path fs'
  end.

(* file_trasher.py *)
Fixpoint try_candidates (cs : list candidate) (o : put_opts) (path volume : str)
         (failures : list (candidate * reason)) : prog bool :=
  match cs with
  | [] =>
      d <- describe path ;;
      log WARNING true ($"cannot trash " ++ d ++ $" '" ++ path ++ $"' (from volume '" ++ volume ++ $"')") ;;;
      log_failures path (rev failures) ;;; Ret false
  | c :: cs' =>
      log DEBUG true ($"trying trash dir: " ++ cand_norm_path c ++ $" from volume: " ++ c_volume c) ;;;
      r <- trash_file_in c o path volume ;;
      match r with
      | None => log INFO true ($"'" ++ path ++ $"' trashed in " ++ shrink_user c (po_environ o)) ;;; Ret true
      | Some why => try_candidates cs' o path volume ((c, why) :: failures)
      end
  end.

Definition trash_file (path : str) (o : put_opts) : prog bool :=
  volume <- match po_forced_volume o with
            | Some (c :: x) => Ret (c :: x)
            | _ => volume_of_parent path
            end ;;
  cs <- possible_trash_directories_for volume o ;;
  try_candidates cs o path volume [].

(* user.py printable (fixed): a prompt that stdout cannot encode (lone surrogates = undecodable file-name bytes) is
   written with those characters as \udcxx, the way errors='backslashreplace' does *)
Definition hex_lower (d : N) : N := if d <? 10 then 48 + d else 87 + d.
Definition backslash_u (c : N) : str :=
  [92; 117; hex_lower ((c / 4096) mod 16); hex_lower ((c / 256) mod 16); hex_lower ((c / 16) mod 16); hex_lower (c mod 16)].
Definition is_surrogate (c : N) : bool := (55296 <=? c) && (c <=? 57343).
Definition printable (t : str) : str :=
  match utf8_encode t with
  | Some _ => t
  | None => flat_map (fun c => if is_surrogate c then backslash_u c else [c]) t
  end.

(* trasher.py trash_single : true = TrashResult.Success *)
Definition trash_single (path : str) (o : put_opts) : prog bool :=
  if should_skipped_by_specs path then
    d <- describe path ;; log WARNING true ($"cannot trash " ++ d ++ $" '" ++ path ++ $"'") ;;; Ret false
  else
  e <- call_bool (Lexists path) ;;
  if negb e then
    match po_mode o with
    | ModeForce => Ret true
    | _ => d <- describe path ;; log WARNING true ($"cannot trash " ++ d ++ $" '" ++ path ++ $"'") ;;; Ret false
    end
  else
  acc <- call_bool (Access path) ;;
  match po_mode o with
  | ModeInteractive =>
      if acc then
        d <- describe path ;;
        (* user.py (fixed): end of input at the prompt is a "no" *)
        reply <- catch (call_str (Input (printable ($"trash-put: trash " ++ d ++ $" '" ++ path ++ $"'? "))))
                       (fun e => match e with EOFError => Some (Ret []) | _ => None end) ;;
        if parse_user_reply reply then trash_file path o else Ret true
      else trash_file path o
  | _ => trash_file path o
  end.

(* context.trash_each + reporter.exit_code: the list of failed paths and the exit status *)
Fixpoint trash_each (paths : list str) (o : put_opts) : prog (list str) :=
  match paths with
  | [] => Ret []
  | p :: ps => ok <- trash_single p o ;; r <- trash_each ps o ;; Ret (if ok then r else p :: r)
  end.

Definition EX_IOERR : N := 74.
Definition put_main (o : put_opts) : prog N :=
  failed <- trash_each (po_paths o) o ;;
  Ret (match failed with [] => 0 | _ => EX_IOERR end).
