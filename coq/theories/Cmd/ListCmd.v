(* trash-list (trashcli/list/list_trash_action.py, extractors.py); --all-users is lo_all_users; --volumes, --trash-dirs,
   --debug-volumes, --python, --version are not modelled. *)
From TV Require Import Prelude.Str Prelude.PosixPath Codec.TrashInfo Prog.Prog Cmd.Put Cmd.Scan.
Open Scope N_scope.

Record list_opts := mklist {
  lo_trash_dirs : list str; lo_size : bool; lo_files : bool; lo_environ : environ; lo_uid : N;
  lo_all_users : option (list (str * N)) }.   (* Some (pwd.getpwall() as (pw_dir, pw_uid))  when --all-users was given *)

Definition println (t : str) : prog unit := out (t ++ [c_nl]).
Definition printerr (exact : bool) (t : str) : prog unit := call_unit (Log WARNING exact t).

(* SizeExtractor: str(os.stat(backup).st_size); FileNotFoundError on a dangling link -> 0 *)
Definition size_attribute (trashinfo_path : str) : prog str :=
  let backup := path_of_backup_copy trashinfo_path in
  catch (st <- call_stat (Stat backup) ;; Ret (dec_of_N (snd st)))
        (fun e => match e with
                  | OSError 2 => Some (l <- call_bool (Islink backup) ;; if l then Ret [48] else Throw e)
                  | _ => None
                  end).

Definition print_trashinfo (o : list_opts) (volume trashinfo_path : str) : prog unit :=
  r <- catch (c <- call_str (ReadText trashinfo_path) ;; Ret (inl c))
             (fun e => if is_OSError e then Some (Ret (inr true))
                       else match e with UnicodeDecodeError => Some (Ret (inr false)) | _ => None end) ;;
  match r with
  | inr true => printerr false []                                   (* str(e) *)
  | inr false => printerr false (trashinfo_path ++ $": ")
  | inl contents =>
    match parse_path contents with
    | None => printerr true ($"Parse Error: " ++ trashinfo_path ++ $": Unable to parse Path.")
    | Some rel =>
      attr <- (if lo_size o then size_attribute trashinfo_path else Ret (maybe_parse_deletion_date contents)) ;;
      let loc := join2 volume rel in
      if lo_files o
      then println (attr ++ [c_space] ++ loc ++ $" -> " ++ path_of_backup_copy trashinfo_path)
      else println (attr ++ [c_space] ++ loc)
    end
  end.

Definition list_handle (o : list_opts) (_ : unit) (ev : scan_event) : prog unit :=
  match ev with
  | Found path volume => infos <- list_trashinfo path ;; for_each infos (print_trashinfo o volume)
  | SkippedNotSticky path => printerr true ($"TrashDir skipped because parent not sticky: " ++ path)
  | SkippedSymlink path => printerr true ($"TrashDir skipped because parent is symlink: " ++ path)
  end.

Definition list_main (o : list_opts) : prog N :=
  select_trash_dirs (list_handle o) (lo_all_users o) (lo_trash_dirs o) (lo_environ o) (lo_uid o) tt ;;; Ret 0.
