(* trash-restore (trashcli/restore/*.py, post-fix); --version not modelled. *)
From TV Require Import Prelude.Str Prelude.PosixPath Prelude.SortStable Codec.DateFmt Codec.TrashInfo
  Logic.Calendar Logic.Indexes Logic.Scope Prog.Prog Cmd.Put Cmd.Scan Cmd.ListCmd.
Open Scope N_scope.

Inductive sort_mode := SortByDate | SortByPath | SortNone.
Record restore_opts := mkrestore {
  ro_path : str;                 (* positional argument, "" when absent *)
  ro_sort : sort_mode;
  ro_trash_dir : option str;
  ro_overwrite : bool;
  rs_environ : environ;
  rs_uid : N }.

Record trashed_file := mktf {
  tf_location : str; tf_date : option datetime; tf_info : str; tf_payload : str }.

Definition s_None := Eval compute in $"None".
Definition date_str (d : option datetime) : str :=
  match d with Some t => str_of_datetime t | None => s_None end.

(* Python's < on str: lexicographic by code point *)
Fixpoint str_ltb (a b : str) : bool :=
  match a, b with
  | [], [] => false
  | [], _ :: _ => true
  | _ :: _, [] => false
  | x :: a', y :: b' => (x <? y) || ((x =? y) && str_ltb a' b')
  end.

(* sort_method.py (fixed: total date key (date is not None, date or datetime.min)) *)
Definition date_key_lt (a b : trashed_file) : bool :=
  match tf_date a, tf_date b with
  | None, Some _ => true
  | Some x, Some y => dt_lt x y
  | _, _ => false
  end.
Definition path_key (t : trashed_file) : str := tf_location t ++ date_str (tf_date t).
Definition path_key_lt (a b : trashed_file) : bool := str_ltb (path_key a) (path_key b).
Definition sort_files (m : sort_mode) (l : list trashed_file) : list trashed_file :=
  match m with
  | SortByDate => sort_stable date_key_lt l
  | SortByPath => sort_stable path_key_lt l
  | SortNone => l
  end.

(* info_files.py all_info_files (fixed: '.trashinfo' alone counts as a non-trashinfo file);
   an OSError from listdir means "no such directory" *)
Definition all_info_files (trash_dir : str) : prog (list (bool * str)) :=
  let info_dir := join2 (normpath trash_dir) s_info in
  catch (es <- call_list (Listdir info_dir) ;;
         Ret (map (fun e => (is_trashinfo_name e, join2 info_dir e)) es))
        (fun e => if is_OSError e then Some (Ret []) else None).

Definition warn (exact : bool) (t : str) : prog unit := call_unit (Log WARNING exact t).

(* trashed_files.py: one info file -> a TrashedFile, or a warning *)
Definition read_trashed_file (volume : str) (is_ti : bool) (info_path : str) : prog (option trashed_file) :=
  if negb is_ti then warn true ($"Non .trashinfo file in info dir") ;;; Ret None
  else
    r <- catch (c <- call_str (ReadText info_path) ;; Ret (inl c))
               (fun e => if is_OSError e then Some (Ret (inr true))
                         else match e with UnicodeDecodeError => Some (Ret (inr false)) | _ => None end) ;;
    match r with
    | inr true => warn false ($"IOErrorReadingTrashInfo(path=") ;;; Ret None
    | inr false => warn false ($"Non parsable trashinfo file: " ++ info_path ++ $", because ") ;;; Ret None
    | inl contents =>
      match parse_original_location contents volume with
      | None => warn false ($"Non parsable trashinfo file: " ++ info_path ++ $", because ") ;;; Ret None
      | Some loc => Ret (Some (mktf loc (parse_deletion_date contents) info_path (path_of_backup_copy info_path)))
      end
    end.

(* one trash directory: every info file that is in scope is appended to the list *)
Definition restore_scan_dir (scope : str) (acc : list trashed_file) (dir_vol : str * str) : prog (list trashed_file) :=
  infos <- all_info_files (fst dir_vol) ;;
  fold_prog infos (fun acc it =>
                     t <- read_trashed_file (snd dir_vol) (fst it) (snd it) ;;
                     Ret (match t with
                          | Some tf => if matches_path (tf_location tf) scope then acc ++ [tf] else acc
                          | None => acc
                          end)) acc.

(* trash_directories.py (fixed: $topdir/.Trash/$uid only when it passes the rules) *)
(* the shared directory $topdir/.Trash/$uid is read only when the rules accept it *)
Definition restore_top1 (uid : N) (scope : str) (acc : list trashed_file) (volume : str) : prog (list trashed_file) :=
  let d1 := volume_trash_dir1 volume uid in
  r <- valid_to_be_read d1 ;;
  match r with TopValid => restore_scan_dir scope acc (d1, volume) | _ => Ret acc end.
Definition restore_volume (uid : N) (scope : str) (acc : list trashed_file) (volume : str) : prog (list trashed_file) :=
  acc1 <- restore_top1 uid scope acc volume ;;
  restore_scan_dir scope acc1 (volume_trash_dir2 volume uid, volume).

Definition restore_mounts (l : list str) (uid : N) (scope : str) (acc : list trashed_file) : prog (list trashed_file) :=
  each_mount_point l (restore_volume uid scope) acc.

Definition all_files_trashed_from_path (o : restore_opts) (scope : str) : prog (list trashed_file) :=
  match ro_trash_dir o with
  | Some (c :: x) => v <- volume_of (c :: x) ;; restore_scan_dir scope [] (c :: x, v)
  | _ =>
    (* home trash first (its volume is computed by volume_of), then every mount point, lazily *)
    acc <- fold_prog (home_trash_dir_path_from_env (rs_environ o))
                     (fun acc p => v <- volume_of p ;; restore_scan_dir scope acc (p, v)) [] ;;
    _ <- call_list ListMounts ;; l <- call_list ListMounts ;;
    restore_mounts l (rs_uid o) scope acc
  end.

(* "%4d" *)
Definition pad4d (i : nat) : str :=
  let d := dec_of_N (N.of_nat i) in repeat c_space (4 - length d) ++ d.

Fixpoint print_listing (i : nat) (l : list trashed_file) : prog unit :=
  match l with
  | [] => Ret tt
  | t :: l' => println (pad4d i ++ [c_space] ++ date_str (tf_date t) ++ [c_space] ++ tf_location t) ;;; print_listing (S i) l'
  end.

(* fs.py RealMkDirs *)
Definition mkdirs (path : str) : prog unit :=
  d <- call_bool (Isdir path) ;; if d then Ret tt else call_unit (Makedirs path 511).

(* restorer.py (fixed: lexists).  inl tt = restored; inr (exact, msg) = IOError -> Die *)
Definition restore_trashed_file (t : trashed_file) (overwrite : bool) : prog (unit + (bool * str)) :=
  catch
    (refuse <- (if overwrite then Ret false else call_bool (Lexists (tf_location t))) ;;
     if refuse then Ret (inr (true, $"Refusing to overwrite existing file """ ++ basename (tf_location t) ++ $"""."))
     else
       mkdirs (dirname (tf_location t)) ;;;
       call_unit (Move (tf_payload t) (tf_location t)) ;;;
       remove_file (tf_info t) ;;;
       Ret (inl tt))
    (fun e => if is_OSError e then Some (Ret (inr (false, []))) else None).

Fixpoint restore_selected (l : list trashed_file) (overwrite : bool) : prog (unit + (bool * str)) :=
  match l with
  | [] => Ret (inl tt)
  | t :: l' => r <- restore_trashed_file t overwrite ;;
               match r with inl _ => restore_selected l' overwrite | inr m => Ret (inr m) end
  end.

Definition die (exact : bool) (msg : str) : prog N := warn exact msg ;;; Ret 1.

Definition restore_main (o : restore_opts) : prog N :=
  curdir <- call_str (Realpath [c_dot]) ;;
  let scope := restore_scope curdir (ro_path o) in
  found <- all_files_trashed_from_path o scope ;;
  let files := sort_files (ro_sort o) found in
  match files with
  | [] => cwd <- call_str (Realpath [c_dot]) ;;
          println ($"No files trashed from current dir ('" ++ cwd ++ $"')") ;;; Ret 0
  | _ =>
    print_listing 0 files ;;;
    r <- catch (reply <- call_str (Input ($"What file to restore [0.." ++ dec_of_N (N.of_nat (length files - 1)) ++ $"]: ")) ;;
                Ret (Some reply))
               (fun e => match e with EOFError | KeyboardInterrupt => Some (Ret None) | _ => None end) ;;
    match r with
    | None => die true []                                             (* Quit -> die('') *)
    | Some [] => println ($"No files were restored") ;;; Ret 0
    | Some reply =>
      match parse_indexes reply (Z.of_nat (length files)) with
      | UncaughtValueError => Throw ValueErrorE
      | InvalidEntry => die false ($"Invalid entry: ")
      | Selected idxs =>
        let chosen := flat_map (fun i => match nth_error files (Z.to_nat i) with Some t => [t] | None => [] end) idxs in
        res <- restore_selected chosen (ro_overwrite o) ;;
        match res with
        | inl _ => Ret 0
        | inr (exact, msg) => die exact msg
        end
      end
    end
  end.
