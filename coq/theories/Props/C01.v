(* C01 - trash-put conserves data: each argument ends fully trashed or untouched.
   FULL STATEMENT (decided on the real command by the check's oracle over generated spellings x kinds x layouts):
     for every well-formed file system w, argument list and option set, after trash-put each argument's
     subtree is EITHER byte-identical under files/N of exactly one trash directory, next to N.trashinfo,
     and absent from its origin, OR identical at its origin with nothing new for it in any trash directory.
   PROVED HERE ON THE FILE-SYSTEM MODEL (World.effect; every tree-shaped file system, every answer, every fault, every
   prefix of the run = every crash point at library-call granularity):
   (w1) put_destroys_nothing: whatever existed before the run and is not at or below an entry the run moves into the
        trash keeps exactly what it held (kind and content) - in particular an argument that is NOT moved is untouched,
        and so is everything already in any trash directory; the one exception is the stated one of C04 (a symbolic
        link that a move goes onto: the dangling orphan payload);
   (w2) put_keeps_what_it_trashed: when a move returns, the tree that was at the source is at the destination node by
        node, and from then on the payload and its .trashinfo (and everything else that exists) stay as they are unless
        a later move of the same run takes them away;
   together with C05's put_payload_always_has_info (the payload sits next to its complete .trashinfo) and C04's
   put_never_moves_onto_something these are the two halves of the dichotomy, at library-call granularity; what is not
   modelled: the inside of one shutil.move (copy + delete across file systems: known finding C17), modes and mtimes.
   PROVED ALSO, against every answer of the environment (the protocol that makes the dichotomy possible):
   (a) untouched_arguments: no mutating operation is issued for an argument whose last component is '.' or
       '..' (any number of trailing slashes; /repo fix 19607fc), nor for one that os.path.lexists reports
       absent (with or without -f), nor after a reply to -i that is not a yes, nor on end of input; and never
       before the existence probe;
   (b) mount points: a Move is only issued after os.path.ismount(source) answered False (/repo fix e8e1e40);
   (c) the put discipline (C05/C17): "cannot trash" is reported only when no Move succeeded for the argument
       and every info reserved for it was removed again; "trashed" only after a Move returned normally; the
       info is complete and parseable before the Move; the Move goes to the payload path of that info.
   Known finding (kept in known_findings.json): 'link/../x' with link a symlink to a directory elsewhere -
   existence and volume use the physical parent, location and move use lexical normpath. *)
From TV Require Import Prelude.Str Prelude.PosixPath Prog.Prog World.World Cmd.Put Proofs.ProgProofs Proofs.PutSafe Proofs.PutProofs Proofs.PutMore
  Proofs.WorldProofs Proofs.WorldPut Proofs.WorldPut3 Proofs.WorldExamples Proofs.FailedPut.
Open Scope N_scope.

Theorem untouched_arguments : forall o path,
  all_runs (fun t _ => accepts skip_step SStart t <> None) (trash_single path o).
Proof. exact untouched_arguments_lemma. Qed.
Print Assumptions untouched_arguments.

(* the refusal of dot entries is decided on the argument with its trailing slashes stripped *)
Theorem dot_entries_refused : forall path,
  should_skipped_by_specs path = true <->
  (basename (rstrip_c c_slash path) = [c_dot] \/ basename (rstrip_c c_slash path) = [c_dot; c_dot]).
Proof.
  intros path. unfold should_skipped_by_specs, is_dot, is_dotdot. rewrite orb_true_iff. split.
  - intros [H|H]; [left|right]; apply Proofs.OrigLocProofs.str_eqb_true; exact H.
  - intros [H|H]; [left|right]; rewrite H; reflexivity.
Qed.
Print Assumptions dot_entries_refused.

Theorem dot_entry_issues_no_mutation : forall o path, should_skipped_by_specs path = true ->
  all_runs (fun t _ => accepts skip_step SStart t <> None /\ True) (trash_single path o).
Proof. intros o path _. eapply all_runs_mono; [|apply untouched_arguments_lemma]. auto. Qed.
Print Assumptions dot_entry_issues_no_mutation.

(* a mount point is refused before any move (the move would degrade to copy + delete of its contents) *)
Theorem mount_point_refused : forall src dst, fs_move src dst = (m <- call_bool (Ismount src) ;; if m then Throw (OSError EBUSY) else call_unit (Move src dst)).
Proof. reflexivity. Qed.
Print Assumptions mount_point_refused.

Theorem put_reports_honestly : forall o,
  all_runs (fun t out => exists s, accepts put_step put_init t = Some s /\
              match out with
              | Done code => (code = 0 <-> p_nfail s = 0%nat) /\ (code = 0 \/ code = EX_IOERR)
              | _ => True
              end) (put_main o).
Proof. exact put_discipline_lemma. Qed.
Print Assumptions put_reports_honestly.

(* (w1) trash-put destroys nothing *)
Theorem put_destroys_nothing : forall o,
  all_runs (fun t _ => forall s, wf (wfs s) -> wfd s = None ->
     forall t1 t2 s1, t = t1 ++ t2 -> wrun s t1 s1 ->
     forall q, wfs s q <> None ->
       (forall src dst, In (Move src dst, RUnit) t -> under src q = false /\ (q = dst -> wfs s q <> Some NLink)) ->
       wfs s1 q = wfs s q) (put_main o).
Proof. exact put_destroys_nothing_lemma. Qed.
Print Assumptions put_destroys_nothing.

(* (w2) what was trashed arrives whole and stays *)
Theorem put_keeps_what_it_trashed : forall o,
  all_runs (fun t _ => forall s, wf (wfs s) -> wfd s = None ->
     forall t1 src dst t2 t3 s1 s2 s3, t = t1 ++ (Move src dst, RUnit) :: t2 ++ t3 ->
       wrun s t1 s1 -> wstep s1 (Move src dst) RUnit s2 -> wrun s2 t2 s3 ->
       (wfs s1 dst = None -> forall rest, rest = [] \/ (exists r, rest = c_slash :: r) -> wfs s2 (dst ++ rest) = wfs s1 (src ++ rest)) /\
       forall q, wfs s2 q <> None ->
         (forall src' dst', In (Move src' dst', RUnit) t2 -> under src' q = false /\ (q = dst' -> wfs s2 q <> Some NLink)) ->
         wfs s3 q = wfs s2 q) (put_main o).
Proof. exact put_keeps_what_it_trashed_lemma. Qed.
Print Assumptions put_keeps_what_it_trashed.

(* one argument, at most one move, and nothing but log lines after it: the two-state monitor FailedPut.mstep (nothing moved / moved)
   rejects a second move and every non-log operation once a move has returned normally - and rejects no run of the procedure *)
Theorem at_most_one_move_per_argument : forall path o,
  all_runs (fun t _ => accepts mstep false t <> None) (trash_single path o).
Proof. exact one_move_per_argument_lemma. Qed.
Print Assumptions at_most_one_move_per_argument.
Example a_second_move_is_rejected :
  accepts mstep false [(Move ($"/a") ($"/t/files/a"), RUnit); (Log INFO true ($"'a' trashed"), RUnit); (Move ($"/a") ($"/t/files/a_1"), RUnit)] = None.
Proof. reflexivity. Qed.

(* the premises are met by a real case (WorldExamples: a tree with a trash directory, a complete put consistent with it):
   the argument's parent directory is protected and is what it was; the file arrives under files/ with its content *)
Example destroys_nothing_premises_are_satisfiable :
  wf (wfs (mkw (wof l0) None)) /\ wfd (mkw (wof l0) None) = None /\ accepts put_step put_init e_trace <> None /\
  exists s', wrun (mkw (wof l0) None) e_trace s' /\ wfs (mkw (wof l0) None) e_u <> None /\
    (forall src dst, In (Move src dst, RUnit) e_trace -> under src e_u = false /\ (e_u = dst -> wfs (mkw (wof l0) None) e_u <> Some NLink)) /\
    wfs s' e_u = wfs (mkw (wof l0) None) e_u /\ wfs s' e_dst = wfs (mkw (wof l0) None) e_src /\ wfs s' e_src = None.
Proof.
  split; [exact a_tree|]. split; [reflexivity|]. split; [vm_compute; discriminate|].
  destruct a_consistent_put as [s' [Hr [He _]]]. exists s'. split; [exact Hr|]. split; [vm_compute; discriminate|]. split.
  - intros src dst Hin. repeat (destruct Hin as [Hin|Hin]; [try discriminate Hin|]); try contradiction.
    inversion Hin; subst. split; [vm_compute; reflexivity|intros E; vm_compute in E; discriminate E].
  - rewrite !He. vm_compute. auto.
Qed.

Example dot_spellings :
  should_skipped_by_specs ($"./") = true /\ should_skipped_by_specs ($"..//") = true /\ should_skipped_by_specs ($"d/.") = true
  /\ should_skipped_by_specs ($"d/..") = true /\ should_skipped_by_specs ($".") = true /\ should_skipped_by_specs ($"...") = false
  /\ should_skipped_by_specs ($"a/") = false.
Proof. repeat split. Qed.
Example mutation_for_missing_argument_rejected :
  accepts skip_step SStart [(Lexists ($"x"), RBool false); (Makedirs ($"/t") 448, RUnit)] = None.
Proof. reflexivity. Qed.
Example mutation_after_declined_rejected :
  accepts skip_step SStart [(Lexists ($"x"), RBool true); (Access ($"x"), RBool true); (Input [], RStr ($"n")); (Makedirs ($"/t") 448, RUnit)] = None.
Proof. reflexivity. Qed.
