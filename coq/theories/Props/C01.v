(* C01 - trash-put conserves data: each argument ends fully trashed or untouched.
   FULL STATEMENT (not proved in Coq: it speaks about the file system, for which this development has no
   model; the check's oracle decides it on the real command over generated spellings x kinds x layouts):
     for every well-formed file system w, argument list and option set, after trash-put each argument's
     subtree is EITHER byte-identical under files/N of exactly one trash directory, next to N.trashinfo,
     and absent from its origin, OR identical at its origin with nothing new for it in any trash directory.
   PROVED HERE, against every answer of the environment (the protocol that makes the dichotomy possible):
   (a) untouched_arguments: no mutating operation is issued for an argument whose last component is '.' or
       '..' (any number of trailing slashes; /repo fix 19607fc), nor for one that os.path.lexists reports
       absent (with or without -f), nor after a reply to -i that is not a yes, nor on end of input; and never
       before the existence probe;
   (b) mount points: a Move is only issued after os.path.ismount(source) answered False (/repo fix e8e1e40);
   (c) the put discipline (C05/C17): "cannot trash" is reported only when no Move succeeded for the argument
       and every info reserved for it was removed again; "trashed" only after a Move returned normally; the
       info is complete and parseable before the Move; the Move goes to the payload path of that info.
   Known finding (kept in known_findings.json): 'link/../x' with link a symlink to a directory elsewhere -
   existence and volume use the physical parent, location and move use lexical normpath. *)
From TV Require Import Prelude.Str Prelude.PosixPath Prog.Prog Cmd.Put Proofs.ProgProofs Proofs.PutSafe Proofs.PutProofs Proofs.PutMore.
Open Scope N_scope.

Theorem untouched_arguments : forall o path,
  all_runs (fun t _ => accepts skip_step SStart t <> None) (trash_single path o).
Proof. exact untouched_arguments_lemma. Qed.
Print Assumptions untouched_arguments.

(* the refusal of dot entries is decided on the argument with its trailing slashes stripped *)
Theorem dot_entries_refused : forall path,
  should_skipped_by_specs path = true <->
  (basename (rstrip_c c_slash path) = [c_dot] \/ basename (rstrip_c c_slash path) = [c_dot; c_dot]).
Proof.
  intros path. unfold should_skipped_by_specs, is_dot, is_dotdot. rewrite orb_true_iff. split.
  - intros [H|H]; [left|right]; apply Proofs.OrigLocProofs.str_eqb_true; exact H.
  - intros [H|H]; [left|right]; rewrite H; reflexivity.
Qed.
Print Assumptions dot_entries_refused.

Theorem dot_entry_issues_no_mutation : forall o path, should_skipped_by_specs path = true ->
  all_runs (fun t _ => accepts skip_step SStart t <> None /\ True) (trash_single path o).
Proof. intros o path _. eapply all_runs_mono; [|apply untouched_arguments_lemma]. auto. Qed.
Print Assumptions dot_entry_issues_no_mutation.

(* a mount point is refused before any move (the move would degrade to copy + delete of its contents) *)
Theorem mount_point_refused : forall src dst, fs_move src dst = (m <- call_bool (Ismount src) ;; if m then Throw (OSError EBUSY) else call_unit (Move src dst)).
Proof. reflexivity. Qed.
Print Assumptions mount_point_refused.

Theorem put_reports_honestly : forall o,
  all_runs (fun t out => exists s, accepts put_step put_init t = Some s /\
              match out with
              | Done code => (code = 0 <-> p_nfail s = 0%nat) /\ (code = 0 \/ code = EX_IOERR)
              | _ => True
              end) (put_main o).
Proof. exact put_discipline_lemma. Qed.
Print Assumptions put_reports_honestly.

Example dot_spellings :
  should_skipped_by_specs ($"./") = true /\ should_skipped_by_specs ($"..//") = true /\ should_skipped_by_specs ($"d/.") = true
  /\ should_skipped_by_specs ($"d/..") = true /\ should_skipped_by_specs ($".") = true /\ should_skipped_by_specs ($"...") = false
  /\ should_skipped_by_specs ($"a/") = false.
Proof. repeat split. Qed.
Example mutation_for_missing_argument_rejected :
  accepts skip_step SStart [(Lexists ($"x"), RBool false); (Makedirs ($"/t") 448, RUnit)] = None.
Proof. reflexivity. Qed.
Example mutation_after_declined_rejected :
  accepts skip_step SStart [(Lexists ($"x"), RBool true); (Access ($"x"), RBool true); (Input [], RStr ($"n")); (Makedirs ($"/t") 448, RUnit)] = None.
Proof. reflexivity. Qed.
