(* C12 - trash-rm removes exactly the entries whose original name matches the pattern.
   The matcher: Logic/Glob.v follows fnmatch.translate + re.match of CPython 3.12 quirk for quirk; here it
   is shown equal to a declarative relation and to plain equality / prefix tests on literal patterns.
   The command: which subject is matched (Rm.rm_matches), that a matching entry is removed whole and in
   the right order (C15), and only inside files/ and info/ (C11).  Proofs in Proofs/GlobProofs.v. *)
From TV Require Import Prelude.Str Prelude.PosixPath Logic.Glob Logic.GlobSpec Cmd.Rm Proofs.GlobProofs Prog.Prog Cmd.Scan Proofs.ProgProofs Proofs.RmDecision Proofs.RmLive.
Open Scope N_scope.

Theorem glob_match_iff : forall items s, glob_match items s = true <-> gmatch items s.
Proof. exact glob_match_iff_lemma. Qed.
Print Assumptions glob_match_iff.

(* a pattern without '*', '?', '[' matches exactly itself: case-sensitive, no partial match *)
Theorem literal_is_equality : forall pat s, no_meta pat -> (fnmatchcase s pat = true <-> s = pat).
Proof. exact literal_is_equality_lemma. Qed.
Print Assumptions literal_is_equality.

Theorem star_matches_everything : forall s, fnmatchcase s [c_star] = true.
Proof. exact star_matches_everything_lemma. Qed.
Print Assumptions star_matches_everything.

Theorem qm_matches_one : forall s, fnmatchcase s [c_qm] = true <-> exists c, s = [c].
Proof. exact qm_matches_one_lemma. Qed.
Print Assumptions qm_matches_one.

Theorem prefix_star : forall lit s, no_meta lit -> (fnmatchcase s (lit ++ [c_star]) = true <-> exists t, s = lit ++ t).
Proof. exact prefix_star_lemma. Qed.
Print Assumptions prefix_star.

(* the subject: the full original path iff the pattern starts with '/', else its base name *)
(* the decision, against every answer of the environment: inside one trash directory (attached volume v) a path is removed
   only if it is the info file, or the payload path of the info file, whose contents AS JUST READ carry a Path that, joined to
   v, matches the pattern; unreadable, undecodable, Path-less and non-matching entries are never touched.  rm_main runs this
   handler on every directory the scanner finds (Rm.rm_main); which directories those are is C08, that the removal is whole
   and ordered is C15, that it stays inside files/ and info/ is C11. *)
Theorem rm_removes_only_matching : forall pattern td volume,
  all_runs (fun t _ => accepts (rm_dec_step pattern volume) [] t <> None) (rm_handle pattern tt (Found td volume)).
Proof. exact rm_removes_only_matching_lemma. Qed.
Print Assumptions rm_removes_only_matching.

Example non_matching_removal_rejected :
  accepts (rm_dec_step ($"a*") [c_slash]) []
    [(ReadText ($"/t/info/b.trashinfo"), RStr ($"[Trash Info]" ++ [10] ++ $"Path=/home/u/b" ++ [10])); (Remove ($"/t/files/b"), RUnit)] = None.
Proof. vm_compute. reflexivity. Qed.
Example matching_removal_accepted :
  accepts (rm_dec_step ($"a*") [c_slash]) []
    [(ReadText ($"/t/info/x.trashinfo"), RStr ($"[Trash Info]" ++ [10] ++ $"Path=/home/u/abc" ++ [10])); (Remove ($"/t/files/x"), RUnit);
     (Remove ($"/t/info/x.trashinfo"), RUnit)] <> None.
Proof. vm_compute. discriminate. Qed.

(* ... and EVERY matching entry is removed: in every run of the handler that ends normally, each info file whose contents as read are
   approved is followed - before the next info file is read - by its payload answering "absent" or being removed with success, and
   then by the info file being removed with success (the monitor RmLive.live_step ends Idle).  A removal the file system refuses
   twice (remove, then rmtree) ends the run with that error instead. *)
Theorem rm_removes_every_matching : forall pattern td volume,
  all_runs (fun t out => forall a, out = Done a -> accepts (live_step pattern volume) Idle t = Some Idle)
           (rm_handle pattern tt (Found td volume)).
Proof. exact rm_removes_every_matching_lemma. Qed.
Print Assumptions rm_removes_every_matching.

Example skipped_matching_entry_is_noticed :
  accepts (live_step ($"a*") [c_slash]) Idle
    [(ReadText ($"/t/info/x.trashinfo"), RStr ($"[Trash Info]" ++ [10] ++ $"Path=/home/u/abc" ++ [10])); (Lexists ($"/t/files/x"), RBool true);
     (Remove ($"/t/files/x"), RUnit)] = Some (Info ($"/t/info/x.trashinfo")).
Proof. vm_compute. reflexivity. Qed.
Example whole_removal_ends_idle :
  accepts (live_step ($"a*") [c_slash]) Idle
    [(ReadText ($"/t/info/x.trashinfo"), RStr ($"[Trash Info]" ++ [10] ++ $"Path=/home/u/abc" ++ [10])); (Lexists ($"/t/files/x"), RBool true);
     (Remove ($"/t/files/x"), RErr (OSError 21)); (Rmtree ($"/t/files/x"), RUnit); (Remove ($"/t/info/x.trashinfo"), RUnit);
     (ReadText ($"/t/info/y.trashinfo"), RStr ($"[Trash Info]" ++ [10] ++ $"Path=/home/u/zzz" ++ [10]))] = Some Idle.
Proof. vm_compute. reflexivity. Qed.

Theorem rm_subject : forall c pat loc,
  rm_matches (c :: pat) loc = Some (fnmatchcase (if c =? c_slash then loc else basename loc) (c :: pat)).
Proof. reflexivity. Qed.
Print Assumptions rm_subject.

Example glob_examples :
  fnmatchcase ($"foo.txt") ($"*.txt") = true /\ fnmatchcase ($"Foo") ($"foo") = false
  /\ fnmatchcase ($"a") ($"[ab]") = true /\ fnmatchcase ($"[ab]") ($"[ab]") = false
  /\ fnmatchcase ($"a*") ($"a[*]") = true /\ fnmatchcase ($"ab") ($"a[*]") = false.
Proof. repeat split; vm_compute; reflexivity. Qed.
