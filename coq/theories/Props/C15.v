(* C15 - killing restore, empty or rm never strands a payload without info: the protocol half.
   One monitor (OrderProofs.order_step): the removal (Remove / Rmtree) of an info file
   .../info/N.trashinfo is accepted only when its payload .../files/N has been dealt with before:
   found absent (lexists answered False), removed (Remove/Rmtree returned normally), or moved out
   (Move returned normally).  strict=true: a payload whose removal FAILED does not count.
   Theorems: no run of trash-rm, trash-restore (strict) or trash-empty (lenient: it goes on to the info
   after an OSError on the payload - only a file-system error, never a kill, can cause that) is rejected.
   Since every mutation of these commands is one of these operations, killing the process between any
   two of them leaves every payload still present with its info.  What the theorem cannot exhibit: the
   intermediate states INSIDE shutil.rmtree / a cross-device shutil.move; the check kills the real
   commands before every syscall-level mutation for that. *)
From TV Require Import Prelude.Str Prog.Prog Cmd.Put Cmd.Scan Cmd.Empty Cmd.Rm Cmd.Restore
  Proofs.ProgProofs Proofs.PathProofs Proofs.OrderProofs Proofs.RestoreProofs World.World Proofs.WorldProofs Proofs.WorldPurge Proofs.WorldRestore Proofs.PurgeProofs Proofs.WorldEmptyOrder.
Open Scope N_scope.

Theorem rm_payload_before_info : forall o,
  all_runs (fun t _ => accepts (order_step true) [] t <> None) (rm_main o).
Proof. exact rm_ordered_lemma. Qed.
Print Assumptions rm_payload_before_info.

Theorem empty_payload_before_info : forall o,
  all_runs (fun t _ => accepts (order_step false) [] t <> None) (empty_main o).
Proof. exact empty_ordered_lemma. Qed.
Print Assumptions empty_payload_before_info.

Theorem restore_move_before_info : forall o,
  all_runs (fun t _ => accepts (order_step true) [] t <> None) (restore_main o).
Proof. exact restore_ordered_lemma. Qed.
Print Assumptions restore_move_before_info.

(* the payload path the monitor asks about is never itself classified as an info path *)
Theorem payload_is_not_info : forall p, is_info_path (path_of_backup_copy p) = false.
Proof. exact pobc_not_info. Qed.
Print Assumptions payload_is_not_info.

(* ---- on the tree of files (World.v), trash-rm: whenever an info file is removed, in whatever state a consistent
   execution is in at that moment, its payload does not exist (it was removed, or was found absent, and nothing
   re-creates it: a purge creates nothing).  So at no instant between two operations does a payload exist whose
   info this run has removed. ---- *)
Theorem rm_payload_is_gone_when_info_is_removed : forall o,
  all_runs (fun t _ => forall s, wok payload_gone s t) (rm_main o).
Proof. exact rm_payload_gone_lemma. Qed.
Print Assumptions rm_payload_is_gone_when_info_is_removed.

(* ---- trash-empty: the same, with the one stated exception - a payload the file system has REFUSED to remove (OSError to
   remove and to rmtree, reported as "cannot remove"): only then does trash-empty go on to the info file while the payload is
   still there, and a kill cannot produce that answer.  wokm carries the history of the run (OrderProofs.order_step false). ---- *)
Theorem empty_payload_is_gone_or_refused_when_info_is_removed : forall o, Forall clean (eo_trash_dirs o) ->
  all_runs (fun t _ => forall s, wokm [] s t) (empty_main o).
Proof. exact empty_payload_gone_lemma. Qed.
Print Assumptions empty_payload_is_gone_or_refused_when_info_is_removed.

(* ---- and trash-restore: at every Move the destination is absent (C06), and whenever the info file of an entry is removed its
   payload is no longer in the trash - it was the source of the move that has just returned ---- *)
Theorem restore_payload_is_gone_when_info_is_removed : forall o,
  all_runs (fun t _ => forall s, wok (restore_ok (ro_overwrite o)) s t) (restore_main o).
Proof. exact restore_world_lemma. Qed.
Print Assumptions restore_payload_is_gone_when_info_is_removed.

(* ---- non-vacuity: the swapped order is rejected ---- *)
Example info_first_is_rejected :
  accepts (order_step true) [] [(Remove ($"/t/info/a.trashinfo"), RUnit); (Remove ($"/t/files/a"), RUnit)] = None.
Proof. reflexivity. Qed.
Example payload_first_is_accepted :
  accepts (order_step true) [] [(Lexists ($"/t/files/a"), RBool true); (Remove ($"/t/files/a"), RUnit);
                                (Remove ($"/t/info/a.trashinfo"), RUnit)] <> None.
Proof. discriminate. Qed.
Example failed_payload_blocks_info_when_strict :
  accepts (order_step true) [] [(Lexists ($"/t/files/a"), RBool true); (Remove ($"/t/files/a"), RErr (OSError 13));
                                (Rmtree ($"/t/files/a"), RErr (OSError 13)); (Remove ($"/t/info/a.trashinfo"), RUnit)] = None.
Proof. reflexivity. Qed.
