(* C18 - trash-put acts on the named entry itself and never follows a final symlink.
   Against every answer of the environment:
   (a) every Move that trash-put issues for an argument has source normpath(argument) - lexical only: no
       realpath, no readlink of the argument itself;
   (b) normpath never ends with a slash (roots apart): "link/", "link//" become "link", so rename(2) acts on
       the link, not on the directory behind it;
   (c) existence is decided by os.path.lexists (Put.trash_single), so a dangling link "exists";
   (d) the recorded location is realpath(PARENT)/basename(normpath(argument)): only the parent is resolved.
   That the link's target is untouched and the link is recreated by restore are file-system facts decided by
   the check's oracle (lstat/readlink of the payload, snapshot of the target).  Known finding: 'link/../x'. *)
From TV Require Import Prelude.Str Prelude.PosixPath Logic.OrigLoc Prog.Prog Cmd.Put
  Proofs.ProgProofs Proofs.PutMore Proofs.NormProofs Proofs.OrigLocProofs.
Open Scope N_scope.

Theorem move_source_is_the_named_entry : forall o path,
  all_runs (fun t _ => Forall (fun p => put_op_ok o path (fst p)) t) (trash_single path o).
Proof. exact trash_single_ops_lemma. Qed.
Print Assumptions move_source_is_the_named_entry.

Theorem normpath_strips_trailing_slashes : forall p,
  normpath p = [c_slash] \/ normpath p = [c_slash; c_slash] \/ ends_with (normpath p) [c_slash] = false.
Proof. exact normpath_no_trailing_slash. Qed.
Print Assumptions normpath_strips_trailing_slashes.

Theorem only_the_parent_is_resolved : forall path parent top,
  orig_loc_result path parent top AbsolutePaths = join2 parent (basename (normpath path)).
Proof. exact orig_loc_absolute_lemma. Qed.
Print Assumptions only_the_parent_is_resolved.

Example slashes : normpath ($"link///") = $"link" /\ normpath ($"d/./link/") = $"d/link" /\ normpath ($"./link") = $"link".
Proof. repeat split. Qed.
