(* C18 - trash-put acts on the named entry itself and never follows a final symlink.
   Against every answer of the environment:
   (a) every Move that trash-put issues for an argument has source normpath(argument) - lexical only: no
       realpath, no readlink of the argument itself;
   (b) normpath never ends with a slash (roots apart): "link/", "link//" become "link", so rename(2) acts on
       the link, not on the directory behind it;
   (c) existence is decided by os.path.lexists (Put.trash_single), so a dangling link "exists";
   (d) the recorded location is realpath(PARENT)/basename(normpath(argument)): only the parent is resolved.
   (e) on the file-system model (World: a symbolic link is a leaf node, nothing is resolved through it): whatever a
       link argument points to - any file or directory that is not itself at or below a moved entry - holds after the
       run, and at every crash point, exactly what it held (what_a_link_points_to_is_untouched, an instance of C01's
       put_destroys_nothing).
   That rename(2) acts on the link and that restore recreates it are file-system facts decided by the check's oracle
   (lstat/readlink of the payload, snapshot of the target).  Known finding: 'link/../x'. *)
From TV Require Import Prelude.Str Prelude.PosixPath Logic.OrigLoc Prog.Prog Cmd.Put
  Proofs.ProgProofs Proofs.PutMore Proofs.NormProofs Proofs.OrigLocProofs World.World Proofs.WorldPut3.
Open Scope N_scope.

Theorem move_source_is_the_named_entry : forall o path,
  all_runs (fun t _ => Forall (fun p => put_op_ok o path (fst p)) t) (trash_single path o).
Proof. exact trash_single_ops_lemma. Qed.
Print Assumptions move_source_is_the_named_entry.

Theorem normpath_strips_trailing_slashes : forall p,
  normpath p = [c_slash] \/ normpath p = [c_slash; c_slash] \/ ends_with (normpath p) [c_slash] = false.
Proof. exact normpath_no_trailing_slash. Qed.
Print Assumptions normpath_strips_trailing_slashes.

Theorem only_the_parent_is_resolved : forall path parent top,
  orig_loc_result path parent top AbsolutePaths = join2 parent (basename (normpath path)).
Proof. exact orig_loc_absolute_lemma. Qed.
Print Assumptions only_the_parent_is_resolved.

Theorem what_a_link_points_to_is_untouched : forall o,
  all_runs (fun t _ => forall s, wf (wfs s) -> wfd s = None ->
     forall t1 t2 s1, t = t1 ++ t2 -> wrun s t1 s1 ->
     forall target, wfs s target <> None -> wfs s target <> Some NLink ->
       (forall src dst, In (Move src dst, RUnit) t -> under src target = false) ->
       wfs s1 target = wfs s target) (put_main o).
Proof.
  intros o. generalize (put_destroys_nothing_lemma o). apply all_runs_mono.
  intros t out H s Hwf Hfd t1 t2 s1 Et Hr target Hex Hnl Hmv. apply (H s Hwf Hfd t1 t2 s1 Et Hr target Hex).
  intros src dst Hin. split; [apply (Hmv src dst Hin)|intros _; exact Hnl].
Qed.
Print Assumptions what_a_link_points_to_is_untouched.

Example slashes : normpath ($"link///") = $"link" /\ normpath ($"d/./link/") = $"d/link" /\ normpath ($"./link") = $"link".
Proof. repeat split. Qed.
