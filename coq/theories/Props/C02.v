(* C02 - put then restore returns the exact entry to its exact original path.
   FULL STATEMENT (not proved in Coq: identity of content, tree, link target, permissions and mtime is a fact
   about the file system; the check's oracle decides it on the real commands over generated names, kinds,
   layouts, sort modes and histories): restore (put w) = w on the entry, and only the pair leaves the trash.
   PROVED HERE, for ALL names (every string that can be a path - invalid UTF-8 never reaches the writer, C16):
   (a) the location trash-restore computes from the info trash-put wrote IS the canonical original location
       realpath(parent)/basename: in the home trash (absolute Path) and in a $topdir trash directory (Path
       relative to the top directory, joined back with the volume restore attaches to that directory);
   (b) what restoring one entry does, in this order: probe the destination, create the missing parent
       directories, move the payload to the location, remove the info (C06, C15 give the all-answers versions);
   (c) the entry is offered from its own directory, every ancestor, and its own path (C13 scope), under
       every --sort mode (C13 permutation; --sort none: /repo fix 78f0f84). *)
From Coq Require Import Permutation.
From TV Require Import Prelude.Str Prelude.PosixPath Prelude.Utf8 Codec.Quote Codec.DateFmt Codec.TrashInfo Logic.OrigLoc Logic.Scope
  Prog.Prog Cmd.Put Cmd.Restore Proofs.TrashInfoProofs Proofs.OrigLocProofs Proofs.LogicProofs Proofs.SortProofs World.World Proofs.WorldProofs.
Open Scope N_scope.

(* home trash: the Path is absolute and restore gets back realpath(parent)/basename whatever volume it attaches *)
Theorem roundtrip_location_home : forall path parent top volume d b,
  isabs parent = true ->
  format_trashinfo (orig_loc_result path parent top AbsolutePaths) d = Some b ->
  exists txt, read_text b = Some txt /\
              parse_original_location txt volume = Some (join2 parent (basename (normpath path))).
Proof.
  intros path parent top volume d b Habs Hf. rewrite orig_loc_absolute_lemma in Hf.
  destruct (parse_path_format_lemma _ _ _ Hf) as [txt [Hr Hp]]. exists txt. split; [exact Hr|].
  unfold parse_original_location. rewrite Hp. f_equal.
  unfold join2 at 1. assert (Hs : starts_with (join2 parent (basename (normpath path))) [c_slash] = true).
  { unfold join2. destruct (starts_with (basename (normpath path)) [c_slash]) eqn:E; [exact E|].
    unfold isabs in Habs. destruct parent as [|c p]; [discriminate|]. destruct (ends_with (c :: p) [c_slash]); exact Habs. }
  rewrite Hs. reflexivity.
Qed.
Print Assumptions roundtrip_location_home.

(* $topdir trash directories: the Path is relative to the top directory; joined with the top directory (the volume
   restore attaches to $topdir/.Trash/$uid and $topdir/.Trash-$uid) it is the canonical location again *)
Theorem roundtrip_location_topdir : forall path top rest base d b,
  basename (normpath path) = base -> starts_with base [c_slash] = false -> top_ok top ->
  rest <> [] -> starts_with rest [c_slash] = false ->
  format_trashinfo (orig_loc_result path (top_prefix top ++ rest) top RelativePaths) d = Some b ->
  exists txt, read_text b = Some txt /\
              parse_original_location txt top = Some (join2 (top_prefix top ++ rest) base).
Proof.
  intros path top rest base d b Hb Hs Ht Hr1 Hr2 Hf.
  destruct (orig_loc_relative_lemma path top rest base Hb Hs Ht) as [_ H]. destruct (H Hr1 Hr2) as [Hloc [_ Hjoin]].
  rewrite Hloc in Hf. destruct (parse_path_format_lemma _ _ _ Hf) as [txt [Hr Hp]]. exists txt. split; [exact Hr|].
  unfold parse_original_location. rewrite Hp. rewrite Hjoin. reflexivity.
Qed.
Print Assumptions roundtrip_location_topdir.

(* restoring one entry whose destination is free: the operations, in order *)
Theorem restore_steps : forall t,
  fst (run_oracle (restore_trashed_file t false) [RBool false; RBool false; RUnit; RUnit; RBool true; RUnit])
  = [(Lexists (tf_location t), RBool false);
     (Isdir (dirname (tf_location t)), RBool false); (Makedirs (dirname (tf_location t)) 511, RUnit);
     (Move (tf_payload t) (tf_location t), RUnit);
     (Lexists (tf_info t), RBool true); (Remove (tf_info t), RUnit)].
Proof. reflexivity. Qed.
Print Assumptions restore_steps.

(* offered from its own directory, any ancestor, or the path itself *)
Theorem offered_from_ancestors : forall dir name,
  matches_path (dir ++ [c_slash] ++ name) dir = true /\ matches_path (dir ++ [c_slash] ++ name) (dir ++ [c_slash] ++ name) = true
  /\ matches_path (dir ++ [c_slash] ++ name) [c_slash] = true.
Proof.
  intros dir name. split; [|split]; apply scope_iff_lemma.
  - right. right. exists name. reflexivity.
  - right. left. reflexivity.
  - left. reflexivity.
Qed.
Print Assumptions offered_from_ancestors.

Theorem listed_under_every_sort : forall m l, Permutation l (sort_files m l).
Proof. intros m l. destruct m; simpl; [apply sort_stable_perm|apply sort_stable_perm|apply Permutation_refl]. Qed.
Print Assumptions listed_under_every_sort.

(* ---- on the tree of files (World.v): trash-put moves the entry to a payload path at and below which nothing exists (C04:
   put_never_moves_onto_something), trash-restore moves it from there to its original location, which is where it came from
   (roundtrip_location_home, roundtrip_location_topdir) and which is absent at that moment (C06: restore_destination_is_absent).  Both moves are the
   relocation World.mv_tree, and moving a tree to a free place and back again leaves EVERY path of the world as it was: ---- *)
Theorem there_and_back_again : forall w src dst,
  (forall q, under dst q = true -> w q = None) ->
  forall q, mv_tree (mv_tree w src dst) dst src q = w q.
Proof. exact mv_tree_back. Qed.
Print Assumptions there_and_back_again.

Example roundtrip_example :
  exists b, format_trashinfo (orig_loc_result ($"d/a b%") ($"/vol/x/d") ($"/vol") RelativePaths) (mkdt 2024 1 2 3 4 5 0) = Some b
  /\ exists txt, read_text b = Some txt /\ parse_original_location txt ($"/vol") = Some ($"/vol/x/d/a b%").
Proof. eexists. split; [vm_compute; reflexivity|]. eexists. split; vm_compute; reflexivity. Qed.
