(* C16 - trash-put's exit status tells the truth.
   From the put-discipline theorem (PutProofs): in EVERY run that ends normally the exit status is 0 exactly
   when no "cannot trash ..." diagnostic was emitted, and 74 otherwise; a "cannot trash" diagnostic is emitted
   only between arguments (never after a successful move for that argument), names the argument
   (Put.trash_single / try_candidates build the text from `path`), and is logged at WARNING level, which
   every verbosity prints.  That each argument is processed exactly once, in order, whatever the others did:
   Put.trash_each is a fold; the per-argument invariant Inv is re-established after every argument
   (PutProofs.wp_trash_each).  put_arguments_are_independent: the runs of trash-put on a list of arguments are exactly
   the concatenations of runs of the single-argument procedure Put.trash_single, one per argument, in order, each with
   the same options - nothing but the list of failed paths is carried from one argument to the next (both directions:
   Independence.trash_each_runs), and the exit status is 0 exactly when every one of them reported success.
   Independence of OUTCOMES on the file system (an argument's result equals its result when run alone - the answers of
   the file system may depend on what earlier arguments did) is decided by the check's oracle. *)
From TV Require Import Prelude.Str Logic.OrigLoc Prog.Prog Cmd.Put Proofs.ProgProofs Proofs.PutSafe Proofs.PutProofs Proofs.Independence Proofs.FailedPut Proofs.Interrupted.
From Coq Require Import List.
Import ListNotations.
Open Scope N_scope.

Theorem exit_status_iff_no_failure_reported : forall o,
  all_runs (fun t out => exists s, accepts put_step put_init t = Some s /\
              match out with
              | Done code => (code = 0 <-> p_nfail s = 0%nat) /\ (code = 0 \/ code = EX_IOERR)
              | _ => True
              end) (put_main o).
Proof. exact put_discipline_lemma. Qed.
Print Assumptions exit_status_iff_no_failure_reported.

Theorem put_arguments_are_independent : forall o,
  all_runs (fun t out => exists failed_or_exn : outcome (list str),
      each_alone o (po_paths o) t failed_or_exn /\
      match out, failed_or_exn with
      | Done code, Done failed => (code = 0 <-> failed = []) /\ (code = 0 \/ code = EX_IOERR)
      | Uncaught e, Uncaught e' => e = e'
      | _, _ => False
      end) (put_main o).
Proof. exact put_arguments_are_independent_lemma. Qed.
Print Assumptions put_arguments_are_independent.

(* what "success" of one argument means (and by the decomposition above, of every argument of a run that exits 0): a move returned
   normally for it, or it was excused - it does not exist and -f was given, or the user was asked about it.  With C17's
   failed_argument_was_not_moved this is the truth of the exit status in both directions, argument by argument. *)
Theorem successful_argument_was_moved_or_excused : forall path o,
  all_runs (fun t out => out = Done true ->
      (exists src dst, In (Move src dst, RUnit) t) \/
      (po_mode o = ModeForce /\ exists q, In (Lexists q, RBool false) t) \/
      (po_mode o = ModeInteractive /\ exists p r, In (Input p, r) t)) (trash_single path o).
Proof. exact successful_argument_was_moved_or_excused_lemma. Qed.
Print Assumptions successful_argument_was_moved_or_excused.

(* and conversely: any sequence of single-argument runs is a run of the list *)
Theorem single_runs_compose : forall o ps t out, each_alone o ps t out -> run_of (trash_each ps o) t out.
Proof. intros o ps t out. apply trash_each_runs. Qed.
Print Assumptions single_runs_compose.

(* p_nfail counts exactly the WARNING lines that start with "cannot trash " *)
Theorem nfail_counts_reports : forall s t r s',
  put_step s (Log WARNING true t) r = Some s' ->
  p_nfail s' = (if is_cannot_trash t then S (p_nfail s) else p_nfail s).
Proof.
  intros s t r s'. cbn [put_step]. destruct (is_cannot_trash t).
  - destruct (negb (p_moved s) && match p_res s with None => true | Some _ => p_refused s end); [|discriminate].
    intros [= <-]. reflexivity.
  - intros [= <-]. reflexivity.
Qed.
Print Assumptions nfail_counts_reports.

(* ^C at a prompt (Interrupted.v): the question of -i is the only place where trash-put asks anything, and the handler around it
   catches end of input only.  In every run in which a prompt is answered by KeyboardInterrupt that answer is the LAST operation of the
   run and the run ends with that exception: no exit status is computed for the arguments still pending - in particular not 0. *)
Theorem interrupted_prompt_ends_the_run : forall o t out, run_of (put_main o) t out ->
  forall q, In (Input q, RErr KeyboardInterrupt) t ->
  out = Uncaught KeyboardInterrupt /\ exists t0, t = t0 ++ [(Input q, RErr KeyboardInterrupt)].
Proof. exact interrupted_prompt_ends_the_run_lemma. Qed.
Print Assumptions interrupted_prompt_ends_the_run.

Example an_interrupted_run :
  let r := run_oracle (put_main (mkput [$"/x"; $"/y"] None ModeInteractive None false 0 [] 0 5))
                      [RBool true; RBool true; RBool true; RErr KeyboardInterrupt] in
  snd r = Uncaught KeyboardInterrupt /\ exists q, last (fst r) (Now, RUnit) = (Input q, RErr KeyboardInterrupt).
Proof. cbv zeta. split; [vm_compute; reflexivity|]. eexists. vm_compute. reflexivity. Qed.

(* a name that is not valid UTF-8 is a per-argument failure, not a crash (/repo fix 92b67c4):
   make_trashinfo_data converts UnicodeEncodeError into the failure reason *)
Example unencodable_name_is_a_failure_reason :
  snd (run_oracle (make_trashinfo_data [97; 56448] (mkcand ($"/t") ($"/") AbsolutePaths NoCheck GateSameVolume))
                  [RStr ($"/home/u"); RDate (Codec.DateFmt.mkdt 2024 1 1 0 0 0 0)])
  = Done (inr (RCannotCreateContent UnicodeEncodeError)).
Proof. vm_compute. reflexivity. Qed.

Example report_after_move_rejected :
  accepts put_step (mkpst None true false 0) [(Log WARNING true ($"cannot trash regular file 'a'"), RUnit)] = None.
Proof. reflexivity. Qed.
