(* C04 - a trashed entry is never overwritten: names stay unique, also under concurrency.
   Schedule-universal: for EVERY number of processes, EVERY interleaving of their atomic file-system steps
   (list of (pid, this-operation-fails) pairs of any length), every suffix policy (`cand` is an arbitrary
   function, so "", _1.._99 and the random tail are covered), every mix of pre-existing infos and payloads.
   The model (Conc/Conc.v) lets a successful rename OVERWRITE the destination unconditionally, as rename(2)
   does - nothing in the model protects a payload except the protocol itself.
   `vis_old n = true \/ infos s0 n <> None`: a pre-existing payload is protected when os.path.exists can
   see it or when it has an info file.  The one unprotected pre-state the proof forced into the open: a payload
   WITHOUT info that is a dangling symlink (invisible to exists) is replaced by the next entry of that name -
   a payload without info is not a trashed entry (C05 says so itself); recorded as an observation.
   Kinds (file vs directory vs symlink) do not matter: the destination is shown absent (or an invisible orphan)
   when the rename happens, so shutil.move never "moves inside" an existing directory.
   What the theorem cannot exhibit: real O_EXCL arbitration by the kernel between processes - the check runs
   real trash-put processes against each other under a lock-step scheduler and free-running. *)
From Coq Require Import List Arith Bool.
From TV Require Import Conc.Conc Proofs.ConcProofs Prelude.Str Prelude.PosixPath Prog.Prog Cmd.Put World.World Proofs.WorldProofs Proofs.WorldPut2.
Import ListNotations.

Theorem concurrent_puts_never_overwrite :
  forall (cand : nat -> nat -> nat) (vis_old vis_new : nat -> bool) s0 sched, init_ok s0 ->
  let s := run cand vis_old vis_new s0 sched in
     (forall n x, files s0 n = Some (Old x) -> (infos s0 n <> None \/ vis_old n = true) -> files s n = Some (Old x))
  /\ (forall n, infos s0 n <> None -> infos s n = infos s0 n)
  /\ (forall p q i j, p <> q -> procs s p = DoneOk i -> procs s q = DoneOk j -> cand p i <> cand q j)
  /\ (forall p i, procs s p = DoneOk i -> files s (cand p i) = Some (New p) /\ infos s (cand p i) = Some (Some p)).
Proof. exact concurrent_puts_never_overwrite. Qed.
Print Assumptions concurrent_puts_never_overwrite.

(* mkdir -p tolerant of concurrent creation: makedirs failing (someone else created the directory in between)
   is a success as soon as the directory is there - whatever errno makedirs reported *)
Theorem mkdir_p_tolerates_concurrent_creation : forall p m n,
  snd (run_oracle (mkdir_p p m) [RErr (OSError n); RBool true]) = Done tt.
Proof. reflexivity. Qed.
Print Assumptions mkdir_p_tolerates_concurrent_creation.

(* the atomic steps of the implementation ARE the model's: probe the payload name, then create the info
   exclusively - in that order, for every index (Put.try_persist) *)
Theorem persist_probes_then_creates : forall d f,
  let path := join2 (td_info_dir d) (td_basename d ++ s_trashinfo) in
  fst (run_oracle (try_persist (S f) d 0 false) [RBool false; RErr (OSError 13)])
  = [(Exists (path_of_backup_copy path), RBool false); (OpenExcl path, RErr (OSError 13))].
Proof. reflexivity. Qed.
Print Assumptions persist_probes_then_creates.

(* ---- non-vacuity: two processes, same name, the interleaving where both probe before either creates ---- *)
(* ---- one process, on the tree of files (World.v): in every run of trash-put consistent with a file system s, at the moment
   of every Move the destination is absent, or is a symbolic link (a payload without .trashinfo that os.path.exists cannot
   see because it dangles - the stated exception).  The name search probes the payload name, creates the info exclusively,
   and nothing the run does in between touches the payload path; so no file, directory or trashed entry is ever replaced,
   and by World.effect the move onto an absent destination relocates the entry unchanged. *)
Theorem put_never_moves_onto_something : forall o,
  all_runs (fun t _ => forall s, wok free_dst s t) (put_main o).
Proof. exact put_never_clobbers_lemma. Qed.
Print Assumptions put_never_moves_onto_something.

Definition ex_cand (p i : nat) : nat := i.            (* both want name 0, then 1, ... *)
Definition ex_s0 : sh := {| infos := fun _ => None; files := fun _ => None; procs := fun _ => Probe 0 |}.
Example init_ok_ex : init_ok ex_s0.
Proof. repeat split; intros; discriminate. Qed.
Example race_ends_with_distinct_names :
  let s := run ex_cand (fun _ => true) (fun _ => true) ex_s0
               [(1, false); (2, false); (1, false); (2, false); (1, false); (2, false); (2, false); (2, false)]%nat in
  procs s 1%nat = DoneOk 0 /\ procs s 2%nat = DoneOk 1.
Proof. vm_compute. split; reflexivity. Qed.
