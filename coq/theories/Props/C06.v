(* C06 - trash-restore never clobbers an existing destination unless --overwrite is given.
   Monitor (RestoreProofs.refuse_step): without --overwrite a Move onto dst is accepted only when the
   most recent os.path.lexists(dst) answered False (lexists: a dangling symlink counts as existing -
   /repo fix 4edc383).  Theorem: no run of trash-restore is rejected - for every trash content, reply,
   multi-index selection and every answer of the file system.  With the C13 theorem (a refused entry
   ends the run: restore_selected stops at the first refusal) and C15 (info removed only after the move)
   this is the protocol half; what shutil.move does with the destination it is given
   (known findings: --overwrite of a directory payload over a file; onto a symlink to a directory)
   is library behaviour exercised on the real command. *)
From TV Require Import Prelude.Str Prog.Prog Cmd.Restore Proofs.ProgProofs Proofs.RestoreProofs Prelude.PosixPath World.World Proofs.WorldProofs Proofs.WorldRestore Proofs.WorldRestore2.
Open Scope N_scope.

Theorem restore_moves_only_onto_absent : forall o,
  all_runs (fun t _ => accepts (refuse_step (ro_overwrite o)) [] t <> None) (restore_main o).
Proof. exact restore_refuses_lemma. Qed.
Print Assumptions restore_moves_only_onto_absent.

(* ---- on the tree of files (World.v): in every run of trash-restore that is consistent with a file system s, every
   Move issued without --overwrite finds its destination ABSENT in the state it is issued in (wok quantifies over
   every intermediate state of every consistent execution).  The alternative the model leaves open is a destination
   d with under d (dirname d): d = "" or d made of slashes only, which lexists never reports absent on a real
   system.  By World.effect a move onto an absent destination is a pure relocation (mv_tree): nothing that existed
   outside the payload is replaced, removed or changed. *)
Theorem restore_destination_is_absent : forall o,
  all_runs (fun t _ => forall s, wok (absent_dst (ro_overwrite o)) s t) (restore_main o).
Proof. exact restore_dst_absent_lemma. Qed.
Print Assumptions restore_destination_is_absent.

Example ordinary_destinations_are_not_degenerate :
  under ($"/home/u/a") (dirname ($"/home/u/a")) = false /\ under ($"a") (dirname ($"a")) = false /\ under ($"/") (dirname ($"/")) = true.
Proof. repeat split. Qed.

Example move_onto_existing_rejected :
  accepts (refuse_step false) [] [(Lexists ($"/home/u/a"), RBool true); (Move ($"/t/files/a") ($"/home/u/a"), RUnit)] = None.
Proof. reflexivity. Qed.
Example move_unprobed_rejected :
  accepts (refuse_step false) [] [(Move ($"/t/files/a") ($"/home/u/a"), RUnit)] = None.
Proof. reflexivity. Qed.
Example move_onto_absent_accepted :
  accepts (refuse_step false) [] [(Lexists ($"/home/u/a"), RBool false); (Move ($"/t/files/a") ($"/home/u/a"), RUnit)] <> None.
Proof. discriminate. Qed.

(* trash-restore destroys nothing: whatever exists and is out of the way of every operation of the run - not at or below a payload
   that is moved out of the trash, not the destination of a move, not at or below a removed path (the info files of the restored
   entries) - holds at every prefix of the run what it held before; with and without --overwrite.  (trash-restore writes into no
   file at all: restore_writes_nothing.) *)
Theorem restore_writes_nothing : forall o,
  all_runs (fun t _ => Forall (fun p => no_writes (fst p)) t) (restore_main o).
Proof. exact restore_writes_nothing_lemma. Qed.
Print Assumptions restore_writes_nothing.

Theorem restore_destroys_nothing : forall o,
  all_runs (fun t _ => forall s t1 t2 s1, t = t1 ++ t2 -> wrun s t1 s1 ->
     forall q, wfs s q <> None -> Forall (fun p => clear_of q (fst p)) t -> wfs s1 q = wfs s q) (restore_main o).
Proof. exact restore_destroys_nothing_lemma. Qed.
Print Assumptions restore_destroys_nothing.
