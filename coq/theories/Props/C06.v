(* C06 - trash-restore never clobbers an existing destination unless --overwrite is given.
   Monitor (RestoreProofs.refuse_step): without --overwrite a Move onto dst is accepted only when the
   most recent os.path.lexists(dst) answered False (lexists: a dangling symlink counts as existing -
   /repo fix 4edc383).  Theorem: no run of trash-restore is rejected - for every trash content, reply,
   multi-index selection and every answer of the file system.  With the C13 theorem (a refused entry
   ends the run: restore_selected stops at the first refusal) and C15 (info removed only after the move)
   this is the protocol half; what shutil.move does with the destination it is given
   (known findings: --overwrite of a directory payload over a file; onto a symlink to a directory)
   is library behaviour exercised on the real command. *)
From TV Require Import Prelude.Str Prog.Prog Cmd.Restore Proofs.ProgProofs Proofs.RestoreProofs.
Open Scope N_scope.

Theorem restore_moves_only_onto_absent : forall o,
  all_runs (fun t _ => accepts (refuse_step (ro_overwrite o)) [] t <> None) (restore_main o).
Proof. exact restore_refuses_lemma. Qed.
Print Assumptions restore_moves_only_onto_absent.

Example move_onto_existing_rejected :
  accepts (refuse_step false) [] [(Lexists ($"/home/u/a"), RBool true); (Move ($"/t/files/a") ($"/home/u/a"), RUnit)] = None.
Proof. reflexivity. Qed.
Example move_unprobed_rejected :
  accepts (refuse_step false) [] [(Move ($"/t/files/a") ($"/home/u/a"), RUnit)] = None.
Proof. reflexivity. Qed.
Example move_onto_absent_accepted :
  accepts (refuse_step false) [] [(Lexists ($"/home/u/a"), RBool false); (Move ($"/t/files/a") ($"/home/u/a"), RUnit)] <> None.
Proof. discriminate. Qed.
