(* C05 - killing trash-put at any instant loses nothing and leaves no orphan payload: the protocol half.
   The put-discipline monitor (PutProofs.put_step) accepts a Move onto dst only when
     - an info file p was created exclusively (OpenExcl p returned normally),
     - its whole content was written in one write that returned normally, and that content is text from
       which the shared reader gets a Path back (PutSafe.parseable - by C03 it is the exact location),
     - it was closed normally, and no removal of p happened since,
     - dst is exactly the payload path of THAT info (path_of_backup_copy p).
   Theorem: no run of trash-put - any arguments, options, layout, any answer or error of the file system
   at any operation - is ever rejected.  Hence at every point between two operations a payload that has
   arrived (Move returned) has its complete info file, and before the Move the entry is still at its
   origin.  What the theorem cannot exhibit: the states INSIDE one shutil.move when it degrades to
   copy+delete (home fallback across volumes) - the check kills the real command before every
   syscall-level mutation for that.  Proofs in Proofs/PutProofs.v. *)
From TV Require Import Prelude.Str Codec.TrashInfo Prog.Prog Cmd.Put Proofs.ProgProofs Proofs.PutSafe Proofs.PutProofs
  Proofs.TrashInfoProofs World.World Proofs.WorldProofs Proofs.WorldPut Proofs.PathProofs Proofs.WorldExamples.
Open Scope N_scope.

Theorem put_info_before_payload : forall o,
  all_runs (fun t out => exists s, accepts put_step put_init t = Some s /\
              match out with
              | Done code => (code = 0 <-> p_nfail s = 0%nat) /\ (code = 0 \/ code = EX_IOERR)
              | _ => True
              end) (put_main o).
Proof. exact put_discipline_lemma. Qed.
Print Assumptions put_info_before_payload.

(* the content the writer produces is always parseable (and by C03 reads back as the exact location) *)
Theorem written_content_parseable : forall loc d b, format_trashinfo loc d = Some b -> parseable b = true.
Proof.
  intros loc d b H. unfold parseable. destruct (parse_path_format_lemma _ _ _ H) as [txt [Hr Hp]]. rewrite Hr, Hp. reflexivity.
Qed.
Print Assumptions written_content_parseable.

(* ---- the same on the tree of files (World.v): for every run of trash-put, every tree-shaped file system s the run is
   consistent with (every answer one that s, as changed by the previous operations, could have given; a failing
   operation is an answer like any other), provided no argument contains an info file the run creates (safe_srcs):
   (1) whenever a payload is moved into a trash directory, the .trashinfo it belongs to exists at that moment as a
       regular file with complete, parseable content - in every intermediate state (wok);
   (2) at EVERY prefix t1 of the run - every point where the process can be killed, at library-call granularity -
       every payload moved so far still has that complete .trashinfo: trash-put never removes, rewrites or moves
       away the info of an entry it has trashed. *)
Theorem put_payload_always_has_info : forall o,
  all_runs (fun t _ => forall s, wf (wfs s) -> safe_srcs t [] ->
      wok moved_has_info s t /\
      forall t1 t2 s1, t = t1 ++ t2 -> wrun s t1 s1 ->
        forall src dst, In (Move src dst, RUnit) t1 ->
          exists p, dst = path_of_backup_copy p /\ is_info_path p = true /\ complete s1 p) (put_main o).
Proof. exact put_world_lemma. Qed.
Print Assumptions put_payload_always_has_info.

(* ---- non-vacuity: what the monitor rejects ---- *)
Definition ex_info := Eval compute in $"/t/info/a.trashinfo".
Definition ex_content := Eval compute in $"[Trash Info]" ++ [10] ++ $"Path=/home/u/a" ++ [10] ++ $"DeletionDate=2024-01-01T00:00:00" ++ [10].
Example move_without_info_rejected : accepts put_step put_init [(Move ($"/home/u/a") ($"/t/files/a"), RUnit)] = None.
Proof. reflexivity. Qed.
Example move_before_close_rejected :
  accepts put_step put_init [(OpenExcl ex_info, RUnit); (WriteFd ex_content, RUnit); (Move ($"/home/u/a") ($"/t/files/a"), RUnit)] = None.
Proof. vm_compute. reflexivity. Qed.
Example empty_content_rejected : accepts put_step put_init [(OpenExcl ex_info, RUnit); (WriteFd [], RUnit)] = None.
Proof. vm_compute. reflexivity. Qed.
Example move_to_other_name_rejected :
  accepts put_step put_init [(OpenExcl ex_info, RUnit); (WriteFd ex_content, RUnit); (CloseFd, RUnit);
                             (Move ($"/home/u/a") ($"/t/files/b"), RUnit)] = None.
Proof. vm_compute. reflexivity. Qed.
Example proper_order_accepted :
  accepts put_step put_init [(OpenExcl ex_info, RUnit); (WriteFd ex_content, RUnit); (CloseFd, RUnit);
                             (Move ($"/home/u/a") ($"/t/files/a"), RUnit)] <> None.
Proof. vm_compute. discriminate. Qed.

(* ---- the file-system model, run (World.wapply): a complete put in a small world ---- *)
Definition ex_w0 : world := add_dirs (fun _ => None) [$"/t"; $"/t/info"; $"/t/files"; $"/home"; $"/home/u"].
Definition ex_s0 : wstate := mkw (upd ex_w0 ($"/home/u/a") (Some (NFile [104; 105]))) None.
Example put_in_the_model :
  match wapply_all ex_s0 [(OpenExcl ex_info, RUnit); (WriteFd ex_content, RUnit); (CloseFd, RUnit);
                          (Move ($"/home/u/a") ($"/t/files/a"), RUnit)] with
  | Some s => (wfs s ex_info, wfs s ($"/t/files/a"), wfs s ($"/home/u/a"))
  | None => (None, None, None)
  end = (Some (NFile ex_content), Some (NFile [104; 105]), None).
Proof. vm_compute. reflexivity. Qed.
(* a move onto something that exists is outside the deterministic fragment; a second exclusive create contradicts the model *)
Example second_create_contradicts_the_model :
  wapply_all ex_s0 [(OpenExcl ex_info, RUnit); (OpenExcl ex_info, RUnit)] = None.
Proof. vm_compute. reflexivity. Qed.

(* ---- the premises of put_payload_always_has_info are met by a real case: a tree-shaped file system with a trash directory, and a
   complete put (probe, exclusive create, write, close, move) that is consistent with it and accepted by the discipline ---- *)
Example world_premises_are_satisfiable :
  wf (wfs (mkw (wof l0) None)) /\ safe_srcs e_trace [] /\ accepts put_step put_init e_trace <> None /\
  exists s', wrun (mkw (wof l0) None) e_trace s' /\ In (Move e_src e_dst, RUnit) e_trace /\ complete s' e_info.
Proof.
  split; [exact a_tree|]. split; [|split].
  - intros src dst r Hin p Hp. simpl in Hp. destruct Hp as [Hp|[]]. subst p.
    repeat (destruct Hin as [Hin|Hin]; [try discriminate Hin|]); try contradiction.
    inversion Hin; subst. vm_compute. reflexivity.
  - vm_compute. discriminate.
  - destruct a_consistent_put as [s' [Hr [He _]]]. exists s'. split; [exact Hr|]. split; [right; right; right; right; left; reflexivity|].
    exists e_content. split; [rewrite He; vm_compute; reflexivity|vm_compute; reflexivity].
Qed.
