(* C10 - trash-empty DAYS purges exactly the entries trashed more than DAYS days ago.
   The threshold rule is arithmetic over ALL dates: Logic/Calendar.v follows CPython's datetime
   (proleptic Gregorian ordinals, lexicographic comparison, now - timedelta(days)).
   Which date an entry has: the FIRST DeletionDate line (Codec/TrashInfo.date_of; C03 shows the writer's
   date reads back).  That a selected entry is removed whole and a kept one untouched: C15 ordering,
   C11 containment, and Empty.empty_one_info (nothing is issued for an entry that is not ok_to_delete).
   Both directions of "exactly": only approved paths are removed (empty_removes_only_approved, and on the world
   empty_days_changes_only_approved), and every entry that must go does go (empty_purges_every_old_entry: the listing of info/
   is worked through in order, every approved entry's payload and info file are absent, removed with success, or reported as
   not removable, before the next one is looked at - Proofs/EmptyLive.v).
   Proofs in Proofs/CalendarProofs.v, Proofs/DecisionProofs.v, Proofs/EmptyLive.v. *)
From TV Require Import Prelude.Str Codec.DateFmt Codec.TrashInfo Logic.Calendar Prog.Prog Cmd.Empty
  Proofs.ProgProofs Proofs.PathProofs Proofs.CalendarProofs Proofs.DecisionProofs World.World Proofs.WorldProofs Proofs.WorldPurge Proofs.EmptyLive
  Prelude.PosixPath Cmd.Put Cmd.Scan.
Open Scope Z_scope.

(* the comparison datetime < datetime is the order of instants *)
Theorem dt_lt_iff : forall a b, dt_valid a = true -> dt_valid b = true -> (dt_lt a b = true <-> micros a < micros b).
Proof. exact dt_lt_iff_lemma. Qed.
Print Assumptions dt_lt_iff.

(* older_than: strictly earlier than now - DAYS days (86 400 000 000 microseconds each) *)
Theorem older_than_spec : forall days now del r,
  older_than days now del = Some r -> (r = true <-> micros del < micros now - days * 86400000000).
Proof. exact older_than_spec_lemma. Qed.
Print Assumptions older_than_spec.

Theorem older_than_defined : forall days now del,
  0 <= days <= 999999999 -> min_micros <= micros now - days * us_per_day <= max_micros ->
  exists r, older_than days now del = Some r.
Proof. exact older_than_defined_lemma. Qed.
Print Assumptions older_than_defined.

(* THE DECISION, against every answer of the environment (DecisionProofs.decision_step): with DAYS given,
   a Remove/Rmtree of path q is accepted only if q was approved: q is the info file p or the payload of p
   where the text just read from p has a first DeletionDate d with older_than DAYS now d = true (now =
   TRASH_DATE when it parses, else the clock answer for that entry); or q is the payload of an info file
   just probed absent (an orphan: those are purged with and without DAYS).  Entries whose date is missing,
   unparseable, not older, or whose info cannot be read are never approved: they are kept.
   Without DAYS everything found is approved.  No run is rejected.  (Liveness - every old entry IS
   removed - is not a safety property; the check's oracle decides it on the real command.) *)
Theorem empty_removes_only_approved : forall o, Forall clean (eo_trash_dirs o) ->
  all_runs (fun t _ => accepts (decision_step (eo_days o) (env_now (eo_environ o))) (mkdst None []) t <> None) (empty_main o).
Proof. exact empty_only_approved_lemma. Qed.
Print Assumptions empty_removes_only_approved.

(* ---- on the tree of files (World.v): with a DAYS argument, in every file system the run is consistent with, every path that
   is not at or below a path the monitor approved - the info file or the payload of an entry whose contents as just read
   were older than the threshold, or a payload whose info file was found missing - is after the run what it was before. *)
Theorem empty_days_changes_only_approved : forall o dd, eo_days o = Some dd -> Forall clean (eo_trash_dirs o) ->
  all_runs (fun t _ => forall st, accepts (decision_step (eo_days o) (env_now (eo_environ o))) (mkdst None []) t = Some st ->
              forall q, (forall p, In p (d_approved st) -> under p q = false) ->
              forall s s', wrun s t s' -> wfs s' q = wfs s q) (empty_main o).
Proof. exact empty_days_world_lemma. Qed.
Print Assumptions empty_days_changes_only_approved.

Theorem is_old_iff : forall days now c,
  is_old days now c = true <-> exists d, parse_deletion_date c = Some d /\ older_than days now d = Some true.
Proof.
  intros days now c. unfold is_old. destruct (parse_deletion_date c) as [d|].
  - destruct (older_than days now d) as [[|]|] eqn:E; split; intros H; try discriminate; eauto.
    + destruct H as [d' [Hd H]]. inversion Hd; subst. rewrite E in H. discriminate.
    + destruct H as [d' [Hd H]]. inversion Hd; subst. rewrite E in H. discriminate.
  - split; [discriminate|]. intros [d [H _]]. discriminate.
Qed.
Print Assumptions is_old_iff.

(* liveness: every entry that must go, goes (per trash directory; not a dry run; the run ends normally) *)
Theorem empty_purges_every_old_entry : forall o path, eo_dry_run o = false ->
  all_runs (fun t out => forall a, out = Done a ->
              accepts (elive_step (eo_days o) (env_now (eo_environ o)) (join2 path s_info)) EStart t = Some (ESt [] ENext))
           (empty_trash_dir o path).
Proof. exact empty_purges_every_old_entry_lemma. Qed.
Print Assumptions empty_purges_every_old_entry.

Example an_old_entry_left_behind_is_noticed :
  accepts (elive_step (Some 1) None ($"/t/info")) EStart
    [(Exists ($"/t/info"), RBool true); (Listdir ($"/t/info"), RList [$"a.trashinfo"]);
     (ReadText ($"/t/info/a.trashinfo"), RStr ($"[Trash Info]" ++ [10%N] ++ $"DeletionDate=2024-02-28T23:59:59"));
     (Now, RDate (mkdt 2024 3 1 0 0 0 0)); (Lexists ($"/t/files/a"), RBool true); (Remove ($"/t/files/a"), RUnit)]
  = Some (ESt [] (EInfo ($"/t/info/a.trashinfo"))).
Proof. vm_compute. reflexivity. Qed.
Example a_whole_purge_ends_with_nothing_pending :
  accepts (elive_step (Some 1) None ($"/t/info")) EStart
    [(Exists ($"/t/info"), RBool true); (Listdir ($"/t/info"), RList [$"a.trashinfo"; $"b.trashinfo"]);
     (ReadText ($"/t/info/a.trashinfo"), RStr ($"[Trash Info]" ++ [10%N] ++ $"DeletionDate=2024-02-28T23:59:59"));
     (Now, RDate (mkdt 2024 3 1 0 0 0 0)); (Lexists ($"/t/files/a"), RBool true); (Remove ($"/t/files/a"), RUnit);
     (Lexists ($"/t/info/a.trashinfo"), RBool true); (Remove ($"/t/info/a.trashinfo"), RUnit);
     (ReadText ($"/t/info/b.trashinfo"), RStr ($"[Trash Info]" ++ [10%N] ++ $"DeletionDate=2024-02-29T00:00:00"));
     (Now, RDate (mkdt 2024 3 1 0 0 0 0))]
  = Some (ESt [] ENext).
Proof. vm_compute. reflexivity. Qed.

Example boundary :
  let now := mkdt 2024 3 1 0 0 0 0 in
  older_than 1 now (mkdt 2024 2 29 0 0 0 0) = Some false          (* exactly one day: kept *)
  /\ older_than 1 now (mkdt 2024 2 28 23 59 59 0) = Some true     (* one second older: purged *)
  /\ older_than 0 now (mkdt 2024 3 1 0 0 0 0) = Some false
  /\ older_than 1 now (mkdt 2030 1 1 0 0 0 0) = Some false.       (* the future *)
Proof. repeat split; vm_compute; reflexivity. Qed.
Example kept_entry_removal_is_rejected :
  accepts (decision_step (Some 1) None) (mkdst None [])
    [(ReadText ($"/t/info/a.trashinfo"), RStr ($"[Trash Info]" ++ [10%N] ++ $"DeletionDate=2024-02-29T00:00:00"));
     (Now, RDate (mkdt 2024 3 1 0 0 0 0)); (Remove ($"/t/files/a"), RUnit)] = None.
Proof. vm_compute. reflexivity. Qed.
Example old_entry_removal_is_accepted :
  accepts (decision_step (Some 1) None) (mkdst None [])
    [(ReadText ($"/t/info/a.trashinfo"), RStr ($"[Trash Info]" ++ [10%N] ++ $"DeletionDate=2024-02-28T23:59:59"));
     (Now, RDate (mkdt 2024 3 1 0 0 0 0)); (Remove ($"/t/files/a"), RUnit); (Remove ($"/t/info/a.trashinfo"), RUnit)] <> None.
Proof. vm_compute. discriminate. Qed.
Example first_date_line_decides :
  date_of ($"DeletionDate=garbage" ++ [10%N] ++ $"DeletionDate=2001-01-01T00:00:00") = InvalidDate.
Proof. vm_compute. reflexivity. Qed.
