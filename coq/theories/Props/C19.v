(* C19 - a malformed trash entry never prevents the well-formed ones from being handled.
   The four readers enumerate info/ and handle one file at a time; what has to be shown is that handling ONE
   file ALWAYS returns to the loop - for every possible content (any text: empty, truncated, binary, missing or
   bad keys) and every way reading it can fail (any OSError: a directory named x.trashinfo, no permission;
   bytes that are not UTF-8) - and that the sort key is total.  `all_runs` quantifies over all of these
   (the answer to ReadText is any string or any of those errors).
     trash-list     : never ends abnormally                                   (fix 4f7d679)
     trash-restore  : never ends abnormally; undated entries sort first       (fixes 4f7d679, 76f5c48)
     trash-rm       : only the file system REFUSING A REMOVAL (an OSError from remove/rmtree) can - not the entry
     trash-empty    : only OverflowError (DAYS/clock outside datetime's range) can; a refused removal is reported
   Names that are not entries at all ('.trashinfo', '..trashinfo', '...trashinfo', non-.trashinfo files):
   Scan.is_trashinfo_name (fixes 61b0e27, cc2384b).
   That the OUTPUT and EFFECTS on the well-formed entries equal those of a run without the malformed ones is
   decided by the check's differential oracle on the real commands.  Proofs in Proofs/ReadersTotal.v. *)
From TV Require Import Prelude.Str Prog.Prog Cmd.Put Cmd.Scan Cmd.Empty Cmd.Rm Cmd.ListCmd Cmd.Restore
  Proofs.ProgProofs Proofs.ReadersTotal.
Open Scope N_scope.

Definition ends_normally_or {A} (E : exn -> Prop) (m : prog A) : Prop :=
  all_runs (fun _ out => match out with Done _ => True | Uncaught e => E e | Stuck => False end) m.

Theorem list_handles_any_entry : forall o volume p, lo_size o = false ->
  ends_normally_or (fun _ => False) (print_trashinfo o volume p).
Proof. intros o volume p H. apply ends_sound. apply list_entry_total_lemma. exact H. Qed.
Print Assumptions list_handles_any_entry.

Theorem restore_handles_any_entry : forall volume is_trashinfo p,
  ends_normally_or (fun _ => False) (read_trashed_file volume is_trashinfo p).
Proof. intros. apply ends_sound. apply restore_entry_total_lemma. Qed.
Print Assumptions restore_handles_any_entry.

Theorem rm_handles_any_entry : forall c pat volume p,
  ends_normally_or (fun e => is_OSError e = true) (rm_one_info (c :: pat) volume p).
Proof. intros. apply ends_sound. apply rm_entry_total_lemma. Qed.
Print Assumptions rm_handles_any_entry.

Theorem empty_handles_any_entry : forall o p,
  ends_normally_or (fun e => e = OverflowErrorE) (empty_one_info o p).
Proof. intros. apply ends_sound. apply empty_entry_total_lemma. Qed.
Print Assumptions empty_handles_any_entry.

(* the date key: None (undated) is smaller than every date, two undated entries are equal - no TypeError *)
Theorem undated_sorts_first : forall a b,
  tf_date a = None -> tf_date b <> None -> date_key_lt a b = true /\ date_key_lt b a = false.
Proof.
  intros a b Ha Hb. unfold date_key_lt. rewrite Ha. destruct (tf_date b); [split; reflexivity|congruence].
Qed.
Print Assumptions undated_sorts_first.

Example non_utf8_info_is_a_warning_for_list :
  snd (run_oracle (print_trashinfo (mklist [] false false [] 0) ($"/") ($"/t/info/a.trashinfo")) [RErr UnicodeDecodeError]) = Done tt.
Proof. vm_compute. reflexivity. Qed.
Example directory_named_trashinfo_is_a_warning_for_restore :
  snd (run_oracle (read_trashed_file ($"/") true ($"/t/info/d.trashinfo")) [RErr (OSError 21)]) = Done None.
Proof. vm_compute. reflexivity. Qed.
