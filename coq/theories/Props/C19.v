(* C19 - a malformed trash entry never prevents the well-formed ones from being handled.
   The four readers enumerate info/ and handle one file at a time; what has to be shown is that handling ONE
   file ALWAYS returns to the loop - for every possible content (any text: empty, truncated, binary, missing or
   bad keys) and every way reading it can fail (any OSError: a directory named x.trashinfo, no permission;
   bytes that are not UTF-8) - and that the sort key is total.  `all_runs` quantifies over all of these
   (the answer to ReadText is any string or any of those errors).
     trash-list     : never ends abnormally                                   (fix 4f7d679)
     trash-restore  : never ends abnormally; undated entries sort first       (fixes 4f7d679, 76f5c48)
     trash-rm       : only the file system REFUSING A REMOVAL (an OSError from remove/rmtree) can - not the entry
     trash-empty    : only OverflowError (DAYS/clock outside datetime's range) can; a refused removal is reported
   Names that are not entries at all ('.trashinfo', '..trashinfo', '...trashinfo', non-.trashinfo files):
   Scan.is_trashinfo_name (fixes 61b0e27, cc2384b).
   AS IF ABSENT (Proofs/AsIfAbsent.v): a run of the loop over the info files of one trash directory is the concatenation of runs of
   the per-entry handler; removing from the directory ANY set of entries that cannot be read or carry no Path (no valid date, for
   trash-empty DAYS) leaves a genuine run over the remaining entries - the same answers for them - with the same standard output
   (trash-list) / the same mutating operations (trash-rm, trash-empty DAYS).  That the real commands behave like that on a real
   file system (two separate runs, with and without the neighbours) is what the check's differential oracle decides.
   Proofs in Proofs/ReadersTotal.v, Proofs/AsIfAbsent.v. *)
From TV Require Import Prelude.Str Prog.Prog Cmd.Put Cmd.Scan Cmd.Empty Cmd.Rm Cmd.ListCmd Cmd.Restore
  Proofs.ProgProofs Proofs.ReadersTotal Proofs.Independence Proofs.AsIfAbsent.
From Coq Require Import List.
Import ListNotations.
Open Scope N_scope.

Definition ends_normally_or {A} (E : exn -> Prop) (m : prog A) : Prop :=
  all_runs (fun _ out => match out with Done _ => True | Uncaught e => E e | Stuck => False end) m.

Theorem list_handles_any_entry : forall o volume p, lo_size o = false ->
  ends_normally_or (fun _ => False) (print_trashinfo o volume p).
Proof. intros o volume p H. apply ends_sound. apply list_entry_total_lemma. exact H. Qed.
Print Assumptions list_handles_any_entry.

Theorem restore_handles_any_entry : forall volume is_trashinfo p,
  ends_normally_or (fun _ => False) (read_trashed_file volume is_trashinfo p).
Proof. intros. apply ends_sound. apply restore_entry_total_lemma. Qed.
Print Assumptions restore_handles_any_entry.

Theorem rm_handles_any_entry : forall c pat volume p,
  ends_normally_or (fun e => is_OSError e = true) (rm_one_info (c :: pat) volume p).
Proof. intros. apply ends_sound. apply rm_entry_total_lemma. Qed.
Print Assumptions rm_handles_any_entry.

Theorem empty_handles_any_entry : forall o p,
  ends_normally_or (fun e => e = OverflowErrorE) (empty_one_info o p).
Proof. intros. apply ends_sound. apply empty_entry_total_lemma. Qed.
Print Assumptions empty_handles_any_entry.

(* ---- as if the malformed entries were absent ---- *)
(* [ts] are the per-entry pieces of the run; [mask] says which entries stay (true) and may drop (false) only entries whose piece is
   pathless / undated: it begins with a failed read of the info file, or with a text that has no Path (no valid DeletionDate) *)
Theorem list_as_if_malformed_absent : forall o volume infos t, lo_size o = false ->
  run_of (for_each infos (print_trashinfo o volume)) t (Done tt) ->
  exists ts, t = concat ts /\ Forall2 (fun p ti => run_of (print_trashinfo o volume p) ti (Done tt)) infos ts /\
    forall mask, Forall2 (fun b ti => b = false -> pathless ti) mask ts ->
      run_of (for_each (keep mask infos) (print_trashinfo o volume)) (concat (keep mask ts)) (Done tt) /\
      filter stdout_ev (concat (keep mask ts)) = filter stdout_ev t.
Proof. exact list_as_if_malformed_absent_lemma. Qed.
Print Assumptions list_as_if_malformed_absent.

Theorem rm_as_if_malformed_absent : forall pattern volume infos t,
  run_of (for_each infos (rm_one_info pattern volume)) t (Done tt) ->
  exists ts, t = concat ts /\ Forall2 (fun p ti => run_of (rm_one_info pattern volume p) ti (Done tt)) infos ts /\
    forall mask, Forall2 (fun b ti => b = false -> pathless ti) mask ts ->
      run_of (for_each (keep mask infos) (rm_one_info pattern volume)) (concat (keep mask ts)) (Done tt) /\
      filter mut_ev (concat (keep mask ts)) = filter mut_ev t.
Proof. exact rm_as_if_malformed_absent_lemma. Qed.
Print Assumptions rm_as_if_malformed_absent.

Theorem empty_days_as_if_undated_absent : forall o dd infos t, eo_days o = Some dd ->
  run_of (for_each infos (empty_one_info o)) t (Done tt) ->
  exists ts, t = concat ts /\ Forall2 (fun p ti => run_of (empty_one_info o p) ti (Done tt)) infos ts /\
    forall mask, Forall2 (fun b ti => b = false -> undated ti) mask ts ->
      run_of (for_each (keep mask infos) (empty_one_info o)) (concat (keep mask ts)) (Done tt) /\
      filter mut_ev (concat (keep mask ts)) = filter mut_ev t.
Proof. exact empty_days_as_if_undated_absent_lemma. Qed.
Print Assumptions empty_days_as_if_undated_absent.

(* trash-restore: the entries found in one trash directory - and with them what is offered, and under which numbers - are the same
   without the info files that are no .trashinfo files, cannot be read, or give no location *)
Theorem restore_found_as_if_malformed_absent : forall scope volume infos acc t found,
  run_of (fold_prog infos (restore_step scope volume) acc) t (Done found) ->
  exists tbs, t = concat (map fst tbs) /\
    Forall2 (fun it (tb : trace * option trashed_file) => run_of (read_trashed_file volume (fst it) (snd it)) (fst tb) (Done (snd tb))) infos tbs /\
    forall mask, Forall2 (fun b (tb : trace * option trashed_file) => b = false -> unlocated volume (fst tb)) mask tbs ->
      run_of (fold_prog (keep mask infos) (restore_step scope volume) acc) (concat (map fst (keep mask tbs))) (Done found).
Proof. exact restore_found_as_if_malformed_absent_lemma. Qed.
Print Assumptions restore_found_as_if_malformed_absent.

Example restore_scan_dir_is_that_fold : forall scope acc dv,
  restore_scan_dir scope acc dv = (infos <- all_info_files (fst dv) ;; fold_prog infos (restore_step scope (snd dv)) acc).
Proof. reflexivity. Qed.

(* non-vacuity: a directory with a binary neighbour between two good entries; dropping the neighbour keeps both lines *)
Example a_malformed_neighbour_drops_out :
  let good c := [(ReadText c, RStr ($"[Trash Info]" ++ [10] ++ $"Path=/x" ++ [10])); (Out false ($"????-??-?? ??:??:?? /x" ++ [10]), RUnit)] in
  let bad := [(ReadText ($"/t/info/b.trashinfo"), RErr UnicodeDecodeError); (Log WARNING false ($"/t/info/b.trashinfo: "), RUnit)] in
  pathless bad /\ ~ pathless (good ($"/t/info/a.trashinfo")) /\
  filter stdout_ev (concat (keep [true; false; true] [good ($"/t/info/a.trashinfo"); bad; good ($"/t/info/c.trashinfo")]))
  = filter stdout_ev (concat [good ($"/t/info/a.trashinfo"); bad; good ($"/t/info/c.trashinfo")]).
Proof. cbv zeta. split; [exact I|]. split; [|vm_compute; reflexivity]. cbn [pathless]. vm_compute. discriminate. Qed.

(* the date key: None (undated) is smaller than every date, two undated entries are equal - no TypeError *)
Theorem undated_sorts_first : forall a b,
  tf_date a = None -> tf_date b <> None -> date_key_lt a b = true /\ date_key_lt b a = false.
Proof.
  intros a b Ha Hb. unfold date_key_lt. rewrite Ha. destruct (tf_date b); [split; reflexivity|congruence].
Qed.
Print Assumptions undated_sorts_first.

Example non_utf8_info_is_a_warning_for_list :
  snd (run_oracle (print_trashinfo (mklist [] false false [] 0 None) ($"/") ($"/t/info/a.trashinfo")) [RErr UnicodeDecodeError]) = Done tt.
Proof. vm_compute. reflexivity. Qed.
Example directory_named_trashinfo_is_a_warning_for_restore :
  snd (run_oracle (read_trashed_file ($"/") true ($"/t/info/d.trashinfo")) [RErr (OSError 21)]) = Done None.
Proof. vm_compute. reflexivity. Qed.
