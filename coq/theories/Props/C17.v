(* C17 - under file-system errors trash-put terminates, falls back, and reports honestly.
   Every theorem here quantifies over EVERY answer to EVERY operation (all_runs): each probe, mkdir,
   exclusive create, write, close, move, remove may return any errno, in any combination - not a
   representative set, not one fault at a time.
   (1) Termination of the only unbounded loop (try_persist): it goes round again only after a "name taken"
       event; every other error ends it (/repo fix d0e933e).
   (2) Honesty (the put-discipline monitor): "'x' trashed in ..." is reported only after a Move returned
       normally for that argument; "cannot trash ..." only when no Move succeeded for it AND every info
       file reserved for it was removed again, found already gone, or its removal/close was itself refused
       by the file system (then, and only then, a stray info can remain - stated, not hidden);
       after a failed candidate the next candidate is tried (Put.try_candidates).
   (3) A failed write removes the file just created (/repo fix 6632bf5): atomic_write.
   (4) Failure means untouched: the single-argument procedure returns "failed" only in runs in which no move returned
       normally, and after a move has returned normally it issues nothing but log lines (failed_argument_was_not_moved,
       a two-state monitor in Proofs/FailedPut.v); on the file-system model, a trash-put that exits 74 for its single
       argument has left every file and directory that existed exactly as it was, at the end and at every crash point
       (failed_put_changes_nothing).  Not modelled: the inside of one shutil.move - a copying move that fails half-way
       is the known finding of this property.
   Proofs in Proofs/PutProofs.v, Proofs/FailedPut.v. *)
From TV Require Import Prelude.Str Prog.Prog World.World Cmd.Put Proofs.ProgProofs Proofs.PutSafe Proofs.PutProofs Proofs.FailedPut.
Open Scope N_scope.

Theorem put_name_search_terminates : forall d fuel,
  all_runs (fun t out => out = Done OutOfFuel ->
              exists c, accepts collision_step 0%nat t = Some c /\ (fuel <= c)%nat) (try_persist fuel d 0 false).
Proof. exact put_terminates_lemma. Qed.
Print Assumptions put_name_search_terminates.

Theorem put_honest_under_faults : forall o,
  all_runs (fun t out => exists s, accepts put_step put_init t = Some s /\
              match out with
              | Done code => (code = 0 <-> p_nfail s = 0%nat) /\ (code = 0 \/ code = EX_IOERR)
              | _ => True
              end) (put_main o).
Proof. exact put_discipline_lemma. Qed.
Print Assumptions put_honest_under_faults.

Theorem failed_argument_was_not_moved : forall path o,
  all_runs (fun t out => out = Done false -> forall src dst, ~ In (Move src dst, RUnit) t) (trash_single path o).
Proof. exact failed_argument_was_not_moved_lemma. Qed.
Print Assumptions failed_argument_was_not_moved.

Theorem failed_put_changes_nothing : forall o p, po_paths o = [p] ->
  all_runs (fun t out => out = Done EX_IOERR ->
     forall s, wf (wfs s) -> wfd s = None ->
     forall t1 t2 s1, t = t1 ++ t2 -> wrun s t1 s1 ->
     forall q, wfs s q <> None -> wfs s1 q = wfs s q) (put_main o).
Proof. exact failed_put_changes_nothing_lemma. Qed.
Print Assumptions failed_put_changes_nothing.

(* ---- non-vacuity ---- *)
(* a run that ends with exit status 74 exists (the argument is not there), and so does one that meets an error on the way *)
Example a_failing_run :
  snd (run_oracle (put_main (mkput [$"/x"] None ModeUnspecified None false 0 [] 0 5))
                  [RBool false; RBool false; RBool false; RBool false; RBool false; RBool false]) = Done EX_IOERR.
Proof. vm_compute. reflexivity. Qed.
Example persistent_eacces_ends_the_search :
  forall d, exists tr, run_oracle (try_persist 5 d 0 false) [RBool false; RErr (OSError 13)] = (tr, Done (PersistFailed (OSError 13))).
Proof. intros d. eexists. vm_compute. reflexivity. Qed.
Example trashed_report_without_move_rejected :
  accepts put_step put_init [(Log INFO true ($"'a' trashed in ~/.local/share/Trash"), RUnit)] = None.
Proof. reflexivity. Qed.
Example failure_report_with_stray_info_rejected :
  accepts put_step (mkpst (Some ($"/t/info/a.trashinfo", Closed)) false false 0)
          [(Log WARNING true ($"cannot trash regular file 'a'"), RUnit)] = None.
Proof. reflexivity. Qed.
Example failure_report_after_refused_cleanup_accepted :
  accepts put_step (mkpst (Some ($"/t/info/a.trashinfo", Closed)) false false 0)
          [(Remove ($"/t/info/a.trashinfo"), RErr (OSError 13)); (Log WARNING true ($"cannot trash regular file 'a'"), RUnit)] <> None.
Proof. vm_compute. discriminate. Qed.
