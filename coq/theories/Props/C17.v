(* C17 - under file-system errors trash-put terminates, falls back, and reports honestly.
   Every theorem here quantifies over EVERY answer to EVERY operation (all_runs): each probe, mkdir,
   exclusive create, write, close, move, remove may return any errno, in any combination - not a
   representative set, not one fault at a time.
   (1) Termination of the only unbounded loop (try_persist): it goes round again only after a "name taken"
       event; every other error ends it (/repo fix d0e933e).
   (2) Honesty (the put-discipline monitor): "'x' trashed in ..." is reported only after a Move returned
       normally for that argument; "cannot trash ..." only when no Move succeeded for it AND every info
       file reserved for it was removed again, found already gone, or its removal/close was itself refused
       by the file system (then, and only then, a stray info can remain - stated, not hidden);
       after a failed candidate the next candidate is tried (Put.try_candidates).
   (3) A failed write removes the file just created (/repo fix 6632bf5): atomic_write.
   Proofs in Proofs/PutProofs.v. *)
From TV Require Import Prelude.Str Prog.Prog Cmd.Put Proofs.ProgProofs Proofs.PutSafe Proofs.PutProofs.
Open Scope N_scope.

Theorem put_name_search_terminates : forall d fuel,
  all_runs (fun t out => out = Done OutOfFuel ->
              exists c, accepts collision_step 0%nat t = Some c /\ (fuel <= c)%nat) (try_persist fuel d 0 false).
Proof. exact put_terminates_lemma. Qed.
Print Assumptions put_name_search_terminates.

Theorem put_honest_under_faults : forall o,
  all_runs (fun t out => exists s, accepts put_step put_init t = Some s /\
              match out with
              | Done code => (code = 0 <-> p_nfail s = 0%nat) /\ (code = 0 \/ code = EX_IOERR)
              | _ => True
              end) (put_main o).
Proof. exact put_discipline_lemma. Qed.
Print Assumptions put_honest_under_faults.

(* ---- non-vacuity ---- *)
Example persistent_eacces_ends_the_search :
  forall d, exists tr, run_oracle (try_persist 5 d 0 false) [RBool false; RErr (OSError 13)] = (tr, Done (PersistFailed (OSError 13))).
Proof. intros d. eexists. vm_compute. reflexivity. Qed.
Example trashed_report_without_move_rejected :
  accepts put_step put_init [(Log INFO true ($"'a' trashed in ~/.local/share/Trash"), RUnit)] = None.
Proof. reflexivity. Qed.
Example failure_report_with_stray_info_rejected :
  accepts put_step (mkpst (Some ($"/t/info/a.trashinfo", Closed)) false false 0)
          [(Log WARNING true ($"cannot trash regular file 'a'"), RUnit)] = None.
Proof. reflexivity. Qed.
Example failure_report_after_refused_cleanup_accepted :
  accepts put_step (mkpst (Some ($"/t/info/a.trashinfo", Closed)) false false 0)
          [(Remove ($"/t/info/a.trashinfo"), RErr (OSError 13)); (Log WARNING true ($"cannot trash regular file 'a'"), RUnit)] <> None.
Proof. vm_compute. discriminate. Qed.
