(* C11 - purging touches nothing outside files/ and info/ of the trash directories it operates on.
   Oracle-universal, syntactic half: every Remove / Rmtree that any run of trash-empty or trash-rm issues
   has the form  td/info/x  or  td/files/x  where
     - td is a trash directory of the expected shape: the home trash of the environment, a --trash-dir
       given by the user, <volume>/.Trash/<uid> or <volume>/.Trash-<uid>  (td_shape), written without
       trailing slash (clean); with --all-users (eo_all_users = Some password database): the home trash
       <pw_dir>/.local/share/Trash and <volume>/.Trash/<pw_uid>, <volume>/.Trash-<pw_uid> of every entry of
       the database, and of nobody else (eo_homes, eo_uids),
     - x is ONE directory-entry name: not empty, no '/', not "." and not ".."  (valid_name);
   and no other mutating operation (makedirs, create, write, move) is issued at all.
   The file-system half (os.remove never follows a symlink; shutil.rmtree refuses a symlink and unlinks
   inner links) is CPython/kernel behaviour: exercised on the real commands by the check's oracle.
   Proofs in Proofs/PurgeProofs.v. *)
From TV Require Import Prelude.Str Prelude.PosixPath Prog.Prog Cmd.Put Cmd.Scan Cmd.Empty Cmd.Rm
  Proofs.PathProofs Proofs.PurgeProofs World.World Proofs.WorldProofs Proofs.WorldPurge.
Open Scope N_scope.

Theorem empty_targets_inside : forall o, Forall clean (eo_trash_dirs o) ->
  all_runs (fun t _ => Forall (fun p => purge_ok (eo_homes o) (eo_uids o) (eo_trash_dirs o) (fst p)) t) (empty_main o).
Proof. exact empty_targets_inside_lemma. Qed.
Print Assumptions empty_targets_inside.

Theorem rm_targets_inside : forall o,
  all_runs (fun t _ => Forall (fun p => purge_ok (home_trash_dir_path_from_env (ro_environ o)) [ro_uid o] [] (fst p)) t) (rm_main o).
Proof. exact rm_targets_inside_lemma. Qed.
Print Assumptions rm_targets_inside.

(* the payload of an info file found in a clean trash directory is files/<name without .trashinfo> of the
   SAME directory, and that name is again a valid entry name: in particular never "", "." or ".."
   (those three info names are not entries: Scan.is_trashinfo_name; this is the /repo fix cc2384b) *)
Theorem payload_path_of_info : forall td x, clean td -> valid_name x = true -> is_trashinfo_name x = true ->
  path_of_backup_copy (join2 (join2 td s_info) x) = join2 (join2 td s_files) (payload_name x)
  /\ valid_name (payload_name x) = true.
Proof.
  intros td x Hc Hx Ht. destruct (valid_name_noslash x Hx) as [Hs _].
  split; [apply pobc_clean; assumption|apply payload_name_valid; assumption].
Qed.
Print Assumptions payload_path_of_info.

(* ---- on the tree of files (World.v): after any run of trash-empty / trash-rm that is consistent with a file system s,
   every path q that is not at or below some <td>/info/<x> or <td>/files/<x> - td a trash directory of the spec's
   shape, x one entry name - holds exactly what it held before; and nothing at all is created. *)
Theorem empty_changes_nothing_outside : forall o, Forall clean (eo_trash_dirs o) ->
  all_runs (fun t _ => forall q,
      (forall td p, td_shape (eo_homes o) (eo_uids o) (eo_trash_dirs o) td -> clean td -> target_in td p -> under p q = false) ->
      forall s s', wrun s t s' -> wfs s' q = wfs s q) (empty_main o).
Proof. exact empty_world_frame_lemma. Qed.
Print Assumptions empty_changes_nothing_outside.

Theorem rm_changes_nothing_outside : forall o,
  all_runs (fun t _ => forall q,
      (forall td p, td_shape (home_trash_dir_path_from_env (ro_environ o)) [ro_uid o] [] td -> clean td -> target_in td p -> under p q = false) ->
      forall s s', wrun s t s' -> wfs s' q = wfs s q) (rm_main o).
Proof. exact rm_world_frame_lemma. Qed.
Print Assumptions rm_changes_nothing_outside.

Theorem purge_creates_nothing : forall env uid users t, Forall (fun p => purge_ok env uid users (fst p)) t ->
  forall q s s', wrun s t s' -> wfs s q = None -> wfs s' q = None.
Proof. exact purge_creates_nothing. Qed.
Print Assumptions purge_creates_nothing.

(* ---- non-vacuity ---- *)
Example all_users_shape :
  let o := mkempty [] (Some false) None false 0 [($"HOME", $"/root")] 0 (Some [($"/home/u", 1000); ($"/home/other", 1001)]) in
  eo_homes o = [$"/home/u/.local/share/Trash"; $"/home/other/.local/share/Trash"] /\ eo_uids o = [1000; 1001]
  /\ td_shape (eo_homes o) (eo_uids o) [] ($"/media/stick/.Trash/1001")
  /\ ~ In ($"/root/.local/share/Trash") (eo_homes o).
Proof.
  split; [reflexivity|split; [reflexivity|split]].
  - right; right. exists ($"/media/stick"), 1001. split; [right; left; reflexivity|left; reflexivity].
  - simpl. intros [H|[H|[]]]; discriminate.
Qed.
Example clean_home : clean ($"/home/u/.local/share/Trash").
Proof. split; [discriminate|reflexivity]. Qed.
Example dot_names_are_not_entries :
  is_trashinfo_name ($".trashinfo") = false /\ is_trashinfo_name ($"..trashinfo") = false
  /\ is_trashinfo_name ($"...trashinfo") = false /\ is_trashinfo_name ($"a.trashinfo") = true.
Proof. repeat split. Qed.
