(* C08 - an insecure shared $topdir/.Trash is never used, for writing, reading or purging.
   "Secure" is evidence in the history of probe answers (SecProofs.secure_parent): os.path.isdir($topdir/.Trash)
   answered True, os.path.islink answered False, and os.stat showed the sticky bit.  Against every answer of
   the environment (every state of .Trash: absent, sticky dir, non-sticky dir, symlink to either, regular file):
   (a) the scanner shared by trash-list, trash-empty and trash-rm emits "found $topdir/.Trash/$uid" - the
       only way those commands ever learn of that directory - only with the evidence in the history (its
       consumers are parametric: Scan.scan_volume takes the handler as an argument);
   (b) trash-restore lists / reads / warns about $topdir/.Trash/$uid only with the evidence (/repo fix 84fc95e);
   (c) trash-put issues no mutating operation at all for the $topdir/.Trash/$uid candidate without the
       evidence (it falls through to $topdir/.Trash-$uid: Put.try_candidates goes on with the next candidate).
   trash-list reports a skipped directory on stderr: ListCmd.list_handle (SkippedNotSticky / SkippedSymlink).
   That the answers of the probes reflect the real state of $topdir/.Trash is the file system's business:
   decided by the check's oracle over all .Trash states x five commands.  Proofs in Proofs/SecProofs.v. *)
From TV Require Import Prelude.Str Prelude.PosixPath Prog.Prog Cmd.Put Cmd.Scan Cmd.Restore Cmd.ListCmd
  Proofs.ProgProofs Proofs.SecProofs Proofs.StaticScan Proofs.StaticRestore.
Open Scope N_scope.

Theorem scanner_announces_top1_only_secured : forall uid v,
  let top := join3 v ($".Trash") (dec_of_N uid) in
  all_runs (fun t out => forall evs, out = Done evs -> In (Found top v) evs -> secure_parent t (dirname top) = true)
           (scan_volume collect uid [] v).
Proof. exact scanner_announces_top1_only_secured_lemma. Qed.
Print Assumptions scanner_announces_top1_only_secured.

Theorem restore_reads_top1_only_secured : forall uid scope acc volume,
  all_runs (fun t _ => accepts (hist_step reads (dirname (volume_trash_dir1 volume uid))) [] t <> None) (restore_top1 uid scope acc volume).
Proof. exact restore_top1_gated_lemma. Qed.
Print Assumptions restore_reads_top1_only_secured.

Theorem put_writes_top1_only_secured : forall c o path volume, c_check c = TopTrashDirCheck ->
  all_runs (fun t _ => accepts (hist_step is_mutator (cand_parent_dir c)) [] t <> None) (trash_file_in c o path volume).
Proof. exact put_top1_gated_lemma. Qed.
Print Assumptions put_writes_top1_only_secured.

(* trash-list names the skipped directory on stderr *)
Theorem list_reports_skipped : forall o u path,
  list_handle o u (SkippedNotSticky path) = printerr true ($"TrashDir skipped because parent not sticky: " ++ path)
  /\ list_handle o u (SkippedSymlink path) = printerr true ($"TrashDir skipped because parent is symlink: " ++ path).
Proof. split; reflexivity. Qed.
Print Assumptions list_reports_skipped.

Example non_sticky_parent_is_not_evidence :
  secure_parent [(Isdir ($"/v/.Trash"), RBool true); (Stat ($"/v/.Trash"), RStat 493 0); (Islink ($"/v/.Trash"), RBool false)] ($"/v/.Trash") = false.
Proof. vm_compute. reflexivity. Qed.
Example sticky_real_dir_is_evidence :
  secure_parent [(Isdir ($"/v/.Trash"), RBool true); (Stat ($"/v/.Trash"), RStat 1023 0); (Islink ($"/v/.Trash"), RBool false)] ($"/v/.Trash") = true.
Proof. vm_compute. reflexivity. Qed.
Example write_without_evidence_rejected :
  accepts (hist_step is_mutator ($"/v/.Trash")) [] [(Lexists ($"/v/.Trash"), RBool true); (Makedirs ($"/v/.Trash/0") 448, RUnit)] = None.
Proof. vm_compute. reflexivity. Qed.

(* ---- the same rule read off the declarative lists of the static theorems (C09 StaticScan, C13 StaticRestore) ----
   Under a file system that holds still, the scan of trash-list / -empty / -rm hands $topdir/.Trash/$uid to its consumer, and
   trash-restore searches it, only when $topdir/.Trash is a directory with the sticky bit that is not a symbolic link. *)
Theorem shared_directory_listed_only_when_secure : forall fs uid v td vol,
  In (Found td vol) (top_events_of fs uid v) ->
  td = join3 v ($".Trash") (dec_of_N uid) /\ vol = v
  /\ fs_true fs (Isdir (dirname td)) = true /\ fs_sticky fs (dirname td) = true /\ fs_true fs (Islink (dirname td)) = false.
Proof.
  intros fs uid v td vol. unfold top_events_of.
  destruct (fs_true fs (Prog.Exists _)); [|intros []].
  destruct (fs_true fs (Isdir _)) eqn:Hd; cbn [andb]; [|intros [H|[]]; discriminate].
  destruct (fs_sticky fs _) eqn:Hs; [|intros [H|[]]; discriminate].
  destruct (fs_true fs (Islink _)) eqn:Hl; intros [H|[]]; [discriminate|].
  injection H as Ht Hv. subst td vol. repeat split; assumption.
Qed.
Print Assumptions shared_directory_listed_only_when_secure.

Theorem shared_directory_searched_only_when_secure : forall fs uid v,
  In (volume_trash_dir1 v uid, v) (restore_dirs_of_volume fs uid v) ->
  volume_trash_dir1 v uid <> volume_trash_dir2 v uid ->
  rule_of fs (volume_trash_dir1 v uid) = TopValid.
Proof.
  intros fs uid v. unfold restore_dirs_of_volume. intros Hin Hne. apply in_app_or in Hin. destruct Hin as [Hin|[Hin|[]]].
  - destruct (rule_of fs (volume_trash_dir1 v uid)); try (destruct Hin; fail). reflexivity.
  - exfalso. apply Hne. injection Hin as H. symmetry. exact H.
Qed.
Print Assumptions shared_directory_searched_only_when_secure.
