(* C03 - every .trashinfo is spec-conformant and decodes back to the exact path and time.
   Statements only; proofs are in Proofs/{Utf8,Quote,TrashInfo,OrigLoc}Proofs.v.
   Strings are lists of Unicode code points (Python str); `utf8_encode s = Some b` says the name is
   encodable (no lone surrogate, i.e. the file name is valid UTF-8) - otherwise trash-put never
   reaches the writer (that is C16's business). All theorems hold for every string, no length bound. *)
From TV Require Import Prelude.Str Prelude.PosixPath Prelude.Utf8 Codec.Quote Codec.DateFmt Codec.TrashInfo
  Logic.OrigLoc Proofs.Utf8Proofs Proofs.QuoteProofs Proofs.TrashInfoProofs Proofs.OrigLocProofs.
Open Scope N_scope.

(* the escaped Path value uses only unreserved characters, '/', and %XX with upper-case hex *)
Theorem quote_alphabet : forall s q, quote s = Some q -> Forall path_char q.
Proof. exact quote_alphabet_lemma. Qed.
Print Assumptions quote_alphabet.

(* un-escaping by the spec's byte-level rule yields exactly the UTF-8 bytes of the original location *)
Theorem spec_unescape_quote : forall s b q, utf8_encode s = Some b -> quote s = Some q -> pct_decode q = b.
Proof. exact spec_unescape_quote_lemma. Qed.
Print Assumptions spec_unescape_quote.

(* un-escaping by trash-list / trash-restore / trash-rm (urllib unquote, errors='replace') yields the
   original location code point for code point *)
Theorem unquote_quote : forall s q, quote s = Some q -> unquote q = s.
Proof. exact unquote_quote_lemma. Qed.
Print Assumptions unquote_quote.

(* the file written has the header, one Path line, one DeletionDate line, nothing else *)
Theorem format_shape : forall loc d b, format_trashinfo loc d = Some b ->
  exists q txt, quote loc = Some q /\ read_text b = Some txt /\
                lines txt = [s_header; s_Path ++ q; s_DeletionDate ++ format_date d; []].
Proof. exact format_shape_lemma. Qed.
Print Assumptions format_shape.

(* reading the written bytes back as text (strict UTF-8, universal newlines) and parsing Path *)
Theorem parse_path_format : forall loc d b, format_trashinfo loc d = Some b ->
  exists txt, read_text b = Some txt /\ parse_path txt = Some loc.
Proof. exact parse_path_format_lemma. Qed.
Print Assumptions parse_path_format.

(* the date read back equals the date written (to the second; the clock's microseconds are not stored).
   1000 <= year: glibc strftime does not zero-pad %Y, strptime wants four digits *)
Theorem parse_date_format : forall loc d b,
  format_trashinfo loc d = Some b -> dt_valid d = true -> 1000 <= dyear d ->
  exists txt, read_text b = Some txt /\ date_of txt = ValidDate (zero_micro d)
              /\ parse_deletion_date txt = Some (zero_micro d).
Proof. exact parse_date_format_lemma. Qed.
Print Assumptions parse_date_format.

(* in a $topdir trash directory the Path is relative to the top directory and joins back to the
   canonical location; `top` and `top_prefix top ++ rest` are os.path.realpath results; the top
   directory may be "/" (top_ok) *)
Theorem orig_loc_relative : forall path top rest base,
  basename (normpath path) = base -> starts_with base [c_slash] = false -> top_ok top ->
  (orig_loc_result path top top RelativePaths = base
   /\ join2 top (orig_loc_result path top top RelativePaths) = join2 top base)
  /\
  (rest <> [] -> starts_with rest [c_slash] = false ->
   orig_loc_result path (top_prefix top ++ rest) top RelativePaths = join2 rest base
   /\ isabs (join2 rest base) = false
   /\ join2 top (join2 rest base) = join2 (top_prefix top ++ rest) base).
Proof. exact orig_loc_relative_lemma. Qed.
Print Assumptions orig_loc_relative.

Theorem orig_loc_absolute_home : forall path parent top,
  orig_loc_result path parent top AbsolutePaths = join2 parent (basename (normpath path)).
Proof. exact orig_loc_absolute_lemma. Qed.
Print Assumptions orig_loc_absolute_home.

(* ---- non-vacuity: concrete inputs meeting the hypotheses (evaluated by the kernel's VM) ---- *)
Example ex_name := Eval compute in $"/home/u/a b%".
Example ex_date := mkdt 2024 2 29 23 59 58 123456.
Example c03_premises_satisfiable :
  (exists b, format_trashinfo (ex_name ++ [10; 233; 8364; 128512]) ex_date = Some b)
  /\ dt_valid ex_date = true /\ 1000 <= dyear ex_date.
Proof. split; [eexists; vm_compute; reflexivity | split; vm_compute; [reflexivity | discriminate]]. Qed.
Example c03_encode_fails_on_surrogate : quote [97; 56448] = None.
Proof. reflexivity. Qed.

(* ---- the top directory "/" (fixed in /repo by "fix: entries trashed into /.Trash-$uid ...") ---- *)
Example orig_loc_relative_root_topdir :
  orig_loc_result ($"/x/y") ($"/x") ($"/") RelativePaths = $"x/y".
Proof. vm_compute. reflexivity. Qed.
