(* C13 - trash-restore offers the right entries and restores exactly the indices chosen.
   Statements only; proofs in Proofs/{LogicProofs,SortProofs,RestoreProofs}.v. *)
From Coq Require Import Permutation Sorted.
From TV Require Import Prelude.Str Prelude.PosixPath Prelude.SortStable Logic.PyInt Logic.Indexes Logic.Scope
  Prog.Prog Cmd.Restore Proofs.ProgProofs Proofs.LogicProofs Proofs.SortProofs Proofs.RestoreProofs World.World Proofs.WorldProofs Proofs.WorldRestore Proofs.SortSorted Proofs.Independence Proofs.ListingOverwrite Proofs.ChosenMovesOne Proofs.ChosenMoves Cmd.Put Cmd.Scan Proofs.StaticScan Proofs.StaticList Proofs.StaticRestore.
Open Scope Z_scope.

(* scope: an entry is offered iff the requested directory is "/", or is the entry's location itself, or the
   location continues it after a '/' - so /a/foobar is NOT under /a/foo *)
Theorem scope_iff : forall o p,
  matches_path o p = true <-> p = [c_slash] \/ o = p \/ exists r, o = p ++ [c_slash] ++ r.
Proof. exact scope_iff_lemma. Qed.
Print Assumptions scope_iff.

(* the reply grammar: a successful parse denotes exactly the concatenation of its parts' index lists
   (a-b = the inclusive range, empty when reversed) and every index lies inside the printed list *)
Theorem parse_indexes_spec : forall r n l,
  parse_indexes r n = Selected l <->
  exists ps, parse_parts (split_on c_comma r) = inr ps /\ l = flat_map part_list ps /\ Forall (fun i => 0 <= i < n) l.
Proof. exact parse_indexes_spec_lemma. Qed.
Print Assumptions parse_indexes_spec.

Theorem parse_part_spec : forall x p,
  parse_part x = POk p <->
  (mem c_dash x = false /\ exists i, py_int x = Some i /\ p = PSingle i)
  \/ (exists f l a b, mem c_dash x = true /\ split_on c_dash x = [f; l] /\ f <> [] /\ l <> []
                      /\ py_int f = Some a /\ py_int l = Some b /\ p = PRange a b).
Proof. exact parse_part_spec_lemma. Qed.
Print Assumptions parse_part_spec.

(* every --sort mode lists exactly the entries found, each once (the same list is then printed and indexed:
   Restore.restore_main binds it once as `files`) *)
Theorem sort_is_permutation : forall m l, Permutation l (sort_files m l).
Proof. intros m l. destruct m; simpl; [apply sort_stable_perm|apply sort_stable_perm|apply Permutation_refl]. Qed.
Print Assumptions sort_is_permutation.

(* "ordered as --sort requests": nothing later in the printed list has a strictly smaller key than something earlier
   ((date is not None, date) for --sort=date, path + str(date) for --sort=path) ... *)
Theorem sort_orders_by_key : forall m l, m <> SortNone ->
  StronglySorted (fun a b => key_lt m b a = false) (sort_files m l).
Proof. exact sort_files_sorted_lemma. Qed.
Print Assumptions sort_orders_by_key.

(* ... and entries with equivalent keys keep the order in which they were found: which entry stands at which index is
   determined by the keys and the order of discovery *)
Theorem sort_is_stable : forall m l k, filter (eqv (key_lt m) k) (sort_files m l) = filter (eqv (key_lt m) k) l.
Proof. exact sort_files_stable_lemma. Qed.
Print Assumptions sort_is_stable.

(* the selection monitor (RestoreProofs.sel_step) counts the lines printed before the question; after the
   reply it accepts a mutating operation only if the reply is not empty and parse_indexes says Selected
   for THAT number of lines; an empty reply ends with exit status 0, an invalid one with 1 (or an uncaught
   ValueError for a part with two hyphens), end of input with 1.  No run is rejected. *)
Theorem restore_selection_exact : forall o,
  all_runs (fun t out => exists s, accepts sel_step (0%nat, Before) t = Some s /\
                         match out with Done code => sel_final s code | _ => True end) (restore_main o).
Proof. exact restore_selection_lemma. Qed.
Print Assumptions restore_selection_exact.

(* ---- on the tree of files (World.v): a run that does not reach a valid, non-empty selection - nothing to offer, an empty reply,
   an invalid or out-of-range reply, end of input - leaves every file system it is consistent with exactly as it was ---- *)
Theorem restore_without_selection_changes_nothing : forall o,
  all_runs (fun t _ => forall st, accepts sel_step (0%nat, Before) t = Some st -> snd st <> Allowed ->
                                  forall s s', wrun s t s' -> same s s') (restore_main o).
Proof. exact restore_without_selection_lemma. Qed.
Print Assumptions restore_without_selection_changes_nothing.

(* ---- --overwrite is not read before the selection: whatever the flag says, a run of trash-restore is a run of [offered o] - scan, scope,
   sort: a program in which the flag does not occur - followed by [after_listing b files], where listing and numbering are a function
   of the offered entries alone and the flag reaches only [restore_selected] (ListingOverwrite.v) ---- *)
Theorem listing_does_not_depend_on_overwrite : forall o b t out,
  run_of (restore_main (with_overwrite o b)) t out <-> run_of (bind (offered o) (after_listing b)) t out.
Proof. exact listing_does_not_depend_on_overwrite_lemma. Qed.
Print Assumptions listing_does_not_depend_on_overwrite.

(* ---- exactly the entries printed at the chosen indices: line i of the listing shows entry i of the offered list; every Move of the
   run is the Move (payload -> recorded location) of an entry whose index the typed reply denotes, in the order of the reply, one per
   index, up to the first entry that is refused or fails; when the command ends with status 0, all of them (ChosenMoves.v) ---- *)
Theorem listing_shows_entry_i_on_line_i : forall l i t, run_of (print_listing i l) t (Done tt) ->
  map fst t = map (fun p => Out false (line (fst p) (snd p))) (combine (seq i (length l)) l).
Proof. intros l i t H. exact (proj2 (run_print_listing l i t _ H) eq_refl). Qed.
Print Assumptions listing_shows_entry_i_on_line_i.

Theorem restored_are_the_chosen : forall ow files t out,
  run_of (after_listing ow files) t out ->
  moves_of t = [] \/
  exists reply idxs n, In (Input (prompt files), RStr reply) t /\
    parse_indexes reply (Z.of_nat (length files)) = Selected idxs /\
    moves_of t = map mv (firstn n (chosen files idxs)) /\
    (out = Done 0%N -> moves_of t = map mv (chosen files idxs)).
Proof. exact restored_are_the_chosen_lemma. Qed.
Print Assumptions restored_are_the_chosen.

Example chosen_follows_the_reply : forall a b c, chosen [a; b; c] [2; 0; 2] = [c; a; c] /\ chosen [a; b; c] [] = [].
Proof. intros. split; reflexivity. Qed.

Example with_overwrite_sets_the_flag_only : forall o b,
  ro_overwrite (with_overwrite o b) = b /\ ro_sort (with_overwrite o b) = ro_sort o /\ ro_path (with_overwrite o b) = ro_path o
  /\ with_overwrite o (ro_overwrite o) = o.
Proof. intros [p s td ow e u] b. repeat split. Qed.

(* ---- which directories are searched (Proofs/StaticRestore.v) ----
   Under a file system that holds still (StaticScan: fs : op -> res, sane) the search of trash-restore without --trash-dir is:
   the home trash, then for every mount point that is a directory, in the order of the mount table, $topdir/.Trash/$uid when
   the rules accept it and then ALWAYS $topdir/.Trash-$uid - both directories of a volume, each once, nothing else; the entries
   found are threaded through in that order (sread). *)
Theorem restore_searches_exactly_these_directories : forall fs, sane fs -> forall scope o, ro_trash_dir o = None ->
  srun fs (all_files_trashed_from_path o scope)
  = then_run (srun fs (fold_prog (home_trash_dir_path_from_env (rs_environ o))
                                 (fun acc p => v <- volume_of p ;; restore_scan_dir scope acc (p, v)) []))
             (sread fs scope (restore_dirs_of_mounts fs (rs_uid o) (fs_mounts fs))).
Proof. intros fs Hs scope o Htd. apply static_restore_search_lemma; auto. Qed.
Print Assumptions restore_searches_exactly_these_directories.

(* ... and what it has in hand when it prints its list: exactly the entries in scope of those directories, in that order.
   readable (StaticList): the logger returns, an info file reads as a text or fails with an OSError / decoding error;
   listdir answers a list or an OSError (= no such directory).  entry_of: a .trashinfo name whose file is a text with a Path is the
   entry (location joined to the directory's volume, date when valid, info and payload path); dir_found keeps those whose
   location is the requested directory or lies beneath it (matches_path, C13's scope theorems). *)
Theorem restore_finds_exactly_the_entries_in_scope : forall fs, sane fs -> readable fs ->
  (forall p, (exists l, fs (Listdir p) = RList l) \/ (exists e, fs (Listdir p) = RErr e /\ is_OSError e = true)) ->
  forall scope o home_vol, ro_trash_dir o = None ->
  (forall p, In p (home_trash_dir_path_from_env (rs_environ o)) -> srun fs (volume_of p) = Done (home_vol p)) ->
  srun fs (all_files_trashed_from_path o scope)
  = Done (flat_map (fun p => dir_found fs scope (p, home_vol p)) (home_trash_dir_path_from_env (rs_environ o))
          ++ flat_map (dir_found fs scope) (restore_dirs_of_mounts fs (rs_uid o) (fs_mounts fs))).
Proof. intros fs Hs Hr Hl scope o hv Htd Hh. apply static_restore_found_lemma; assumption. Qed.
Print Assumptions restore_finds_exactly_the_entries_in_scope.

Definition ex_fs13 : statics := fun o =>
  match o with
  | Prog.Exists p => RBool (str_eqb p ($"/vol/.Trash/7"))
  | Isdir p => RBool (str_eqb p ($"/vol") || str_eqb p ($"/vol/.Trash") || str_eqb p ($"/vol/.Trash-7"))
  | Stat _ => RStat 17407%N 0%N
  | ListMounts => RList [$"/vol"; $"/gone"]
  | Listdir p => if str_eqb p ($"/vol/.Trash-7/info") then RList [$"a.trashinfo"; $"README"] else RList []
  | ReadText _ => RStr ($"[Trash Info]" ++ [10%N] ++ $"Path=d/a" ++ [10%N] ++ $"DeletionDate=2024-01-02T03:04:05" ++ [10%N])
  | _ => if bool_op o then RBool false else RUnit
  end.
Example ex_fs13_sane : sane ex_fs13.
Proof.
  constructor.
  - intros o Hb. destruct o; simpl in *; try discriminate; eauto.
  - intros p _. simpl. eauto.
  - simpl. eauto.
Qed.
Example ex_fs13_readable : readable ex_fs13
  /\ (forall p, (exists l, ex_fs13 (Listdir p) = RList l) \/ (exists e, ex_fs13 (Listdir p) = RErr e /\ is_OSError e = true)).
Proof.
  split; [constructor|].
  - intros o Hs. destruct o; simpl in *; try discriminate; reflexivity.
  - intros p. left. eexists. reflexivity.
  - intros p _. simpl. destruct (str_eqb p _); eexists; reflexivity.
  - intros p. left. simpl. destruct (str_eqb p _); eexists; reflexivity.
Qed.
Example found_in_scope_only :
  map tf_location (dir_found ex_fs13 ($"/vol/d") ($"/vol/.Trash-7", $"/vol")) = [$"/vol/d/a"]
  /\ dir_found ex_fs13 ($"/vol/dd") ($"/vol/.Trash-7", $"/vol") = []
  /\ dir_found ex_fs13 ($"/") ($"/vol/.Trash/7", $"/vol") = [].
Proof. repeat split; vm_compute; reflexivity. Qed.
Example both_directories_of_a_volume :
  restore_dirs_of_mounts ex_fs13 7%N (fs_mounts ex_fs13)
  = [($"/vol/.Trash/7", $"/vol"); ($"/vol/.Trash-7", $"/vol")].
Proof. vm_compute. reflexivity. Qed.

(* ---- non-vacuity ---- *)
Example prefix_sibling_not_in_scope : matches_path ($"/a/foobar") ($"/a/foo") = false /\ matches_path ($"/a/foo/x") ($"/a/foo") = true.
Proof. split; reflexivity. Qed.
Example reply_examples :
  parse_indexes ($"0,2-3") 5 = Selected [0; 2; 3] /\ parse_indexes ($"3-1") 5 = Selected []
  /\ parse_indexes ($"0,5") 5 = InvalidEntry /\ parse_indexes ($"1-2-3") 5 = UncaughtValueError
  /\ parse_indexes ($"-1") 5 = InvalidEntry.
Proof. repeat split; vm_compute; reflexivity. Qed.
Example out_of_range_reply_forbids_mutation :
  accepts sel_step (0%nat, Before)
    [(Out false ($"   0 d /a"), RUnit); (Input [], RStr ($"1")); (Move ($"/t/files/a") ($"/a"), RUnit)] = None.
Proof. vm_compute. reflexivity. Qed.
