(* C07 - trash-put picks the trash dir the spec prescribes, on the file's own volume.
   Proved (the decision logic, against every answer of the environment):
   (a) the home trash path from the environment: $XDG_DATA_HOME/Trash when set and not empty (/repo fix
       3cd844a), else $HOME/.local/share/Trash, else none;
   (b) every directory trash-put creates is created with mode 0700, and it never prompts without -i;
   (c) the home-fallback candidate exists only under --home-fallback and passes its gate only when
       TRASH_ENABLE_HOME_FALLBACK is exactly "1"; every other candidate passes only the same-volume gate,
       which compares the file's volume with the volume of realpath(normpath(trash dir));
   (d) the $topdir/.Trash/$uid candidate carries the security check, $topdir/.Trash-$uid does not; the order
       is home, .Trash/$uid, .Trash-$uid, (home fallback); --trash-dir restricts the list to that directory.
   That the string walk of volume_of finds the mount point of a canonical path, and that a same-volume move
   is one rename(2), are file-system facts: decided by the check's oracle over generated mount layouts. *)
From TV Require Import Prelude.Str Prelude.PosixPath Logic.OrigLoc Prog.Prog Cmd.Put Proofs.ProgProofs Proofs.PutMore Proofs.Independence Proofs.SkeletonMade.
From Coq Require Import List.
Import ListNotations.
Open Scope N_scope.

Theorem home_trash_from_env : forall env,
  home_trash_dir_path_from_env env =
  match env_get env s_XDG with
  | Some (c :: x) => [(c :: x) ++ $"/Trash"]
  | _ => match env_get env s_HOME with Some h => [h ++ $"/.local/share/Trash"] | None => [] end
  end.
Proof. reflexivity. Qed.
Print Assumptions home_trash_from_env.

Theorem dirs_private_and_no_prompt : forall o path,
  all_runs (fun t _ => Forall (fun p => put_op_ok o path (fst p)) t) (trash_single path o).
Proof. exact trash_single_ops_lemma. Qed.
Print Assumptions dirs_private_and_no_prompt.

(* the three directories of a trash directory (SkeletonMade.v, on runs as a relation): whenever the creator reports success it has asked
   for the trash directory, its files/ and its info/ - in this order, each with mode 0700, none skipped because another one is there;
   whatever it reports, what it asked for is a non-empty prefix of these three *)
Theorem skeleton_made : forall c t, run_of (make_candidate_dirs c) t (Done None) ->
  makedirs_of t = [(c_path c, 448); (cand_files_dir c, 448); (cand_info_dir c, 448)].
Proof. exact skeleton_made_lemma. Qed.
Print Assumptions skeleton_made.

Theorem skeleton_attempted : forall c t out, run_of (make_candidate_dirs c) t out ->
  exists n, makedirs_of t = firstn n [(c_path c, 448); (cand_files_dir c, 448); (cand_info_dir c, 448)] /\ (0 < n)%nat.
Proof. exact skeleton_attempted_lemma. Qed.
Print Assumptions skeleton_attempted.

Theorem fallback_gate_needs_env : forall vol c env, c_gate c = GateHomeFallback ->
  file_could_be_trashed_in vol c env =
  Ret (match env_get env s_FALLBACK with Some v => if str_eqb v [49] then None else Some RHomeFallbackNotEnabled
                                        | None => Some RHomeFallbackNotEnabled end).
Proof. intros vol c env H. unfold file_could_be_trashed_in. rewrite H. reflexivity. Qed.
Print Assumptions fallback_gate_needs_env.

Theorem same_volume_gate : forall vol c env, c_gate c = GateSameVolume ->
  file_could_be_trashed_in vol c env =
  (rp <- call_str (Realpath (normpath (c_path c))) ;; v <- volume_of rp ;;
   Ret (if str_eqb v vol then None else Some (RDifferentVolumes v vol))).
Proof. intros vol c env H. unfold file_could_be_trashed_in. rewrite H. reflexivity. Qed.
Print Assumptions same_volume_gate.

(* the candidate list: shape and order, for every answer to the volume probes *)

Theorem candidate_list_shape : forall volume o,
  po_trash_dir o = None ->
  all_runs (fun _ out => forall cs, out = Done cs ->
     let homes := home_trash_dir_path_from_env (po_environ o) in
     map cand_sig cs =
       map (fun p => (p, NoCheck, GateSameVolume, AbsolutePaths)) homes
       ++ [(volume_trash_dir1 volume (po_uid o), TopTrashDirCheck, GateSameVolume, RelativePaths);
           (volume_trash_dir2 volume (po_uid o), NoCheck, GateSameVolume, RelativePaths)]
       ++ (if po_home_fallback o then map (fun p => (p, NoCheck, GateHomeFallback, AbsolutePaths)) homes else []))
    (possible_trash_directories_for volume o).
Proof. exact candidate_list_shape_lemma. Qed.
Print Assumptions candidate_list_shape.

Example xdg_cases :
  home_trash_dir_path_from_env [($"XDG_DATA_HOME", []); ($"HOME", $"/h")] = [$"/h/.local/share/Trash"]
  /\ home_trash_dir_path_from_env [($"XDG_DATA_HOME", $"/x"); ($"HOME", $"/h")] = [$"/x/Trash"]
  /\ home_trash_dir_path_from_env [] = [].
Proof. repeat split. Qed.
