(* C14 - no purge without consent: --dry-run and a negative answer change nothing.
   Statements only; proofs in Proofs/EmptyProofs.v, Proofs/LogicProofs.v, Proofs/DryRunOne.v, Proofs/DryRunAnnounce.v.
   `all_runs P m` quantifies over EVERY sequence of well-typed answers the environment can give to the
   operations of m (Prog.v): every trash content, every listing order, every error, every reply. *)
From TV Require Import Prelude.Str Prelude.PosixPath Codec.TrashInfo Logic.Reply Prog.Prog Cmd.Put Cmd.Scan Cmd.Empty
  Proofs.ProgProofs Proofs.EmptyProofs Proofs.LogicProofs World.World Proofs.WorldProofs Proofs.WorldPurge
  Proofs.Independence Proofs.DryRunOne Proofs.DryRunAnnounce.
From Coq Require Import List.
Import ListNotations.
Open Scope N_scope.

(* trash-empty --dry-run issues no mutating operation at all (makedirs, exclusive create, write, close,
   move, remove, rmtree), whatever DAYS, --trash-dir, -v, -i/-f, the reply, the trash contents *)
Theorem dry_run_no_mutation : forall o, eo_dry_run o = true ->
  all_runs (fun t _ => Forall (fun p => is_mutator (fst p) = false) t) (empty_main o).
Proof. exact dry_run_no_mutation_lemma. Qed.
Print Assumptions dry_run_no_mutation.

(* the consent monitor (EmptyProofs.consent_step): a mutating operation is accepted only after consent is
   Granted: -f, or no -i and stdin not a terminal, or a reply to the prompt that parse_reply accepts.
   Any other reply, and end of input / Ctrl-C (an exception answer to Input), lead to Denied, where every
   mutator is rejected.  The theorem: no run is ever rejected. *)
Theorem no_mutation_without_consent : forall o,
  all_runs (fun t _ => accepts (consent_step (eo_interactive o)) Unknown t <> None) (empty_main o).
Proof. exact consent_lemma. Qed.
Print Assumptions no_mutation_without_consent.

(* which replies count as consent: exactly those beginning with 'y' or 'Y' *)
Theorem parse_reply_iff : forall r, parse_reply r = true <-> exists t, r = 121 :: t \/ r = 89 :: t.
Proof. exact parse_reply_iff_lemma. Qed.
Print Assumptions parse_reply_iff.

(* ---- on the tree of files (World.v): a dry run, and a run in which consent was not granted, leave every path of every
   file system they are consistent with exactly as it was (and the open-descriptor state too: World.same) ---- *)
Theorem dry_run_leaves_the_world_unchanged : forall o, eo_dry_run o = true ->
  all_runs (fun t _ => forall s s', wrun s t s' -> same s s') (empty_main o).
Proof. exact dry_run_world_unchanged_lemma. Qed.
Print Assumptions dry_run_leaves_the_world_unchanged.

Theorem without_consent_the_world_is_unchanged : forall o,
  all_runs (fun t _ => forall st, accepts (consent_step (eo_interactive o)) Unknown t = Some st -> st <> Granted ->
                                  forall s s', wrun s t s' -> same s s') (empty_main o).
Proof. exact no_consent_world_unchanged_lemma. Qed.
Print Assumptions without_consent_the_world_is_unchanged.

(* ---- what a dry run announces is what the real run goes for (DryRunAnnounce.v, on runs as a relation).  Per entry of info/: the
   decision [ok_to_delete] is a program in which --dry-run does not occur; after the same decision [ok] the dry run prints "would remove"
   for exactly [targets ok p] - the payload path and the info path of an approved entry, nothing for the others - and the real run probes
   these paths in this order (all of them when the entry is worked through) and removes no other path.  The same for a payload without
   .trashinfo. ---- *)
Theorem decision_ignores_dry_run : forall o b p, ok_to_delete (with_dry o b) p = ok_to_delete o p.
Proof. exact ok_to_delete_ignores_dry. Qed.
Print Assumptions decision_ignores_dry_run.

Theorem dry_run_announces_the_targets : forall o p t, eo_dry_run o = true -> run_of (empty_one_info o p) t (Done tt) ->
  exists t_ok ok t_out, run_of (ok_to_delete o p) t_ok (Done ok) /\ t = t_ok ++ t_out /\
                        map fst t_out = map would_remove (targets ok p).
Proof. exact dry_run_announces_lemma. Qed.
Print Assumptions dry_run_announces_the_targets.

Theorem real_run_goes_for_the_targets : forall o p t out, eo_dry_run o = false -> run_of (empty_one_info o p) t out ->
  (exists e, run_of (ok_to_delete o p) t (Uncaught e) /\ out = Uncaught e) \/
  exists t_ok ok t_rest, run_of (ok_to_delete o p) t_ok (Done ok) /\ t = t_ok ++ t_rest /\
    (forall x, In x (removal_paths t_rest) -> In x (targets ok p)) /\
    (exists n, probed t_rest = firstn n (targets ok p)) /\
    (out = Done tt -> probed t_rest = targets ok p).
Proof. exact real_run_targets_lemma. Qed.
Print Assumptions real_run_goes_for_the_targets.

Theorem orphan_announced_and_targeted : forall o info_dir files_dir entry t out,
  run_of (empty_orphan o info_dir files_dir entry) t out ->
  exists r t_rest, t = (Prog.Exists (join2 info_dir (entry ++ s_trashinfo)), r) :: t_rest /\
    match r with
    | RBool true => t_rest = []
    | RBool false =>
        if eo_dry_run o then map fst t_rest = [would_remove (join2 files_dir entry)]
        else (forall x, In x (removal_paths t_rest) -> x = join2 files_dir entry) /\ (out = Done tt -> probed t_rest = [join2 files_dir entry])
    | _ => t_rest = []
    end.
Proof. exact orphan_announced_and_targeted_lemma. Qed.
Print Assumptions orphan_announced_and_targeted.

Example targets_of_an_approved_entry :
  targets true ($"/t/info/a.trashinfo") = [$"/t/files/a"; $"/t/info/a.trashinfo"] /\ targets false ($"/t/info/a.trashinfo") = [].
Proof. split; vm_compute; reflexivity. Qed.

(* ---- non-vacuity: the monitor does reject something, and a denied run with a mutator is rejected ---- *)
Example consent_rejects_mutator_after_no :
  accepts (consent_step (Some true)) Unknown
    [(IsAtty, RBool false); (Input [], RStr ($"n")); (Remove ($"/t/files/a"), RUnit)] = None.
Proof. reflexivity. Qed.
Example consent_accepts_after_yes :
  accepts (consent_step (Some true)) Unknown
    [(IsAtty, RBool false); (Input [], RStr ($"Yes")); (Remove ($"/t/files/a"), RUnit)] = Some Granted.
Proof. reflexivity. Qed.
Example consent_rejects_on_eof :
  accepts (consent_step None) Unknown
    [(IsAtty, RBool true); (Input [], RErr EOFError); (Rmtree ($"/t/files/a"), RUnit)] = None.
Proof. reflexivity. Qed.
