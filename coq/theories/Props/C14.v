(* C14 - no purge without consent: --dry-run and a negative answer change nothing.
   Statements only; proofs in Proofs/EmptyProofs.v, Proofs/LogicProofs.v.
   `all_runs P m` quantifies over EVERY sequence of well-typed answers the environment can give to the
   operations of m (Prog.v): every trash content, every listing order, every error, every reply. *)
From TV Require Import Prelude.Str Logic.Reply Prog.Prog Cmd.Put Cmd.Scan Cmd.Empty
  Proofs.ProgProofs Proofs.EmptyProofs Proofs.LogicProofs World.World Proofs.WorldProofs Proofs.WorldPurge.
Open Scope N_scope.

(* trash-empty --dry-run issues no mutating operation at all (makedirs, exclusive create, write, close,
   move, remove, rmtree), whatever DAYS, --trash-dir, -v, -i/-f, the reply, the trash contents *)
Theorem dry_run_no_mutation : forall o, eo_dry_run o = true ->
  all_runs (fun t _ => Forall (fun p => is_mutator (fst p) = false) t) (empty_main o).
Proof. exact dry_run_no_mutation_lemma. Qed.
Print Assumptions dry_run_no_mutation.

(* the consent monitor (EmptyProofs.consent_step): a mutating operation is accepted only after consent is
   Granted: -f, or no -i and stdin not a terminal, or a reply to the prompt that parse_reply accepts.
   Any other reply, and end of input / Ctrl-C (an exception answer to Input), lead to Denied, where every
   mutator is rejected.  The theorem: no run is ever rejected. *)
Theorem no_mutation_without_consent : forall o,
  all_runs (fun t _ => accepts (consent_step (eo_interactive o)) Unknown t <> None) (empty_main o).
Proof. exact consent_lemma. Qed.
Print Assumptions no_mutation_without_consent.

(* which replies count as consent: exactly those beginning with 'y' or 'Y' *)
Theorem parse_reply_iff : forall r, parse_reply r = true <-> exists t, r = 121 :: t \/ r = 89 :: t.
Proof. exact parse_reply_iff_lemma. Qed.
Print Assumptions parse_reply_iff.

(* ---- on the tree of files (World.v): a dry run, and a run in which consent was not granted, leave every path of every
   file system they are consistent with exactly as it was (and the open-descriptor state too: World.same) ---- *)
Theorem dry_run_leaves_the_world_unchanged : forall o, eo_dry_run o = true ->
  all_runs (fun t _ => forall s s', wrun s t s' -> same s s') (empty_main o).
Proof. exact dry_run_world_unchanged_lemma. Qed.
Print Assumptions dry_run_leaves_the_world_unchanged.

Theorem without_consent_the_world_is_unchanged : forall o,
  all_runs (fun t _ => forall st, accepts (consent_step (eo_interactive o)) Unknown t = Some st -> st <> Granted ->
                                  forall s s', wrun s t s' -> same s s') (empty_main o).
Proof. exact no_consent_world_unchanged_lemma. Qed.
Print Assumptions without_consent_the_world_is_unchanged.

(* ---- non-vacuity: the monitor does reject something, and a denied run with a mutator is rejected ---- *)
Example consent_rejects_mutator_after_no :
  accepts (consent_step (Some true)) Unknown
    [(IsAtty, RBool false); (Input [], RStr ($"n")); (Remove ($"/t/files/a"), RUnit)] = None.
Proof. reflexivity. Qed.
Example consent_accepts_after_yes :
  accepts (consent_step (Some true)) Unknown
    [(IsAtty, RBool false); (Input [], RStr ($"Yes")); (Remove ($"/t/files/a"), RUnit)] = Some Granted.
Proof. reflexivity. Qed.
Example consent_rejects_on_eof :
  accepts (consent_step None) Unknown
    [(IsAtty, RBool true); (Input [], RErr EOFError); (Rmtree ($"/t/files/a"), RUnit)] = None.
Proof. reflexivity. Qed.
