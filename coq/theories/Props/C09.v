(* C09 - trash-list shows exactly what is in the trash after any history of commands.
   FULL STATEMENT (the bag view over whole histories of the five commands is decided by the check's oracle against an
   independent bag model; the per-command facts it rests on are theorems here and in C05/C10/C12/C13/C15, on traces and on
   the file-system model World): the multiset of lines trash-list prints = { date ++ " " ++ path } over
   the entries present in the home trash and every usable volume trash directory.
   PROVED HERE (what trash-list does with what it finds, for every content):
   (a) one readable entry with a Path line yields exactly ONE stdout record  date SP volume-joined-path LF  -
       the date as trash-restore/-empty read it (C20), question marks when undated - and nothing on stderr;
   (b) every other info file yields no stdout record, only a diagnostic on stderr;
   (f) THE FULL STATEMENT AT THE LEVEL OF THE MODEL, for a file system that holds still while trash-list runs
       (list_prints_exactly_the_entries, Proofs/StaticList.v): the standard output is exactly, directory by directory over the home
       trash and every usable volume trash directory, one line  date SP absolute-path LF  per .trashinfo name of info/ that reads
       as a text with a Path - nothing for anything else, nothing twice, nothing from anywhere else - and the exit status is 0;
   (c) which directories are scanned: the home trash, and per volume .Trash/$uid only when secure (C08) and
       .Trash-$uid when it is a directory: Scan.scan_trash_dirs - and that this is ALL of them, each once, in order, for every
       consumer of the scan, under a file system that holds still while it is looked at (Proofs/StaticScan.v:
       scanner_visits_exactly_the_usable_directories, list_visits_exactly_the_usable_directories,
       asked_about_exactly_the_usable_directories; with --all-users: the same for every entry of the password database);
   (d) the commands that change the bag do so entry-wise: put adds one pair after the other checks (C05),
       restore/rm/empty remove payload then info of exactly the selected entries (C13, C12, C10, C15);
   (e) trash-list itself changes nothing: it issues no mutating operation, every file system a run is consistent with is
       afterwards what it was (list_issues_no_mutation, list_changes_nothing). *)
From TV Require Import Prelude.Str Prelude.PosixPath Codec.TrashInfo Prog.Prog Cmd.Put Cmd.Scan Cmd.ListCmd Proofs.ProgProofs World.World Proofs.ListReadOnly Proofs.Independence Proofs.AsIfAbsent Proofs.StaticScan Proofs.StaticList.
From Coq Require Import List.
Import ListNotations.
Open Scope N_scope.

(* looking is not touching: trash-list issues no mutating operation, so every file system a run is consistent with is afterwards
   what it was - what it showed is still there *)
Theorem list_issues_no_mutation : forall o,
  all_runs (fun t _ => Forall (fun p => is_mutator (fst p) = false) t) (list_main o).
Proof. exact list_issues_no_mutation_lemma. Qed.
Print Assumptions list_issues_no_mutation.

Theorem list_changes_nothing : forall o,
  all_runs (fun t _ => forall s s', wrun s t s' -> same s s') (list_main o).
Proof. exact list_changes_nothing_lemma. Qed.
Print Assumptions list_changes_nothing.

(* (a) and (b) over EVERY run (AsIfAbsent.v): a run of the per-entry handler that begins with a successful read of a text carrying a Path
   puts exactly one record on standard output - the date as read (question marks when undated), a blank, the location joined to the
   volume, the payload path under --files; a run that begins with a failed read, or with a text without Path, puts nothing there *)
Theorem readable_entry_exactly_one_record : forall o volume p t c rel t', lo_size o = false ->
  run_of (print_trashinfo o volume p) t (Done tt) -> t = (ReadText p, RStr c) :: t' -> parse_path c = Some rel ->
  map fst (filter stdout_ev t) = [Out false (list_record o volume p c rel)].
Proof. exact list_entry_one_record_lemma. Qed.
Print Assumptions readable_entry_exactly_one_record.

Theorem unreadable_or_pathless_entry_no_record : forall o volume p t,
  run_of (print_trashinfo o volume p) t (Done tt) -> pathless t -> filter stdout_ev t = [].
Proof. exact list_pathless_silent. Qed.
Print Assumptions unreadable_or_pathless_entry_no_record.

Theorem one_entry_one_line : forall o volume p contents rel,
  lo_size o = false -> lo_files o = false -> parse_path contents = Some rel ->
  run_oracle (print_trashinfo o volume p) [RStr contents]
  = ([(ReadText p, RStr contents);
      (Out false ((maybe_parse_deletion_date contents ++ [c_space] ++ join2 volume rel) ++ [c_nl]), RUnit)], Done tt).
Proof.
  intros o volume p contents rel Hs Hf Hp.
  cbv [print_trashinfo call_str call bind catch run_oracle is_silent println printerr out call_unit is_OSError].
  rewrite Hp, Hs, Hf. reflexivity.
Qed.
Print Assumptions one_entry_one_line.

Theorem unparsable_entry_no_line : forall o volume p contents,
  parse_path contents = None ->
  exists t, run_oracle (print_trashinfo o volume p) [RStr contents] = ([(ReadText p, RStr contents); (Log WARNING true t, RUnit)], Done tt).
Proof.
  intros o volume p contents Hp. eexists.
  cbv [print_trashinfo call_str call bind catch run_oracle is_silent println printerr out call_unit is_OSError].
  rewrite Hp. reflexivity.
Qed.
Print Assumptions unparsable_entry_no_line.

Example list_line :
  fst (run_oracle (print_trashinfo (mklist [] false false [] 0 None) ($"/vol") ($"/vol/.Trash-0/info/a.trashinfo"))
         [RStr ($"[Trash Info]" ++ [10] ++ $"Path=d/a%20b" ++ [10] ++ $"DeletionDate=2024-01-02T03:04:05" ++ [10])])
  = [(ReadText ($"/vol/.Trash-0/info/a.trashinfo"), RStr ($"[Trash Info]" ++ [10] ++ $"Path=d/a%20b" ++ [10] ++ $"DeletionDate=2024-01-02T03:04:05" ++ [10]));
     (Out false ($"2024-01-02 03:04:05 /vol/d/a b" ++ [10]), RUnit)].
Proof. vm_compute. reflexivity. Qed.

(* ---- every usable trash directory, and nothing else (Proofs/StaticScan.v) ----
   `fs : op -> res` is a file system that holds still: every operation has one answer; `sane`: predicates answer yes or no, a
   directory can be stat'ed, the mount table can be read.  `selected_events fs all_users env uid` is the declarative list: per user
   (the caller, or every entry of the password database with --all-users) the home trash, then per volume (TRASH_VOLUMES, else
   the mount points that are directories)  $topdir/.Trash/$uid  if it exists and $topdir/.Trash is a sticky directory and not a
   link (a skip event otherwise),  $topdir/.Trash-$uid  if it is a directory.  For EVERY consumer h the scan is h applied to
   exactly these events in this order (sfold): none left out, none twice, nothing else. *)
Theorem scanner_visits_exactly_the_usable_directories :
  forall fs (S : Type) (h : S -> scan_event -> prog S) all_users env uid s, sane fs ->
  srun fs (select_trash_dirs h all_users [] env uid s) = sfold fs h (selected_events fs all_users env uid) s.
Proof. intros. apply static_select_lemma. assumption. Qed.
Print Assumptions scanner_visits_exactly_the_usable_directories.

(* in terms of runs: a run of trash-list all of whose answers are the static ones ends as the per-directory handler applied
   to exactly those events ends *)
Theorem list_visits_exactly_the_usable_directories : forall fs o, sane fs -> lo_trash_dirs o = [] ->
  all_runs (fun t out => Forall (fun p => snd p = fs (fst p)) t ->
              out = then_run (sfold fs (list_handle o) (selected_events fs (lo_all_users o) (lo_environ o) (lo_uid o)) tt)
                             (fun _ => Done 0))
           (list_main o).
Proof. exact static_list_lemma. Qed.
Print Assumptions list_visits_exactly_the_usable_directories.

(* what interactive trash-empty asks about (list(trash_dirs)) is that list *)
Theorem asked_about_exactly_the_usable_directories : forall fs all_users env uid, sane fs ->
  srun fs (select_trash_dirs (fun acc ev => Ret (acc ++ [ev])) all_users [] env uid []) = Done (selected_events fs all_users env uid).
Proof. exact static_collect_lemma. Qed.
Print Assumptions asked_about_exactly_the_usable_directories.

(* non-vacuity: a sane file system with a sticky /vol/.Trash holding the caller's directory, and a /vol/.Trash-7 *)
Definition ex_fs : statics := fun o =>
  match o with
  | Prog.Exists p => RBool (str_eqb p ($"/vol/.Trash/7"))
  | Isdir p => RBool (str_eqb p ($"/vol/.Trash") || str_eqb p ($"/vol/.Trash-7"))
  | Stat _ => RStat 17407 0
  | ListMounts => RList []
  | _ => if bool_op o then RBool false else RUnit
  end.
Example ex_fs_sane : sane ex_fs.
Proof.
  constructor.
  - intros o Hb. destruct o; simpl in *; try discriminate; eauto.
  - intros p _. simpl. eauto.
  - simpl. eauto.
Qed.
Example ex_fs_events :
  selected_events ex_fs None [($"HOME", $"/home/u"); ($"TRASH_VOLUMES", $"/vol")] 7
  = [Found ($"/home/u/.local/share/Trash") ($"/"); Found ($"/vol/.Trash/7") ($"/vol"); Found ($"/vol/.Trash-7") ($"/vol")]
  /\ selected_events ex_fs (Some [($"/home/a", 7); ($"/home/b", 8)]) [($"TRASH_VOLUMES", $"/vol")] 0
  = [Found ($"/home/a/.local/share/Trash") ($"/"); Found ($"/vol/.Trash/7") ($"/vol"); Found ($"/vol/.Trash-7") ($"/vol");
     Found ($"/home/b/.local/share/Trash") ($"/")].
Proof. split; vm_compute; reflexivity. Qed.

(* ---- the full statement, for a file system that holds still (Proofs/StaticList.v) ----
   souts fs m: what m writes to standard output under fs.  readable fs: writing to the terminal succeeds; reading an info file
   gives a text or fails with an OSError / a decoding error; an existing info/ can be listed.
   event_lines fs (Found td v) = for each .trashinfo name x of the listing of td/info, the line
   maybe_parse_deletion_date c ++ " " ++ join2 v rel ++ LF  when td/info/x reads as a text c with parse_path c = Some rel, nothing
   otherwise; a skipped directory contributes nothing (its diagnostic goes to stderr). *)
Theorem list_prints_exactly_the_entries : forall fs o, sane fs -> readable fs ->
  lo_size o = false -> lo_files o = false -> lo_trash_dirs o = [] ->
  souts fs (list_main o) = flat_map (event_lines fs) (selected_events fs (lo_all_users o) (lo_environ o) (lo_uid o))
  /\ srun fs (list_main o) = Done 0.
Proof. intros fs o Hs Hr Hsz Hf Hd. apply static_list_output_lemma; assumption. Qed.
Print Assumptions list_prints_exactly_the_entries.

(* non-vacuity: /vol/.Trash-7/info lists a.trashinfo (readable), b.trashinfo (unreadable) and a stray file *)
Definition ex_info := Eval compute in $"/vol/.Trash-7/info".
Definition ex_fs2 : statics := fun o =>
  match o with
  | Prog.Exists p => RBool (str_eqb p ex_info)
  | Isdir p => RBool (str_eqb p ($"/vol/.Trash-7"))
  | Stat _ => RStat 17407 0
  | ListMounts => RList []
  | Listdir _ => RList [$"a.trashinfo"; $"junk"; $"b.trashinfo"]
  | ReadText p => if str_eqb p (ex_info ++ $"/a.trashinfo")
                  then RStr ($"[Trash Info]" ++ [10] ++ $"Path=d/a%20b" ++ [10] ++ $"DeletionDate=2024-01-02T03:04:05" ++ [10])
                  else RErr (OSError 13)
  | _ => if bool_op o then RBool false else RUnit
  end.
Example ex_fs2_sane : sane ex_fs2 /\ readable ex_fs2.
Proof.
  split; constructor.
  - intros o Hb. destruct o; simpl in *; try discriminate; eauto.
  - intros p _. simpl. eauto.
  - simpl. eauto.
  - intros o Hs. destruct o; simpl in *; try discriminate; reflexivity.
  - intros p. simpl. destruct (str_eqb p _); [left|right]; eauto.
  - intros p _. simpl. eauto.
Qed.
Example ex_fs2_output :
  souts ex_fs2 (list_main (mklist [] false false [($"TRASH_VOLUMES", $"/vol")] 7 None))
  = [$"2024-01-02 03:04:05 /vol/d/a b" ++ [10]].
Proof. vm_compute. reflexivity. Qed.
