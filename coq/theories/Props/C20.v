(* C20 - all commands read a trash directory the same way.
   In the model trash-list, trash-restore, trash-rm and trash-empty call the SAME functions on the text of an
   info file (Codec/TrashInfo.v: parse_path = first "Path=" line percent-decoded; date_of = first
   "DeletionDate=" line), and each joins the Path with the volume it attaches to the directory.  The
   correspondence check ties each command's real output to these functions.  The theorems: the four
   readers compute the same location and date from the same (contents, volume); unknown lines, extra
   sections, duplicate keys after the first do not matter; an absolute Path ignores the volume.
   Where they can differ is the VOLUME each attaches to the home trash directory (known finding:
   list/rm/empty hard-code "/", restore uses volume_of(home trash)). *)
From TV Require Import Prelude.Str Prelude.PosixPath Codec.DateFmt Codec.TrashInfo Prog.Prog
  Cmd.Put Cmd.Scan Cmd.ListCmd Cmd.Restore Cmd.Rm Cmd.Empty.
Open Scope N_scope.

(* restore's location = list's location = rm's subject, from the same contents and volume *)
Theorem readers_agree_on_location : forall contents volume,
  parse_original_location contents volume
  = match parse_path contents with Some rel => Some (join2 volume rel) | None => None end.
Proof. reflexivity. Qed.
Print Assumptions readers_agree_on_location.

(* the date trash-restore shows/sorts by and trash-empty compares is the date trash-list prints *)
Theorem readers_agree_on_date : forall contents,
  (parse_deletion_date contents = None -> maybe_parse_deletion_date contents = s_unknown_date)
  /\ (forall d, parse_deletion_date contents = Some d -> maybe_parse_deletion_date contents = str_of_datetime d).
Proof.
  intros contents. unfold parse_deletion_date, maybe_parse_deletion_date.
  destruct (date_of contents); split; try reflexivity; try discriminate; intros d0 [= <-]; reflexivity.
Qed.
Print Assumptions readers_agree_on_date.

(* an absolute Path is kept whatever the volume; a relative one is resolved against the volume *)
Theorem absolute_path_kept : forall volume rel, isabs rel = true -> join2 volume rel = rel.
Proof. intros volume rel H. unfold join2, isabs in *. rewrite H. reflexivity. Qed.
Print Assumptions absolute_path_kept.

(* only the first Path= / DeletionDate= line counts; lines before it that do not start with the key are skipped *)
Theorem first_path_line_wins : forall l ls, starts_with l s_Path = true -> first_path (l :: ls) = Some (Codec.Quote.unquote (skipn 5 l)).
Proof. intros l ls H. cbn [first_path]. rewrite H. reflexivity. Qed.
Theorem other_lines_skipped : forall l ls, starts_with l s_Path = false -> first_path (l :: ls) = first_path ls.
Proof. intros l ls H. cbn [first_path]. rewrite H. reflexivity. Qed.
Print Assumptions first_path_line_wins.
Print Assumptions other_lines_skipped.

Example foreign_file :
  let c := $"[Other]" ++ [10] ++ $"Foo=bar" ++ [10] ++ $"Path=a%20b" ++ [10] ++ $"Path=second" ++ [10]
           ++ $"DeletionDate=bogus" ++ [10] ++ $"DeletionDate=2001-01-01T00:00:00" ++ [10] in
  parse_original_location c ($"/vol") = Some ($"/vol/a b") /\ parse_deletion_date c = None
  /\ maybe_parse_deletion_date c = s_unknown_date.
Proof. vm_compute. repeat split. Qed.
