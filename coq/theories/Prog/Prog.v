(* Programs: a free monad over the LIBRARY-BOUNDARY operations trash-cli performs
   (os.path.*, os.*, shutil.*, open().read(), input(), the clock, random.randint, output).
   A program does not know what the operations do: it only reacts to their results.
   Three ways to run one: against a list of answers (run_oracle - used by the correspondence check
   with the answers the real run received), and universally over all well-typed answers
   (all_runs - used by the theorems).  Definitions only; lemmas are in Proofs/ProgProofs.v. *)
From TV Require Import Prelude.Str Codec.DateFmt.
Open Scope N_scope.

Inductive exn :=
| OSError (e : N)          (* errno *)
| ShutilError              (* shutil.Error, a subclass of OSError *)
| UnicodeDecodeError | UnicodeEncodeError | ParseError | ValueErrorE    (* all ValueError *)
| TypeErrorE | IndexErrorE | OverflowErrorE
| EOFError | KeyboardInterrupt.

Definition is_OSError (e : exn) : bool := match e with OSError _ | ShutilError => true | _ => false end.
Definition is_ValueError (e : exn) : bool :=
  match e with UnicodeDecodeError | UnicodeEncodeError | ParseError | ValueErrorE => true | _ => false end.
Definition is_UnicodeError (e : exn) : bool :=
  match e with UnicodeDecodeError | UnicodeEncodeError => true | _ => false end.

Definition EEXIST := 17.  Definition ENAMETOOLONG := 36.  Definition EBUSY := 16.  Definition ENOENT := 2.

Inductive level := WARNING | INFO | DEBUG.

Inductive op :=
(* probes *)
| Lexists (p : str) | Exists (p : str) | Isdir (p : str) | Isfile (p : str) | Islink (p : str) | Ismount (p : str)
| Access (p : str) | Stat (p : str) | Getsize (p : str)
| Realpath (p : str) | Abspath (p : str) | Listdir (p : str) | ReadText (p : str) | ListMounts
(* mutators *)
| Makedirs (p : str) (mode : N) | OpenExcl (p : str) | WriteFd (b : bytes) | CloseFd
| Move (src dst : str) | Remove (p : str) | Rmtree (p : str)
(* world I/O *)
| Now | RandInt (lo hi : Z) | Input (prompt : str) | IsAtty
(* output: answered with RUnit without consuming an answer *)
| Out (to_stderr : bool) (text : str)                    (* exact text written *)
| Log (lv : level) (exact : bool) (text : str).           (* trash-put's logger: one line; exact=false: a prefix *)

Inductive res :=
| RUnit | RBool (b : bool) | RStr (s : str) | RList (l : list str) | RStat (mode size : N) | RZ (z : Z)
| RDate (d : datetime) | RErr (e : exn).

Definition is_mutator (o : op) : bool :=
  match o with
  | Makedirs _ _ | OpenExcl _ | WriteFd _ | CloseFd | Move _ _ | Remove _ | Rmtree _ => true
  | _ => false
  end.
Definition is_silent (o : op) : bool := match o with Out _ _ | Log _ _ _ => true | _ => false end.

Inductive prog (A : Type) : Type :=
| Ret (a : A)
| Throw (e : exn)
| Do (o : op) (k : res -> prog A).
Arguments Ret {A}. Arguments Throw {A}. Arguments Do {A}.

Fixpoint bind {A B} (m : prog A) (f : A -> prog B) : prog B :=
  match m with
  | Ret a => f a
  | Throw e => Throw e
  | Do o k => Do o (fun r => bind (k r) f)
  end.

(* try: m  except <handler>:  - the handler decides by the exception whether it catches *)
Fixpoint catch {A} (m : prog A) (h : exn -> option (prog A)) : prog A :=
  match m with
  | Ret a => Ret a
  | Throw e => match h e with Some p => p | None => Throw e end
  | Do o k => Do o (fun r => catch (k r) h)
  end.

Notation "x <- m ;; f" := (bind m (fun x => f)) (at level 61, m at next level, right associativity).
Notation "m ;;; f" := (bind m (fun _ => f)) (at level 61, right associativity).

(* issuing one operation: an RErr answer is a raised exception *)
Definition call (o : op) : prog res :=
  Do o (fun r => match r with RErr e => Throw e | _ => Ret r end).
(* a result of the wrong shape cannot happen with well-typed answers; TypeErrorE keeps the function total *)
Definition call_bool (o : op) : prog bool := r <- call o ;; match r with RBool b => Ret b | _ => Throw TypeErrorE end.
Definition call_unit (o : op) : prog unit := r <- call o ;; Ret tt.
Definition call_str (o : op) : prog str := r <- call o ;; match r with RStr s => Ret s | _ => Throw TypeErrorE end.
Definition call_list (o : op) : prog (list str) := r <- call o ;; match r with RList l => Ret l | _ => Throw TypeErrorE end.
Definition call_stat (o : op) : prog (N * N) := r <- call o ;; match r with RStat m s => Ret (m, s) | _ => Throw TypeErrorE end.
Definition call_z (o : op) : prog Z := r <- call o ;; match r with RZ z => Ret z | _ => Throw TypeErrorE end.
Definition call_date (o : op) : prog datetime := r <- call o ;; match r with RDate d => Ret d | _ => Throw TypeErrorE end.
Definition out (text : str) : prog unit := call_unit (Out false text).
Definition err (text : str) : prog unit := call_unit (Out true text).
Definition log (lv : level) (exact : bool) (text : str) : prog unit := call_unit (Log lv exact text).

Fixpoint for_each {A} (l : list A) (body : A -> prog unit) : prog unit :=
  match l with
  | [] => Ret tt
  | x :: l' => body x ;;; for_each l' body
  end.

Inductive outcome (A : Type) := Done (a : A) | Uncaught (e : exn) | Stuck.
Arguments Done {A}. Arguments Uncaught {A}. Arguments Stuck {A}.
Definition trace := list (op * res).

(* run against the answers the environment gave; silent operations take no answer *)
Fixpoint run_oracle {A} (m : prog A) (ans : list res) : trace * outcome A :=
  match m with
  | Ret a => ([], Done a)
  | Throw e => ([], Uncaught e)
  | Do o k =>
    if is_silent o then let '(t, out) := run_oracle (k RUnit) ans in ((o, RUnit) :: t, out)
    else match ans with
         | [] => ([(o, RUnit)], Stuck)      (* the model wants an operation the real run never made *)
         | r :: ans' => let '(t, out) := run_oracle (k r) ans' in ((o, r) :: t, out)
         end
  end.

(* a directory entry name as os.listdir can return it: not empty, no '/', not "." or ".." *)
Definition valid_name (x : str) : bool :=
  match x with [] => false | _ => negb (mem c_slash x) && negb (str_eqb x [c_dot]) && negb (str_eqb x [c_dot; c_dot]) end.

(* which answers an operation can receive: a value of its type, or an exception of a kind it can raise *)
Definition valid_res (o : op) (r : res) : bool :=
  match o, r with
  | (Out _ _ | Log _ _ _), RUnit => true
  | (Out _ _ | Log _ _ _), _ => false
  (* os.path.exists/lexists/isdir/isfile/islink/ismount, os.access and os.isatty never raise: they answer False *)
  | (Lexists _ | Exists _ | Isdir _ | Isfile _ | Islink _ | Ismount _ | Access _ | IsAtty), RErr _ => false
  (* neither do the clock and the random generator *)
  | (Now | RandInt _ _), RErr _ => false
  | _, RErr (OSError _) => true
  | Move _ _, RErr ShutilError => true
  | ReadText _, RErr UnicodeDecodeError => true
  | Input _, RErr EOFError => true
  | Input _, RErr KeyboardInterrupt => true
  | _, RErr _ => false
  | (Lexists _ | Exists _ | Isdir _ | Isfile _ | Islink _ | Ismount _ | Access _ | IsAtty), RBool _ => true
  | Stat _, RStat _ _ => true
  | Getsize _, RZ _ => true
  | (Realpath _ | Abspath _ | ReadText _ | Input _), RStr _ => true
  | Listdir _, RList l => forallb valid_name l
  | ListMounts, RList _ => true
  | (Makedirs _ _ | OpenExcl _ | WriteFd _ | CloseFd | Move _ _ | Remove _ | Rmtree _), RUnit => true
  | Now, RDate _ => true
  | RandInt _ _, RZ _ => true
  | _, _ => false
  end.

(* P holds of every run: for every choice of well-typed answers *)
Fixpoint all_runs {A} (P : trace -> outcome A -> Prop) (m : prog A) : Prop :=
  match m with
  | Ret a => P [] (Done a)
  | Throw e => P [] (Uncaught e)
  | Do o k => forall r, valid_res o r = true -> all_runs (fun t out => P ((o, r) :: t) out) (k r)
  end.

(* environment lookups *)
Definition environ := list (str * str).
Fixpoint env_get (env : environ) (k : str) : option str :=
  match env with
  | [] => None
  | (k', v) :: env' => if str_eqb k k' then Some v else env_get env' k
  end.
