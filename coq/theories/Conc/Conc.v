(* C04: n concurrent trash-put processes sharing one trash directory, cut at their atomic file-system steps.
   Shared state: the info files (the reservation tokens), the payloads, and each process' program counter.
   Names and pids are nat; `cand p i` = the name process p tries at index i (basename ++ suffix(i): "", _1.._99,
   then random suffixes - here an ARBITRARY function, so every suffix policy is covered).
   A step of process p (the scheduler picks p; `fail` = the environment makes this operation fail on its own):
     Probe i  : os.path.exists(files/N)  - visible -> next index, else go and create
     Create i : os.open(info/N.trashinfo, O_CREAT|O_EXCL) - EEXIST (any info there) or fail -> next index
     MoveP i  : rename(payload, files/N)  (overwrites whatever is there, as rename(2) does) - may fail
     Unres i  : the move failed: remove the own info again
   Definitions only; the invariant proof is in Proofs/ConcProofs.v. *)
From Coq Require Import List Arith Bool Lia.
Import ListNotations.
(* names and pids are nat; cand p i = the name process p tries at index i (base ++ suffix(i), arbitrary) *)
Section Conc.
Variable cand : nat -> nat -> nat.
Variable vis_old : nat -> bool.        (* is the pre-existing payload under name n seen by os.path.exists? *)
Variable vis_new : nat -> bool.        (* is process p's own payload visible once moved (false for a dangling link) *)
Inductive payload := Old (x:nat) | New (p:nat).
Inductive pst := Probe (i:nat) | Create (i:nat) | MoveP (i:nat) | Unres (i:nat) | DoneOk (i:nat) | DoneFail.
Record sh := { infos : nat -> option (option nat)   (* None absent; Some None pre-existing; Some (Some p) created by p *)
             ; files : nat -> option payload
             ; procs : nat -> pst }.
Definition upd {A} (f: nat -> A) (k:nat) (v:A) : nat -> A := fun x => if Nat.eqb x k then v else f x.
Definition visible (s:sh) (n:nat) : bool :=
  match files s n with None => false | Some (Old _) => vis_old n | Some (New p) => vis_new p end.
(* ev: environment choice for this step: true = the operation fails for its own reasons *)
Definition step (s:sh) (p:nat) (fail:bool) : sh :=
  match procs s p with
  | Probe i => let n := cand p i in
               {| infos := infos s; files := files s;
                  procs := upd (procs s) p (if visible s n then Probe (S i) else Create i) |}
  | Create i => let n := cand p i in
               match infos s n with
               | Some _ => {| infos := infos s; files := files s; procs := upd (procs s) p (Probe (S i)) |}   (* EEXIST *)
               | None => if fail then {| infos := infos s; files := files s; procs := upd (procs s) p (Probe (S i)) |}
                         else {| infos := upd (infos s) n (Some (Some p)); files := files s; procs := upd (procs s) p (MoveP i) |}
               end
  | MoveP i => let n := cand p i in
               if fail then {| infos := infos s; files := files s; procs := upd (procs s) p (Unres i) |}
               else {| infos := infos s; files := upd (files s) n (Some (New p)); procs := upd (procs s) p (DoneOk i) |}
  | Unres i => let n := cand p i in
               {| infos := upd (infos s) n None; files := files s; procs := upd (procs s) p DoneFail |}
  | DoneOk _ | DoneFail => s
  end.
Fixpoint run (s:sh) (sched: list (nat*bool)) : sh :=
  match sched with [] => s | (p,f)::r => run (step s p f) r end.

Definition holds (st:pst) : option nat := match st with MoveP i | Unres i | DoneOk i => Some i | _ => None end.
Record Inv (s0 s: sh) : Prop := {
  I_own  : forall p i, holds (procs s p) = Some i -> infos s (cand p i) = Some (Some p);
  I_info : forall n p, infos s n = Some (Some p) -> exists i, holds (procs s p) = Some i /\ cand p i = n;
  I_new  : forall n p, files s n = Some (New p) -> exists i, procs s p = DoneOk i /\ cand p i = n;
  I_done : forall p i, procs s p = DoneOk i -> files s (cand p i) = Some (New p);
  I_oldi : forall n, infos s0 n <> None -> infos s n = infos s0 n;
  I_oldf : forall n x, files s0 n = Some (Old x) -> (infos s0 n <> None \/ vis_old n = true) -> files s n = Some (Old x);
  I_mv   : forall p i, procs s p = MoveP i -> infos s0 (cand p i) = None /\
                       (files s (cand p i) = None \/ exists x, files s (cand p i) = Some (Old x) /\ files s0 (cand p i) = Some (Old x) /\ vis_old (cand p i) = false);
  I_cr   : forall p i, procs s p = Create i -> (files s (cand p i) = None \/ (exists x, files s (cand p i) = Some (Old x) /\ files s0 (cand p i) = Some (Old x) /\ vis_old (cand p i) = false) \/ exists q, files s (cand p i) = Some (New q));
  I_f0   : forall n x, files s n = Some (Old x) -> files s0 n = Some (Old x)
}.
End Conc.

