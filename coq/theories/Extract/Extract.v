(* Extraction of the executable model to OCaml. ExtrOcamlBasic only: bool/option/unit/list/prod
   (and sumbool/sumor) map to the OCaml types; N, Z, positive, nat stay the Coq inductives, so
   there is no machine-integer overflow question. No Extract Constant of our own. *)
From Coq Require Extraction.
From Coq Require Import ExtrOcamlBasic.
From TV Require Import Prelude.Str Prelude.PosixPath Prelude.Utf8 Prelude.UnicodeTables
  Codec.Quote Codec.DateFmt Codec.TrashInfo Logic.OrigLoc Logic.Glob Logic.PyInt Logic.Indexes Logic.Scope Logic.Reply Logic.Calendar Prog.Prog Cmd.Put Cmd.Scan Cmd.Empty Cmd.Rm Cmd.ListCmd Cmd.Restore
  Proofs.ProgProofs Proofs.PathProofs Proofs.EmptyProofs Proofs.OrderProofs Proofs.DecisionProofs Proofs.RestoreProofs Proofs.PutSafe Proofs.PutProofs Proofs.PutMore World.World Proofs.RmDecision.
Extraction "../driver/model.ml"
  str_eqb split_on dec_of_Z
  basename dirname join2 normpath abspath
  utf8_encode utf8_decode_strict utf8_decode_replace fsdecode fsencode
  quote unquote pct_decode
  format_date strptime_body uni_digit
  format_trashinfo read_text parse_path date_of parse_deletion_date maybe_parse_deletion_date
  parse_original_location
  calc_parent_path orig_loc_parent_arg orig_loc_result
  fnmatchcase py_int parse_indexes matches_path restore_scope parse_reply parse_user_reply older_than dt_lt micros
  run_oracle put_main is_mutator should_skipped_by_specs path_of_backup_copy create_trashinfo_basename
  home_trash_dir_path_from_env shrink_user
  list_main empty_main rm_main restore_main is_trashinfo_name sort_files
  accepts consent_step order_step refuse_step sel_step sel_final decision_step env_now put_step put_init collision_step valid_res valid_name is_info_path skip_step
  wapply wprobe upd rm_dec_step.
