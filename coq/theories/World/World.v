(* A model of the file system UNDER the library-boundary operations: what each operation of Prog.op does to
   the tree of files, given the answer it received.  Prog.all_runs quantifies over every answer; a run is
   CONSISTENT with a world w0 when every answer is one the file system could have given in the state the
   previous operations left (wrun).  World-level theorems have the shape
        all_runs (fun t out => forall s', wrun s0 t s' -> ...) m
   i.e. for every file-system state, every fault pattern (a failing operation is an answer like any other),
   and - through prefixes - every crash point, at the granularity of library calls.

   Scope of the model (stated, and checked against the real file system by the world conformance tie):
   - a path is the string the program passes; two strings are the same object only if equal.  Aliasing through
     symbolic links in directory components, '..', doubled or trailing slashes is outside the model.
   - NLink stands for any leaf that is neither a regular file nor a directory (symbolic link, fifo, ...).
   - OpenExcl / Remove / Move are atomic: when they fail nothing changed.  (shutil.move degrades to copy+delete
     when rename is refused; a copying move that fails half-way is NOT atomic - known finding C17.)
   - a failing WriteFd may have written anything; a failing Rmtree may have removed any part of the tree;
     Makedirs creates directories only at the path and its ancestors.
   - every step leaves a tree a tree (wf): a path that exists has directories for proper ancestors.
   Definitions only; lemmas are in Proofs/WorldProofs.v. *)
From TV Require Import Prelude.Str Prelude.PosixPath Prog.Prog.
Open Scope N_scope.

Inductive node := NFile (content : bytes) | NDir | NLink.
Definition world := str -> option node.
Record wstate := mkw { wfs : world; wfd : option str }.     (* the tree, and the path behind the one open descriptor *)

(* strip d q = Some rest  iff  q = d ++ rest with rest empty or beginning with '/' : q is d itself or below d *)
Fixpoint strip (d q : str) : option str :=
  match d, q with
  | [], [] => Some []
  | [], c :: _ => if N.eqb c c_slash then Some q else None
  | _ :: _, [] => None
  | a :: d', b :: q' => if N.eqb a b then strip d' q' else None
  end.
Definition under (d q : str) : bool := match strip d q with Some _ => true | None => false end.
Definition below (d q : str) : bool := under d q && negb (str_eqb q d).         (* strictly below *)

Definition isSome {A} (x : option A) : bool := match x with Some _ => true | None => false end.
Definition upd (w : world) (p : str) (n : option node) : world := fun q => if str_eqb q p then n else w q.
Definition rm_tree (w : world) (d : str) : world := fun q => if under d q then None else w q.
Definition mv_tree (w : world) (src dst : str) : world :=
  fun q => match strip dst q with
           | Some rest => w (src ++ rest)
           | None => if under src q then None else w q
           end.

(* a tree: whatever exists has directories above it *)
Definition wf (w : world) : Prop :=
  forall q a, w q <> None -> below a q = true -> a <> [] -> w a = Some NDir.

Definition same (s s' : wstate) : Prop := wfd s' = wfd s /\ forall q, wfs s' q = wfs s q.

(* what the operation did, given its answer *)
Definition effect (s : wstate) (o : op) (r : res) (s' : wstate) : Prop :=
  match o, r with
  | Lexists p, RBool b => same s s' /\ b = isSome (wfs s p)
  | Exists p, RBool b => same s s' /\ (b = true -> wfs s p <> None) /\ (b = false -> wfs s p = None \/ wfs s p = Some NLink)
  | Isdir p, RBool b => same s s' /\ (b = true -> wfs s p = Some NDir \/ wfs s p = Some NLink) /\ (wfs s p = Some NDir -> b = true)
  | OpenExcl p, RUnit =>
      wfs s p = None /\ wfd s' = Some p /\ forall q, wfs s' q = upd (wfs s) p (Some (NFile [])) q
  | WriteFd b, RUnit =>
      exists p c, wfd s = Some p /\ wfs s p = Some (NFile c) /\ wfd s' = wfd s /\
                  forall q, wfs s' q = upd (wfs s) p (Some (NFile (c ++ b))) q
  | WriteFd b, RErr _ =>
      exists p c b', wfd s = Some p /\ wfs s p = Some (NFile c) /\ wfd s' = wfd s /\
                     forall q, wfs s' q = upd (wfs s) p (Some (NFile b')) q
  | CloseFd, _ => wfd s' = None /\ forall q, wfs s' q = wfs s q
  | Remove p, RUnit =>
      (exists n, wfs s p = Some n /\ n <> NDir) /\ wfd s' = wfd s /\ forall q, wfs s' q = upd (wfs s) p None q
  | Rmtree p, RUnit => wfd s' = wfd s /\ forall q, wfs s' q = rm_tree (wfs s) p q
  | Rmtree p, RErr _ => wfd s' = wfd s /\ forall q, wfs s' q = wfs s q \/ (under p q = true /\ wfs s' q = None)
  | Move src dst, RUnit =>
      wfs s src <> None /\ under src dst = false /\ wfd s' = wfd s /\
      (forall q, under src q = true -> wfs s' q = None) /\
      (forall q, under src q = false -> under dst q = false -> wfs s' q = wfs s q) /\
      (* whatever existed, other than the source tree and the destination itself, is untouched: shutil.move moves INTO an
         existing directory, replaces an existing non-directory, or creates dst *)
      (forall q, under src q = false -> q <> dst -> wfs s q <> None -> wfs s' q = wfs s q) /\
      (wfs s dst = None -> forall q, wfs s' q = mv_tree (wfs s) src dst q)
  | Makedirs p _, _ =>
      wfd s' = wfd s /\
      (forall q, wfs s' q = wfs s q \/ (wfs s q = None /\ wfs s' q = Some NDir /\ under q p = true)) /\
      (r = RUnit -> wfs s' p = Some NDir)
  | _, _ => same s s'
  end.

Definition wstep (s : wstate) (o : op) (r : res) (s' : wstate) : Prop :=
  effect s o r s' /\ (wf (wfs s) -> wf (wfs s')).

Inductive wrun : wstate -> trace -> wstate -> Prop :=
| wrun_nil s : wrun s [] s
| wrun_cons s o r s1 t s' : wstep s o r s1 -> wrun s1 t s' -> wrun s ((o, r) :: t) s'.

(* an assertion A holds whenever an operation is issued, in every state a consistent execution can be in *)
Fixpoint wok (A : wstate -> op -> Prop) (s : wstate) (t : trace) : Prop :=
  match t with
  | [] => True
  | (o, r) :: t' => A s o /\ forall s', wstep s o r s' -> wok A s' t'
  end.

(* ---------------------------------------------------------------------------------------------------------
   The deterministic fragment, executable: used by the world conformance tie (the same operations and answers
   the real command received, applied to the snapshot taken before the command, must give the snapshot taken
   after it).  None = the step is outside the deterministic fragment (failed write / rmtree, move onto
   something that exists) or contradicts the model. *)
Fixpoint ancestors_aux (pre : str) (rest : str) : list str :=         (* every pre ++ (prefix of rest ending before a '/') *)
  match rest with
  | [] => []
  | c :: rest' =>
      (if N.eqb c c_slash then (match pre with [] => [] | _ => [pre] end) else []) ++ ancestors_aux (pre ++ [c]) rest'
  end.
Definition ancestors_or_self (p : str) : list str := ancestors_aux [] p ++ [p].
Fixpoint add_dirs (w : world) (l : list str) : world :=
  match l with [] => w | a :: l' => add_dirs (match w a with None => upd w a (Some NDir) | Some _ => w end) l' end.

Definition wapply (s : wstate) (o : op) (r : res) : option wstate :=
  match o, r with
  | OpenExcl p, RUnit => match wfs s p with None => Some (mkw (upd (wfs s) p (Some (NFile []))) (Some p)) | _ => None end
  | WriteFd b, RUnit =>
      match wfd s with
      | Some p => match wfs s p with Some (NFile c) => Some (mkw (upd (wfs s) p (Some (NFile (c ++ b)))) (wfd s)) | _ => None end
      | None => None
      end
  | WriteFd _, _ => None
  | CloseFd, _ => Some (mkw (wfs s) None)
  | Remove p, RUnit => match wfs s p with Some NDir | None => None | Some _ => Some (mkw (upd (wfs s) p None) (wfd s)) end
  | Rmtree p, RUnit => Some (mkw (rm_tree (wfs s) p) (wfd s))
  | Rmtree p, _ => match wfs s p with Some NDir => None | _ => Some s end      (* rmtree refuses what is not a directory: nothing changed *)
  | Move src dst, RUnit =>
      match wfs s src, wfs s dst with
      | Some _, None => if under src dst || under dst src || str_eqb dst [] then None else Some (mkw (mv_tree (wfs s) src dst) (wfd s))
      | _, _ => None
      end
  | Makedirs p _, RUnit =>
      let w' := add_dirs (wfs s) (ancestors_or_self p) in
      match w' p with Some NDir => Some (mkw w' (wfd s)) | _ => None end
  | Makedirs p _, _ => match wfs s p with Some _ => Some s | None => None end   (* EEXIST: nothing changed *)
  | _, _ => Some s
  end.
Fixpoint wapply_all (s : wstate) (t : trace) : option wstate :=
  match t with
  | [] => Some s
  | (o, r) :: t' => match wapply s o r with Some s' => wapply_all s' t' | None => None end
  end.
(* what the model says a probe must answer, where it says anything *)
Definition wprobe (s : wstate) (o : op) : option bool :=
  match o with
  | Lexists p => Some (isSome (wfs s p))
  | Exists p => match wfs s p with None => Some false | Some NLink => None | Some _ => Some true end
  | Isdir p => match wfs s p with None => Some false | Some NDir => Some true | Some NLink => None | Some (NFile _) => Some false end
  | _ => None
  end.
