(* UTF-8 as CPython implements it:
     str.encode('utf-8','strict')     -> utf8_encode        (None on a surrogate)
     bytes.decode('utf-8','strict')   -> utf8_decode_strict (None on any error)
     bytes.decode('utf-8','replace')  -> utf8_decode_replace (Objects/stringlib/codecs.h:
                                         one U+FFFD per maximal invalid subpart; an
                                         incomplete sequence at the end is ONE U+FFFD)
     os.fsdecode / os.fsencode (surrogateescape) -> fsdecode / fsencode               *)
From TV Require Import Prelude.Str.
Open Scope N_scope.

Definition is_surrogate (c : N) : bool := (55296 <=? c) && (c <=? 57343).   (* D800..DFFF *)
Definition is_scalar (c : N) : bool := (c <=? 1114111) && negb (is_surrogate c).

Definition encode_cp (c : N) : bytes :=
  if c <? 128 then [c]
  else if c <? 2048 then [192 + c / 64; 128 + c mod 64]
  else if c <? 65536 then [224 + c / 4096; 128 + (c / 64) mod 64; 128 + c mod 64]
  else [240 + c / 262144; 128 + (c / 4096) mod 64; 128 + (c / 64) mod 64; 128 + c mod 64].

Fixpoint utf8_encode (s : str) : option bytes :=
  match s with
  | [] => Some []
  | c :: s' => if is_scalar c
               then match utf8_encode s' with Some b => Some (encode_cp c ++ b) | None => None end
               else None
  end.

Definition is_cont (b : N) : bool := (128 <=? b) && (b <? 192).

(* one decoding step on a non-empty input: what the decoder does at the head *)
Inductive dstep :=
| DOk (c : N) (rest : bytes)        (* a scalar value decoded *)
| DBad (rest : bytes)               (* an invalid subpart was skipped; rest follows *)
| DEnd.                             (* incomplete sequence reaching the end of data *)

Definition decode_step (b : bytes) : dstep :=
  match b with
  | [] => DEnd
  | ch :: r1 =>
    if ch <? 128 then DOk ch r1
    else if ch <? 194 then DBad r1                                 (* 80..C1: invalid start *)
    else if ch <? 224 then                                         (* C2..DF *)
      match r1 with
      | [] => DEnd
      | c2 :: r2 => if is_cont c2 then DOk ((ch - 192) * 64 + (c2 - 128)) r2 else DBad r1
      end
    else if ch <? 240 then                                         (* E0..EF *)
      match r1 with
      | [] => DEnd
      | c2 :: r2 =>
        if negb (is_cont c2) || ((ch =? 224) && (c2 <? 160)) || ((ch =? 237) && (160 <=? c2))
        then DBad r1
        else match r2 with
             | [] => DEnd
             | c3 :: r3 => if is_cont c3
                           then DOk ((ch - 224) * 4096 + (c2 - 128) * 64 + (c3 - 128)) r3
                           else DBad r2
             end
      end
    else if ch <? 245 then                                         (* F0..F4 *)
      match r1 with
      | [] => DEnd
      | c2 :: r2 =>
        if negb (is_cont c2) || ((ch =? 240) && (c2 <? 144)) || ((ch =? 244) && (144 <=? c2))
        then DBad r1
        else match r2 with
             | [] => DEnd
             | c3 :: r3 =>
               if negb (is_cont c3) then DBad r2
               else match r3 with
                    | [] => DEnd
                    | c4 :: r4 => if is_cont c4
                                  then DOk ((ch - 240) * 262144 + (c2 - 128) * 4096
                                            + (c3 - 128) * 64 + (c4 - 128)) r4
                                  else DBad r3
                    end
             end
      end
    else DBad r1                                                   (* F5..FF *)
  end.

Definition c_fffd := 65533.

(* fuel = length of the input is always enough: every step consumes at least one byte *)
Fixpoint decode_replace_fuel (fuel : nat) (b : bytes) : str :=
  match fuel with
  | O => []
  | S f =>
    match b with
    | [] => []
    | _ => match decode_step b with
           | DOk c r => c :: decode_replace_fuel f r
           | DBad r => c_fffd :: decode_replace_fuel f r
           | DEnd => [c_fffd]
           end
    end
  end.
Definition utf8_decode_replace (b : bytes) : str := decode_replace_fuel (length b) b.

Fixpoint decode_strict_fuel (fuel : nat) (b : bytes) : option str :=
  match fuel with
  | O => match b with [] => Some [] | _ => None end
  | S f =>
    match b with
    | [] => Some []
    | _ => match decode_step b with
           | DOk c r => match decode_strict_fuel f r with Some s => Some (c :: s) | None => None end
           | _ => None
           end
    end
  end.
Definition utf8_decode_strict (b : bytes) : option str := decode_strict_fuel (length b) b.

(* surrogateescape: undecodable byte b (>= 128) <-> U+DC00 + b *)
Fixpoint decode_sesc_fuel (fuel : nat) (b : bytes) : str :=
  match fuel with
  | O => []
  | S f =>
    match b with
    | [] => []
    | ch :: r1 => match decode_step b with
                  | DOk c r => c :: decode_sesc_fuel f r
                  | _ => (56320 + ch) :: decode_sesc_fuel f r1
                  end
    end
  end.
Definition fsdecode (b : bytes) : str := decode_sesc_fuel (length b) b.

Fixpoint fsencode (s : str) : option bytes :=
  match s with
  | [] => Some []
  | c :: s' =>
    match fsencode s' with
    | None => None
    | Some b =>
      if (56448 <=? c) && (c <=? 56575) then Some ((c - 56320) :: b)     (* DC80..DCFF *)
      else if is_scalar c then Some (encode_cp c ++ b) else None
    end
  end.
