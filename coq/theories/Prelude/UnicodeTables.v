(* Generated once from CPython 3.12.1's unicodedata (Unicode 15.0.0) by the snippet in DESIGN.md;
   re-validated against the running interpreter on every check (harness/fn_cases.py: all 0x110000 code points). *)
From Coq Require Import List NArith.
Import ListNotations.
Open Scope N_scope.
(* first code point (value 0) of every block of ten decimal digits (category Nd) *)
Definition nd_zeros : list N := [48; 1632; 1776; 1984; 2406; 2534; 2662; 2790; 2918; 3046; 3174; 3302; 3430; 3558; 3664; 3792; 3872; 4160; 4240; 6112; 6160; 6470; 6608; 6784; 6800; 6992; 7088; 7232; 7248; 42528; 43216; 43264; 43472; 43504; 43600; 44016; 65296; 66720; 68912; 69734; 69872; 69942; 70096; 70384; 70736; 70864; 71248; 71360; 71472; 71904; 72016; 72784; 73040; 73120; 73552; 92768; 92864; 93008; 120782; 120792; 120802; 120812; 120822; 123200; 123632; 124144; 125264; 130032].
(* code points for which str.isspace() holds *)
Definition py_spaces : list N := [9; 10; 11; 12; 13; 28; 29; 30; 31; 32; 133; 160; 5760; 8192; 8193; 8194; 8195; 8196; 8197; 8198; 8199; 8200; 8201; 8202; 8232; 8233; 8239; 8287; 12288].
