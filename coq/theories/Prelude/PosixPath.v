(* posixpath.{basename,dirname,join,normpath,isabs} as CPython 3.12 defines them
   (Lib/posixpath.py; normpath's C twin posix._path_normpath has the same semantics). *)
From TV Require Import Prelude.Str.
Open Scope N_scope.

Definition isabs (p : str) : bool := starts_with p [c_slash].

(* i = p.rfind('/') + 1; return p[i:] *)
Definition basename (p : str) : str := after_last c_slash p.

(* head = p[:i]; if head and head != '/'*len(head): head = head.rstrip('/') *)
Definition dirname (p : str) : str :=
  let head := upto_last c_slash p in
  if all_c c_slash head then head else rstrip_c c_slash head.

(* os.path.join(a, b) *)
Definition join2 (a b : str) : str :=
  if starts_with b [c_slash] then b
  else match a with
       | [] => b
       | _ => if ends_with a [c_slash] then a ++ b else a ++ [c_slash] ++ b
       end.
Definition join3 (a b c : str) : str := join2 (join2 a b) c.

Definition is_dot (c : str) : bool := str_eqb c [c_dot].
Definition is_dotdot (c : str) : bool := str_eqb c [c_dot; c_dot].

(* the component loop of normpath; `stack` holds new_comps in reverse *)
Fixpoint norm_comps (init_slashes : bool) (comps : list str) (stack : list str) : list str :=
  match comps with
  | [] => rev stack
  | c :: cs =>
      match c with
      | [] => norm_comps init_slashes cs stack
      | _ =>
        if is_dot c then norm_comps init_slashes cs stack
        else if negb (is_dotdot c) then norm_comps init_slashes cs (c :: stack)
        else match stack with
             | [] => if init_slashes then norm_comps init_slashes cs stack
                     else norm_comps init_slashes cs (c :: stack)
             | top :: rest => if is_dotdot top then norm_comps init_slashes cs (c :: stack)
                              else norm_comps init_slashes cs rest
             end
      end
  end.

Definition normpath (p : str) : str :=
  match p with
  | [] => [c_dot]
  | _ =>
    let abs := starts_with p [c_slash] in
    let two := starts_with p [c_slash; c_slash] && negb (starts_with p [c_slash; c_slash; c_slash]) in
    let body := join_with [c_slash] (norm_comps abs (split_on c_slash p) []) in
    let res := (if abs then (if two then [c_slash; c_slash] else [c_slash]) else []) ++ body in
    match res with [] => [c_dot] | _ => res end
  end.

(* os.path.abspath(p) with the current directory supplied *)
Definition abspath (cwd p : str) : str :=
  if isabs p then normpath p else normpath (join2 cwd p).

(* components of a path, for specifications *)
Definition components (p : str) : list str :=
  filter (fun c => match c with [] => false | _ => true end) (split_on c_slash p).
