(* Python `str` as a list of Unicode code points, `bytes` as a list of byte values.
   Code points U+DC80..U+DCFF stand for undecodable bytes (PEP 383, surrogateescape),
   exactly as in the running program.  Only definitions here; proofs live in Proofs/. *)
From Coq Require Export Ascii String.
From Coq Require Export List NArith ZArith Bool.
Export ListNotations.
Open Scope N_scope.

Definition cp := N.
Definition str := list N.
Definition bytes := list N.

Fixpoint str_eqb (a b : str) : bool :=
  match a, b with
  | [], [] => true
  | x :: a', y :: b' => N.eqb x y && str_eqb a' b'
  | _, _ => false
  end.

Fixpoint starts_with (s p : str) {struct p} : bool :=
  match p, s with
  | [], _ => true
  | c :: p', d :: s' => N.eqb c d && starts_with s' p'
  | _ :: _, [] => false
  end.

Definition ends_with (s p : str) : bool := starts_with (rev s) (rev p).

Fixpoint mem (c : N) (s : str) : bool :=
  match s with [] => false | d :: s' => N.eqb c d || mem c s' end.

(* s.split(sep) for a one-character separator: always at least one piece *)
Fixpoint split_on (sep : N) (s : str) : list str :=
  match s with
  | [] => [[]]
  | c :: s' =>
      if N.eqb c sep then [] :: split_on sep s'
      else match split_on sep s' with
           | [] => [[c]]               (* unreachable: split_on never returns [] *)
           | p :: ps => (c :: p) :: ps
           end
  end.

Fixpoint join_with (sep : str) (l : list str) : str :=
  match l with
  | [] => []
  | [x] => x
  | x :: l' => x ++ sep ++ join_with sep l'
  end.

(* s.rstrip(c) / s.lstrip(c) *)
Fixpoint lstrip_c (c : N) (s : str) : str :=
  match s with
  | d :: s' => if N.eqb c d then lstrip_c c s' else s
  | [] => []
  end.
Definition rstrip_c (c : N) (s : str) : str := rev (lstrip_c c (rev s)).

Fixpoint all_c (c : N) (s : str) : bool :=
  match s with [] => true | d :: s' => N.eqb c d && all_c c s' end.

(* part after the last separator, and the part up to and including it *)
Fixpoint after_last (sep : N) (s : str) : str :=
  match s with
  | [] => []
  | c :: s' => if mem sep s' then after_last sep s'
               else if N.eqb c sep then s' else s
  end.
Fixpoint upto_last (sep : N) (s : str) : str :=
  match s with
  | [] => []
  | c :: s' => if mem sep s' then c :: upto_last sep s'
               else if N.eqb c sep then [c] else []
  end.

(* ASCII literals *)
Definition c_slash := 47.   Definition c_dot := 46.     Definition c_pct := 37.
Definition c_nl := 10.      Definition c_cr := 13.      Definition c_eq := 61.
Definition c_dash := 45.    Definition c_comma := 44.   Definition c_us := 95.
Definition c_space := 32.   Definition c_plus := 43.    Definition c_T := 84.
Definition c_colon := 58.   Definition c_0 := 48.       Definition c_9 := 57.

Definition is_ascii (c : N) : bool := c <? 128.

Definition ascii_lower (c : N) : N := if (65 <=? c) && (c <=? 90) then c + 32 else c.

(* decimal rendering of a natural number, as Python's "%d" / str() *)
Fixpoint dec_digits_fuel (fuel : nat) (n : N) (acc : str) : str :=
  match fuel with
  | O => acc
  | S f => let d := 48 + (n mod 10) in
           if n <? 10 then d :: acc else dec_digits_fuel f (n / 10) (d :: acc)
  end.
Definition dec_of_N (n : N) : str := dec_digits_fuel (S (N.to_nat (N.log2 n))) n [].
Definition dec_of_Z (z : Z) : str :=
  match z with
  | Z0 => [48]
  | Zpos p => dec_of_N (Npos p)
  | Zneg p => c_dash :: dec_of_N (Npos p)
  end.

(* zero-padded to width 2 / 4 (strftime %m %d %H %M %S ; %Y on glibc is NOT padded) *)
Definition pad2 (n : N) : str := [48 + (n / 10) mod 10; 48 + n mod 10].

(* string literals are written as lists of code points via this helper on Coq strings *)
Fixpoint of_string (s : string) : str :=
  match s with
  | EmptyString => []
  | String a s' => N_of_ascii a :: of_string s'
  end.
Notation "'$' s" := (of_string s%string) (at level 1, only parsing).
