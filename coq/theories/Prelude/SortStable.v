(* sorted(iterable, key=...) : a stable sort. Insertion sort that puts a new element after the elements
   whose key is <= its own is stable; lt is the strict order Python's `<` computes on the keys. *)
From Coq Require Import List Bool.
Import ListNotations.

Section Sort.
Context {A : Type}.
Variable lt : A -> A -> bool.

Fixpoint insert (x : A) (l : list A) : list A :=
  match l with
  | [] => [x]
  | y :: l' => if lt x y then x :: l else y :: insert x l'
  end.

(* elements are inserted in input order, each after its equals: fold from the left *)
Definition sort_stable (l : list A) : list A := fold_left (fun acc x => insert x acc) l [].
End Sort.
