(* int(text) of CPython 3.12 for base 10: surrounding whitespace (str.isspace), optional sign,
   decimal digits of any script, single underscores between digits. None = ValueError.
   (sys.int_max_str_digits - 4300 digits - is not modelled: the callers treat ValueError and a huge
   value alike.) *)
From TV Require Import Prelude.Str Prelude.UnicodeTables Codec.DateFmt.
Open Scope N_scope.

(* int() keeps ASCII characters as they are and lets C isspace() judge them (9-13, 32): the ASCII
   separators 28-31 are str.isspace() but are not stripped; non-ASCII whitespace is *)
Definition is_py_space (c : N) : bool := existsb (N.eqb c) py_spaces && negb ((28 <=? c) && (c <=? 31)).

Fixpoint lstrip_space (s : str) : str :=
  match s with c :: s' => if is_py_space c then lstrip_space s' else s | [] => [] end.
Definition strip_space (s : str) : str := rev (lstrip_space (rev (lstrip_space s))).

(* digits with single underscores strictly between digits; `prev_digit` = the previous char was a digit *)
Fixpoint digits_val (s : str) (acc : N) (prev_digit : bool) : option N :=
  match s with
  | [] => if prev_digit then Some acc else None
  | c :: s' =>
    match uni_digit c with
    | Some d => digits_val s' (10 * acc + d) true
    | None => if (c =? c_us) && prev_digit
              then match s' with
                   | [] => None
                   | _ => digits_val s' acc false
                   end
              else None
    end
  end.

Definition py_int (text : str) : option Z :=
  match strip_space text with
  | [] => None
  | c :: r =>
    if c =? c_plus then option_map Z.of_N (digits_val r 0 false)
    else if c =? c_dash then option_map (fun n => Z.opp (Z.of_N n)) (digits_val r 0 false)
    else option_map Z.of_N (digits_val (c :: r) 0 false)
  end.
