(* trashcli/put/original_location.py : the Path value written for an entry.
   `parent` is what os.path.realpath(dirname(normpath(path))) returned (an operation result). *)
From TV Require Import Prelude.Str Prelude.PosixPath.
Open Scope N_scope.

Inductive path_maker := AbsolutePaths | RelativePaths.

(* _calc_parent_path *)
Definition calc_parent_path (parent volume_top_dir : str) (pm : path_maker) : str :=
  match pm with
  | AbsolutePaths => parent
  | RelativePaths =>
      (* prefix = volume_top_dir.rstrip('/') + '/'  (so that the top directory "/" works too) *)
      let prefix := rstrip_c c_slash volume_top_dir ++ [c_slash] in
      if str_eqb parent volume_top_dir || starts_with parent prefix
      then skipn (length prefix) parent
      else parent
  end.

(* the two pure halves of OriginalLocation.for_file around the realpath call *)
Definition orig_loc_parent_arg (path : str) : str := dirname (normpath path).
Definition orig_loc_result (path parent_real volume_top_dir : str) (pm : path_maker) : str :=
  join2 (calc_parent_path parent_real volume_top_dir pm) (basename (normpath path)).
