(* datetime arithmetic as CPython's datetime module does it: proleptic Gregorian ordinals
   (_days_before_year, _days_before_month, _ymd2ord), comparison, and now - timedelta(days=d). *)
From TV Require Import Prelude.Str Codec.DateFmt.
Open Scope Z_scope.

Definition zleap (y : Z) : bool := (y mod 4 =? 0) && (negb (y mod 100 =? 0) || (y mod 400 =? 0)).
Definition days_before_year (y : Z) : Z := let y1 := y - 1 in y1 * 365 + y1 / 4 - y1 / 100 + y1 / 400.
Definition zdim (y m : Z) : Z :=
  if m =? 2 then (if zleap y then 29 else 28)
  else if (m =? 4) || (m =? 6) || (m =? 9) || (m =? 11) then 30 else 31.
Definition days_before_month (y m : Z) : Z :=
  (if m =? 1 then 0 else if m =? 2 then 31 else if m =? 3 then 59 else if m =? 4 then 90 else if m =? 5 then 120
   else if m =? 6 then 151 else if m =? 7 then 181 else if m =? 8 then 212 else if m =? 9 then 243
   else if m =? 10 then 273 else if m =? 11 then 304 else 334)
  + (if (2 <? m) && zleap y then 1 else 0).
Definition ordinal (y m d : Z) : Z := days_before_year y + days_before_month y m + d.

Definition us_per_day : Z := 86400000000.

(* microseconds since 0001-01-01T00:00:00 minus one day (ordinal 1 = 0001-01-01) *)
Definition micros (t : datetime) : Z :=
  ordinal (Z.of_N (dyear t)) (Z.of_N (dmonth t)) (Z.of_N (dday t)) * us_per_day
  + ((Z.of_N (dhour t) * 60 + Z.of_N (dminute t)) * 60 + Z.of_N (dsecond t)) * 1000000 + Z.of_N (dmicro t).

(* a < b on datetime objects: lexicographic on (year, month, day, hour, minute, second, microsecond) *)
Fixpoint lex_lt (a b : list N) : bool :=
  match a, b with
  | x :: a', y :: b' => (x <? y)%N || ((x =? y)%N && lex_lt a' b')
  | _, _ => false
  end.
Definition dt_fields (t : datetime) : list N := [dyear t; dmonth t; dday t; dhour t; dminute t; dsecond t; dmicro t].
Definition dt_lt (a b : datetime) : bool := lex_lt (dt_fields a) (dt_fields b).

(* trashcli/empty/older_than.py: deletion_date < now - timedelta(days=days_ago).
   None = OverflowError (|days| > 999999999, or the limit leaves year 1..9999) *)
Definition min_micros : Z := 1 * us_per_day.                                    (* 0001-01-01T00:00:00 *)
Definition max_micros : Z := (ordinal 9999 12 31 + 1) * us_per_day - 1.         (* 9999-12-31T23:59:59.999999 *)
Definition older_than (days : Z) (now deletion : datetime) : option bool :=
  if (days <? -999999999) || (999999999 <? days) then None
  else let limit := micros now - days * us_per_day in
       if (limit <? min_micros) || (max_micros <? limit) then None
       else Some (micros deletion <? limit).
