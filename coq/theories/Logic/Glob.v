(* fnmatch.translate + fnmatch.fnmatchcase of CPython 3.12, quirk for quirk (Lib/fnmatch.py). *)
From TV Require Import Prelude.Str.
Open Scope N_scope.

Inductive citem := CLit (c : N) | CRange (lo hi : N).
Inductive gitem :=
| GLit (c : N)                                (* re.escape(c) *)
| GAny                                        (* '?', and the negated empty class *)
| GStar                                       (* '*' (runs of stars are one star) *)
| GClass (neg : bool) (items : list citem)    (* [stuff] / [^stuff] *)
| GNever.                                     (* (?!) : a class emptied by range removal *)

Definition c_star := 42.  Definition c_qm := 63.  Definition c_lb := 91.  Definition c_rb := 93.
Definition c_bang := 33.

(* position of the first `c` at index >= skip *)
Fixpoint find_from (c : N) (s : str) (skip : nat) : option nat :=
  match s with
  | [] => None
  | d :: s' =>
    match skip with
    | O => if N.eqb c d then Some O else option_map S (find_from c s' O)
    | S k => option_map S (find_from c s' k)
    end
  end.

(* the `while True: k = pat.find('-', k, j)` loop: split the class body into chunks at the hyphens
   that act as range operators; `skip` = k - i *)
Fixpoint chunks_fuel (fuel : nat) (s : str) (skip : nat) : list str :=
  match fuel with
  | O => [s]
  | S f =>
    match find_from c_dash s skip with
    | None => [s]
    | Some p => firstn p s :: chunks_fuel f (skipn (S p) s) 2
    end
  end.

Definition last_c (s : str) : N := last s 0.
Definition first_c (s : str) : N := hd 0 s.

(* a trailing empty chunk means the class ended in '-': chunks[-1] += '-' *)
Fixpoint fix_trailing (l : list str) : list str :=
  match l with
  | [] => []
  | [x] => [x]
  | [x; []] => [x ++ [c_dash]]
  | x :: l' => x :: fix_trailing l'
  end.

(* "Remove empty ranges": for k in range(len-1, 0, -1): if chunks[k-1][-1] > chunks[k][0]: merge *)
Definition merge_step (c : str) (acc : list str) : list str :=
  match acc with
  | [] => [c]
  | h :: t => if first_c h <? last_c c then (removelast c ++ tl h) :: t else c :: acc
  end.
Definition remove_empty_ranges (l : list str) : list str := fold_right merge_step [] l.

(* literals of the chunks; the last character of a chunk and the first of the next form a range *)
Fixpoint chunk_items (cur : str) (rest : list str) : list citem :=
  match rest with
  | [] => map CLit cur
  | d :: rest' => map CLit (removelast cur) ++ CRange (last_c cur) (first_c d) :: chunk_items (tl d) rest'
  end.

(* class body (between '[' and the closing ']') -> one gitem *)
Definition class_of (stuff : str) : gitem :=
  let chunks :=
    if mem c_dash stuff
    then remove_empty_ranges
           (fix_trailing (chunks_fuel (length stuff) stuff
                                      (match stuff with c :: _ => if c =? c_bang then 2%nat else 1%nat | [] => 1%nat end)))
    else [stuff] in
  match chunks with
  | [[]] => GNever
  | [[c]] => if c =? c_bang then GAny else GClass false [CLit c]
  | (c :: c0) :: rest =>
      if c =? c_bang then GClass true (chunk_items c0 rest) else GClass false (chunk_items (c :: c0) rest)
  | _ => GNever
  end.

(* find the closing bracket: j = i; skip '!'; skip ']'; scan to the next ']' *)
Fixpoint upto_rb (s : str) : option (str * str) :=
  match s with
  | [] => None
  | c :: s' => if c =? c_rb then Some ([], s')
               else match upto_rb s' with Some (a, b) => Some (c :: a, b) | None => None end
  end.
Definition split_class (r : str) : option (str * str) :=
  let '(pre1, r1) := match r with c :: r' => if c =? c_bang then ([c], r') else ([], r) | [] => ([], r) end in
  let '(pre2, r2) := match r1 with c :: r' => if c =? c_rb then ([c], r') else ([], r1) | [] => ([], r1) end in
  match upto_rb r2 with
  | Some (a, after) => Some (pre1 ++ pre2 ++ a, after)
  | None => None
  end.

Fixpoint translate_fuel (fuel : nat) (pat : str) : list gitem :=
  match fuel with
  | O => []
  | S f =>
    match pat with
    | [] => []
    | c :: r =>
      if c =? c_star then GStar :: translate_fuel f r
      else if c =? c_qm then GAny :: translate_fuel f r
      else if c =? c_lb then
        match split_class r with
        | None => GLit c_lb :: translate_fuel f r
        | Some (stuff, after) => class_of stuff :: translate_fuel f after
        end
      else GLit c :: translate_fuel f r
    end
  end.
Definition translate (pat : str) : list gitem := translate_fuel (length pat) pat.

Definition citem_ok (it : citem) (c : N) : bool :=
  match it with CLit d => c =? d | CRange lo hi => (lo <=? c) && (c <=? hi) end.

Definition item_ok (it : gitem) (c : N) : bool :=
  match it with
  | GLit d => c =? d
  | GAny => true
  | GStar => false
  | GClass neg items => xorb neg (existsb (fun i => citem_ok i c) items)
  | GNever => false
  end.

Fixpoint glob_match (items : list gitem) : str -> bool :=
  match items with
  | [] => fun s => match s with [] => true | _ => false end
  | GStar :: r =>
      fix star (s : str) : bool :=
        glob_match r s || match s with [] => false | _ :: s' => star s' end
  | it :: r => fun s => match s with [] => false | c :: s' => item_ok it c && glob_match r s' end
  end.

(* fnmatch.fnmatchcase(name, pat) *)
Definition fnmatchcase (name pat : str) : bool := glob_match (translate pat) name.
