(* trashcli/restore/restore_asking_the_user.py: parse_indexes + Sequences.all_indexes + range check *)
From TV Require Import Prelude.Str Logic.PyInt.
Open Scope Z_scope.

Inductive idx_result :=
| Selected (l : list Z)        (* the indexes, in reply order, duplicates kept *)
| InvalidEntry                 (* -> Die("Invalid entry: ..."), exit status 1 *)
| UncaughtValueError.          (* a part with two or more hyphens: `first, last = index.split("-", 2)` *)

Inductive part := PSingle (i : Z) | PRange (a b : Z).

Inductive part_result := POk (p : part) | PInvalid | PValueError.

Definition count_c (c : N) (s : str) : nat := length (filter (N.eqb c) s).

Definition parse_part (index : str) : part_result :=
  if mem c_dash index then
    match split_on c_dash index with
    | [first; last] =>
        match first, last with
        | [], _ | _, [] => PInvalid                       (* open interval *)
        | _, _ => match py_int first, py_int last with
                  | Some a, Some b => POk (PRange a b)
                  | _, _ => PInvalid                      (* not an index *)
                  end
        end
    | _ => PValueError                                    (* too many values to unpack *)
    end
  else match py_int index with Some i => POk (PSingle i) | None => PInvalid end.

(* the parsing loop stops at the first part that raises *)
Fixpoint parse_parts (l : list str) : part_result + list part :=
  match l with
  | [] => inr []
  | x :: l' =>
    match parse_part x with
    | POk p => match parse_parts l' with inr ps => inr (p :: ps) | inl e => inl e end
    | e => inl e
    end
  end.

Fixpoint z_range_fuel (fuel : nat) (a : Z) : list Z :=
  match fuel with O => [] | S f => a :: z_range_fuel f (a + 1) end.

(* indexes of one part, or None when one of them is outside 0..n-1.  A non-empty range a..b lies inside
   0..n-1 iff both ends do, so huge ranges need not be enumerated *)
Definition part_indexes (n : Z) (p : part) : option (list Z) :=
  match p with
  | PSingle i => if (0 <=? i) && (i <? n) then Some [i] else None
  | PRange a b =>
      if b <? a then Some []
      else if (0 <=? a) && (b <? n) then Some (z_range_fuel (Z.to_nat (b - a + 1)) a) else None
  end.

Fixpoint all_indexes (n : Z) (ps : list part) : option (list Z) :=
  match ps with
  | [] => Some []
  | p :: ps' => match part_indexes n p, all_indexes n ps' with
                | Some l, Some r => Some (l ++ r)
                | _, _ => None
                end
  end.

Definition parse_indexes (user_input : str) (n : Z) : idx_result :=
  match parse_parts (split_on c_comma user_input) with
  | inl PValueError => UncaughtValueError
  | inl _ => InvalidEntry
  | inr ps => match all_indexes n ps with Some l => Selected l | None => InvalidEntry end
  end.
