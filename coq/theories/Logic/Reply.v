(* trashcli/empty/parse_reply.py : reply[0:1].lower() == 'y'
   trashcli/put/user.py         : reply.lower().startswith("y")
   str.lower() maps exactly 'Y' and 'y' to a string starting with 'y' (validated for all 0x110000
   code points against the running interpreter on every check). *)
From TV Require Import Prelude.Str.
Open Scope N_scope.

Definition is_y (c : N) : bool := (c =? 121) || (c =? 89).
Definition parse_reply (reply : str) : bool := match reply with c :: _ => is_y c | [] => false end.
(* trash-put -i : True = user_replied_yes *)
Definition parse_user_reply (reply : str) : bool := parse_reply reply.
