(* TrashedFile.original_location_matches_path / restore's path argument normalisation *)
From TV Require Import Prelude.Str Prelude.PosixPath.
Open Scope N_scope.

Definition matches_path (orig path : str) : bool :=
  str_eqb path [c_slash] || starts_with orig (path ++ [c_slash]) || str_eqb orig path.

(* RestoreArgParser (fixed: no "curdir/" - for the root that gave "//", which normpath keeps):
   path = normpath(join(curdir, parsed_path)) *)
Definition restore_scope (curdir arg : str) : str := normpath (join2 curdir arg).
