(* Declarative meaning of a translated pattern: the relation the matcher must decide. *)
From TV Require Import Prelude.Str Logic.Glob.
Open Scope N_scope.

Inductive gmatch : list gitem -> str -> Prop :=
| gm_nil : gmatch [] []
| gm_one : forall it r c s, it <> GStar -> item_ok it c = true -> gmatch r s -> gmatch (it :: r) (c :: s)
| gm_star : forall r s1 s2, gmatch r s2 -> gmatch (GStar :: r) (s1 ++ s2).

Definition is_meta (c : N) : bool := (c =? c_star) || (c =? c_qm) || (c =? c_lb).
Definition no_meta (p : str) : Prop := Forall (fun c => is_meta c = false) p.
