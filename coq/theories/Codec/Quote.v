(* urllib.parse.quote(s, '/') and urllib.parse.unquote(s) as CPython 3.12 defines them. *)
From TV Require Import Prelude.Str Prelude.Utf8.
Open Scope N_scope.

Definition is_alnum (b : N) : bool :=
  ((48 <=? b) && (b <=? 57)) || ((65 <=? b) && (b <=? 90)) || ((97 <=? b) && (b <=? 122)).
(* _ALWAYS_SAFE = letters digits "_.-~" ; plus the caller's safe='/' *)
Definition is_safe (b : N) : bool :=
  is_alnum b || (b =? 95) || (b =? 46) || (b =? 45) || (b =? 126) || (b =? 47).

Definition hex_digit (n : N) : N := if n <? 10 then 48 + n else 55 + n.     (* upper case *)
Definition quote_byte (b : N) : str :=
  if is_safe b then [b] else [c_pct; hex_digit (b / 16); hex_digit (b mod 16)].

(* None = UnicodeEncodeError (a lone surrogate in the name) *)
Definition quote (s : str) : option str :=
  match utf8_encode s with
  | Some b => Some (flat_map quote_byte b)
  | None => None
  end.

Definition hex_val (c : N) : option N :=
  if (48 <=? c) && (c <=? 57) then Some (c - 48)
  else if (65 <=? c) && (c <=? 70) then Some (c - 55)
  else if (97 <=? c) && (c <=? 102) then Some (c - 87)
  else None.

(* _unquote_impl on an ASCII run: "%XY" with two hex digits of either case -> one byte;
   any other '%' stays literal *)
Fixpoint pct_decode (s : str) : bytes :=
  match s with
  | [] => []
  | c :: s' =>
    if c =? c_pct then
      match s' with
      | h1 :: h2 :: s'' =>
        match hex_val h1, hex_val h2 with
        | Some a, Some b => (16 * a + b) :: pct_decode s''
        | _, _ => c :: pct_decode s'
        end
      | _ => c :: pct_decode s'
      end
    else c :: pct_decode s'
  end.

Definition flush_run (run : str) : str :=
  match run with [] => [] | _ => utf8_decode_replace (pct_decode (rev run)) end.

(* _generate_unquoted_parts: maximal ASCII runs are percent-decoded and decoded as UTF-8 with
   errors='replace'; non-ASCII code points pass through *)
Fixpoint unquote_runs (s : str) (run : str) : str :=
  match s with
  | [] => flush_run run
  | c :: s' => if is_ascii c then unquote_runs s' (c :: run)
               else flush_run run ++ c :: unquote_runs s' []
  end.

Definition unquote (s : str) : str :=
  if mem c_pct s then unquote_runs s [] else s.

