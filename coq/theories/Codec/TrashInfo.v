(* The .trashinfo writer (trashcli/put/format_trash_info.py) and the readers shared by
   trash-list / -restore / -rm / -empty (trashcli/parse_trashinfo/*.py). *)
From TV Require Import Prelude.Str Prelude.Utf8 Prelude.PosixPath Codec.Quote Codec.DateFmt.
Open Scope N_scope.

Definition s_header := Eval compute in $"[Trash Info]".
Definition s_Path := Eval compute in $"Path=".
Definition s_DeletionDate := Eval compute in $"DeletionDate=".

(* format_trashinfo(original_location, deletion_date) -> bytes ; None = UnicodeEncodeError *)
Definition format_trashinfo_str (loc : str) (d : datetime) : option str :=
  match quote loc with
  | None => None
  | Some q => Some (s_header ++ [c_nl] ++ s_Path ++ q ++ [c_nl]
                    ++ s_DeletionDate ++ format_date d ++ [c_nl])
  end.
Definition format_trashinfo (loc : str) (d : datetime) : option bytes :=
  match format_trashinfo_str loc d with
  | None => None
  | Some s => utf8_encode s          (* always Some: the text is ASCII *)
  end.

(* open(path).read(): strict UTF-8, then universal newlines (\r\n -> \n, lone \r -> \n) *)
Fixpoint universal_newlines (s : str) : str :=
  match s with
  | [] => []
  | c :: s' =>
    if c =? c_cr then
      match s' with
      | d :: s'' => if d =? c_nl then c_nl :: universal_newlines s'' else c_nl :: universal_newlines s'
      | [] => [c_nl]
      end
    else c :: universal_newlines s'
  end.
Definition read_text (b : bytes) : option str :=
  match utf8_decode_strict b with Some s => Some (universal_newlines s) | None => None end.

Definition lines (contents : str) : list str := split_on c_nl contents.

(* parse_path: first line starting with "Path="; None = ParseError *)
Fixpoint first_path (ls : list str) : option str :=
  match ls with
  | [] => None
  | l :: ls' => if starts_with l s_Path then Some (unquote (skipn 5 l)) else first_path ls'
  end.
Definition parse_path (contents : str) : option str := first_path (lines contents).

(* ParseTrashInfo: only the FIRST line starting with "DeletionDate=" is looked at *)
Inductive date_result := NoDate | InvalidDate | ValidDate (d : datetime).
Fixpoint first_date (ls : list str) : date_result :=
  match ls with
  | [] => NoDate
  | l :: ls' =>
    if starts_with l s_DeletionDate then
      match strptime_body (skipn 13 l) with Some d => ValidDate d | None => InvalidDate end
    else first_date ls'
  end.
Definition date_of (contents : str) : date_result := first_date (lines contents).

(* parse_deletion_date: datetime or None *)
Definition parse_deletion_date (contents : str) : option datetime :=
  match date_of contents with ValidDate d => Some d | _ => None end.

(* maybe_parse_deletion_date: what trash-list prints: str(datetime) or the question marks *)
Definition s_unknown_date := Eval compute in $"????-??-?? ??:??:??".
Definition pad4 (n : N) : str := [48 + (n / 1000) mod 10; 48 + (n / 100) mod 10; 48 + (n / 10) mod 10; 48 + n mod 10].
(* str(datetime) with microsecond = 0 : "YYYY-MM-DD HH:MM:SS", year zero-padded to 4 *)
Definition str_of_datetime (d : datetime) : str :=
  pad4 (dyear d) ++ [c_dash] ++ pad2 (dmonth d) ++ [c_dash] ++ pad2 (dday d) ++ [c_space]
  ++ pad2 (dhour d) ++ [c_colon] ++ pad2 (dminute d) ++ [c_colon] ++ pad2 (dsecond d).
Definition maybe_parse_deletion_date (contents : str) : str :=
  match date_of contents with ValidDate d => str_of_datetime d | _ => s_unknown_date end.

(* parse_original_location(contents, volume) = os.path.join(volume, parse_path(contents)) *)
Definition parse_original_location (contents volume : str) : option str :=
  match parse_path contents with Some p => Some (join2 volume p) | None => None end.
