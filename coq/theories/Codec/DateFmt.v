(* datetime values, strftime("%Y-%m-%dT%H:%M:%S") and
   datetime.strptime(s, PREFIX + "%Y-%m-%dT%H:%M:%S") as CPython 3.12's _strptime does it. *)
From TV Require Import Prelude.Str Prelude.UnicodeTables.
Open Scope N_scope.

Record datetime := mkdt { dyear : N; dmonth : N; dday : N; dhour : N; dminute : N; dsecond : N; dmicro : N }.

Definition is_leap (y : N) : bool := (y mod 4 =? 0) && (negb (y mod 100 =? 0) || (y mod 400 =? 0)).
Definition days_in_month (y m : N) : N :=
  if m =? 2 then (if is_leap y then 29 else 28)
  else if (m =? 4) || (m =? 6) || (m =? 9) || (m =? 11) then 30 else 31.

(* the constructor check of datetime.datetime(...) : ValueError otherwise *)
Definition dt_valid (d : datetime) : bool :=
  (1 <=? dyear d) && (dyear d <=? 9999) && (1 <=? dmonth d) && (dmonth d <=? 12)
  && (1 <=? dday d) && (dday d <=? days_in_month (dyear d) (dmonth d))
  && (dhour d <=? 23) && (dminute d <=? 59) && (dsecond d <=? 59) && (dmicro d <=? 999999).

(* glibc strftime: %Y is the plain decimal year (no padding below 1000), the rest 2 digits *)
Definition format_date (d : datetime) : str :=
  dec_of_N (dyear d) ++ [c_dash] ++ pad2 (dmonth d) ++ [c_dash] ++ pad2 (dday d) ++ [c_T]
  ++ pad2 (dhour d) ++ [c_colon] ++ pad2 (dminute d) ++ [c_colon] ++ pad2 (dsecond d).

(* \d in a str pattern: any Unicode decimal digit; its value as int() reads it *)
Fixpoint digit_in (zs : list N) (c : N) : option N :=
  match zs with
  | [] => None
  | z :: zs' => if (z <=? c) && (c <? z + 10) then Some (c - z) else digit_in zs' c
  end.
Definition uni_digit (c : N) : option N := digit_in nd_zeros c.
Definition ascii_digit (c : N) : option N := if (48 <=? c) && (c <=? 57) then Some (c - 48) else None.

(* One numeric field.  Each alternative of the regex is either two characters or one; they are
   tried in order.  `two d1 d2` says whether some two-character alternative accepts (d1 is always
   an ASCII digit in the patterns used; d2 may be any Unicode digit where the pattern has \d),
   `one d1` whether the one-character alternative accepts. The result is the value and the rest. *)
Definition field (two : N -> N -> bool) (one_uni : bool) (one : N -> bool) (s : str) : option (N * str) :=
  let try_one :=
    match s with
    | c1 :: r => match (if one_uni then uni_digit c1 else ascii_digit c1) with
                 | Some v => if one v then Some (v, r) else None
                 | None => None
                 end
    | [] => None
    end in
  match s with
  | c1 :: c2 :: r =>
    match ascii_digit c1, uni_digit c2 with
    | Some a, Some b => if two a (if (48 <=? c2) && (c2 <=? 57) then b else b + 100) then Some (10 * a + b, r) else try_one
    | _, _ => try_one
    end
  | _ => try_one
  end.
(* In `two a b`, b >= 100 flags "second digit is a non-ASCII decimal digit with value b-100":
   alternatives written with an explicit ASCII class ([0-2], [1-9], [0-1]) reject it, \d accepts. *)
Definition is_ascii2 (b : N) : bool := b <? 100.
Definition val2 (b : N) : N := if b <? 100 then b else b - 100.

(* %m : 1[0-2] | 0[1-9] | [1-9] *)
Definition f_month := field (fun a b => ((a =? 1) && is_ascii2 b && (b <=? 2)) || ((a =? 0) && is_ascii2 b && (1 <=? b)))
                            false (fun v => 1 <=? v).
(* %d : 3[0-1] | [1-2]\d | 0[1-9] | [1-9] | " [1-9]" *)
Definition f_day_digits := field (fun a b => ((a =? 3) && is_ascii2 b && (b <=? 1)) || ((1 <=? a) && (a <=? 2))
                                             || ((a =? 0) && is_ascii2 b && (1 <=? b)))
                                 false (fun v => 1 <=? v).
Definition f_day (s : str) : option (N * str) :=
  match f_day_digits s with
  | Some r => Some r
  | None => match s with
            | sp :: c :: r => if sp =? c_space then
                                match ascii_digit c with Some v => if 1 <=? v then Some (v, r) else None | None => None end
                              else None
            | _ => None
            end
  end.
(* %H : 2[0-3] | [0-1]\d | \d *)
Definition f_hour := field (fun a b => ((a =? 2) && is_ascii2 b && (b <=? 3)) || (a <=? 1)) true (fun _ => true).
(* %M : [0-5]\d | \d *)
Definition f_minute := field (fun a b => a <=? 5) true (fun _ => true).
(* %S : 6[0-1] | [0-5]\d | \d *)
Definition f_second := field (fun a b => ((a =? 6) && is_ascii2 b && (b <=? 1)) || (a <=? 5)) true (fun _ => true).

(* the two-digit value must use the real digit value, not the flagged one *)
(* (field computes 10*a+b from uni_digit directly, so the flag never leaks into the value) *)

(* %Y : \d\d\d\d *)
Definition f_year (s : str) : option (N * str) :=
  match s with
  | a :: b :: c :: d :: r =>
    match uni_digit a, uni_digit b, uni_digit c, uni_digit d with
    | Some x, Some y, Some z, Some w => Some (1000 * x + 100 * y + 10 * z + w, r)
    | _, _, _, _ => None
    end
  | _ => None
  end.

Definition expect (c : N) (s : str) : option str :=
  match s with d :: r => if c =? d then Some r else None | [] => None end.
(* the literal T of the format matches case-insensitively (re.IGNORECASE) *)
Definition expect_T (s : str) : option str :=
  match s with d :: r => if (d =? 84) || (d =? 116) then Some r else None | [] => None end.

(* strptime(s, "%Y-%m-%dT%H:%M:%S"): None = ValueError *)
Definition strptime_body (s : str) : option datetime :=
  match f_year s with None => None | Some (y, s1) =>
  match expect c_dash s1 with None => None | Some s2 =>
  match f_month s2 with None => None | Some (m, s3) =>
  match expect c_dash s3 with None => None | Some s4 =>
  match f_day s4 with None => None | Some (d, s5) =>
  match expect_T s5 with None => None | Some s6 =>
  match f_hour s6 with None => None | Some (hh, s7) =>
  match expect c_colon s7 with None => None | Some s8 =>
  match f_minute s8 with None => None | Some (mi, s9) =>
  match expect c_colon s9 with None => None | Some s10 =>
  match f_second s10 with None => None | Some (ss, s11) =>
  match s11 with
  | _ :: _ => None                                   (* unconverted data remains *)
  | [] => let dt := mkdt y m d hh mi ss 0 in
          if dt_valid dt then Some dt else None      (* year 0, Feb 30, second 60/61 *)
  end end end end end end end end end end end end.
