
(** val negb : bool -> bool **)

let negb = function
| true -> false
| false -> true

type nat =
| O
| S of nat

(** val fst : ('a1 * 'a2) -> 'a1 **)

let fst = function
| (x, _) -> x

(** val snd : ('a1 * 'a2) -> 'a2 **)

let snd = function
| (_, y) -> y

(** val length : 'a1 list -> nat **)

let rec length = function
| [] -> O
| _ :: l' -> S (length l')

(** val app : 'a1 list -> 'a1 list -> 'a1 list **)

let rec app l m =
  match l with
  | [] -> m
  | a :: l1 -> a :: (app l1 m)

type comparison =
| Eq
| Lt
| Gt

module Coq__1 = struct
 (** val add : nat -> nat -> nat **)
 let rec add n0 m =
   match n0 with
   | O -> m
   | S p -> S (add p m)
end
include Coq__1

type positive =
| XI of positive
| XO of positive
| XH

type n =
| N0
| Npos of positive

module Pos =
 struct
  type mask =
  | IsNul
  | IsPos of positive
  | IsNeg
 end

module Coq_Pos =
 struct
  (** val succ : positive -> positive **)

  let rec succ = function
  | XI p -> XO (succ p)
  | XO p -> XI p
  | XH -> XO XH

  (** val add : positive -> positive -> positive **)

  let rec add x y =
    match x with
    | XI p ->
      (match y with
       | XI q -> XO (add_carry p q)
       | XO q -> XI (add p q)
       | XH -> XO (succ p))
    | XO p ->
      (match y with
       | XI q -> XI (add p q)
       | XO q -> XO (add p q)
       | XH -> XI p)
    | XH -> (match y with
             | XI q -> XO (succ q)
             | XO q -> XI q
             | XH -> XO XH)

  (** val add_carry : positive -> positive -> positive **)

  and add_carry x y =
    match x with
    | XI p ->
      (match y with
       | XI q -> XI (add_carry p q)
       | XO q -> XO (add_carry p q)
       | XH -> XI (succ p))
    | XO p ->
      (match y with
       | XI q -> XO (add_carry p q)
       | XO q -> XI (add p q)
       | XH -> XO (succ p))
    | XH ->
      (match y with
       | XI q -> XI (succ q)
       | XO q -> XO (succ q)
       | XH -> XI XH)

  (** val pred_double : positive -> positive **)

  let rec pred_double = function
  | XI p -> XI (XO p)
  | XO p -> XI (pred_double p)
  | XH -> XH

  type mask = Pos.mask =
  | IsNul
  | IsPos of positive
  | IsNeg

  (** val succ_double_mask : mask -> mask **)

  let succ_double_mask = function
  | IsNul -> IsPos XH
  | IsPos p -> IsPos (XI p)
  | IsNeg -> IsNeg

  (** val double_mask : mask -> mask **)

  let double_mask = function
  | IsPos p -> IsPos (XO p)
  | x0 -> x0

  (** val double_pred_mask : positive -> mask **)

  let double_pred_mask = function
  | XI p -> IsPos (XO (XO p))
  | XO p -> IsPos (XO (pred_double p))
  | XH -> IsNul

  (** val sub_mask : positive -> positive -> mask **)

  let rec sub_mask x y =
    match x with
    | XI p ->
      (match y with
       | XI q -> double_mask (sub_mask p q)
       | XO q -> succ_double_mask (sub_mask p q)
       | XH -> IsPos (XO p))
    | XO p ->
      (match y with
       | XI q -> succ_double_mask (sub_mask_carry p q)
       | XO q -> double_mask (sub_mask p q)
       | XH -> IsPos (pred_double p))
    | XH -> (match y with
             | XH -> IsNul
             | _ -> IsNeg)

  (** val sub_mask_carry : positive -> positive -> mask **)

  and sub_mask_carry x y =
    match x with
    | XI p ->
      (match y with
       | XI q -> succ_double_mask (sub_mask_carry p q)
       | XO q -> double_mask (sub_mask p q)
       | XH -> IsPos (pred_double p))
    | XO p ->
      (match y with
       | XI q -> double_mask (sub_mask_carry p q)
       | XO q -> succ_double_mask (sub_mask_carry p q)
       | XH -> double_pred_mask p)
    | XH -> IsNeg

  (** val mul : positive -> positive -> positive **)

  let rec mul x y =
    match x with
    | XI p -> add y (XO (mul p y))
    | XO p -> XO (mul p y)
    | XH -> y

  (** val size : positive -> positive **)

  let rec size = function
  | XI p0 -> succ (size p0)
  | XO p0 -> succ (size p0)
  | XH -> XH

  (** val compare_cont : comparison -> positive -> positive -> comparison **)

  let rec compare_cont r x y =
    match x with
    | XI p ->
      (match y with
       | XI q -> compare_cont r p q
       | XO q -> compare_cont Gt p q
       | XH -> Gt)
    | XO p ->
      (match y with
       | XI q -> compare_cont Lt p q
       | XO q -> compare_cont r p q
       | XH -> Gt)
    | XH -> (match y with
             | XH -> r
             | _ -> Lt)

  (** val compare : positive -> positive -> comparison **)

  let compare =
    compare_cont Eq

  (** val eqb : positive -> positive -> bool **)

  let rec eqb p q =
    match p with
    | XI p0 -> (match q with
                | XI q0 -> eqb p0 q0
                | _ -> false)
    | XO p0 -> (match q with
                | XO q0 -> eqb p0 q0
                | _ -> false)
    | XH -> (match q with
             | XH -> true
             | _ -> false)

  (** val iter_op : ('a1 -> 'a1 -> 'a1) -> positive -> 'a1 -> 'a1 **)

  let rec iter_op op p a =
    match p with
    | XI p0 -> op a (iter_op op p0 (op a a))
    | XO p0 -> iter_op op p0 (op a a)
    | XH -> a

  (** val to_nat : positive -> nat **)

  let to_nat x =
    iter_op Coq__1.add x (S O)
 end

module N =
 struct
  (** val succ_double : n -> n **)

  let succ_double = function
  | N0 -> Npos XH
  | Npos p -> Npos (XI p)

  (** val double : n -> n **)

  let double = function
  | N0 -> N0
  | Npos p -> Npos (XO p)

  (** val add : n -> n -> n **)

  let add n0 m =
    match n0 with
    | N0 -> m
    | Npos p -> (match m with
                 | N0 -> n0
                 | Npos q -> Npos (Coq_Pos.add p q))

  (** val sub : n -> n -> n **)

  let sub n0 m =
    match n0 with
    | N0 -> N0
    | Npos n' ->
      (match m with
       | N0 -> n0
       | Npos m' ->
         (match Coq_Pos.sub_mask n' m' with
          | Coq_Pos.IsPos p -> Npos p
          | _ -> N0))

  (** val mul : n -> n -> n **)

  let mul n0 m =
    match n0 with
    | N0 -> N0
    | Npos p -> (match m with
                 | N0 -> N0
                 | Npos q -> Npos (Coq_Pos.mul p q))

  (** val compare : n -> n -> comparison **)

  let compare n0 m =
    match n0 with
    | N0 -> (match m with
             | N0 -> Eq
             | Npos _ -> Lt)
    | Npos n' -> (match m with
                  | N0 -> Gt
                  | Npos m' -> Coq_Pos.compare n' m')

  (** val eqb : n -> n -> bool **)

  let eqb n0 m =
    match n0 with
    | N0 -> (match m with
             | N0 -> true
             | Npos _ -> false)
    | Npos p -> (match m with
                 | N0 -> false
                 | Npos q -> Coq_Pos.eqb p q)

  (** val leb : n -> n -> bool **)

  let leb x y =
    match compare x y with
    | Gt -> false
    | _ -> true

  (** val ltb : n -> n -> bool **)

  let ltb x y =
    match compare x y with
    | Lt -> true
    | _ -> false

  (** val log2 : n -> n **)

  let log2 = function
  | N0 -> N0
  | Npos p0 ->
    (match p0 with
     | XI p -> Npos (Coq_Pos.size p)
     | XO p -> Npos (Coq_Pos.size p)
     | XH -> N0)

  (** val pos_div_eucl : positive -> n -> n * n **)

  let rec pos_div_eucl a b =
    match a with
    | XI a' ->
      let (q, r) = pos_div_eucl a' b in
      let r' = succ_double r in
      if leb b r' then ((succ_double q), (sub r' b)) else ((double q), r')
    | XO a' ->
      let (q, r) = pos_div_eucl a' b in
      let r' = double r in
      if leb b r' then ((succ_double q), (sub r' b)) else ((double q), r')
    | XH ->
      (match b with
       | N0 -> (N0, (Npos XH))
       | Npos p -> (match p with
                    | XH -> ((Npos XH), N0)
                    | _ -> (N0, (Npos XH))))

  (** val div_eucl : n -> n -> n * n **)

  let div_eucl a b =
    match a with
    | N0 -> (N0, N0)
    | Npos na -> (match b with
                  | N0 -> (N0, a)
                  | Npos _ -> pos_div_eucl na b)

  (** val div : n -> n -> n **)

  let div a b =
    fst (div_eucl a b)

  (** val modulo : n -> n -> n **)

  let modulo a b =
    snd (div_eucl a b)

  (** val to_nat : n -> nat **)

  let to_nat = function
  | N0 -> O
  | Npos p -> Coq_Pos.to_nat p
 end

(** val rev : 'a1 list -> 'a1 list **)

let rec rev = function
| [] -> []
| x :: l' -> app (rev l') (x :: [])

(** val flat_map : ('a1 -> 'a2 list) -> 'a1 list -> 'a2 list **)

let rec flat_map f = function
| [] -> []
| x :: t -> app (f x) (flat_map f t)

(** val skipn : nat -> 'a1 list -> 'a1 list **)

let rec skipn n0 l =
  match n0 with
  | O -> l
  | S n1 -> (match l with
             | [] -> []
             | _ :: l0 -> skipn n1 l0)

type str = n list

type bytes = n list

(** val str_eqb : str -> str -> bool **)

let rec str_eqb a b =
  match a with
  | [] -> (match b with
           | [] -> true
           | _ :: _ -> false)
  | x :: a' ->
    (match b with
     | [] -> false
     | y :: b' -> (&&) (N.eqb x y) (str_eqb a' b'))

(** val starts_with : str -> str -> bool **)

let rec starts_with s = function
| [] -> true
| c :: p' ->
  (match s with
   | [] -> false
   | d :: s' -> (&&) (N.eqb c d) (starts_with s' p'))

(** val ends_with : str -> str -> bool **)

let ends_with s p =
  starts_with (rev s) (rev p)

(** val mem : n -> str -> bool **)

let rec mem c = function
| [] -> false
| d :: s' -> (||) (N.eqb c d) (mem c s')

(** val split_on : n -> str -> str list **)

let rec split_on sep = function
| [] -> [] :: []
| c :: s' ->
  if N.eqb c sep
  then [] :: (split_on sep s')
  else (match split_on sep s' with
        | [] -> (c :: []) :: []
        | p :: ps -> (c :: p) :: ps)

(** val join_with : str -> str list -> str **)

let rec join_with sep = function
| [] -> []
| x :: l' ->
  (match l' with
   | [] -> x
   | _ :: _ -> app x (app sep (join_with sep l')))

(** val lstrip_c : n -> str -> str **)

let rec lstrip_c c s = match s with
| [] -> []
| d :: s' -> if N.eqb c d then lstrip_c c s' else s

(** val rstrip_c : n -> str -> str **)

let rstrip_c c s =
  rev (lstrip_c c (rev s))

(** val all_c : n -> str -> bool **)

let rec all_c c = function
| [] -> true
| d :: s' -> (&&) (N.eqb c d) (all_c c s')

(** val after_last : n -> str -> str **)

let rec after_last sep s = match s with
| [] -> []
| c :: s' ->
  if mem sep s' then after_last sep s' else if N.eqb c sep then s' else s

(** val upto_last : n -> str -> str **)

let rec upto_last sep = function
| [] -> []
| c :: s' ->
  if mem sep s'
  then c :: (upto_last sep s')
  else if N.eqb c sep then c :: [] else []

(** val c_slash : n **)

let c_slash =
  Npos (XI (XI (XI (XI (XO XH)))))

(** val c_dot : n **)

let c_dot =
  Npos (XO (XI (XI (XI (XO XH)))))

(** val c_pct : n **)

let c_pct =
  Npos (XI (XO (XI (XO (XO XH)))))

(** val c_nl : n **)

let c_nl =
  Npos (XO (XI (XO XH)))

(** val c_cr : n **)

let c_cr =
  Npos (XI (XO (XI XH)))

(** val c_dash : n **)

let c_dash =
  Npos (XI (XO (XI (XI (XO XH)))))

(** val c_space : n **)

let c_space =
  Npos (XO (XO (XO (XO (XO XH)))))

(** val c_T : n **)

let c_T =
  Npos (XO (XO (XI (XO (XI (XO XH))))))

(** val c_colon : n **)

let c_colon =
  Npos (XO (XI (XO (XI (XI XH)))))

(** val is_ascii : n -> bool **)

let is_ascii c =
  N.ltb c (Npos (XO (XO (XO (XO (XO (XO (XO XH))))))))

(** val dec_digits_fuel : nat -> n -> str -> str **)

let rec dec_digits_fuel fuel n0 acc =
  match fuel with
  | O -> acc
  | S f ->
    let d =
      N.add (Npos (XO (XO (XO (XO (XI XH))))))
        (N.modulo n0 (Npos (XO (XI (XO XH)))))
    in
    if N.ltb n0 (Npos (XO (XI (XO XH))))
    then d :: acc
    else dec_digits_fuel f (N.div n0 (Npos (XO (XI (XO XH))))) (d :: acc)

(** val dec_of_N : n -> str **)

let dec_of_N n0 =
  dec_digits_fuel (S (N.to_nat (N.log2 n0))) n0 []

(** val pad2 : n -> str **)

let pad2 n0 =
  (N.add (Npos (XO (XO (XO (XO (XI XH))))))
    (N.modulo (N.div n0 (Npos (XO (XI (XO XH))))) (Npos (XO (XI (XO XH)))))) :: (
    (N.add (Npos (XO (XO (XO (XO (XI XH))))))
      (N.modulo n0 (Npos (XO (XI (XO XH)))))) :: [])

(** val isabs : str -> bool **)

let isabs p =
  starts_with p (c_slash :: [])

(** val basename : str -> str **)

let basename p =
  after_last c_slash p

(** val dirname : str -> str **)

let dirname p =
  let head = upto_last c_slash p in
  if all_c c_slash head then head else rstrip_c c_slash head

(** val join2 : str -> str -> str **)

let join2 a b =
  if starts_with b (c_slash :: [])
  then b
  else (match a with
        | [] -> b
        | _ :: _ ->
          if ends_with a (c_slash :: [])
          then app a b
          else app a (app (c_slash :: []) b))

(** val is_dot : str -> bool **)

let is_dot c =
  str_eqb c (c_dot :: [])

(** val is_dotdot : str -> bool **)

let is_dotdot c =
  str_eqb c (c_dot :: (c_dot :: []))

(** val norm_comps : bool -> str list -> str list -> str list **)

let rec norm_comps init_slashes comps stack =
  match comps with
  | [] -> rev stack
  | c :: cs ->
    (match c with
     | [] -> norm_comps init_slashes cs stack
     | _ :: _ ->
       if is_dot c
       then norm_comps init_slashes cs stack
       else if negb (is_dotdot c)
            then norm_comps init_slashes cs (c :: stack)
            else (match stack with
                  | [] ->
                    if init_slashes
                    then norm_comps init_slashes cs stack
                    else norm_comps init_slashes cs (c :: stack)
                  | top :: rest ->
                    if is_dotdot top
                    then norm_comps init_slashes cs (c :: stack)
                    else norm_comps init_slashes cs rest))

(** val normpath : str -> str **)

let normpath p = match p with
| [] -> c_dot :: []
| _ :: _ ->
  let abs = starts_with p (c_slash :: []) in
  let two =
    (&&) (starts_with p (c_slash :: (c_slash :: [])))
      (negb (starts_with p (c_slash :: (c_slash :: (c_slash :: [])))))
  in
  let body =
    join_with (c_slash :: []) (norm_comps abs (split_on c_slash p) [])
  in
  let res =
    app
      (if abs
       then if two then c_slash :: (c_slash :: []) else c_slash :: []
       else []) body
  in
  (match res with
   | [] -> c_dot :: []
   | _ :: _ -> res)

(** val abspath : str -> str -> str **)

let abspath cwd p =
  if isabs p then normpath p else normpath (join2 cwd p)

(** val is_surrogate : n -> bool **)

let is_surrogate c =
  (&&)
    (N.leb (Npos (XO (XO (XO (XO (XO (XO (XO (XO (XO (XO (XO (XI (XI (XO (XI
      XH)))))))))))))))) c)
    (N.leb c (Npos (XI (XI (XI (XI (XI (XI (XI (XI (XI (XI (XI (XI (XI (XO
      (XI XH)))))))))))))))))

(** val is_scalar : n -> bool **)

let is_scalar c =
  (&&)
    (N.leb c (Npos (XI (XI (XI (XI (XI (XI (XI (XI (XI (XI (XI (XI (XI (XI
      (XI (XI (XO (XO (XO (XO XH)))))))))))))))))))))) (negb (is_surrogate c))

(** val encode_cp : n -> bytes **)

let encode_cp c =
  if N.ltb c (Npos (XO (XO (XO (XO (XO (XO (XO XH))))))))
  then c :: []
  else if N.ltb c (Npos (XO (XO (XO (XO (XO (XO (XO (XO (XO (XO (XO
            XH))))))))))))
       then (N.add (Npos (XO (XO (XO (XO (XO (XO (XI XH))))))))
              (N.div c (Npos (XO (XO (XO (XO (XO (XO XH))))))))) :: (
              (N.add (Npos (XO (XO (XO (XO (XO (XO (XO XH))))))))
                (N.modulo c (Npos (XO (XO (XO (XO (XO (XO XH))))))))) :: [])
       else if N.ltb c (Npos (XO (XO (XO (XO (XO (XO (XO (XO (XO (XO (XO (XO
                 (XO (XO (XO (XO XH)))))))))))))))))
            then (N.add (Npos (XO (XO (XO (XO (XO (XI (XI XH))))))))
                   (N.div c (Npos (XO (XO (XO (XO (XO (XO (XO (XO (XO (XO (XO
                     (XO XH))))))))))))))) :: ((N.add (Npos (XO (XO (XO (XO
                                                 (XO (XO (XO XH))))))))
                                                 (N.modulo
                                                   (N.div c (Npos (XO (XO (XO
                                                     (XO (XO (XO XH))))))))
                                                   (Npos (XO (XO (XO (XO (XO
                                                   (XO XH))))))))) :: (
                   (N.add (Npos (XO (XO (XO (XO (XO (XO (XO XH))))))))
                     (N.modulo c (Npos (XO (XO (XO (XO (XO (XO XH))))))))) :: []))
            else (N.add (Npos (XO (XO (XO (XO (XI (XI (XI XH))))))))
                   (N.div c (Npos (XO (XO (XO (XO (XO (XO (XO (XO (XO (XO (XO
                     (XO (XO (XO (XO (XO (XO (XO XH))))))))))))))))))))) :: (
                   (N.add (Npos (XO (XO (XO (XO (XO (XO (XO XH))))))))
                     (N.modulo
                       (N.div c (Npos (XO (XO (XO (XO (XO (XO (XO (XO (XO (XO
                         (XO (XO XH)))))))))))))) (Npos (XO (XO (XO (XO (XO
                       (XO XH))))))))) :: ((N.add (Npos (XO (XO (XO (XO (XO
                                             (XO (XO XH))))))))
                                             (N.modulo
                                               (N.div c (Npos (XO (XO (XO (XO
                                                 (XO (XO XH)))))))) (Npos (XO
                                               (XO (XO (XO (XO (XO XH))))))))) :: (
                   (N.add (Npos (XO (XO (XO (XO (XO (XO (XO XH))))))))
                     (N.modulo c (Npos (XO (XO (XO (XO (XO (XO XH))))))))) :: [])))

(** val utf8_encode : str -> bytes option **)

let rec utf8_encode = function
| [] -> Some []
| c :: s' ->
  if is_scalar c
  then (match utf8_encode s' with
        | Some b -> Some (app (encode_cp c) b)
        | None -> None)
  else None

(** val is_cont : n -> bool **)

let is_cont b =
  (&&) (N.leb (Npos (XO (XO (XO (XO (XO (XO (XO XH)))))))) b)
    (N.ltb b (Npos (XO (XO (XO (XO (XO (XO (XI XH)))))))))

type dstep =
| DOk of n * bytes
| DBad of bytes
| DEnd

(** val decode_step : bytes -> dstep **)

let decode_step = function
| [] -> DEnd
| ch :: r1 ->
  if N.ltb ch (Npos (XO (XO (XO (XO (XO (XO (XO XH))))))))
  then DOk (ch, r1)
  else if N.ltb ch (Npos (XO (XI (XO (XO (XO (XO (XI XH))))))))
       then DBad r1
       else if N.ltb ch (Npos (XO (XO (XO (XO (XO (XI (XI XH))))))))
            then (match r1 with
                  | [] -> DEnd
                  | c2 :: r2 ->
                    if is_cont c2
                    then DOk
                           ((N.add
                              (N.mul
                                (N.sub ch (Npos (XO (XO (XO (XO (XO (XO (XI
                                  XH))))))))) (Npos (XO (XO (XO (XO (XO (XO
                                XH))))))))
                              (N.sub c2 (Npos (XO (XO (XO (XO (XO (XO (XO
                                XH)))))))))), r2)
                    else DBad r1)
            else if N.ltb ch (Npos (XO (XO (XO (XO (XI (XI (XI XH))))))))
                 then (match r1 with
                       | [] -> DEnd
                       | c2 :: r2 ->
                         if (||)
                              ((||) (negb (is_cont c2))
                                ((&&)
                                  (N.eqb ch (Npos (XO (XO (XO (XO (XO (XI (XI
                                    XH)))))))))
                                  (N.ltb c2 (Npos (XO (XO (XO (XO (XO (XI (XO
                                    XH)))))))))))
                              ((&&)
                                (N.eqb ch (Npos (XI (XO (XI (XI (XO (XI (XI
                                  XH)))))))))
                                (N.leb (Npos (XO (XO (XO (XO (XO (XI (XO
                                  XH)))))))) c2))
                         then DBad r1
                         else (match r2 with
                               | [] -> DEnd
                               | c3 :: r3 ->
                                 if is_cont c3
                                 then DOk
                                        ((N.add
                                           (N.add
                                             (N.mul
                                               (N.sub ch (Npos (XO (XO (XO
                                                 (XO (XO (XI (XI XH)))))))))
                                               (Npos (XO (XO (XO (XO (XO (XO
                                               (XO (XO (XO (XO (XO (XO
                                               XH))))))))))))))
                                             (N.mul
                                               (N.sub c2 (Npos (XO (XO (XO
                                                 (XO (XO (XO (XO XH)))))))))
                                               (Npos (XO (XO (XO (XO (XO (XO
                                               XH)))))))))
                                           (N.sub c3 (Npos (XO (XO (XO (XO
                                             (XO (XO (XO XH)))))))))), r3)
                                 else DBad r2))
                 else if N.ltb ch (Npos (XI (XO (XI (XO (XI (XI (XI XH))))))))
                      then (match r1 with
                            | [] -> DEnd
                            | c2 :: r2 ->
                              if (||)
                                   ((||) (negb (is_cont c2))
                                     ((&&)
                                       (N.eqb ch (Npos (XO (XO (XO (XO (XI
                                         (XI (XI XH)))))))))
                                       (N.ltb c2 (Npos (XO (XO (XO (XO (XI
                                         (XO (XO XH)))))))))))
                                   ((&&)
                                     (N.eqb ch (Npos (XO (XO (XI (XO (XI (XI
                                       (XI XH)))))))))
                                     (N.leb (Npos (XO (XO (XO (XO (XI (XO (XO
                                       XH)))))))) c2))
                              then DBad r1
                              else (match r2 with
                                    | [] -> DEnd
                                    | c3 :: r3 ->
                                      if negb (is_cont c3)
                                      then DBad r2
                                      else (match r3 with
                                            | [] -> DEnd
                                            | c4 :: r4 ->
                                              if is_cont c4
                                              then DOk
                                                     ((N.add
                                                        (N.add
                                                          (N.add
                                                            (N.mul
                                                              (N.sub ch (Npos
                                                                (XO (XO (XO
                                                                (XO (XI (XI
                                                                (XI
                                                                XH)))))))))
                                                              (Npos (XO (XO
                                                              (XO (XO (XO (XO
                                                              (XO (XO (XO (XO
                                                              (XO (XO (XO (XO
                                                              (XO (XO (XO (XO
                                                              XH))))))))))))))))))))
                                                            (N.mul
                                                              (N.sub c2 (Npos
                                                                (XO (XO (XO
                                                                (XO (XO (XO
                                                                (XO
                                                                XH)))))))))
                                                              (Npos (XO (XO
                                                              (XO (XO (XO (XO
                                                              (XO (XO (XO (XO
                                                              (XO (XO
                                                              XH)))))))))))))))
                                                          (N.mul
                                                            (N.sub c3 (Npos
                                                              (XO (XO (XO (XO
                                                              (XO (XO (XO
                                                              XH)))))))))
                                                            (Npos (XO (XO (XO
                                                            (XO (XO (XO
                                                            XH)))))))))
                                                        (N.sub c4 (Npos (XO
                                                          (XO (XO (XO (XO (XO
                                                          (XO XH)))))))))),
                                                     r4)
                                              else DBad r3)))
                      else DBad r1

(** val c_fffd : n **)

let c_fffd =
  Npos (XI (XO (XI (XI (XI (XI (XI (XI (XI (XI (XI (XI (XI (XI (XI
    XH)))))))))))))))

(** val decode_replace_fuel : nat -> bytes -> str **)

let rec decode_replace_fuel fuel b =
  match fuel with
  | O -> []
  | S f ->
    (match b with
     | [] -> []
     | _ :: _ ->
       (match decode_step b with
        | DOk (c, r) -> c :: (decode_replace_fuel f r)
        | DBad r -> c_fffd :: (decode_replace_fuel f r)
        | DEnd -> c_fffd :: []))

(** val utf8_decode_replace : bytes -> str **)

let utf8_decode_replace b =
  decode_replace_fuel (length b) b

(** val decode_strict_fuel : nat -> bytes -> str option **)

let rec decode_strict_fuel fuel b =
  match fuel with
  | O -> (match b with
          | [] -> Some []
          | _ :: _ -> None)
  | S f ->
    (match b with
     | [] -> Some []
     | _ :: _ ->
       (match decode_step b with
        | DOk (c, r) ->
          (match decode_strict_fuel f r with
           | Some s -> Some (c :: s)
           | None -> None)
        | _ -> None))

(** val utf8_decode_strict : bytes -> str option **)

let utf8_decode_strict b =
  decode_strict_fuel (length b) b

(** val decode_sesc_fuel : nat -> bytes -> str **)

let rec decode_sesc_fuel fuel b =
  match fuel with
  | O -> []
  | S f ->
    (match b with
     | [] -> []
     | ch :: r1 ->
       (match decode_step b with
        | DOk (c, r) -> c :: (decode_sesc_fuel f r)
        | _ ->
          (N.add (Npos (XO (XO (XO (XO (XO (XO (XO (XO (XO (XO (XI (XI (XI
            (XO (XI XH)))))))))))))))) ch) :: (decode_sesc_fuel f r1)))

(** val fsdecode : bytes -> str **)

let fsdecode b =
  decode_sesc_fuel (length b) b

(** val fsencode : str -> bytes option **)

let rec fsencode = function
| [] -> Some []
| c :: s' ->
  (match fsencode s' with
   | Some b ->
     if (&&)
          (N.leb (Npos (XO (XO (XO (XO (XO (XO (XO (XI (XO (XO (XI (XI (XI
            (XO (XI XH)))))))))))))))) c)
          (N.leb c (Npos (XI (XI (XI (XI (XI (XI (XI (XI (XO (XO (XI (XI (XI
            (XO (XI XH)))))))))))))))))
     then Some
            ((N.sub c (Npos (XO (XO (XO (XO (XO (XO (XO (XO (XO (XO (XI (XI
               (XI (XO (XI XH))))))))))))))))) :: b)
     else if is_scalar c then Some (app (encode_cp c) b) else None
   | None -> None)

(** val nd_zeros : n list **)

let nd_zeros =
  (Npos (XO (XO (XO (XO (XI XH)))))) :: ((Npos (XO (XO (XO (XO (XO (XI (XI
    (XO (XO (XI XH))))))))))) :: ((Npos (XO (XO (XO (XO (XI (XI (XI (XI (XO
    (XI XH))))))))))) :: ((Npos (XO (XO (XO (XO (XO (XO (XI (XI (XI (XI
    XH))))))))))) :: ((Npos (XO (XI (XI (XO (XO (XI (XI (XO (XI (XO (XO
    XH)))))))))))) :: ((Npos (XO (XI (XI (XO (XO (XI (XI (XI (XI (XO (XO
    XH)))))))))))) :: ((Npos (XO (XI (XI (XO (XO (XI (XI (XO (XO (XI (XO
    XH)))))))))))) :: ((Npos (XO (XI (XI (XO (XO (XI (XI (XI (XO (XI (XO
    XH)))))))))))) :: ((Npos (XO (XI (XI (XO (XO (XI (XI (XO (XI (XI (XO
    XH)))))))))))) :: ((Npos (XO (XI (XI (XO (XO (XI (XI (XI (XI (XI (XO
    XH)))))))))))) :: ((Npos (XO (XI (XI (XO (XO (XI (XI (XO (XO (XO (XI
    XH)))))))))))) :: ((Npos (XO (XI (XI (XO (XO (XI (XI (XI (XO (XO (XI
    XH)))))))))))) :: ((Npos (XO (XI (XI (XO (XO (XI (XI (XO (XI (XO (XI
    XH)))))))))))) :: ((Npos (XO (XI (XI (XO (XO (XI (XI (XI (XI (XO (XI
    XH)))))))))))) :: ((Npos (XO (XO (XO (XO (XI (XO (XI (XO (XO (XI (XI
    XH)))))))))))) :: ((Npos (XO (XO (XO (XO (XI (XO (XI (XI (XO (XI (XI
    XH)))))))))))) :: ((Npos (XO (XO (XO (XO (XO (XI (XO (XO (XI (XI (XI
    XH)))))))))))) :: ((Npos (XO (XO (XO (XO (XO (XO (XI (XO (XO (XO (XO (XO
    XH))))))))))))) :: ((Npos (XO (XO (XO (XO (XI (XO (XO (XI (XO (XO (XO (XO
    XH))))))))))))) :: ((Npos (XO (XO (XO (XO (XO (XI (XI (XI (XI (XI (XI (XO
    XH))))))))))))) :: ((Npos (XO (XO (XO (XO (XI (XO (XO (XO (XO (XO (XO (XI
    XH))))))))))))) :: ((Npos (XO (XI (XI (XO (XO (XO (XI (XO (XI (XO (XO (XI
    XH))))))))))))) :: ((Npos (XO (XO (XO (XO (XI (XO (XI (XI (XI (XO (XO (XI
    XH))))))))))))) :: ((Npos (XO (XO (XO (XO (XO (XO (XO (XI (XO (XI (XO (XI
    XH))))))))))))) :: ((Npos (XO (XO (XO (XO (XI (XO (XO (XI (XO (XI (XO (XI
    XH))))))))))))) :: ((Npos (XO (XO (XO (XO (XI (XO (XI (XO (XI (XI (XO (XI
    XH))))))))))))) :: ((Npos (XO (XO (XO (XO (XI (XI (XO (XI (XI (XI (XO (XI
    XH))))))))))))) :: ((Npos (XO (XO (XO (XO (XO (XO (XI (XO (XO (XO (XI (XI
    XH))))))))))))) :: ((Npos (XO (XO (XO (XO (XI (XO (XI (XO (XO (XO (XI (XI
    XH))))))))))))) :: ((Npos (XO (XO (XO (XO (XO (XI (XO (XO (XO (XI (XI (XO
    (XO (XI (XO XH)))))))))))))))) :: ((Npos (XO (XO (XO (XO (XI (XO (XI (XI
    (XO (XO (XO (XI (XO (XI (XO XH)))))))))))))))) :: ((Npos (XO (XO (XO (XO
    (XO (XO (XO (XO (XI (XO (XO (XI (XO (XI (XO XH)))))))))))))))) :: ((Npos
    (XO (XO (XO (XO (XI (XO (XI (XI (XI (XO (XO (XI (XO (XI (XO
    XH)))))))))))))))) :: ((Npos (XO (XO (XO (XO (XI (XI (XI (XI (XI (XO (XO
    (XI (XO (XI (XO XH)))))))))))))))) :: ((Npos (XO (XO (XO (XO (XI (XO (XI
    (XO (XO (XI (XO (XI (XO (XI (XO XH)))))))))))))))) :: ((Npos (XO (XO (XO
    (XO (XI (XI (XI (XI (XI (XI (XO (XI (XO (XI (XO
    XH)))))))))))))))) :: ((Npos (XO (XO (XO (XO (XI (XO (XO (XO (XI (XI (XI
    (XI (XI (XI (XI XH)))))))))))))))) :: ((Npos (XO (XO (XO (XO (XO (XI (XO
    (XI (XO (XO (XI (XO (XO (XO (XO (XO XH))))))))))))))))) :: ((Npos (XO (XO
    (XO (XO (XI (XI (XO (XO (XI (XO (XI (XI (XO (XO (XO (XO
    XH))))))))))))))))) :: ((Npos (XO (XI (XI (XO (XO (XI (XI (XO (XO (XO (XO
    (XO (XI (XO (XO (XO XH))))))))))))))))) :: ((Npos (XO (XO (XO (XO (XI (XI
    (XI (XI (XO (XO (XO (XO (XI (XO (XO (XO XH))))))))))))))))) :: ((Npos (XO
    (XI (XI (XO (XI (XI (XO (XO (XI (XO (XO (XO (XI (XO (XO (XO
    XH))))))))))))))))) :: ((Npos (XO (XO (XO (XO (XI (XO (XI (XI (XI (XO (XO
    (XO (XI (XO (XO (XO XH))))))))))))))))) :: ((Npos (XO (XO (XO (XO (XI (XI
    (XI (XI (XO (XI (XO (XO (XI (XO (XO (XO XH))))))))))))))))) :: ((Npos (XO
    (XO (XO (XO (XI (XO (XI (XO (XO (XO (XI (XO (XI (XO (XO (XO
    XH))))))))))))))))) :: ((Npos (XO (XO (XO (XO (XI (XO (XI (XI (XO (XO (XI
    (XO (XI (XO (XO (XO XH))))))))))))))))) :: ((Npos (XO (XO (XO (XO (XI (XO
    (XI (XO (XO (XI (XI (XO (XI (XO (XO (XO XH))))))))))))))))) :: ((Npos (XO
    (XO (XO (XO (XO (XO (XI (XI (XO (XI (XI (XO (XI (XO (XO (XO
    XH))))))))))))))))) :: ((Npos (XO (XO (XO (XO (XI (XI (XO (XO (XI (XI (XI
    (XO (XI (XO (XO (XO XH))))))))))))))))) :: ((Npos (XO (XO (XO (XO (XO (XI
    (XI (XI (XO (XO (XO (XI (XI (XO (XO (XO XH))))))))))))))))) :: ((Npos (XO
    (XO (XO (XO (XI (XO (XI (XO (XI (XO (XO (XI (XI (XO (XO (XO
    XH))))))))))))))))) :: ((Npos (XO (XO (XO (XO (XI (XO (XI (XO (XO (XO (XI
    (XI (XI (XO (XO (XO XH))))))))))))))))) :: ((Npos (XO (XO (XO (XO (XI (XO
    (XI (XO (XI (XO (XI (XI (XI (XO (XO (XO XH))))))))))))))))) :: ((Npos (XO
    (XO (XO (XO (XO (XI (XO (XI (XI (XO (XI (XI (XI (XO (XO (XO
    XH))))))))))))))))) :: ((Npos (XO (XO (XO (XO (XI (XO (XI (XO (XI (XI (XI
    (XI (XI (XO (XO (XO XH))))))))))))))))) :: ((Npos (XO (XO (XO (XO (XO (XI
    (XI (XO (XO (XI (XO (XI (XO (XI (XI (XO XH))))))))))))))))) :: ((Npos (XO
    (XO (XO (XO (XO (XO (XI (XI (XO (XI (XO (XI (XO (XI (XI (XO
    XH))))))))))))))))) :: ((Npos (XO (XO (XO (XO (XI (XO (XI (XO (XI (XI (XO
    (XI (XO (XI (XI (XO XH))))))))))))))))) :: ((Npos (XO (XI (XI (XI (XO (XO
    (XI (XI (XI (XI (XI (XO (XI (XO (XI (XI XH))))))))))))))))) :: ((Npos (XO
    (XO (XO (XI (XI (XO (XI (XI (XI (XI (XI (XO (XI (XO (XI (XI
    XH))))))))))))))))) :: ((Npos (XO (XI (XO (XO (XO (XI (XI (XI (XI (XI (XI
    (XO (XI (XO (XI (XI XH))))))))))))))))) :: ((Npos (XO (XO (XI (XI (XO (XI
    (XI (XI (XI (XI (XI (XO (XI (XO (XI (XI XH))))))))))))))))) :: ((Npos (XO
    (XI (XI (XO (XI (XI (XI (XI (XI (XI (XI (XO (XI (XO (XI (XI
    XH))))))))))))))))) :: ((Npos (XO (XO (XO (XO (XO (XO (XI (XO (XI (XO (XO
    (XO (XO (XI (XI (XI XH))))))))))))))))) :: ((Npos (XO (XO (XO (XO (XI (XI
    (XI (XI (XO (XI (XO (XO (XO (XI (XI (XI XH))))))))))))))))) :: ((Npos (XO
    (XO (XO (XO (XI (XI (XI (XI (XO (XO (XI (XO (XO (XI (XI (XI
    XH))))))))))))))))) :: ((Npos (XO (XO (XO (XO (XI (XO (XI (XO (XI (XO (XO
    (XI (XO (XI (XI (XI XH))))))))))))))))) :: ((Npos (XO (XO (XO (XO (XI (XI
    (XI (XI (XI (XI (XO (XI (XI (XI (XI (XI
    XH))))))))))))))))) :: [])))))))))))))))))))))))))))))))))))))))))))))))))))))))))))))))))))

(** val is_alnum : n -> bool **)

let is_alnum b =
  (||)
    ((||)
      ((&&) (N.leb (Npos (XO (XO (XO (XO (XI XH)))))) b)
        (N.leb b (Npos (XI (XO (XO (XI (XI XH))))))))
      ((&&) (N.leb (Npos (XI (XO (XO (XO (XO (XO XH))))))) b)
        (N.leb b (Npos (XO (XI (XO (XI (XI (XO XH))))))))))
    ((&&) (N.leb (Npos (XI (XO (XO (XO (XO (XI XH))))))) b)
      (N.leb b (Npos (XO (XI (XO (XI (XI (XI XH)))))))))

(** val is_safe : n -> bool **)

let is_safe b =
  (||)
    ((||)
      ((||)
        ((||)
          ((||) (is_alnum b)
            (N.eqb b (Npos (XI (XI (XI (XI (XI (XO XH)))))))))
          (N.eqb b (Npos (XO (XI (XI (XI (XO XH))))))))
        (N.eqb b (Npos (XI (XO (XI (XI (XO XH))))))))
      (N.eqb b (Npos (XO (XI (XI (XI (XI (XI XH)))))))))
    (N.eqb b (Npos (XI (XI (XI (XI (XO XH)))))))

(** val hex_digit : n -> n **)

let hex_digit n0 =
  if N.ltb n0 (Npos (XO (XI (XO XH))))
  then N.add (Npos (XO (XO (XO (XO (XI XH)))))) n0
  else N.add (Npos (XI (XI (XI (XO (XI XH)))))) n0

(** val quote_byte : n -> str **)

let quote_byte b =
  if is_safe b
  then b :: []
  else c_pct :: ((hex_digit (N.div b (Npos (XO (XO (XO (XO XH))))))) :: (
         (hex_digit (N.modulo b (Npos (XO (XO (XO (XO XH))))))) :: []))

(** val quote : str -> str option **)

let quote s =
  match utf8_encode s with
  | Some b -> Some (flat_map quote_byte b)
  | None -> None

(** val hex_val : n -> n option **)

let hex_val c =
  if (&&) (N.leb (Npos (XO (XO (XO (XO (XI XH)))))) c)
       (N.leb c (Npos (XI (XO (XO (XI (XI XH)))))))
  then Some (N.sub c (Npos (XO (XO (XO (XO (XI XH)))))))
  else if (&&) (N.leb (Npos (XI (XO (XO (XO (XO (XO XH))))))) c)
            (N.leb c (Npos (XO (XI (XI (XO (XO (XO XH))))))))
       then Some (N.sub c (Npos (XI (XI (XI (XO (XI XH)))))))
       else if (&&) (N.leb (Npos (XI (XO (XO (XO (XO (XI XH))))))) c)
                 (N.leb c (Npos (XO (XI (XI (XO (XO (XI XH))))))))
            then Some (N.sub c (Npos (XI (XI (XI (XO (XI (XO XH))))))))
            else None

(** val pct_decode : str -> bytes **)

let rec pct_decode = function
| [] -> []
| c :: s' ->
  if N.eqb c c_pct
  then (match s' with
        | [] -> c :: (pct_decode s')
        | h1 :: l ->
          (match l with
           | [] -> c :: (pct_decode s')
           | h2 :: s'' ->
             (match hex_val h1 with
              | Some a ->
                (match hex_val h2 with
                 | Some b ->
                   (N.add (N.mul (Npos (XO (XO (XO (XO XH))))) a) b) :: 
                     (pct_decode s'')
                 | None -> c :: (pct_decode s'))
              | None -> c :: (pct_decode s'))))
  else c :: (pct_decode s')

(** val flush_run : str -> str **)

let flush_run run = match run with
| [] -> []
| _ :: _ -> utf8_decode_replace (pct_decode (rev run))

(** val unquote_runs : str -> str -> str **)

let rec unquote_runs s run =
  match s with
  | [] -> flush_run run
  | c :: s' ->
    if is_ascii c
    then unquote_runs s' (c :: run)
    else app (flush_run run) (c :: (unquote_runs s' []))

(** val unquote : str -> str **)

let unquote s =
  if mem c_pct s then unquote_runs s [] else s

type datetime = { dyear : n; dmonth : n; dday : n; dhour : n; dminute : 
                  n; dsecond : n; dmicro : n }

(** val is_leap : n -> bool **)

let is_leap y =
  (&&) (N.eqb (N.modulo y (Npos (XO (XO XH)))) N0)
    ((||)
      (negb (N.eqb (N.modulo y (Npos (XO (XO (XI (XO (XO (XI XH)))))))) N0))
      (N.eqb (N.modulo y (Npos (XO (XO (XO (XO (XI (XO (XO (XI XH))))))))))
        N0))

(** val days_in_month : n -> n -> n **)

let days_in_month y m =
  if N.eqb m (Npos (XO XH))
  then if is_leap y
       then Npos (XI (XO (XI (XI XH))))
       else Npos (XO (XO (XI (XI XH))))
  else if (||)
            ((||)
              ((||) (N.eqb m (Npos (XO (XO XH))))
                (N.eqb m (Npos (XO (XI XH)))))
              (N.eqb m (Npos (XI (XO (XO XH))))))
            (N.eqb m (Npos (XI (XI (XO XH)))))
       then Npos (XO (XI (XI (XI XH))))
       else Npos (XI (XI (XI (XI XH))))

(** val dt_valid : datetime -> bool **)

let dt_valid d =
  (&&)
    ((&&)
      ((&&)
        ((&&)
          ((&&)
            ((&&)
              ((&&)
                ((&&)
                  ((&&) (N.leb (Npos XH) d.dyear)
                    (N.leb d.dyear (Npos (XI (XI (XI (XI (XO (XO (XO (XO (XI
                      (XI (XI (XO (XO XH))))))))))))))))
                  (N.leb (Npos XH) d.dmonth))
                (N.leb d.dmonth (Npos (XO (XO (XI XH))))))
              (N.leb (Npos XH) d.dday))
            (N.leb d.dday (days_in_month d.dyear d.dmonth)))
          (N.leb d.dhour (Npos (XI (XI (XI (XO XH)))))))
        (N.leb d.dminute (Npos (XI (XI (XO (XI (XI XH))))))))
      (N.leb d.dsecond (Npos (XI (XI (XO (XI (XI XH))))))))
    (N.leb d.dmicro (Npos (XI (XI (XI (XI (XI (XI (XO (XO (XO (XI (XO (XO (XO
      (XO (XI (XO (XI (XI (XI XH)))))))))))))))))))))

(** val format_date : datetime -> str **)

let format_date d =
  app (dec_of_N d.dyear)
    (app (c_dash :: [])
      (app (pad2 d.dmonth)
        (app (c_dash :: [])
          (app (pad2 d.dday)
            (app (c_T :: [])
              (app (pad2 d.dhour)
                (app (c_colon :: [])
                  (app (pad2 d.dminute)
                    (app (c_colon :: []) (pad2 d.dsecond))))))))))

(** val digit_in : n list -> n -> n option **)

let rec digit_in zs c =
  match zs with
  | [] -> None
  | z :: zs' ->
    if (&&) (N.leb z c) (N.ltb c (N.add z (Npos (XO (XI (XO XH))))))
    then Some (N.sub c z)
    else digit_in zs' c

(** val uni_digit : n -> n option **)

let uni_digit c =
  digit_in nd_zeros c

(** val ascii_digit : n -> n option **)

let ascii_digit c =
  if (&&) (N.leb (Npos (XO (XO (XO (XO (XI XH)))))) c)
       (N.leb c (Npos (XI (XO (XO (XI (XI XH)))))))
  then Some (N.sub c (Npos (XO (XO (XO (XO (XI XH)))))))
  else None

(** val field :
    (n -> n -> bool) -> bool -> (n -> bool) -> str -> (n * str) option **)

let field two one_uni one s =
  let try_one =
    match s with
    | [] -> None
    | c1 :: r ->
      (match if one_uni then uni_digit c1 else ascii_digit c1 with
       | Some v -> if one v then Some (v, r) else None
       | None -> None)
  in
  (match s with
   | [] -> try_one
   | c1 :: l ->
     (match l with
      | [] -> try_one
      | c2 :: r ->
        (match ascii_digit c1 with
         | Some a ->
           (match uni_digit c2 with
            | Some b ->
              if two a
                   (if (&&) (N.leb (Npos (XO (XO (XO (XO (XI XH)))))) c2)
                         (N.leb c2 (Npos (XI (XO (XO (XI (XI XH)))))))
                    then b
                    else N.add b (Npos (XO (XO (XI (XO (XO (XI XH))))))))
              then Some ((N.add (N.mul (Npos (XO (XI (XO XH)))) a) b), r)
              else try_one
            | None -> try_one)
         | None -> try_one)))

(** val is_ascii2 : n -> bool **)

let is_ascii2 b =
  N.ltb b (Npos (XO (XO (XI (XO (XO (XI XH)))))))

(** val f_month : str -> (n * str) option **)

let f_month =
  field (fun a b ->
    (||)
      ((&&) ((&&) (N.eqb a (Npos XH)) (is_ascii2 b)) (N.leb b (Npos (XO XH))))
      ((&&) ((&&) (N.eqb a N0) (is_ascii2 b)) (N.leb (Npos XH) b))) false
    (fun v -> N.leb (Npos XH) v)

(** val f_day_digits : str -> (n * str) option **)

let f_day_digits =
  field (fun a b ->
    (||)
      ((||)
        ((&&) ((&&) (N.eqb a (Npos (XI XH))) (is_ascii2 b))
          (N.leb b (Npos XH)))
        ((&&) (N.leb (Npos XH) a) (N.leb a (Npos (XO XH)))))
      ((&&) ((&&) (N.eqb a N0) (is_ascii2 b)) (N.leb (Npos XH) b))) false
    (fun v -> N.leb (Npos XH) v)

(** val f_day : str -> (n * str) option **)

let f_day s =
  match f_day_digits s with
  | Some r -> Some r
  | None ->
    (match s with
     | [] -> None
     | sp :: l ->
       (match l with
        | [] -> None
        | c :: r ->
          if N.eqb sp c_space
          then (match ascii_digit c with
                | Some v -> if N.leb (Npos XH) v then Some (v, r) else None
                | None -> None)
          else None))

(** val f_hour : str -> (n * str) option **)

let f_hour =
  field (fun a b ->
    (||)
      ((&&) ((&&) (N.eqb a (Npos (XO XH))) (is_ascii2 b))
        (N.leb b (Npos (XI XH)))) (N.leb a (Npos XH))) true (fun _ -> true)

(** val f_minute : str -> (n * str) option **)

let f_minute =
  field (fun a _ -> N.leb a (Npos (XI (XO XH)))) true (fun _ -> true)

(** val f_second : str -> (n * str) option **)

let f_second =
  field (fun a b ->
    (||)
      ((&&) ((&&) (N.eqb a (Npos (XO (XI XH)))) (is_ascii2 b))
        (N.leb b (Npos XH))) (N.leb a (Npos (XI (XO XH))))) true (fun _ ->
    true)

(** val f_year : str -> (n * str) option **)

let f_year = function
| [] -> None
| a :: l ->
  (match l with
   | [] -> None
   | b :: l0 ->
     (match l0 with
      | [] -> None
      | c :: l1 ->
        (match l1 with
         | [] -> None
         | d :: r ->
           (match uni_digit a with
            | Some x ->
              (match uni_digit b with
               | Some y ->
                 (match uni_digit c with
                  | Some z ->
                    (match uni_digit d with
                     | Some w ->
                       Some
                         ((N.add
                            (N.add
                              (N.add
                                (N.mul (Npos (XO (XO (XO (XI (XO (XI (XI (XI
                                  (XI XH)))))))))) x)
                                (N.mul (Npos (XO (XO (XI (XO (XO (XI
                                  XH))))))) y))
                              (N.mul (Npos (XO (XI (XO XH)))) z)) w), r)
                     | None -> None)
                  | None -> None)
               | None -> None)
            | None -> None))))

(** val expect : n -> str -> str option **)

let expect c = function
| [] -> None
| d :: r -> if N.eqb c d then Some r else None

(** val expect_T : str -> str option **)

let expect_T = function
| [] -> None
| d :: r ->
  if (||) (N.eqb d (Npos (XO (XO (XI (XO (XI (XO XH))))))))
       (N.eqb d (Npos (XO (XO (XI (XO (XI (XI XH))))))))
  then Some r
  else None

(** val strptime_body : str -> datetime option **)

let strptime_body s =
  match f_year s with
  | Some p ->
    let (y, s1) = p in
    (match expect c_dash s1 with
     | Some s2 ->
       (match f_month s2 with
        | Some p0 ->
          let (m, s3) = p0 in
          (match expect c_dash s3 with
           | Some s4 ->
             (match f_day s4 with
              | Some p1 ->
                let (d, s5) = p1 in
                (match expect_T s5 with
                 | Some s6 ->
                   (match f_hour s6 with
                    | Some p2 ->
                      let (hh, s7) = p2 in
                      (match expect c_colon s7 with
                       | Some s8 ->
                         (match f_minute s8 with
                          | Some p3 ->
                            let (mi, s9) = p3 in
                            (match expect c_colon s9 with
                             | Some s10 ->
                               (match f_second s10 with
                                | Some p4 ->
                                  let (ss, s11) = p4 in
                                  (match s11 with
                                   | [] ->
                                     let dt = { dyear = y; dmonth = m; dday =
                                       d; dhour = hh; dminute = mi; dsecond =
                                       ss; dmicro = N0 }
                                     in
                                     if dt_valid dt then Some dt else None
                                   | _ :: _ -> None)
                                | None -> None)
                             | None -> None)
                          | None -> None)
                       | None -> None)
                    | None -> None)
                 | None -> None)
              | None -> None)
           | None -> None)
        | None -> None)
     | None -> None)
  | None -> None

(** val s_header : n list **)

let s_header =
  (Npos (XI (XI (XO (XI (XI (XO XH))))))) :: ((Npos (XO (XO (XI (XO (XI (XO
    XH))))))) :: ((Npos (XO (XI (XO (XO (XI (XI XH))))))) :: ((Npos (XI (XO
    (XO (XO (XO (XI XH))))))) :: ((Npos (XI (XI (XO (XO (XI (XI
    XH))))))) :: ((Npos (XO (XO (XO (XI (XO (XI XH))))))) :: ((Npos (XO (XO
    (XO (XO (XO XH)))))) :: ((Npos (XI (XO (XO (XI (XO (XO
    XH))))))) :: ((Npos (XO (XI (XI (XI (XO (XI XH))))))) :: ((Npos (XO (XI
    (XI (XO (XO (XI XH))))))) :: ((Npos (XI (XI (XI (XI (XO (XI
    XH))))))) :: ((Npos (XI (XO (XI (XI (XI (XO XH))))))) :: [])))))))))))

(** val s_Path : n list **)

let s_Path =
  (Npos (XO (XO (XO (XO (XI (XO XH))))))) :: ((Npos (XI (XO (XO (XO (XO (XI
    XH))))))) :: ((Npos (XO (XO (XI (XO (XI (XI XH))))))) :: ((Npos (XO (XO
    (XO (XI (XO (XI XH))))))) :: ((Npos (XI (XO (XI (XI (XI XH)))))) :: []))))

(** val s_DeletionDate : n list **)

let s_DeletionDate =
  (Npos (XO (XO (XI (XO (XO (XO XH))))))) :: ((Npos (XI (XO (XI (XO (XO (XI
    XH))))))) :: ((Npos (XO (XO (XI (XI (XO (XI XH))))))) :: ((Npos (XI (XO
    (XI (XO (XO (XI XH))))))) :: ((Npos (XO (XO (XI (XO (XI (XI
    XH))))))) :: ((Npos (XI (XO (XO (XI (XO (XI XH))))))) :: ((Npos (XI (XI
    (XI (XI (XO (XI XH))))))) :: ((Npos (XO (XI (XI (XI (XO (XI
    XH))))))) :: ((Npos (XO (XO (XI (XO (XO (XO XH))))))) :: ((Npos (XI (XO
    (XO (XO (XO (XI XH))))))) :: ((Npos (XO (XO (XI (XO (XI (XI
    XH))))))) :: ((Npos (XI (XO (XI (XO (XO (XI XH))))))) :: ((Npos (XI (XO
    (XI (XI (XI XH)))))) :: []))))))))))))

(** val format_trashinfo_str : str -> datetime -> str option **)

let format_trashinfo_str loc d =
  match quote loc with
  | Some q ->
    Some
      (app s_header
        (app (c_nl :: [])
          (app s_Path
            (app q
              (app (c_nl :: [])
                (app s_DeletionDate (app (format_date d) (c_nl :: []))))))))
  | None -> None

(** val format_trashinfo : str -> datetime -> bytes option **)

let format_trashinfo loc d =
  match format_trashinfo_str loc d with
  | Some s -> utf8_encode s
  | None -> None

(** val universal_newlines : str -> str **)

let rec universal_newlines = function
| [] -> []
| c :: s' ->
  if N.eqb c c_cr
  then (match s' with
        | [] -> c_nl :: []
        | d :: s'' ->
          if N.eqb d c_nl
          then c_nl :: (universal_newlines s'')
          else c_nl :: (universal_newlines s'))
  else c :: (universal_newlines s')

(** val read_text : bytes -> str option **)

let read_text b =
  match utf8_decode_strict b with
  | Some s -> Some (universal_newlines s)
  | None -> None

(** val lines : str -> str list **)

let lines contents =
  split_on c_nl contents

(** val first_path : str list -> str option **)

let rec first_path = function
| [] -> None
| l :: ls' ->
  if starts_with l s_Path
  then Some (unquote (skipn (S (S (S (S (S O))))) l))
  else first_path ls'

(** val parse_path : str -> str option **)

let parse_path contents =
  first_path (lines contents)

type date_result =
| NoDate
| InvalidDate
| ValidDate of datetime

(** val first_date : str list -> date_result **)

let rec first_date = function
| [] -> NoDate
| l :: ls' ->
  if starts_with l s_DeletionDate
  then (match strptime_body
                (skipn (S (S (S (S (S (S (S (S (S (S (S (S (S O)))))))))))))
                  l) with
        | Some d -> ValidDate d
        | None -> InvalidDate)
  else first_date ls'

(** val date_of : str -> date_result **)

let date_of contents =
  first_date (lines contents)

(** val parse_deletion_date : str -> datetime option **)

let parse_deletion_date contents =
  match date_of contents with
  | ValidDate d -> Some d
  | _ -> None

(** val s_unknown_date : n list **)

let s_unknown_date =
  (Npos (XI (XI (XI (XI (XI XH)))))) :: ((Npos (XI (XI (XI (XI (XI
    XH)))))) :: ((Npos (XI (XI (XI (XI (XI XH)))))) :: ((Npos (XI (XI (XI (XI
    (XI XH)))))) :: ((Npos (XI (XO (XI (XI (XO XH)))))) :: ((Npos (XI (XI (XI
    (XI (XI XH)))))) :: ((Npos (XI (XI (XI (XI (XI XH)))))) :: ((Npos (XI (XO
    (XI (XI (XO XH)))))) :: ((Npos (XI (XI (XI (XI (XI XH)))))) :: ((Npos (XI
    (XI (XI (XI (XI XH)))))) :: ((Npos (XO (XO (XO (XO (XO XH)))))) :: ((Npos
    (XI (XI (XI (XI (XI XH)))))) :: ((Npos (XI (XI (XI (XI (XI
    XH)))))) :: ((Npos (XO (XI (XO (XI (XI XH)))))) :: ((Npos (XI (XI (XI (XI
    (XI XH)))))) :: ((Npos (XI (XI (XI (XI (XI XH)))))) :: ((Npos (XO (XI (XO
    (XI (XI XH)))))) :: ((Npos (XI (XI (XI (XI (XI XH)))))) :: ((Npos (XI (XI
    (XI (XI (XI XH)))))) :: []))))))))))))))))))

(** val pad4 : n -> str **)

let pad4 n0 =
  (N.add (Npos (XO (XO (XO (XO (XI XH))))))
    (N.modulo
      (N.div n0 (Npos (XO (XO (XO (XI (XO (XI (XI (XI (XI XH))))))))))) (Npos
      (XO (XI (XO XH)))))) :: ((N.add (Npos (XO (XO (XO (XO (XI XH))))))
                                 (N.modulo
                                   (N.div n0 (Npos (XO (XO (XI (XO (XO (XI
                                     XH)))))))) (Npos (XO (XI (XO XH)))))) :: (
    (N.add (Npos (XO (XO (XO (XO (XI XH))))))
      (N.modulo (N.div n0 (Npos (XO (XI (XO XH))))) (Npos (XO (XI (XO XH)))))) :: (
    (N.add (Npos (XO (XO (XO (XO (XI XH))))))
      (N.modulo n0 (Npos (XO (XI (XO XH)))))) :: [])))

(** val str_of_datetime : datetime -> str **)

let str_of_datetime d =
  app (pad4 d.dyear)
    (app (c_dash :: [])
      (app (pad2 d.dmonth)
        (app (c_dash :: [])
          (app (pad2 d.dday)
            (app (c_space :: [])
              (app (pad2 d.dhour)
                (app (c_colon :: [])
                  (app (pad2 d.dminute)
                    (app (c_colon :: []) (pad2 d.dsecond))))))))))

(** val maybe_parse_deletion_date : str -> str **)

let maybe_parse_deletion_date contents =
  match date_of contents with
  | ValidDate d -> str_of_datetime d
  | _ -> s_unknown_date

(** val parse_original_location : str -> str -> str option **)

let parse_original_location contents volume =
  match parse_path contents with
  | Some p -> Some (join2 volume p)
  | None -> None
