
val negb : bool -> bool

type nat =
| O
| S of nat

val fst : ('a1 * 'a2) -> 'a1

val snd : ('a1 * 'a2) -> 'a2

val length : 'a1 list -> nat

val app : 'a1 list -> 'a1 list -> 'a1 list

type comparison =
| Eq
| Lt
| Gt

val add : nat -> nat -> nat

type positive =
| XI of positive
| XO of positive
| XH

type n =
| N0
| Npos of positive

module Pos :
 sig
  type mask =
  | IsNul
  | IsPos of positive
  | IsNeg
 end

module Coq_Pos :
 sig
  val succ : positive -> positive

  val add : positive -> positive -> positive

  val add_carry : positive -> positive -> positive

  val pred_double : positive -> positive

  type mask = Pos.mask =
  | IsNul
  | IsPos of positive
  | IsNeg

  val succ_double_mask : mask -> mask

  val double_mask : mask -> mask

  val double_pred_mask : positive -> mask

  val sub_mask : positive -> positive -> mask

  val sub_mask_carry : positive -> positive -> mask

  val mul : positive -> positive -> positive

  val size : positive -> positive

  val compare_cont : comparison -> positive -> positive -> comparison

  val compare : positive -> positive -> comparison

  val eqb : positive -> positive -> bool

  val iter_op : ('a1 -> 'a1 -> 'a1) -> positive -> 'a1 -> 'a1

  val to_nat : positive -> nat
 end

module N :
 sig
  val succ_double : n -> n

  val double : n -> n

  val add : n -> n -> n

  val sub : n -> n -> n

  val mul : n -> n -> n

  val compare : n -> n -> comparison

  val eqb : n -> n -> bool

  val leb : n -> n -> bool

  val ltb : n -> n -> bool

  val log2 : n -> n

  val pos_div_eucl : positive -> n -> n * n

  val div_eucl : n -> n -> n * n

  val div : n -> n -> n

  val modulo : n -> n -> n

  val to_nat : n -> nat
 end

val rev : 'a1 list -> 'a1 list

val flat_map : ('a1 -> 'a2 list) -> 'a1 list -> 'a2 list

val skipn : nat -> 'a1 list -> 'a1 list

type str = n list

type bytes = n list

val str_eqb : str -> str -> bool

val starts_with : str -> str -> bool

val ends_with : str -> str -> bool

val mem : n -> str -> bool

val split_on : n -> str -> str list

val join_with : str -> str list -> str

val lstrip_c : n -> str -> str

val rstrip_c : n -> str -> str

val all_c : n -> str -> bool

val after_last : n -> str -> str

val upto_last : n -> str -> str

val c_slash : n

val c_dot : n

val c_pct : n

val c_nl : n

val c_cr : n

val c_dash : n

val c_space : n

val c_T : n

val c_colon : n

val is_ascii : n -> bool

val dec_digits_fuel : nat -> n -> str -> str

val dec_of_N : n -> str

val pad2 : n -> str

val isabs : str -> bool

val basename : str -> str

val dirname : str -> str

val join2 : str -> str -> str

val is_dot : str -> bool

val is_dotdot : str -> bool

val norm_comps : bool -> str list -> str list -> str list

val normpath : str -> str

val abspath : str -> str -> str

val is_surrogate : n -> bool

val is_scalar : n -> bool

val encode_cp : n -> bytes

val utf8_encode : str -> bytes option

val is_cont : n -> bool

type dstep =
| DOk of n * bytes
| DBad of bytes
| DEnd

val decode_step : bytes -> dstep

val c_fffd : n

val decode_replace_fuel : nat -> bytes -> str

val utf8_decode_replace : bytes -> str

val decode_strict_fuel : nat -> bytes -> str option

val utf8_decode_strict : bytes -> str option

val decode_sesc_fuel : nat -> bytes -> str

val fsdecode : bytes -> str

val fsencode : str -> bytes option

val nd_zeros : n list

val is_alnum : n -> bool

val is_safe : n -> bool

val hex_digit : n -> n

val quote_byte : n -> str

val quote : str -> str option

val hex_val : n -> n option

val pct_decode : str -> bytes

val flush_run : str -> str

val unquote_runs : str -> str -> str

val unquote : str -> str

type datetime = { dyear : n; dmonth : n; dday : n; dhour : n; dminute : 
                  n; dsecond : n; dmicro : n }

val is_leap : n -> bool

val days_in_month : n -> n -> n

val dt_valid : datetime -> bool

val format_date : datetime -> str

val digit_in : n list -> n -> n option

val uni_digit : n -> n option

val ascii_digit : n -> n option

val field : (n -> n -> bool) -> bool -> (n -> bool) -> str -> (n * str) option

val is_ascii2 : n -> bool

val f_month : str -> (n * str) option

val f_day_digits : str -> (n * str) option

val f_day : str -> (n * str) option

val f_hour : str -> (n * str) option

val f_minute : str -> (n * str) option

val f_second : str -> (n * str) option

val f_year : str -> (n * str) option

val expect : n -> str -> str option

val expect_T : str -> str option

val strptime_body : str -> datetime option

val s_header : n list

val s_Path : n list

val s_DeletionDate : n list

val format_trashinfo_str : str -> datetime -> str option

val format_trashinfo : str -> datetime -> bytes option

val universal_newlines : str -> str

val read_text : bytes -> str option

val lines : str -> str list

val first_path : str list -> str option

val parse_path : str -> str option

type date_result =
| NoDate
| InvalidDate
| ValidDate of datetime

val first_date : str list -> date_result

val date_of : str -> date_result

val parse_deletion_date : str -> datetime option

val s_unknown_date : n list

val pad4 : n -> str

val str_of_datetime : datetime -> str

val maybe_parse_deletion_date : str -> str

val parse_original_location : str -> str -> str option
