(* Driver for the extracted model: one request per input line, one reply per output line.
   Request:  FUNC <TAB> arg <TAB> arg ...      Reply: a printed value, or "!ERR msg".
   Values:   s<cp.cp...>   str/bytes (hex code points, dot separated; "s" = empty)
             n<dec> N      z<dec> Z      b0/b1 bool
             l<item,item>  list of str ("l-" = empty list)
   Trusted: this file (conversions int<->N, printing) is part of the correspondence harness. *)
open Model

let rec pos_of_int (i : int) : positive =
  if i = 1 then XH else if i land 1 = 1 then XI (pos_of_int (i lsr 1)) else XO (pos_of_int (i lsr 1))
let n_of_int (i : int) : n = if i = 0 then N0 else Npos (pos_of_int i)
let rec int_of_pos (p : positive) : int =
  match p with XH -> 1 | XO q -> 2 * int_of_pos q | XI q -> 2 * int_of_pos q + 1
let int_of_n (x : n) : int = match x with N0 -> 0 | Npos p -> int_of_pos p
let z_of_int (i : int) : z = if i = 0 then Z0 else if i > 0 then Zpos (pos_of_int i) else Zneg (pos_of_int (-i))
let int_of_z (x : z) : int = match x with Z0 -> 0 | Zpos p -> int_of_pos p | Zneg p -> - (int_of_pos p)
let rec nat_of_int (i : int) : nat = if i <= 0 then O else S (nat_of_int (i - 1))
let rec int_of_nat (x : nat) : int = match x with O -> 0 | S y -> 1 + int_of_nat y

let string_of_z (x : z) : string =
  String.concat "" (List.map (fun c -> String.make 1 (Char.chr (int_of_n c))) (dec_of_Z x))
let z_of_string (t : string) : z =
  let neg = String.length t > 0 && t.[0] = '-' in
  let digits = if neg then String.sub t 1 (String.length t - 1) else t in
  let ten = z_of_int 10 in
  let acc = ref Z0 in
  String.iter (fun ch -> acc := Z.add (Z.mul !acc ten) (z_of_int (Char.code ch - 48))) digits;
  if neg then Z.opp !acc else !acc

let str_of_body (b : string) : n list =
  if b = "" then [] else
  List.map (fun h -> n_of_int (int_of_string ("0x" ^ h))) (String.split_on_char '.' b)
let body_of_str (s : n list) : string =
  String.concat "." (List.map (fun c -> Printf.sprintf "%x" (int_of_n c)) s)

type v = VS of n list | VN of n | VZ of z | VB of bool | VL of n list list

let parse_v (t : string) : v =
  let body = String.sub t 1 (String.length t - 1) in
  match t.[0] with
  | 's' -> VS (str_of_body body)
  | 'n' -> VN (n_of_int (int_of_string body))
  | 'z' -> VZ (z_of_string body)
  | 'b' -> VB (body = "1")
  | 'l' -> if body = "-" then VL [] else VL (List.map str_of_body (String.split_on_char ',' body))
  | _ -> failwith ("bad token " ^ t)

let ps s = "s" ^ body_of_str s
let pn x = "n" ^ string_of_int (int_of_n x)
let pz x = "z" ^ string_of_z x
let pb b = if b then "b1" else "b0"
let pl l = if l = [] then "l-" else "l" ^ String.concat "," (List.map body_of_str l)
let popt f o = match o with None -> "N" | Some x -> "S" ^ f x
let pdt (d : datetime) =
  Printf.sprintf "d%d-%d-%d-%d-%d-%d-%d" (int_of_n d.dyear) (int_of_n d.dmonth) (int_of_n d.dday)
    (int_of_n d.dhour) (int_of_n d.dminute) (int_of_n d.dsecond) (int_of_n d.dmicro)
let parse_dt (s : n list) : datetime =
  (* a datetime argument is passed as a str "Y-M-D-h-m-s-us" in ASCII *)
  let txt = String.concat "" (List.map (fun c -> String.make 1 (Char.chr (int_of_n c))) s) in
  match List.map (fun x -> n_of_int (int_of_string x)) (String.split_on_char '-' txt) with
  | [y; m; d; h; mi; se; us] -> { dyear = y; dmonth = m; dday = d; dhour = h; dminute = mi; dsecond = se; dmicro = us }
  | _ -> failwith "bad datetime"

let dispatch (f : string) (a : v list) : string =
  match f, a with
  | "basename", [VS p] -> ps (basename p)
  | "dirname", [VS p] -> ps (dirname p)
  | "join2", [VS a; VS b] -> ps (join2 a b)
  | "normpath", [VS p] -> ps (normpath p)
  | "abspath", [VS c; VS p] -> ps (abspath c p)
  | "utf8_encode", [VS s] -> popt ps (utf8_encode s)
  | "utf8_decode_strict", [VS s] -> popt ps (utf8_decode_strict s)
  | "utf8_decode_replace", [VS s] -> ps (utf8_decode_replace s)
  | "fsdecode", [VS s] -> ps (fsdecode s)
  | "fsencode", [VS s] -> popt ps (fsencode s)
  | "quote", [VS s] -> popt ps (quote s)
  | "unquote", [VS s] -> ps (unquote s)
  | "format_date", [VS d] -> ps (format_date (parse_dt d))
  | "strptime", [VS s] -> popt pdt (strptime_body s)
  | "uni_digit", [VN c] -> popt pn (uni_digit c)
  | "format_trashinfo", [VS loc; VS d] -> popt ps (format_trashinfo loc (parse_dt d))
  | "read_text", [VS b] -> popt ps (read_text b)
  | "parse_path", [VS c] -> popt ps (parse_path c)
  | "parse_deletion_date", [VS c] -> popt pdt (parse_deletion_date c)
  | "maybe_parse_deletion_date", [VS c] -> ps (maybe_parse_deletion_date c)
  | "parse_original_location", [VS c; VS v] -> popt ps (parse_original_location c v)
  | "calc_parent_path", [VS p; VS v; VB rel] -> ps (calc_parent_path p v (if rel then RelativePaths else AbsolutePaths))
  | "orig_loc_parent_arg", [VS p] -> ps (orig_loc_parent_arg p)
  | "orig_loc_result", [VS p; VS pr; VS v; VB rel] -> ps (orig_loc_result p pr v (if rel then RelativePaths else AbsolutePaths))
  | "fnmatchcase", [VS name; VS pat] -> pb (fnmatchcase name pat)
  | "py_int", [VS t] -> popt pz (py_int t)
  | "parse_indexes", [VS r; VZ n] ->
      (match parse_indexes r n with
       | Selected l -> "sel:" ^ String.concat "," (List.map (fun i -> string_of_int (int_of_z i)) l)
       | InvalidEntry -> "invalid" | UncaughtValueError -> "valueerror")
  | "matches_path", [VS o; VS p] -> pb (matches_path o p)
  | "restore_scope", [VS c; VS a] -> ps (restore_scope c a)
  | "parse_reply", [VS r] -> pb (parse_reply r)
  | "parse_user_reply", [VS r] -> pb (parse_user_reply r)
  | "older_than", [VZ d; VS now; VS del] -> popt pb (older_than d (parse_dt now) (parse_dt del))
  | "dt_lt", [VS a; VS b] -> pb (dt_lt (parse_dt a) (parse_dt b))
  | _ -> failwith ("unknown function or arity: " ^ f)

let () =
  try
    while true do
      let line = input_line stdin in
      let out =
        try
          match String.split_on_char '\t' line with
          | [] -> "!ERR empty"
          | f :: args -> dispatch f (List.map parse_v args)
        with e -> "!ERR " ^ Printexc.to_string e in
      print_string out; print_char '\n'
    done
  with End_of_file -> ()
