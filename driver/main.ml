(* Driver for the extracted model: one request per input line, one reply per output line.
   Request:  FUNC <TAB> arg <TAB> arg ...      Reply: a printed value, or "!ERR msg".
   Values:   s<cp.cp...>   str/bytes (hex code points, dot separated; "s" = empty)
             n<dec> N      z<dec> Z      b0/b1 bool
             l<item,item>  list of str ("l-" = empty list)
   Trusted: this file (conversions int<->N, printing) is part of the correspondence harness. *)
type ostr = string
open Model

let rec pos_of_int (i : int) : positive =
  if i = 1 then XH else if i land 1 = 1 then XI (pos_of_int (i lsr 1)) else XO (pos_of_int (i lsr 1))
let n_of_int (i : int) : n = if i = 0 then N0 else Npos (pos_of_int i)
let rec int_of_pos (p : positive) : int =
  match p with XH -> 1 | XO q -> 2 * int_of_pos q | XI q -> 2 * int_of_pos q + 1
let int_of_n (x : n) : int = match x with N0 -> 0 | Npos p -> int_of_pos p
let z_of_int (i : int) : z = if i = 0 then Z0 else if i > 0 then Zpos (pos_of_int i) else Zneg (pos_of_int (-i))
let int_of_z (x : z) : int = match x with Z0 -> 0 | Zpos p -> int_of_pos p | Zneg p -> - (int_of_pos p)
let rec nat_of_int (i : int) : nat = if i <= 0 then O else S (nat_of_int (i - 1))
let rec int_of_nat (x : nat) : int = match x with O -> 0 | S y -> 1 + int_of_nat y

let string_of_z (x : z) : ostr =
  String.concat "" (List.map (fun c -> String.make 1 (Char.chr (int_of_n c))) (dec_of_Z x))
let z_of_string (t : ostr) : z =
  let neg = String.length t > 0 && t.[0] = '-' in
  let digits = if neg then String.sub t 1 (String.length t - 1) else t in
  let ten = z_of_int 10 in
  let acc = ref Z0 in
  String.iter (fun ch -> acc := Z.add (Z.mul !acc ten) (z_of_int (Char.code ch - 48))) digits;
  if neg then Z.opp !acc else !acc

let str_of_body (b : ostr) : n list =
  if b = "" then [] else
  List.map (fun h -> n_of_int (int_of_string ("0x" ^ h))) (String.split_on_char '.' b)
let body_of_str (s : n list) : ostr =
  String.concat "." (List.map (fun c -> Printf.sprintf "%x" (int_of_n c)) s)

type v = VS of n list | VN of n | VZ of z | VB of bool | VL of n list list

let parse_v (t : ostr) : v =
  let body = String.sub t 1 (String.length t - 1) in
  match t.[0] with
  | 's' -> VS (str_of_body body)
  | 'n' -> VN (n_of_int (int_of_string body))
  | 'z' -> VZ (z_of_string body)
  | 'b' -> VB (body = "1")
  | 'l' -> if body = "-" then VL [] else VL (List.map str_of_body (String.split_on_char ',' body))
  | _ -> failwith ("bad token " ^ t)

let ps s = "s" ^ body_of_str s
let pn x = "n" ^ string_of_int (int_of_n x)
let pz x = "z" ^ string_of_z x
let pb b = if b then "b1" else "b0"
let pl l = if l = [] then "l-" else "l" ^ String.concat "," (List.map body_of_str l)
let popt f o = match o with None -> "N" | Some x -> "S" ^ f x
let pdt (d : datetime) =
  Printf.sprintf "d%d-%d-%d-%d-%d-%d-%d" (int_of_n d.dyear) (int_of_n d.dmonth) (int_of_n d.dday)
    (int_of_n d.dhour) (int_of_n d.dminute) (int_of_n d.dsecond) (int_of_n d.dmicro)
let parse_dt (s : n list) : datetime =
  (* a datetime argument is passed as a str "Y-M-D-h-m-s-us" in ASCII *)
  let txt = String.concat "" (List.map (fun c -> String.make 1 (Char.chr (int_of_n c))) s) in
  match List.map (fun x -> n_of_int (int_of_string x)) (String.split_on_char '-' txt) with
  | [y; m; d; h; mi; se; us] -> { dyear = y; dmonth = m; dday = d; dhour = h; dminute = mi; dsecond = se; dmicro = us }
  | _ -> failwith "bad datetime"


(* ---------------------------------------------------------------- programs: operations, answers, runs *)
let pexn (e : exn) : ostr = match e with
  | OSError n -> "eos:" ^ string_of_int (int_of_n n) | ShutilError -> "eshutil"
  | UnicodeDecodeError -> "eude" | UnicodeEncodeError -> "euee" | ParseError -> "eparse" | ValueErrorE -> "evalue"
  | TypeErrorE -> "etype" | IndexErrorE -> "eindex" | OverflowErrorE -> "eoverflow" | EOFError -> "eeof"
  | KeyboardInterrupt -> "ekbd"
let plevel l = match l with WARNING -> "W" | INFO -> "I" | DEBUG -> "D"
let pop (o : op) : ostr = match o with
  | Lexists p -> "lexists:" ^ ps p | Exists p -> "exists:" ^ ps p | Isdir p -> "isdir:" ^ ps p
  | Isfile p -> "isfile:" ^ ps p | Islink p -> "islink:" ^ ps p | Ismount p -> "ismount:" ^ ps p
  | Access p -> "access:" ^ ps p | Stat p -> "stat:" ^ ps p | Getsize p -> "getsize:" ^ ps p
  | Realpath p -> "realpath:" ^ ps p | Abspath p -> "abspath:" ^ ps p | Listdir p -> "listdir:" ^ ps p
  | ReadText p -> "readtext:" ^ ps p | ListMounts -> "listmounts"
  | Makedirs (p, m) -> "makedirs:" ^ ps p ^ ":" ^ pn m | OpenExcl p -> "openexcl:" ^ ps p
  | WriteFd b -> "write:" ^ ps b | CloseFd -> "close" | Move (a, b) -> "move:" ^ ps a ^ ":" ^ ps b
  | Remove p -> "remove:" ^ ps p | Rmtree p -> "rmtree:" ^ ps p
  | Now -> "now" | RandInt (a, b) -> "randint:" ^ pz a ^ ":" ^ pz b | Input p -> "input:" ^ ps p | IsAtty -> "isatty"
  | Out (e, t) -> "out:" ^ pb e ^ ":" ^ ps t
  | Log (lv, ex, t) -> "log:" ^ plevel lv ^ ":" ^ pb ex ^ ":" ^ ps t
let parse_res (t : ostr) : res =
  let body = String.sub t 1 (String.length t - 1) in
  match t.[0] with
  | 'u' -> RUnit
  | 'b' -> RBool (body = "1")
  | 's' -> RStr (str_of_body body)
  | 'l' -> if body = "-" then RList [] else RList (List.map str_of_body (String.split_on_char ',' body))
  | 't' -> (match String.split_on_char ',' body with
            | [m; s] -> RStat (n_of_int (int_of_string m), n_of_int (int_of_string s))
            | _ -> failwith "bad stat")
  | 'z' -> RZ (z_of_string body)
  | 'd' -> (match List.map (fun x -> n_of_int (int_of_string x)) (String.split_on_char '-' body) with
            | [y; m; d; h; mi; se; us] -> RDate { dyear = y; dmonth = m; dday = d; dhour = h; dminute = mi; dsecond = se; dmicro = us }
            | _ -> failwith "bad date")
  | 'e' -> RErr (match String.split_on_char ':' body with
                 | ["os"; n] -> OSError (n_of_int (int_of_string n))
                 | ["shutil"] -> ShutilError | ["ude"] -> UnicodeDecodeError | ["uee"] -> UnicodeEncodeError
                 | ["eof"] -> EOFError | ["kbd"] -> KeyboardInterrupt | ["type"] -> TypeErrorE | ["value"] -> ValueErrorE
                 | _ -> failwith ("bad exn " ^ body))
  | _ -> failwith ("bad answer " ^ t)
let sbody (t : ostr) : n list = match parse_v t with VS x -> x | _ -> failwith "s expected"
let parse_op (t : ostr) : op =
  match String.split_on_char ':' t with
  | ["lexists"; p] -> Lexists (sbody p) | ["exists"; p] -> Exists (sbody p) | ["isdir"; p] -> Isdir (sbody p)
  | ["isfile"; p] -> Isfile (sbody p) | ["islink"; p] -> Islink (sbody p) | ["ismount"; p] -> Ismount (sbody p)
  | ["access"; p] -> Access (sbody p) | ["stat"; p] -> Stat (sbody p) | ["getsize"; p] -> Getsize (sbody p)
  | ["realpath"; p] -> Realpath (sbody p) | ["abspath"; p] -> Abspath (sbody p) | ["listdir"; p] -> Listdir (sbody p)
  | ["readtext"; p] -> ReadText (sbody p) | ["listmounts"] -> ListMounts
  | ["makedirs"; p; m] -> Makedirs (sbody p, (match parse_v m with VN x -> x | _ -> failwith "n"))
  | ["openexcl"; p] -> OpenExcl (sbody p) | ["write"; b] -> WriteFd (sbody b) | ["close"] -> CloseFd
  | ["move"; a; b] -> Move (sbody a, sbody b) | ["remove"; p] -> Remove (sbody p) | ["rmtree"; p] -> Rmtree (sbody p)
  | ["now"] -> Now
  | ["randint"; a; b] -> RandInt ((match parse_v a with VZ x -> x | _ -> failwith "z"), (match parse_v b with VZ x -> x | _ -> failwith "z"))
  | ["input"; p] -> Input (sbody p) | ["isatty"] -> IsAtty
  | ["out"; e; t] -> Out (e = "b1", sbody t)
  | ["log"; lv; ex; t] -> Log ((match lv with "W" -> WARNING | "I" -> INFO | _ -> DEBUG), ex = "b1", sbody t)
  | _ -> failwith ("bad op " ^ t)
let parse_res_any (t : ostr) : res = if t = "u" then RUnit else parse_res t
(* a trace: op|answer tokens alternate *)
let rec parse_trace (l : ostr list) : (op * res) list =
  match l with o :: a :: r -> (parse_op o, parse_res_any a) :: parse_trace r | _ -> []
(* index of the first rejected operation, or "ok" *)
let run_monitor (step : 's -> op -> res -> 's option) (init : 's) (tr : (op * res) list) : ostr =
  let rec go s i l = match l with
    | [] -> "ok"
    | (o, r) :: l' -> (match step s o r with Some s' -> go s' (i + 1) l' | None -> "reject:" ^ string_of_int i) in
  go init 0 tr
let prun (pres : 'a -> ostr) ((tr, out) : (op * res) list * 'a outcome) : ostr =
  let ops = String.concat ";" (List.map (fun (o, _) -> pop o) tr) in
  let oc = match out with Done a -> "done:" ^ pres a | Uncaught e -> "uncaught:" ^ pexn e | Stuck -> "stuck" in
  ops ^ "\t" ^ oc
let rec pairs_of (l : n list list) : (n list * n list) list =
  match l with k :: v :: r -> (k, v) :: pairs_of r | _ -> []
let opt_of_str (s : n list) : n list option = if s = [] then None else Some s
let split_answers (a : ostr list) : res list = List.map parse_res a

let dispatch (f : ostr) (a : v list) : ostr =
  match f, a with
  | "basename", [VS p] -> ps (basename p)
  | "dirname", [VS p] -> ps (dirname p)
  | "join2", [VS a; VS b] -> ps (join2 a b)
  | "normpath", [VS p] -> ps (normpath p)
  | "abspath", [VS c; VS p] -> ps (abspath c p)
  | "utf8_encode", [VS s] -> popt ps (utf8_encode s)
  | "utf8_decode_strict", [VS s] -> popt ps (utf8_decode_strict s)
  | "utf8_decode_replace", [VS s] -> ps (utf8_decode_replace s)
  | "fsdecode", [VS s] -> ps (fsdecode s)
  | "fsencode", [VS s] -> popt ps (fsencode s)
  | "quote", [VS s] -> popt ps (quote s)
  | "unquote", [VS s] -> ps (unquote s)
  | "format_date", [VS d] -> ps (format_date (parse_dt d))
  | "strptime", [VS s] -> popt pdt (strptime_body s)
  | "uni_digit", [VN c] -> popt pn (uni_digit c)
  | "format_trashinfo", [VS loc; VS d] -> popt ps (format_trashinfo loc (parse_dt d))
  | "read_text", [VS b] -> popt ps (read_text b)
  | "parse_path", [VS c] -> popt ps (parse_path c)
  | "parse_deletion_date", [VS c] -> popt pdt (parse_deletion_date c)
  | "maybe_parse_deletion_date", [VS c] -> ps (maybe_parse_deletion_date c)
  | "parse_original_location", [VS c; VS v] -> popt ps (parse_original_location c v)
  | "calc_parent_path", [VS p; VS v; VB rel] -> ps (calc_parent_path p v (if rel then RelativePaths else AbsolutePaths))
  | "orig_loc_parent_arg", [VS p] -> ps (orig_loc_parent_arg p)
  | "orig_loc_result", [VS p; VS pr; VS v; VB rel] -> ps (orig_loc_result p pr v (if rel then RelativePaths else AbsolutePaths))
  | "fnmatchcase", [VS name; VS pat] -> pb (fnmatchcase name pat)
  | "py_int", [VS t] -> popt pz (py_int t)
  | "parse_indexes", [VS r; VZ n] ->
      (match parse_indexes r n with
       | Selected l -> "sel:" ^ String.concat "," (List.map (fun i -> string_of_int (int_of_z i)) l)
       | InvalidEntry -> "invalid" | UncaughtValueError -> "valueerror")
  | "matches_path", [VS o; VS p] -> pb (matches_path o p)
  | "restore_scope", [VS c; VS a] -> ps (restore_scope c a)
  | "parse_reply", [VS r] -> pb (parse_reply r)
  | "parse_user_reply", [VS r] -> pb (parse_user_reply r)
  | "older_than", [VZ d; VS now; VS del] -> popt pb (older_than d (parse_dt now) (parse_dt del))
  | "dt_lt", [VS a; VS b] -> pb (dt_lt (parse_dt a) (parse_dt b))
  | "should_skipped_by_specs", [VS p] -> pb (should_skipped_by_specs p)
  | "path_of_backup_copy", [VS p] -> ps (path_of_backup_copy p)
  | "create_trashinfo_basename", [VS b; VS sfx; VB ntl] -> ps (create_trashinfo_basename b sfx ntl)
  | "home_trash_dir_path_from_env", [VL env] -> pl (home_trash_dir_path_from_env (pairs_of env))
  | _ -> failwith ("unknown function or arity: " ^ f)

let sv t = match parse_v t with VS x -> x | _ -> failwith "s expected"
let lv t = match parse_v t with VL x -> x | _ -> failwith "l expected"
let nv t = match parse_v t with VN x -> x | _ -> failwith "n expected"
let bv t = match parse_v t with VB x -> x | _ -> failwith "b expected"
let zv t = match parse_v t with VZ x -> x | _ -> failwith "z expected"
(* the password database of --all-users: "N", or a list token (pw_dir, decimal pw_uid)* *)
let users_of (t : ostr) : (n list * n) list option =
  if t = "N" then None
  else Some (List.map (fun (h, u) ->
    (h, n_of_int (int_of_string (String.concat "" (List.map (fun c -> String.make 1 (Char.chr (int_of_n c))) u)))))
    (pairs_of (lv t)))

let () =
  try
    while true do
      let line = input_line stdin in
      let out =
        try
          match String.split_on_char '\t' line with
          | [] -> "!ERR empty"
          | "run_put" :: paths :: td :: mode :: fv :: hf :: verbose :: env :: uid :: fuel :: answers ->
              let o = { po_paths = lv paths; po_trash_dir = opt_of_str (sv td);
                        po_mode = (match int_of_n (nv mode) with 1 -> ModeInteractive | 2 -> ModeForce | _ -> ModeUnspecified);
                        po_forced_volume = opt_of_str (sv fv); po_home_fallback = bv hf; po_verbose = nv verbose;
                        po_environ = pairs_of (lv env); po_uid = nv uid; po_fuel = nat_of_int (int_of_n (nv fuel)) } in
              prun pn (run_oracle (put_main o) (split_answers answers))
          | "run_list" :: tds :: size :: files :: env :: uid :: users :: answers ->
              let o = { lo_trash_dirs = lv tds; lo_size = bv size; lo_files = bv files;
                        lo_environ = pairs_of (lv env); lo_uid = nv uid; lo_all_users = users_of users } in
              prun pn (run_oracle (list_main o) (split_answers answers))
          | "run_empty" :: tds :: inter :: days :: dry :: verbose :: env :: uid :: users :: answers ->
              let o = { eo_trash_dirs = lv tds;
                        eo_interactive = (match int_of_n (nv inter) with 0 -> None | 1 -> Some true | _ -> Some false);
                        eo_days = (if days = "N" then None else Some (zv days));
                        eo_dry_run = bv dry; eo_verbose = nv verbose;
                        eo_environ = pairs_of (lv env); eo_uid = nv uid; eo_all_users = users_of users } in
              prun pn (run_oracle (empty_main o) (split_answers answers))
          | "run_rm" :: args :: env :: uid :: answers ->
              let o = { ro_args = lv args; ro_environ = pairs_of (lv env); ro_uid = nv uid } in
              prun pn (run_oracle (rm_main o) (split_answers answers))
          | "run_restore" :: path :: sort :: td :: ow :: env :: uid :: answers ->
              let o = { ro_path = sv path;
                        ro_sort = (match int_of_n (nv sort) with 0 -> SortByDate | 1 -> SortByPath | _ -> SortNone);
                        ro_trash_dir = opt_of_str (sv td); ro_overwrite = bv ow;
                        rs_environ = pairs_of (lv env); rs_uid = nv uid } in
              prun pn (run_oracle (restore_main o) (split_answers answers))
          | "world" :: nn :: rest ->
              (* world <n> (path kind)*n <m> (query path)*m (op answer)* : apply the trace to the tree with World.wapply, check the probe
                 answers with World.wprobe, print what the model has at the queried paths *)
              let rec take k l acc = if k = 0 then (List.rev acc, l) else (match l with x :: r -> take (k - 1) r (x :: acc) | [] -> failwith "short") in
              let n = int_of_string nn in
              let (nodetoks, rest1) = take (2 * n) rest [] in
              let rec nodes l = match l with
                | p :: k :: r ->
                    let nd = (if k = "d" then NDir else if k = "l" then NLink
                              else if String.length k > 0 && k.[0] = 'f' then NFile (sbody (String.sub k 1 (String.length k - 1)))
                              else failwith ("bad node " ^ k)) in
                    (sbody p, nd) :: nodes r
                | _ -> [] in
              let assoc = nodes nodetoks in
              let tbl = Hashtbl.create 257 in
              List.iter (fun (p, nd) -> Hashtbl.replace tbl p nd) assoc;
              let w0 = (fun q -> Hashtbl.find_opt tbl q) in
              (match rest1 with
               | mm :: rest2 ->
                   let m = int_of_string mm in
                   let (qtoks, tr) = take m rest2 [] in
                   let trace = parse_trace tr in
                   let rec go s i l = match l with
                     | [] -> ("ok", s)
                     | (o, r) :: l' ->
                         let bad_probe = (match r, wprobe s o with RBool b, Some b' -> b <> b' | _, _ -> false) in
                         if bad_probe then ("probe:" ^ string_of_int i, s)
                         else (match wapply s o r with
                               | Some s' -> go s' (i + 1) l'
                               | None -> ("outside:" ^ string_of_int i, s)) in
                   let (verdict, sfin) = go { wfs = w0; wfd = None } 0 trace in
                   let show q = (match sfin.wfs (sbody q) with
                                 | None -> "N" | Some NDir -> "d" | Some NLink -> "l" | Some (NFile c) -> "f" ^ ps c) in
                   verdict ^ "\t" ^ String.concat "," (List.map show qtoks)
               | [] -> failwith "world: no queries")
          | "monitor" :: name :: param :: trace ->
              let tr = parse_trace trace in
              (match name with
               | "order" -> run_monitor (order_step (param = "b1")) [] tr
               | "refuse" -> run_monitor (refuse_step (param = "b1")) [] tr
               | "put" -> run_monitor put_step put_init tr
               | "select" -> run_monitor sel_step (O, Before) tr
               | "skip" -> run_monitor skip_step SStart tr
               | "rmdec" ->
                   (match String.split_on_char '|' param with
                    | [pat; vol] -> run_monitor (rm_dec_step (sv pat) (sv vol)) [] tr
                    | _ -> failwith "rmdec param")
               | "consent" -> run_monitor (consent_step (match param with "n1" -> Some true | "n2" -> Some false | _ -> None)) Unknown tr
               | "decision" ->
                   (match String.split_on_char '|' param with
                    | [days; envd] ->
                        let d = if days = "N" then None else Some (zv days) in
                        let en = if envd = "N" then None else strptime_body (sv envd) in
                        run_monitor (decision_step d en) { d_last = None; d_approved = [] } tr
                    | _ -> failwith "decision param")
               | _ -> failwith ("unknown monitor " ^ name))
          | f :: args -> dispatch f (List.map parse_v args)
        with e -> "!ERR " ^ Printexc.to_string e in
      print_string out; print_char '\n'
    done
  with End_of_file -> ()
