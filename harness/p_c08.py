"""C08 - an insecure shared $topdir/.Trash is never used, for writing, reading or purging."""
import copy
import os

import engine
import putlib
import sandbox
import scen
from common import esc

RULE = ("trace level: exact correspondence of every run with the Coq models; state level: for every state of $topdir/.Trash {sticky dir, "
        "non-sticky dir, symlink to sticky dir, symlink to non-sticky dir, regular file, absent} on '/' and on 1-3 further volumes (nested "
        "too), combined with an existing, POPULATED $topdir/.Trash/$uid (entries old enough to be purged, matching the rm pattern, in the "
        "restore scope), all five commands are run: when .Trash is not a real sticky directory, the subtree of $topdir/.Trash/$uid must be "
        "identical before and after each command, no output line may mention one of its entries, trash-put must land in $topdir/.Trash-$uid, "
        "and trash-list must name the skipped directory on stderr (symlink / non-sticky with an existing uid dir); when it IS secure the "
        "entries must be listed / purged / restored as usual (so the check cannot pass by ignoring .Trash altogether). "
        "distinct = (.Trash state, command, volume kind, secure?).")
ASSUMPTIONS = ["--trash-dir $topdir/.Trash/$uid given explicitly by the user is the user's own choice and outside the property (DESIGN 8.21 no. 14)"]

STATES = ['sticky', 'nonsticky', 'link_sticky', 'link_nonsticky', 'file', 'absent']


RULE += ' Since round 8 insecure directories also hold payloads without .trashinfo.'


def gen(rng, n):
    scns, metas = [], []
    for i in range(n):
        st = rng.choice(STATES)
        lay = scen.Layout(rng, nested=rng.random() < 0.15, home_on_own_volume=False, top_states=[st] if rng.random() < 0.5 else None)
        vols = [v for v in lay.all_vols]
        v = rng.choice(vols)
        st = lay.top[v][0]
        nodes = scen.canary()
        names = []
        if lay.top1_can_hold(v):
            for k in range(rng.randint(1, 3)):
                name = 'shared%d' % k
                nodes += scen.entry(lay.top1(v), name, 'sh/' + name, '2001-01-01T00:00:00', rng.choice(['f', 'd']))
                names.append(name)
            if rng.random() < 0.5:
                # ... and a payload that has no .trashinfo (what an interrupted purge leaves): it is as untouchable as the rest
                nodes += [[rng.choice(['f', 'f', 'd']), lay.top1(v) + '/files/lost', 'no info']]
                if nodes[-1][0] == 'd':
                    nodes[-1][2] = 0o755
        # a victim for trash-put on that volume
        victim = scen.Layout.j(v, 'data/victim')
        nodes += [['d', scen.Layout.j(v, 'data'), 0o755], ['f', victim, 'victim']]
        cmd = rng.choice(['list', 'empty', 'empty_days', 'rm', 'restore', 'put'])
        if cmd == 'list':
            step = {'cmd': 'list', 'argv': []}
        elif cmd == 'empty':
            step = {'cmd': 'empty', 'argv': ['-f']}
        elif cmd == 'empty_days':
            step = {'cmd': 'empty', 'argv': ['1', '-f'], 'env': {'TRASH_DATE': '2024-01-01T00:00:00'}}
        elif cmd == 'rm':
            # also the exact original path of an entry, no wildcard in it: a pattern is a pattern, the directories are the scanner's
            step = {'cmd': 'rm', 'argv': [rng.choice(['*', 'shared*', scen.Layout.j(v, 'sh/*'), scen.Layout.j(v, 'sh/shared0'), scen.Layout.j(v, 'sh/shared0')])]}
        elif cmd == 'restore':
            step = {'cmd': 'restore', 'argv': [rng.choice(['/', v])], 'stdin': rng.choice(['0\n', '0-2\n', '\n'])}
            if v != '/' and rng.random() < 0.35:
                # the mount table trash-restore reads does not report this volume (a bind mount, a fuse file system) although
                # TRASH_VOLUMES names it: whatever trash-restore makes of that, $topdir/.Trash/$uid stays under the same rules
                step['listed_mounts'] = ['/'] + [m for m in sorted(lay.all_vols) if m not in ('/', v)]
        else:
            step = {'cmd': 'put', 'argv': ['--', victim], 'now': [2024, 5, 6, 7, 8, 9, 0]}
        step['listdir'] = rng.choice(['sorted', 'reverse'])
        if len(lay.vols) >= 2 and rng.random() < 0.2:
            # $topdir/.Trash of one volume is a symlink to the (secure, populated) .Trash of ANOTHER volume
            a, b = lay.vols[0], lay.vols[1]
            lay.tree = [e for e in lay.tree if not (e[1].startswith(a + '/.Trash') and not e[1].startswith(a + '/.Trash-')) and
                        not (e[1].startswith(b + '/.Trash') and not e[1].startswith(b + '/.Trash-')) and e[1] not in (a + '/realtrash', b + '/realtrash')]
            lay.tree += [['d', a + '/.Trash', 0o1777], ['l', b + '/.Trash', a + '/.Trash']]
            lay.top[a][0], lay.top[b][0] = 'sticky', 'link_other'
            nodes = scen.canary()
            names = ['shared0', 'shared1']
            for nm in names:
                nodes += scen.entry(lay.top1(a), nm, 'sh/' + nm, '2001-01-01T00:00:00', 'f')
            v, st = b, 'link_other'
            cmd = rng.choice(['list', 'restore', 'rm'])
            step = {'list': {'cmd': 'list', 'argv': []}, 'restore': {'cmd': 'restore', 'argv': ['/'], 'stdin': '\n'},
                    'rm': {'cmd': 'rm', 'argv': [b + '/sh/*']}}[cmd]
            step['listdir'] = 'sorted'
            lay.env['TRASH_VOLUMES'] = ':'.join(['/'] + [a, b] + lay.vols[2:])
        scns.append(lay.scenario([step], cwd='/', extra=nodes))
        metas.append({'v': v, 'state': st, 'alt': lay.top[v][1], 'top1': lay.top1(v), 'top2': lay.top2(v), 'names': names, 'cmd': cmd, 'uid': lay.uid, 'victim': victim})
    return scns, metas


def judge(run, scn, meta, res, section='state'):
    before, o = res['before'], res['steps'][0]
    after = o['after']
    secure = meta['state'] == 'sticky'
    case = {'scenario': scn, 'meta': meta, 'exit': o['exit'], 'stdout': esc(o['stdout'][-500:]), 'stderr': esc(o['stderr'][-500:])}
    run.count(section)
    phys = engine.physical(before, meta['top1'] + '/x')[:-2]
    sub_b, sub_a = sandbox.subtree(before, phys), sandbox.subtree(after, phys)
    has_uid_dir = bool(sub_b)
    if not secure:
        if sub_b != sub_a and engine.strip_mtime(sub_b) != engine.strip_mtime(sub_a):
            run.fail('oracle', 'a command changed $topdir/.Trash/$uid although $topdir/.Trash is %s' % meta['state'],
                     dict(case, changed=[p for p in sorted(set(sub_b) | set(sub_a)) if sub_b.get(p) != sub_a.get(p)][:6]),
                     key='insecure-used:%s' % meta['cmd'], section=section)
        for name in meta['names']:
            shown = scen.Layout.j(meta['v'], 'sh/' + name)
            if shown in o['stdout']:
                run.fail('oracle', 'output mentions an entry stored under an insecure $topdir/.Trash/$uid', dict(case, entry=shown),
                         key='insecure-shown:%s' % meta['cmd'], section=section)
        if meta['cmd'] == 'put':
            pairs, strays, orphans = putlib.new_trash_items(before, after)
            landed = [engine.physical(after, td + '/x')[:-2] for td, n in pairs]
            if any(engine.under(p, phys) for p in landed):
                run.fail('oracle', 'trash-put wrote into an insecure $topdir/.Trash/$uid', case, key='insecure-written', section=section)
            if meta['alt'] != 'file' and meta['v'] != '/' and engine.physical(after, meta['top2'] + '/x')[:-2] not in landed:
                run.fail('oracle', 'trash-put did not fall through to $topdir/.Trash-$uid', dict(case, landed=landed), key='no-fall-through', section=section)
        if meta['cmd'] == 'list' and has_uid_dir and meta['state'] in ('nonsticky', 'link_sticky', 'link_nonsticky'):
            if meta['top1'] not in o['stderr']:
                run.fail('oracle', 'trash-list did not report the skipped $topdir/.Trash/$uid on stderr', case, key='skip-not-reported', section=section)
    else:
        # secure: the shared directory must really be used
        if meta['cmd'] == 'list' and meta['names']:
            for name in meta['names']:
                if scen.Layout.j(meta['v'], 'sh/' + name) not in o['stdout']:
                    run.fail('oracle', 'trash-list ignores a SECURE $topdir/.Trash/$uid', case, key='secure-ignored', section=section)
        if meta['cmd'] in ('empty', 'empty_days') and meta['names'] and engine.entries_of(after, phys):
            run.fail('oracle', 'trash-empty ignores a SECURE $topdir/.Trash/$uid', case, key='secure-ignored', section=section)
        if meta['cmd'] == 'put':
            pairs, _, _ = putlib.new_trash_items(before, after)
            landed = [engine.physical(after, td + '/x')[:-2] for td, n in pairs]
            if meta['v'] != '/' and phys not in landed:
                run.fail('oracle', 'trash-put did not use a SECURE $topdir/.Trash/$uid', dict(case, landed=landed), key='secure-not-used', section=section)
    run.nontriv((meta['state'], meta['cmd'], meta['v'] == '/', bool(meta['names']), meta['alt']))


def midrun(run, n):
    """$topdir/.Trash stops being secure WHILE one trash-put with several arguments on that volume is running (its sticky bit is
    removed, or it is replaced by a symbolic link, right after the first argument was moved): every later argument must be judged
    against the state at ITS turn - the rules are evaluated per candidate, per argument (never remembered)"""
    rng = run.rng
    base, metas = [], []
    for i in range(n):
        uid = rng.choice([0, 1000])
        vol = '/vol1'
        nargs = rng.choice([2, 2, 3])
        nodes = scen.canary() + [['d', '/home/u', 0o755], ['d', vol, 0o755], ['d', vol + '/.Trash', 0o1777], ['d', vol + '/data', 0o755]]
        if rng.random() < 0.5:
            nodes += scen.entry(vol + '/.Trash/%d' % uid, 'old', 'sh/old', '2001-01-01T00:00:00', 'f')
        args = []
        for k in range(nargs):
            nodes.append(['f', vol + '/data/v%d' % k, 'victim %d' % k])
            args.append(vol + '/data/v%d' % k)
        change = rng.choice(['chmod', 'to_link'])
        scn = {'tree': nodes, 'mounts': [vol], 'cwd': '/', 'uid': uid, 'env': {'HOME': '/home/u', 'TRASH_VOLUMES': '/:' + vol},
               'steps': [{'cmd': 'put', 'argv': ['--'] + args, 'now': [2024, 5, 6, 7, 8, 9, 0]}]}
        base.append(scn)
        metas.append({'vol': vol, 'uid': uid, 'args': args, 'change': change})
    res0 = sandbox.execute_many(base)
    scns, ms = [], []
    for scn, meta, r0 in zip(base, metas, res0):
        if not r0.get('steps'):
            continue
        muts = r0['steps'][0].get('muts') or []
        ren = [k + 1 for k, m in enumerate(muts) if m == 'rename']
        if not ren:
            continue
        s = copy.deepcopy(scn)
        ops = [['chmod', meta['vol'] + '/.Trash', 0o755]] if meta['change'] == 'chmod' else [['to_link', meta['vol'] + '/.Trash', meta['vol'] + '/moved-trash']]
        s['steps'][0]['plan'] = {'midfs': {'after': ren[0], 'ops': ops}}
        scns.append(s)
        ms.append(meta)
    out = engine.run_all(run, 'mid-run', scns)
    by_id = {id(s): m for s, m in zip(scns, ms)}
    for scn, res in out:
        judge_midrun(run, scn, by_id[id(scn)], res)


def judge_midrun(run, scn, meta, res, section='mid-run-state'):
    run.count(section)
    before, o = res['before'], res['steps'][0]
    after = o['after']
    case = {'scenario': scn, 'meta': meta, 'exit': o['exit'], 'stderr': esc(o['stderr'][-500:])}
    top1 = '%s/.Trash/%d' % (meta['vol'], meta['uid'])
    moved = '%s/moved-trash/%d' % (meta['vol'], meta['uid'])
    pairs, strays, orphans = putlib.new_trash_items(before, after)
    later = tuple(os.path.basename(a) for a in meta['args'][1:])
    inside = [(td, n) for td, n in pairs if td in (top1, moved) and n.startswith(later)]
    # only the first argument (and what was there before) may be there
    if inside:
        run.fail('oracle', 'trash-put kept writing into $topdir/.Trash/$uid after $topdir/.Trash had stopped being a sticky real directory '
                 '(%s in the middle of the run)' % meta['change'], dict(case, entries_inside=inside), key='insecure-written-midrun', section=section)
    run.nontriv(('midrun', meta['change'], len(meta['args']), len(inside), o['exit']))


def all_users(run, thorough):
    """--all-users (trash-list, trash-empty): the directories $topdir/.Trash/$uid of the OTHER users of the password database are
    governed by the same rules - under an insecure $topdir/.Trash none of them is listed or purged.  (--all-users is in the Coq
    model since Scan.scan_all_users: these runs go through the trace tie and the world tie as well, and the theorems of C08 cover them.)"""
    import itertools
    scns, metas = [], []
    for state, cmd in itertools.product(['sticky', 'nonsticky', 'link_sticky', 'link_nonsticky'], ['list', 'empty', 'empty_days']):
        tree = [['d', '/home/u', 0o755], ['d', '/home/other', 0o755], ['d', '/vol1', 0o755]] + scen.canary()
        if state in ('sticky', 'nonsticky'):
            tree.append(['d', '/vol1/.Trash', 0o1777 if state == 'sticky' else 0o777])
            real = '/vol1/.Trash'
        else:
            real = '/vol1/realtrash'
            tree += [['d', real, 0o1777 if state == 'link_sticky' else 0o777], ['l', '/vol1/.Trash', real]]
        for uid, nm in ((1000, 'mine'), (1001, 'theirs')):
            tree += scen.entry(real + '/%d' % uid, nm, 'sh/' + nm, '2001-01-01T00:00:00', 'f')
        step = {'cmd': 'list' if cmd == 'list' else 'empty', 'users': [['u', 1000, '/home/u'], ['other', 1001, '/home/other']],
                'argv': ['--all-users'] + ([] if cmd == 'list' else ['-f'] if cmd == 'empty' else ['1', '-f'])}
        if cmd == 'empty_days':
            step['env'] = {'TRASH_DATE': '2024-01-01T00:00:00'}
        scns.append({'tree': tree, 'mounts': ['/vol1'], 'cwd': '/', 'uid': 1000, 'env': {'HOME': '/home/u', 'TRASH_VOLUMES': '/:/vol1'}, 'steps': [step]})
        metas.append({'all_users': True, 'state': state, 'cmd': cmd, 'real': real})
    by_id = {id(s): m for s, m in zip(scns, metas)}
    for scn, res in engine.run_all(run, 'all-users-tie', scns):
        judge_all_users(run, scn, by_id[id(scn)], res)


def judge_all_users(run, scn, meta, res, section='all-users'):
    run.count(section)
    before, o = res['before'], res['steps'][0]
    after = o['after']
    case = {'scenario': scn, 'meta': meta, 'exit': o['exit'], 'stdout': esc(o['stdout'][-400:]), 'stderr': esc(o['stderr'][-400:])}
    sub_b, sub_a = sandbox.subtree(before, meta['real']), sandbox.subtree(after, meta['real'])
    if meta['state'] != 'sticky':
        if engine.strip_mtime(sub_b) != engine.strip_mtime(sub_a):
            run.fail('oracle', '--all-users: a command changed a $topdir/.Trash/$uid although $topdir/.Trash is %s' % meta['state'],
                     dict(case, changed=[p for p in sorted(set(sub_b) | set(sub_a)) if sub_b.get(p) != sub_a.get(p)][:6]),
                     key='insecure-used:all-users', section=section)
        for nm in ('mine', 'theirs'):
            if '/vol1/sh/' + nm in o['stdout']:
                run.fail('oracle', "--all-users: output mentions an entry stored under an insecure $topdir/.Trash/$uid", dict(case, entry=nm),
                         key='insecure-shown:all-users', section=section)
    else:
        if meta['cmd'] == 'list' and not all('/vol1/sh/' + nm in o['stdout'] for nm in ('mine', 'theirs')):
            run.fail('oracle', '--all-users: trash-list ignores a SECURE $topdir/.Trash/$uid of one of the users', case, key='secure-ignored', section=section)
        if meta['cmd'] != 'list' and any(p.endswith('.trashinfo') for p in sub_a):
            run.fail('oracle', '--all-users: trash-empty ignores a SECURE $topdir/.Trash/$uid of one of the users', case, key='secure-ignored', section=section)
    run.nontriv(('all-users', meta['state'], meta['cmd'], o['exit']))


def run(run, thorough):
    all_users(run, thorough)
    midrun(run, 24 if not thorough else 200)
    scns, metas = gen(run.rng, 700 if not thorough else 10000)
    out = engine.run_all(run, 'five-commands', scns)
    by_id = {id(s): m for s, m in zip(scns, metas)}
    for scn, res in out:
        judge(run, scn, by_id[id(scn)], res)
    if out:
        run.sample({'level': 'state', 'cmd': metas[0]['cmd'], 'state_of_.Trash': metas[0]['state'], 'volume': metas[0]['v']})


def replay(run, payload):
    case = payload.get('case') or {}
    scn, meta = case.get('scenario'), case.get('meta')
    if not scn:
        return
    res = sandbox.execute(scn)
    o = res['steps'][0]
    print(scn['steps'][0]['cmd'], scn['steps'][0]['argv'], 'exit', o['exit'])
    print(' stdout:', esc(o['stdout'][:500]))
    print(' stderr:', esc(o['stderr'][:500]))
    if meta and meta.get('all_users'):
        judge_all_users(run, scn, meta, res, 'replay')
    elif meta and 'change' in meta:
        judge_midrun(run, scn, meta, res, 'replay')
    elif meta:
        judge(run, scn, meta, res)
