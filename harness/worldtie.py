"""World conformance: the tie between the Coq model of the file system (coq/theories/World/World.v) and the real one.

For every recorded run of a command: the snapshot taken before the command is loaded into the model as a tree, the recorded
library operations WITH THE ANSWERS THEY RECEIVED are applied by the extracted World.wapply (the deterministic fragment of the
relation World.effect that the world-level theorems quantify over - lemma WorldProofs.wapply_effect), the answers of the probes
the model has an opinion about (lexists / exists / isdir) are compared with World.wprobe, and the resulting tree is compared,
path by path (kind, and content of regular files), with the snapshot taken after the command.

Outside the model's domain (counted, not compared): an operation on a path that is not absolute and normalised, or that goes
through a symbolic link in a directory component; steps World.wapply declines (a failed write / rmtree of a directory / makedirs
of something new, a move onto something that exists)."""
import os

import engine
import tracelevel
from common import model_batch, tok_s, esc

PATH_OPS = ('lexists', 'exists', 'isdir', 'isfile', 'islink', 'ismount', 'access', 'stat', 'getsize', 'listdir', 'readtext',
            'makedirs', 'openexcl', 'move', 'remove', 'rmtree')


MUTATORS = ('makedirs', 'openexcl', 'write', 'close', 'move', 'remove', 'rmtree')


def _paths_of(op):
    parts = op.split(':')
    if parts[0] not in PATH_OPS:
        return []
    n = 2 if parts[0] == 'move' else 1
    out = []
    for tok in parts[1:1 + n]:
        try:
            out.append(tracelevel._untok(tok))
        except Exception:
            return None
    return out


def _in_domain(snap, p):
    if not p.startswith('/') or p != os.path.normpath(p) or p.startswith('//'):
        return False
    return engine.physical(snap, p) == p


def _node_tok(v):
    if v[0] == 'd':
        return 'd'
    if v[0] == 'l':
        return 'l'
    if v[0] == 'f':
        return 'f' + tok_s(v[2])
    return 'l'                                   # fifo, socket, ...: a leaf that is neither a regular file nor a directory


def check(run, section, items):
    """items: [(scn, step, obs, before_snapshot)] with obs['after'] present"""
    reqs, metas = [], []
    for scn, step, obs, before in items:
        after = obs.get('after')
        if after is None or before is None or obs.get('crashed') or obs.get('looping') or obs.get('timeout'):
            continue
        plan = step.get('plan') or {}
        if plan.get('sysfault') or plan.get('sysfaults') or plan.get('midfs') or plan.get('midlib'):
            # a fault INSIDE one library operation (the model takes Move / Remove / OpenExcl as atomic: a copying move that fails
            # half-way is the known finding C17), or somebody else changing the tree in the middle of the run
            run.count(section, 1, 'outside_atomicity_assumption')
            continue
        conv = tracelevel.convert(obs['trace'])
        conv = [(o, a) for o, a in conv if not o.startswith('?')]
        if any(a is None for _, a in conv):
            run.count(section, 1, 'unconvertible')
            continue
        ok = True
        kept = []
        for o, a in conv:
            ps = _paths_of(o)
            inside = ps is not None and all(_in_domain(before, p) and _in_domain(after, p) for p in ps)
            if inside:
                kept.append((o, a))
            elif o.split(':')[0] in MUTATORS:
                ok = False                       # a mutation through a symlinked directory / an unnormalised path: outside the model
                break
            else:
                run.count(section, 1, 'probes_outside_domain')      # a probe changes nothing: left out
        if not ok:
            run.count(section, 1, 'outside_domain_paths')
            continue
        conv = kept
        if len(before) + len(after) > 400:
            # the executable world model is quadratic in the size of the tree: trees this large (a directory copied into itself by a
            # defective move, ...) are left to the trace tie and the oracles
            run.count(section, 1, 'world_too_large')
            continue
        nodes = [tok_s('/'), 'd'] if '/' not in before else []          # the snapshots leave the root itself out
        for p, v in before.items():
            nodes += [tok_s(p), _node_tok(v)]
        queries = sorted(set(before) | set(after))
        toks = [str(len(nodes) // 2)] + nodes + [str(len(queries))] + [tok_s(q) for q in queries]
        for o, a in conv:
            toks += [o, a]
        reqs.append(('world', toks))
        metas.append((scn, step, obs, before, after, queries, conv))
    reps = model_batch(reqs) if reqs else []
    bad = 0
    for (scn, step, obs, before, after, queries, conv), rep in zip(metas, reps):
        if rep.startswith('!ERR'):
            run.count(section)
            bad += 1
            if bad <= 3:
                run.fail('tie', 'world conformance: model driver error ' + rep[:200], {'scenario': scn, 'step': step}, section=section)
            continue
        verdict, _, shown = rep.partition('\t')
        if verdict.startswith('outside'):
            run.count(section, 1, 'outside_deterministic_fragment')
            continue
        run.count(section)
        problem = None
        if verdict.startswith('probe:'):
            k = int(verdict.split(':')[1])
            problem = 'the answer of probe %d (%s -> %s) is not what the model tree gives' % (k, _show(conv[k][0]), conv[k][1])
        else:
            vals = shown.split(',') if shown else []
            for q, mv in zip(queries, vals):
                v = after.get(q)
                want = 'N' if v is None else _node_tok(v)
                if mv != want:
                    problem = 'after the run the model has %s at %s, the file system has %s' % (mv[:60], esc(q), want[:60])
                    break
        if problem:
            bad += 1
            if bad <= 3:
                run.fail('tie', 'world conformance: ' + problem,
                         {'scenario': scn, 'step': step, 'trace': [_show(o) + ' -> ' + str(a) for o, a in conv][:80]}, section=section)
    run.count(section, bad, 'disagreements')


def _show(o):
    return engine._show_op(o)
